package main

// Run-time minted PKI and the certificate oracle. A client credential is described by its
// construction parameters (certSpec); the oracle (expectTLS) is a predicate over these
// parameters and the server's option set only - it never looks at the produced bytes.

import (
	"crypto/ecdsa"
	"crypto/elliptic"
	"crypto/rand"
	"crypto/tls"
	"crypto/x509"
	"crypto/x509/pkix"
	"encoding/pem"
	"fmt"
	"math/big"
	mrand "math/rand"
	"net"
	"os"
	"path/filepath"
	"strings"
	"sync/atomic"
	"time"
)

type authority struct {
	cert *x509.Certificate
	der  []byte
	key  *ecdsa.PrivateKey
}

var serialCtr atomic.Int64

func nextSerial() *big.Int { return big.NewInt(1000 + serialCtr.Add(1)) }

func newKey() *ecdsa.PrivateKey {
	k, err := ecdsa.GenerateKey(elliptic.P256(), rand.Reader)
	if err != nil {
		panic(err)
	}
	return k
}

func newAuthority(subject pkix.Name, parent *authority, isCA bool) *authority {
	k := newKey()
	tmpl := &x509.Certificate{
		SerialNumber:          nextSerial(),
		Subject:               subject,
		NotBefore:             time.Now().Add(-24 * time.Hour),
		NotAfter:              time.Now().Add(240 * time.Hour),
		KeyUsage:              x509.KeyUsageDigitalSignature,
		BasicConstraintsValid: true,
		IsCA:                  isCA,
	}
	if isCA {
		tmpl.KeyUsage |= x509.KeyUsageCertSign | x509.KeyUsageCRLSign
	} else {
		tmpl.ExtKeyUsage = []x509.ExtKeyUsage{x509.ExtKeyUsageClientAuth}
	}
	signer, skey := tmpl, k
	if parent != nil {
		signer, skey = parent.cert, parent.key
	}
	der, err := x509.CreateCertificate(rand.Reader, tmpl, signer, &k.PublicKey, skey)
	if err != nil {
		panic(err)
	}
	c, err := x509.ParseCertificate(der)
	if err != nil {
		panic(err)
	}
	return &authority{cert: c, der: der, key: k}
}

func pemCert(der []byte) []byte {
	return pem.EncodeToMemory(&pem.Block{Type: "CERTIFICATE", Bytes: der})
}

func pemKey(k *ecdsa.PrivateKey) []byte {
	b, err := x509.MarshalECPrivateKey(k)
	if err != nil {
		panic(err)
	}
	return pem.EncodeToMemory(&pem.Block{Type: "EC PRIVATE KEY", Bytes: b})
}

// The "host trust store" of this run: a CA of the driver's own that the SERVER side (the child
// processes and, for the in-process endpoints, this very process) finds in its system root
// store via SSL_CERT_FILE / SSL_CERT_DIR. It is never configured as a client CA anywhere, so a
// client certificate issued by it chains to "a CA the host trusts", not to the configured CA.
var (
	hostCA      *authority
	hostCAFile  string
	hostCertDir string
)

// initHostTrust must run before anything in this process touches the x509 system pool.
func initHostTrust(dir string) error {
	if err := os.MkdirAll(filepath.Join(dir, "empty-cert-dir"), 0o755); err != nil {
		return err
	}
	hostCA = newAuthority(pkix.Name{CommonName: "c17 host-trusted CA", Organization: []string{"verif host store"}}, nil, true)
	hostCAFile = filepath.Join(dir, "host-trust-store.pem")
	hostCertDir = filepath.Join(dir, "empty-cert-dir")
	if err := os.WriteFile(hostCAFile, pemCert(hostCA.der), 0o644); err != nil {
		return err
	}
	os.Setenv("SSL_CERT_FILE", hostCAFile)
	os.Setenv("SSL_CERT_DIR", hostCertDir)
	return nil
}

// pki is everything minted for one group.
type pki struct {
	trusted   *authority // the CA configured as --api.ca-filename / TrustedCAFile
	other     *authority // an unrelated CA
	otherSame *authority // an unrelated CA with the *same subject DN* as the trusted one
	interGood *authority // CA:true intermediate issued by trusted
	interBad  *authority // CA:true intermediate issued by other
	leafAsCA  *authority // CA:false leaf issued by trusted, (ab)used as an issuer
	serverCA  *authority // issues the server certificate (clients trust it)

	dir                                          string
	caFile, otherCAFile, srvCertFile, srvKeyFile string
	clientRoots                                  *x509.CertPool
}

func newPKI(dir string, rng *mrand.Rand) (*pki, error) {
	if err := os.MkdirAll(dir, 0o755); err != nil {
		return nil, err
	}
	tag := randWord(rng, 5)
	caName := pkix.Name{CommonName: "c17 client CA " + tag, Organization: []string{"verif"}}
	p := &pki{dir: dir}
	p.trusted = newAuthority(caName, nil, true)
	p.other = newAuthority(pkix.Name{CommonName: "c17 other CA " + tag, Organization: []string{"verif"}}, nil, true)
	p.otherSame = newAuthority(caName, nil, true)
	p.interGood = newAuthority(pkix.Name{CommonName: "c17 intermediate " + tag}, p.trusted, true)
	p.interBad = newAuthority(pkix.Name{CommonName: "c17 intermediate " + tag}, p.other, true)
	p.leafAsCA = newAuthority(pkix.Name{CommonName: "c17 plain leaf " + tag}, p.trusted, false)
	p.serverCA = newAuthority(pkix.Name{CommonName: "c17 server CA " + tag}, nil, true)

	sk := newKey()
	stmpl := &x509.Certificate{
		SerialNumber: nextSerial(),
		Subject:      pkix.Name{CommonName: "regatta-server"},
		NotBefore:    time.Now().Add(-time.Hour),
		NotAfter:     time.Now().Add(240 * time.Hour),
		KeyUsage:     x509.KeyUsageDigitalSignature,
		ExtKeyUsage:  []x509.ExtKeyUsage{x509.ExtKeyUsageServerAuth},
		DNSNames:     []string{"localhost"},
		IPAddresses:  []net.IP{net.ParseIP("127.0.0.1")},
	}
	sder, err := x509.CreateCertificate(rand.Reader, stmpl, p.serverCA.cert, &sk.PublicKey, p.serverCA.key)
	if err != nil {
		return nil, err
	}
	p.caFile = filepath.Join(dir, "client-ca.crt")
	p.otherCAFile = filepath.Join(dir, "other-client-ca.crt")
	p.srvCertFile = filepath.Join(dir, "server.crt")
	p.srvKeyFile = filepath.Join(dir, "server.key")
	for f, b := range map[string][]byte{p.caFile: pemCert(p.trusted.der), p.otherCAFile: pemCert(p.other.der), p.srvCertFile: pemCert(sder), p.srvKeyFile: pemKey(sk)} {
		if err := os.WriteFile(f, b, 0o600); err != nil {
			return nil, err
		}
	}
	p.clientRoots = x509.NewCertPool()
	p.clientRoots.AddCert(p.serverCA.cert)
	return p, nil
}

// certSpec: construction parameters of one client credential.
type certSpec struct {
	Class    string   `json:"class"`            // stable name of the variant (used in signatures)
	Present  bool     `json:"present"`          // false: the client presents no certificate at all
	Issuer   string   `json:"issuer,omitempty"` // trusted | other | host (a CA of the server's system trust store) | other-same-dn | self | inter-good | inter-good-nochain | inter-bad | leaf-as-ca | other+trusted-appended
	CN       string   `json:"cn"`
	OU       string   `json:"ou,omitempty"`
	DNS      []string `json:"dns,omitempty"`
	IPs      []string `json:"ips,omitempty"`
	Emails   []string `json:"emails,omitempty"`
	Validity string   `json:"validity,omitempty"` // valid | expired | not-yet
	WrongKey bool     `json:"wrong_key,omitempty"`
	// Extras: unrelated certificates the client puts into its Certificate message in addition
	// to its own leaf (and the leaf's intermediates). They do not authenticate the client (no
	// key is proven for them, they are not part of the leaf's chain), so the oracle ignores
	// them: names are judged on the leaf only.
	Extras []extraCert `json:"extra_certificates,omitempty"`
	Near   bool        `json:"near_miss"`
	// Judge: "accept" / "reject" = the oracle's verdict is binding; "" = the outcome is only
	// recorded (the statement says nothing definite about this variant).
	Unjudged string `json:"unjudged_because,omitempty"`
}

// extraCert: construction parameters of an additional certificate sent along with the leaf.
type extraCert struct {
	Issuer string   `json:"issuer"` // self | other | trusted (somebody else's public certificate, no key)
	CN     string   `json:"cn"`
	DNS    []string `json:"dns,omitempty"`
	IPs    []string `json:"ips,omitempty"`
	// BeforeIntermediates: placed right after the leaf, before the leaf's own intermediates
	// (default: appended at the very end of the message).
	BeforeIntermediates bool `json:"before_intermediates,omitempty"`
}

// serverOpts: the TLS option set of the server under test.
type serverOpts struct {
	CA bool `json:"ca"`
	// TrustOther: the CA this endpoint trusts is the PKI's "other" authority instead of the
	// "trusted" one (second endpoint of the session-resumption scenarios).
	TrustOther      bool   `json:"trusts_the_other_ca,omitempty"`
	ClientCertAuth  bool   `json:"client_cert_auth"`
	AllowedCN       string `json:"allowed_cn,omitempty"`
	AllowedHostname string `json:"allowed_hostname,omitempty"`
}

func (o serverOpts) class() string {
	var p []string
	if o.CA && o.TrustOther {
		p = append(p, "otherca")
	} else if o.CA {
		p = append(p, "ca")
	} else {
		p = append(p, "noca")
	}
	if o.ClientCertAuth {
		p = append(p, "cca")
	}
	if o.AllowedCN != "" {
		p = append(p, "cn")
	}
	if o.AllowedHostname != "" {
		if net.ParseIP(o.AllowedHostname) != nil {
			p = append(p, "host-ip")
		} else {
			p = append(p, "host-dns")
		}
	}
	return strings.Join(p, "+")
}

// judged: the property speaks about endpoints configured with a trusted CA.
func (o serverOpts) judged() bool { return o.CA }

// chainOKFor: the certificate was built so that it chains to the CA the endpoint trusts, is
// inside its validity window, and the client owns its key.
func (s certSpec) chainOKFor(o serverOpts) bool {
	if !s.Present || s.WrongKey || s.Validity != "valid" {
		return false
	}
	if o.TrustOther {
		return s.Issuer == "other" || s.Issuer == "inter-bad"
	}
	return s.Issuer == "trusted" || s.Issuer == "inter-good"
}

// validForHost: independent rendering of "certificate is valid for host" (RFC 6125 as applied
// by current TLS stacks): an IP host needs an equal iPAddress SAN, a DNS host needs an equal
// (ASCII case-insensitive) dNSName SAN or a SAN whose left-most label is "*" and whose other
// labels are equal. The subject CN is not consulted.
func (s certSpec) validForHost(h string) bool {
	if ip := net.ParseIP(h); ip != nil {
		for _, c := range s.IPs {
			if cip := net.ParseIP(c); cip != nil && cip.Equal(ip) {
				return true
			}
		}
		return false
	}
	hl := strings.Split(strings.ToLower(strings.TrimSuffix(h, ".")), ".")
	for _, d := range s.DNS {
		dl := strings.Split(strings.ToLower(strings.TrimSuffix(d, ".")), ".")
		if len(dl) != len(hl) {
			continue
		}
		ok := true
		for i := range dl {
			if i == 0 && dl[i] == "*" && len(dl) > 1 {
				continue
			}
			if dl[i] != hl[i] {
				ok = false
				break
			}
		}
		if ok {
			return true
		}
	}
	return false
}

// expectTLS is the oracle: accepted iff chain ok and name rule ok.
func expectTLS(o serverOpts, s certSpec) bool {
	if !s.chainOKFor(o) {
		return false
	}
	if o.AllowedCN != "" && s.CN != o.AllowedCN {
		return false
	}
	if o.AllowedHostname != "" && !s.validForHost(o.AllowedHostname) {
		return false
	}
	return true
}

// mint builds the tls.Certificate for a spec (nil if the client presents none).
func (p *pki) mint(s certSpec) (*tls.Certificate, error) {
	if !s.Present {
		return nil, nil
	}
	k := newKey()
	tmpl := &x509.Certificate{
		SerialNumber:   nextSerial(),
		Subject:        pkix.Name{CommonName: s.CN},
		KeyUsage:       x509.KeyUsageDigitalSignature,
		ExtKeyUsage:    []x509.ExtKeyUsage{x509.ExtKeyUsageClientAuth},
		DNSNames:       s.DNS,
		EmailAddresses: s.Emails,
	}
	if s.OU != "" {
		tmpl.Subject.OrganizationalUnit = []string{s.OU}
	}
	for _, ip := range s.IPs {
		tmpl.IPAddresses = append(tmpl.IPAddresses, net.ParseIP(ip))
	}
	switch s.Validity {
	case "valid":
		tmpl.NotBefore, tmpl.NotAfter = time.Now().Add(-time.Hour), time.Now().Add(48*time.Hour)
	case "expired":
		tmpl.NotBefore, tmpl.NotAfter = time.Now().Add(-48*time.Hour), time.Now().Add(-time.Hour)
	case "not-yet":
		tmpl.NotBefore, tmpl.NotAfter = time.Now().Add(2*time.Hour), time.Now().Add(48*time.Hour)
	default:
		return nil, fmt.Errorf("bad validity %q", s.Validity)
	}
	var (
		iss   *authority
		extra [][]byte
	)
	switch s.Issuer {
	case "trusted":
		iss = p.trusted
	case "other":
		iss = p.other
	case "host":
		iss = hostCA
	case "other-same-dn":
		iss = p.otherSame
	case "other+trusted-appended":
		iss, extra = p.other, [][]byte{p.trusted.der}
	case "inter-good":
		iss, extra = p.interGood, [][]byte{p.interGood.der}
	case "inter-good-nochain":
		iss = p.interGood
	case "inter-bad":
		iss, extra = p.interBad, [][]byte{p.interBad.der}
	case "leaf-as-ca":
		iss, extra = p.leafAsCA, [][]byte{p.leafAsCA.der}
	case "self":
	default:
		return nil, fmt.Errorf("bad issuer %q", s.Issuer)
	}
	signer, skey := tmpl, k
	if iss != nil {
		signer, skey = iss.cert, iss.key
	}
	der, err := x509.CreateCertificate(rand.Reader, tmpl, signer, &k.PublicKey, skey)
	if err != nil {
		return nil, err
	}
	var front, back [][]byte
	for _, e := range s.Extras {
		ed, err := p.mintExtra(e)
		if err != nil {
			return nil, err
		}
		if e.BeforeIntermediates {
			front = append(front, ed)
		} else {
			back = append(back, ed)
		}
	}
	list := [][]byte{der}
	list = append(list, front...)
	list = append(list, extra...)
	list = append(list, back...)
	c := &tls.Certificate{Certificate: list, PrivateKey: k}
	if s.WrongKey {
		c.PrivateKey = newKey() // the public certificate of somebody else, without its key
	}
	return c, nil
}

// mintExtra builds an unrelated certificate (its key is thrown away: the client never proves it).
func (p *pki) mintExtra(e extraCert) ([]byte, error) {
	k := newKey()
	tmpl := &x509.Certificate{
		SerialNumber: nextSerial(),
		Subject:      pkix.Name{CommonName: e.CN},
		NotBefore:    time.Now().Add(-time.Hour),
		NotAfter:     time.Now().Add(48 * time.Hour),
		KeyUsage:     x509.KeyUsageDigitalSignature,
		ExtKeyUsage:  []x509.ExtKeyUsage{x509.ExtKeyUsageClientAuth},
		DNSNames:     e.DNS,
	}
	for _, ip := range e.IPs {
		tmpl.IPAddresses = append(tmpl.IPAddresses, net.ParseIP(ip))
	}
	signer, skey := tmpl, k
	switch e.Issuer {
	case "self":
	case "other":
		signer, skey = p.other.cert, p.other.key
	case "trusted":
		signer, skey = p.trusted.cert, p.trusted.key
	default:
		return nil, fmt.Errorf("bad extra issuer %q", e.Issuer)
	}
	return x509.CreateCertificate(rand.Reader, tmpl, signer, &k.PublicKey, skey)
}

// ---- variant generation ------------------------------------------------------------------------

const lower = "abcdefghijklmnopqrstuvwxyz"

func randWord(rng *mrand.Rand, n int) string {
	b := make([]byte, n)
	for i := range b {
		b[i] = lower[rng.Intn(len(lower))]
	}
	return string(b)
}

func flipCaseAt(s string, i int) string {
	b := []byte(s)
	c := b[i]
	switch {
	case c >= 'a' && c <= 'z':
		b[i] = c - 32
	case c >= 'A' && c <= 'Z':
		b[i] = c + 32
	}
	return string(b)
}

func letterPositions(s string) []int {
	var out []int
	for i := 0; i < len(s); i++ {
		if (s[i] >= 'a' && s[i] <= 'z') || (s[i] >= 'A' && s[i] <= 'Z') {
			out = append(out, i)
		}
	}
	return out
}

// substituteAt replaces the byte at i by a different character of the same class.
func substituteAt(s string, i int) string {
	b := []byte(s)
	c := b[i]
	switch {
	case c >= 'a' && c < 'z', c >= 'A' && c < 'Z', c >= '0' && c < '9':
		b[i] = c + 1
	case c == 'z' || c == 'Z':
		b[i] = c - 25
	case c == '9':
		b[i] = '0'
	default:
		b[i] = 'x'
	}
	return string(b)
}

// chainVariants: credentials carrying the right names but a wrong chain / validity / key.
func chainVariants(right certSpec) []certSpec {
	mk := func(class, issuer, validity string, wrongKey bool, unj string) certSpec {
		s := right
		s.Class, s.Issuer, s.Validity, s.WrongKey, s.Near, s.Unjudged = class, issuer, validity, wrongKey, true, unj
		return s
	}
	return []certSpec{
		mk("other-ca", "other", "valid", false, ""),
		mk("other-ca-same-dn", "other-same-dn", "valid", false, ""),
		mk("host-trusted-ca", "host", "valid", false, ""),
		mk("other-ca-trusted-appended", "other+trusted-appended", "valid", false, ""),
		mk("self-signed", "self", "valid", false, ""),
		mk("expired", "trusted", "expired", false, ""),
		mk("not-yet-valid", "trusted", "not-yet", false, ""),
		mk("issued-by-non-ca-leaf", "leaf-as-ca", "valid", false, ""),
		mk("intermediate-of-other-ca", "inter-bad", "valid", false, ""),
		mk("intermediate-chain-not-sent", "inter-good-nochain", "valid", false, ""),
		mk("stolen-cert-wrong-key", "trusted", "valid", true, ""),
		mk("via-trusted-intermediate", "inter-good", "valid", false, "accept side: only the canonical credential is judged for acceptance"),
		{Class: "no-certificate", Present: false, Near: false},
	}
}

// cnVariants: trusted chain, valid, names varying around the allowed CN.
func cnVariants(rng *mrand.Rand, allowed string, all bool) []certSpec {
	base := certSpec{Present: true, Issuer: "trusted", Validity: "valid", Near: true}
	var out []certSpec
	add := func(class, cn string, mod func(*certSpec)) {
		if cn == allowed && mod == nil {
			return
		}
		s := base
		s.Class, s.CN = class, cn
		if mod != nil {
			mod(&s)
		}
		out = append(out, s)
	}
	n := len(allowed)
	if all {
		for k := 1; k < n; k++ {
			add("cn-prefix", allowed[:k], nil)
		}
		for _, i := range letterPositions(allowed) {
			add("cn-case-flip", flipCaseAt(allowed, i), nil)
		}
		for i := 0; i < n; i++ {
			add("cn-substituted-char", substituteAt(allowed, i), nil)
		}
		for k := 1; k < n; k += 3 {
			add("cn-tail", allowed[k:], nil)
		}
	} else {
		add("cn-prefix", allowed[:n-1], nil)
		add("cn-prefix", allowed[:1+rng.Intn(n-1)], nil)
		lp := letterPositions(allowed)
		add("cn-case-flip", flipCaseAt(allowed, lp[rng.Intn(len(lp))]), nil)
		add("cn-substituted-char", substituteAt(allowed, rng.Intn(n)), nil)
		add("cn-tail", allowed[1:], nil)
	}
	add("cn-suffix-ext", allowed+string(lower[rng.Intn(26)]), nil)
	add("cn-prefix-ext", string(lower[rng.Intn(26)])+allowed, nil)
	add("cn-trailing-dot", allowed+".", nil)
	add("cn-trailing-space", allowed+" ", nil)
	add("cn-leading-space", " "+allowed, nil)
	add("cn-upper", strings.ToUpper(allowed), nil)
	add("cn-lower", strings.ToLower(allowed), nil)
	add("cn-doubled", allowed+allowed, nil)
	add("cn-subdomain", "x."+allowed, nil)
	if i := strings.IndexByte(allowed, '.'); i > 0 {
		add("cn-wildcard", "*"+allowed[i:], nil)
		add("cn-first-label", allowed[:i], nil)
	}
	add("cn-empty", "", nil)
	add("cn-empty-san-dns-right", "", func(s *certSpec) { s.DNS = []string{allowed} })
	add("cn-other-san-dns-right", "someone-else", func(s *certSpec) { s.DNS = []string{allowed} })
	add("cn-other-ou-right", "someone-else", func(s *certSpec) { s.OU = allowed })
	add("cn-other", "client-"+randWord(rng, 6), func(s *certSpec) { s.Near = false })
	return out
}

// hostVariants: trusted chain, valid, SANs varying around the allowed hostname.
func hostVariants(rng *mrand.Rand, host string, all bool) []certSpec {
	base := certSpec{Present: true, Issuer: "trusted", Validity: "valid", Near: true, CN: "client-" + randWord(rng, 4)}
	var out []certSpec
	add := func(class string, mod func(*certSpec)) {
		s := base
		s.Class = class
		mod(&s)
		out = append(out, s)
	}
	const acceptSide = "accept side: only the canonical credential is judged for acceptance"
	const legacy = "an address written as text into a dNSName SAN: whether that makes a certificate 'valid for' the address is a convention the statement does not fix"
	if ip := net.ParseIP(host); ip != nil {
		ip4 := ip.To4()
		nb := net.IPv4(ip4[0], ip4[1], ip4[2], ip4[3]+1).String()
		nb2 := net.IPv4(ip4[0], ip4[1], ip4[2]^1, ip4[3]).String()
		add("san-ip-neighbour", func(s *certSpec) { s.IPs = []string{nb} })
		add("san-ip-neighbour2", func(s *certSpec) { s.IPs = []string{nb2} })
		add("san-ip-loopback", func(s *certSpec) { s.IPs = []string{"127.0.0.1"} })
		add("san-ip-v6-other", func(s *certSpec) { s.IPs = []string{"::1"} })
		add("no-san", func(s *certSpec) {})
		add("no-san-cn-empty", func(s *certSpec) { s.CN = "" })
		add("san-dns-unrelated", func(s *certSpec) { s.DNS = []string{"client." + randWord(rng, 5) + ".test"} })
		add("san-ip-two-wrong", func(s *certSpec) { s.IPs = []string{nb, nb2} })
		add("san-ip-right-among-others", func(s *certSpec) { s.IPs = []string{nb, host}; s.Unjudged = acceptSide })
		add("san-dns-holds-ip-text", func(s *certSpec) { s.DNS = []string{host}; s.Unjudged = legacy })
		// the subject CN is never an identity: "valid for" an address means an equal iPAddress SAN
		add("cn-holds-ip-no-san", func(s *certSpec) { s.CN = host })
		add("cn-holds-ip-san-other-ip", func(s *certSpec) { s.CN = host; s.IPs = []string{nb} })
		add("cn-holds-ip-san-dns-unrelated", func(s *certSpec) { s.CN = host; s.DNS = []string{"client." + randWord(rng, 5) + ".test"} })
		add("cn-holds-ip-bracketed-no-san", func(s *certSpec) { s.CN = "[" + host + "]" })
		return out
	}
	n := len(host)
	dot := strings.IndexByte(host, '.')
	parent := host[dot+1:]
	if all {
		for k := 1; k < n; k++ {
			if host[k-1] == '.' { // "a." is not a syntactically valid SAN; skip
				continue
			}
			add("san-dns-prefix", func(s *certSpec) { s.DNS = []string{host[:k]} })
		}
		for i := 0; i < n; i++ {
			if host[i] == '.' {
				continue
			}
			add("san-dns-substituted-char", func(s *certSpec) { s.DNS = []string{substituteAt(host, i)} })
		}
	} else {
		add("san-dns-prefix", func(s *certSpec) { s.DNS = []string{host[:n-1]} })
		i := rng.Intn(n)
		for host[i] == '.' {
			i = rng.Intn(n)
		}
		add("san-dns-substituted-char", func(s *certSpec) { s.DNS = []string{substituteAt(host, i)} })
	}
	add("san-dns-suffix-ext", func(s *certSpec) { s.DNS = []string{host + "x"} })
	add("san-dns-prefix-ext", func(s *certSpec) { s.DNS = []string{"x" + host} })
	add("san-dns-subdomain-of-allowed", func(s *certSpec) { s.DNS = []string{"sub." + host} })
	add("san-dns-allowed-as-prefix-label", func(s *certSpec) { s.DNS = []string{host + ".evil.test"} })
	add("san-dns-parent-domain", func(s *certSpec) { s.DNS = []string{parent} })
	add("san-dns-first-label-only", func(s *certSpec) { s.DNS = []string{host[:dot]} })
	add("san-dns-wildcard-below-allowed", func(s *certSpec) { s.DNS = []string{"*." + host} })
	if d2 := strings.IndexByte(parent, '.'); d2 > 0 {
		add("san-dns-wildcard-two-levels-up", func(s *certSpec) { s.DNS = []string{"*." + parent[d2+1:]} })
	}
	add("san-dns-sibling", func(s *certSpec) { s.DNS = []string{randWord(rng, 6) + "." + parent} })
	add("san-dns-two-wrong", func(s *certSpec) { s.DNS = []string{"x" + host, host + "x"} })
	add("san-ip-only", func(s *certSpec) { s.IPs = []string{"127.0.0.1"} })
	add("san-email-holds-host", func(s *certSpec) { s.Emails = []string{"client@" + host} })
	add("no-san", func(s *certSpec) {})
	add("no-san-cn-empty", func(s *certSpec) { s.CN = "" })
	add("ou-holds-host", func(s *certSpec) { s.OU = host })
	add("san-dns-unrelated", func(s *certSpec) { s.DNS = []string{"client." + randWord(rng, 5) + ".test"}; s.Near = false })
	// the subject CN is never an identity: "valid for" a host name means a matching dNSName SAN
	add("cn-holds-host-no-san", func(s *certSpec) { s.CN = host })
	add("cn-holds-host-upper-case-no-san", func(s *certSpec) { s.CN = strings.ToUpper(host) })
	add("cn-holds-host-trailing-dot-no-san", func(s *certSpec) { s.CN = host + "." })
	add("cn-holds-host-san-dns-other-name", func(s *certSpec) { s.CN = host; s.DNS = []string{"node-" + randWord(rng, 5) + ".other.test"} })
	add("cn-holds-host-san-email-only", func(s *certSpec) { s.CN = host; s.Emails = []string{"client@" + randWord(rng, 5) + ".test"} })
	add("cn-holds-host-san-ip-only", func(s *certSpec) { s.CN = host; s.IPs = []string{"127.0.0.1"} })
	add("cn-and-ou-hold-host-no-san", func(s *certSpec) { s.CN = host; s.OU = host })
	add("san-dns-right-among-others", func(s *certSpec) { s.DNS = []string{"x" + host, host}; s.Unjudged = acceptSide })
	add("san-dns-upper-case", func(s *certSpec) { s.DNS = []string{strings.ToUpper(host)}; s.Unjudged = acceptSide })
	add("san-dns-wildcard-sibling-level", func(s *certSpec) { s.DNS = []string{"*." + parent}; s.Unjudged = acceptSide })
	return out
}

// extraVariants: the client authenticates with a leaf that chains to the trusted CA but does
// NOT carry the allowed name, and sends along an unrelated certificate that does. The leaf that
// authenticates the client lacks the name, so every one of these must be refused.
func extraVariants(rng *mrand.Rand, o serverOpts, right certSpec) []certSpec {
	wrong := certSpec{Present: true, Issuer: "trusted", Validity: "valid", Near: true, CN: "client-" + randWord(rng, 5)}
	decoy := extraCert{CN: "decoy-" + randWord(rng, 4)}
	nameless := wrong // the leaf carries no name of the relevant kind at all
	what := "allowed-cn"
	switch {
	case o.AllowedCN != "":
		decoy.CN = o.AllowedCN
		nameless.CN = ""
	case net.ParseIP(o.AllowedHostname) != nil:
		what = "allowed-host-san"
		ip4 := net.ParseIP(o.AllowedHostname).To4()
		wrong.IPs = []string{net.IPv4(ip4[0], ip4[1], ip4[2], ip4[3]+1).String()}
		decoy.IPs = []string{o.AllowedHostname}
	default:
		what = "allowed-host-san"
		wrong.DNS = []string{"node-" + randWord(rng, 5) + ".other.test"}
		decoy.DNS = []string{o.AllowedHostname}
	}
	with := func(class string, leaf certSpec, issuer string, before bool, extras ...extraCert) certSpec {
		leaf.Class = class
		if issuer != "" {
			leaf.Issuer = issuer
		}
		for _, e := range extras {
			e.BeforeIntermediates = before
			leaf.Extras = append(leaf.Extras, e)
		}
		return leaf
	}
	ex := func(issuer string) extraCert { e := decoy; e.Issuer = issuer; return e }
	unrelated := extraCert{Issuer: "self", CN: "bystander-" + randWord(rng, 4)}
	out := []certSpec{
		with("wrong-name-leaf+extra-selfsigned-"+what, wrong, "", false, ex("self")),
		with("wrong-name-leaf+extra-foreign-ca-"+what, wrong, "", false, ex("other")),
		with("wrong-name-leaf+extra-trusted-ca-"+what+"-no-key", wrong, "", false, ex("trusted")),
		with("nameless-leaf+extra-selfsigned-"+what, nameless, "", false, ex("self")),
		with("nameless-leaf+extra-foreign-ca-"+what, nameless, "", false, ex("other")),
		with("wrong-name-leaf-via-intermediate+extra-"+what+"-before-intermediate", wrong, "inter-good", true, ex("self")),
		with("wrong-name-leaf-via-intermediate+extra-"+what+"-after-intermediate", wrong, "inter-good", false, ex("self")),
		with("wrong-name-leaf+extras-unrelated-then-"+what, wrong, "", false, unrelated, ex("self")),
		with("wrong-name-leaf+extra-unrelated-only", wrong, "", false, unrelated),
	}
	// accept side (recorded only): the right credential stays right when a bystander is sent along
	ok := with("canonical+extra-unrelated", right, "", false, unrelated)
	ok.Near, ok.Unjudged = true, "accept side: only the canonical credential is judged for acceptance"
	return append(out, ok)
}

// credentialsFor builds the full credential list for an option set: the canonical right one
// first, then chain variants (with right names), then name variants (with a right chain).
// mirrorForOtherCA turns a credential list built around the "trusted" authority into the
// corresponding list for an endpoint that trusts the "other" authority (issuers swapped;
// variants whose issuer has no mirror image are dropped).
func mirrorForOtherCA(specs []certSpec) []certSpec {
	m := map[string]string{"trusted": "other", "other": "trusted", "inter-good": "inter-bad", "inter-bad": "inter-good",
		"self": "self", "host": "host", "other-same-dn": "other-same-dn"}
	var out []certSpec
	for _, s := range specs {
		if s.Present {
			iss, ok := m[s.Issuer]
			if !ok {
				continue
			}
			s.Issuer = iss
			ex := make([]extraCert, len(s.Extras))
			for i, e := range s.Extras {
				if v, ok := m[e.Issuer]; ok {
					e.Issuer = v
				}
				ex[i] = e
			}
			if len(ex) > 0 {
				s.Extras = ex
			}
		}
		out = append(out, s)
	}
	return out
}

// canonicalSpec: the one credential that is right for an option set.
func canonicalSpec(rng *mrand.Rand, o serverOpts) certSpec {
	right := certSpec{Class: "canonical", Present: true, Issuer: "trusted", Validity: "valid", CN: "client-" + randWord(rng, 5)}
	if o.TrustOther {
		right.Issuer = "other"
	}
	switch {
	case o.AllowedCN != "":
		right.CN = o.AllowedCN
	case o.AllowedHostname != "":
		if net.ParseIP(o.AllowedHostname) != nil {
			right.IPs = []string{o.AllowedHostname}
		} else {
			right.DNS = []string{o.AllowedHostname}
		}
	}
	return right
}

func credentialsFor(rng *mrand.Rand, o serverOpts, all bool) []certSpec {
	if o.TrustOther {
		o.TrustOther = false
		return mirrorForOtherCA(credentialsFor(rng, o, all))
	}
	right := canonicalSpec(rng, o)
	out := []certSpec{right}
	out = append(out, chainVariants(right)...)
	switch {
	case o.AllowedCN != "":
		out = append(out, cnVariants(rng, o.AllowedCN, all)...)
		out = append(out, extraVariants(rng, o, right)...)
	case o.AllowedHostname != "":
		out = append(out, hostVariants(rng, o.AllowedHostname, all)...)
		out = append(out, extraVariants(rng, o, right)...)
	default:
		// CA only: any name is fine; a couple of unrelated names on a right chain (accept side)
		out = append(out, certSpec{Class: "any-name-right-chain", Present: true, Issuer: "trusted", Validity: "valid", CN: "",
			Unjudged: "accept side: only the canonical credential is judged for acceptance"})
	}
	return out
}

func randCN(rng *mrand.Rand) string {
	// mixed case so that case variants exist; a dot so that label variants exist
	w := randWord(rng, 3+rng.Intn(4))
	return "Client-" + w + "." + flipCaseAt(randWord(rng, 4+rng.Intn(3)), 0) + ".test"
}

func randHost(rng *mrand.Rand) string {
	return "node-" + randWord(rng, 3+rng.Intn(3)) + "." + randWord(rng, 4+rng.Intn(3)) + ".regatta.test"
}

func randIP(rng *mrand.Rand) string {
	return fmt.Sprintf("10.%d.%d.%d", 1+rng.Intn(250), 2+rng.Intn(250), 2+rng.Intn(250))
}
