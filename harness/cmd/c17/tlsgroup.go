package main

// Certificate part of C17: (a) security.TLSInfo.ServerConfig() behind a real TLS listener in
// this process, observed on the server side of the handshake plus a ping/pong round trip;
// (b) the real binary with --api.address=https://… and the --api.* TLS flags, observed by a
// gRPC round trip (TLS 1.3 reports client-auth failure late, so a client-side handshake
// "success" decides nothing).

import (
	"context"
	"crypto/tls"
	"fmt"
	"io"
	"math/rand"
	"net"
	"os"
	"path/filepath"
	"sync"
	"time"

	pb "github.com/jamf/regatta/regattapb"
	"github.com/jamf/regatta/security"
	"google.golang.org/grpc"
	"google.golang.org/grpc/codes"
	"google.golang.org/grpc/credentials"
	"google.golang.org/grpc/credentials/insecure"
	"google.golang.org/grpc/peer"
	"google.golang.org/grpc/status"

	"verifharness/internal/ev"
)

type tlsWitness struct {
	Group    string     `json:"group"`
	Tier     string     `json:"tier"`
	Seed     int64      `json:"seed"`
	Where    string     `json:"where"` // inproc | binary-leader | binary-follower
	Options  serverOpts `json:"server_options"`
	Cred     certSpec   `json:"client_credential"`
	TLSMax   string     `json:"client_max_tls"`
	Observed string     `json:"observed"`
	Expected string     `json:"expected"`
	Args     []string   `json:"server_args,omitempty"`
	// session-resumption scenarios: the endpoint at which the client obtained its TLS session
	// before it connected to the endpoint under judgement (Options), and whether the client saw
	// the session resumed there
	// CA-file scenarios: state of the configured CA file at the moment of the connection
	CAFile        string      `json:"ca_file_state,omitempty"`
	SessionFrom   *serverOpts `json:"session_obtained_at,omitempty"`
	ClientResumed bool        `json:"client_saw_session_resumed,omitempty"`
}

var tlsVersions = []struct {
	name string
	v    uint16
}{{"1.3", tls.VersionTLS13}, {"1.2", tls.VersionTLS12}}

// clientTLS builds the client side for a credential. GetClientCertificate is used so that the
// certificate is presented even when its issuer is not among the CAs the server advertises.
func clientTLS(p *pki, c *tls.Certificate, maxVer uint16) *tls.Config {
	cfg := &tls.Config{RootCAs: p.clientRoots, ServerName: "localhost", MinVersion: tls.VersionTLS12, MaxVersion: maxVer}
	if c != nil {
		cfg.GetClientCertificate = func(*tls.CertificateRequestInfo) (*tls.Certificate, error) { return c, nil }
	}
	return cfg
}

// judgeTLS applies the oracle to one observation.
func judgeTLS(r *ev.Run, w tlsWitness, accepted bool) {
	o, s := w.Options, w.Cred
	exp := expectTLS(o, s)
	w.Observed, w.Expected = acc(accepted), acc(exp)
	r.Count("tls_observed_"+acc(accepted), 1)
	where := w.Where
	sfx := ""
	if w.CAFile != "" {
		sfx = "@ca-file:" + w.CAFile
		r.Count("connections_under_ca_file_states", 1)
		r.Distinct("ca_file_states", w.CAFile)
	}
	switch {
	case !o.judged():
		r.Count("tls_unjudged_no_ca_configured", 1)
		r.Distinct("unjudged_observations", fmt.Sprintf("%s %s %s: %s", where, o.class(), s.Class, acc(accepted)))
		switch s.Class {
		case "canonical", "no-certificate", "self-signed", "other-ca", "host-trusted-ca":
			noteUnjudged(o.class()+" / "+s.Class, acc(accepted))
		}
		if s.Class == "host-trusted-ca" && o.ClientCertAuth && o.AllowedCN == "" && o.AllowedHostname == "" && accepted {
			// self-check of the harness: without a configured CA the endpoint verifies against the
			// system pool, so this acceptance shows that the driver's host CA really is in it
			r.Count("host_trust_store_effective_"+where, 1)
		}
		return
	case s.Unjudged != "":
		r.Count("tls_unjudged_variants", 1)
		r.Distinct("unjudged_observations", fmt.Sprintf("%s %s %s: %s", where, o.class(), s.Class, acc(accepted)))
		if sfx == "" || s.Class == "canonical" || s.Class == "host-trusted-ca" || s.Class == "other-ca" {
			noteUnjudged(o.class()+" / "+s.Class+sfx, acc(accepted))
		}
		if accepted && !exp {
			// the independent predicate says "not valid" and the server accepted: worth a note
			r.Note(fmt.Sprintf("unjudged variant accepted although the reference predicate says no: %s %s %s", where, o.class(), s.Class))
		}
		return
	case accepted && !exp:
		r.Violation(fmt.Sprintf("tls-accepted-%s-%s-%s%s", where, o.class(), s.Class, sfx),
			fmt.Sprintf("%s TLS endpoint (%s; allowed_cn=%q allowed_hostname=%q)"+caNote(w.CAFile)+" accepted a client (max TLS %s) whose credential is %q: leaf issuer=%s validity=%s wrong_key=%v cn=%q dns=%v ips=%v; unrelated extra certificates sent along: %+v",
				where, o.class(), o.AllowedCN, o.AllowedHostname, w.TLSMax, s.Class, s.Issuer, s.Validity, s.WrongKey, s.CN, s.DNS, s.IPs, s.Extras), w)
	case !accepted && exp:
		r.Violation(fmt.Sprintf("tls-refused-right-cert-%s-%s%s", where, o.class(), sfx),
			fmt.Sprintf("%s TLS endpoint (%s; allowed_cn=%q allowed_hostname=%q)"+caNote(w.CAFile)+" refused the canonical right credential (max TLS %s): cn=%q dns=%v ips=%v",
				where, o.class(), o.AllowedCN, o.AllowedHostname, w.TLSMax, s.CN, s.DNS, s.IPs), w)
	}
	r.Eval(1)
	if s.Near {
		r.Nontrivial(fmt.Sprintf("tls|%s|%s|%s|%s|%s|%v|%v|%v|%s", where, o.class(), s.Class, w.TLSMax, s.CN, s.DNS, s.IPs, s.Extras, w.CAFile))
		if len(s.Extras) > 0 {
			r.Count("multi_certificate_client_messages", 1)
		}
		r.Count("near_miss_certificates", 1)
	}
}

func caNote(state string) string {
	if state == "" {
		return ""
	}
	return " while its configured CA file was in state " + strconvQuote(state) + " (the server's host trust store holds only the driver's host CA)"
}

func strconvQuote(s string) string { return fmt.Sprintf("%q", s) }

// ---- CA-file states ----------------------------------------------------------------------------

// caFileState: what the configured CA file looks like at the moment a client connects, after
// the server was started with the proper file. judged: the statement speaks about "the trusted
// CA the endpoint is configured with" - that is well defined while the file content is
// unchanged or cannot be read at all; a file with other readable content (emptied, rotated to
// another CA) is a configuration change whose meaning the statement does not fix.
type caFileState struct {
	name   string
	judged bool
	apply  func(path string, orig []byte, p *pki) error
}

func writeAtomic(path string, b []byte) error {
	tmp := path + ".new"
	if err := os.WriteFile(tmp, b, 0o600); err != nil {
		return err
	}
	return os.Rename(tmp, path)
}

var caFileStates = []caFileState{
	{"present-unchanged", true, func(path string, orig []byte, _ *pki) error { return writeAtomic(path, orig) }},
	{"removed", true, func(path string, _ []byte, _ *pki) error { return os.Rename(path, path+".away") }},
	{"half-written", true, func(path string, orig []byte, p *pki) error {
		// a PEM block whose DER is cut in the middle: the file cannot be parsed
		return writeAtomic(path, pemCert(p.trusted.der[:len(p.trusted.der)/2]))
	}},
	{"is-a-directory", true, func(path string, _ []byte, _ *pki) error {
		_ = os.Remove(path)
		return os.Mkdir(path, 0o755)
	}},
	{"emptied", false, func(path string, _ []byte, _ *pki) error { return writeAtomic(path, nil) }},
	{"rotated-to-other-ca", false, func(path string, _ []byte, p *pki) error { return writeAtomic(path, pemCert(p.other.der)) }},
	{"restored", true, func(path string, orig []byte, _ *pki) error { return writeAtomic(path, orig) }},
}

// runCAFileStates walks the configured CA file of a RUNNING endpoint through the states above
// and connects, in each, with: a client carrying the right name whose certificate chains to a
// CA of the server's host trust store (not to the configured CA), the usual foreign-CA /
// self-signed / no-certificate clients, and the rightful client. connect reports acceptance by
// a round trip. The oracle is unchanged: accepted only if the chain predicate against the
// CONFIGURED CA holds. For acceptance the rightful client is binding only while the file
// content is the configured one (present-unchanged, restored).
func runCAFileStates(r *ev.Run, gid, where string, o serverOpts, p *pki, rng *rand.Rand, args []string,
	connect func(c *tls.Certificate, maxVer uint16) (accepted, ok bool, detail string)) {
	orig, err := os.ReadFile(p.caFile)
	if err != nil {
		r.Inconclusive(gid + ": CA-file scenario: " + err.Error())
		return
	}
	restore := func() {
		_ = os.RemoveAll(p.caFile)
		_ = os.Remove(p.caFile + ".away")
		_ = writeAtomic(p.caFile, orig)
	}
	defer restore()
	right := canonicalSpec(rng, o)
	creds := []certSpec{right}
	for _, v := range chainVariants(right) {
		switch v.Class {
		case "host-trusted-ca", "other-ca", "self-signed", "no-certificate":
			creds = append(creds, v)
		}
	}
	type minted struct {
		s certSpec
		c *tls.Certificate
	}
	var ms []minted
	for _, s := range creds {
		c, err := p.mint(s)
		if err != nil {
			r.Inconclusive(gid + ": CA-file scenario: mint: " + err.Error())
			return
		}
		ms = append(ms, minted{s, c})
	}
	for _, st := range caFileStates {
		restore()
		if err := st.apply(p.caFile, orig, p); err != nil {
			r.Inconclusive(fmt.Sprintf("%s: CA-file scenario: cannot put the file into state %s: %v", gid, st.name, err))
			continue
		}
		for _, m := range ms {
			for _, tv := range tlsVersions {
				accepted, ok, detail := connect(m.c, tv.v)
				if !ok {
					r.Inconclusive(fmt.Sprintf("%s: CA-file scenario %s/%s: %s", gid, st.name, m.s.Class, detail))
					continue
				}
				s := m.s
				s.Near = s.Class != "no-certificate"
				switch {
				case !st.judged:
					s.Unjudged = "the CA file has other readable content than the configured one: what the endpoint should trust now is not defined by the statement"
				case s.Class == "canonical" && st.name != "present-unchanged" && st.name != "restored":
					s.Unjudged = "accept side while the CA file is unreadable: not judged"
				}
				w := tlsWitness{Group: gid, Tier: r.Tier, Seed: r.Seed, Where: where, Options: o, Cred: s, TLSMax: tv.name, CAFile: st.name, Args: args}
				judgeTLS(r, w, accepted)
				if s.Class == "host-trusted-ca" && st.judged {
					keep("tls-ca-file-"+where, map[string]any{"group": gid, "where": where, "options": o, "ca_file_state": st.name, "credential": s, "client_max_tls": tv.name, "observed": acc(accepted), "detail": detail})
				}
			}
		}
	}
}

// unjudged outcomes (recorded in the evidence, never a verdict)
var (
	unjMu sync.Mutex
	unj   = map[string]string{}
)

func noteUnjudged(key, outcome string) {
	unjMu.Lock()
	if prev, ok := unj[key]; ok && prev != outcome {
		outcome = "mixed"
	}
	unj[key] = outcome
	unjMu.Unlock()
}

func acc(b bool) string {
	if b {
		return "accepted"
	}
	return "rejected"
}

// ---- (a) in-process ----------------------------------------------------------------------------

func optionSets(rng *rand.Rand) []serverOpts {
	var out []serverOpts
	for _, ca := range []bool{true, false} {
		for _, cca := range []bool{false, true} {
			out = append(out,
				serverOpts{CA: ca, ClientCertAuth: cca},
				serverOpts{CA: ca, ClientCertAuth: cca, AllowedCN: randCN(rng)},
				serverOpts{CA: ca, ClientCertAuth: cca, AllowedHostname: randHost(rng)},
				serverOpts{CA: ca, ClientCertAuth: cca, AllowedHostname: randIP(rng)},
			)
		}
	}
	return out
}

// tlsEndpoint: a tls.Config produced by TLSInfo.ServerConfig() behind a real listener. Every
// accepted connection is handshaken; an accepted client that says "ping" is answered "pong".
type tlsEndpoint struct {
	ln      net.Listener
	results chan error
}

func serveTLS(cfg *tls.Config) (*tlsEndpoint, error) {
	ln, err := tls.Listen("tcp", "127.0.0.1:0", cfg)
	if err != nil {
		return nil, err
	}
	e := &tlsEndpoint{ln: ln, results: make(chan error, 16)}
	go func() {
		for {
			c, err := ln.Accept()
			if err != nil {
				return
			}
			go func(c net.Conn) {
				defer c.Close()
				tc := c.(*tls.Conn)
				_ = tc.SetDeadline(time.Now().Add(10 * time.Second))
				herr := tc.Handshake()
				if herr == nil {
					buf := make([]byte, 4)
					if _, err := io.ReadFull(tc, buf); err == nil {
						_, _ = tc.Write([]byte("pong"))
					}
				}
				e.results <- herr
			}(c)
		}
	}()
	return e, nil
}

type hsResult struct {
	ok       bool // a result was obtained (false: watchdog / dial failure, see why)
	why      string
	accepted bool  // server side: handshake completed
	pong     bool  // client side: round trip answered
	resumed  bool  // client side: the session was resumed
	serr     error // server-side handshake error
	cerr     error
}

// connect performs one connection (used sequentially per endpoint).
func (e *tlsEndpoint) connect(ccfg *tls.Config) hsResult {
	raw, err := net.DialTimeout("tcp", e.ln.Addr().String(), 5*time.Second)
	if err != nil {
		return hsResult{why: "dial: " + err.Error()}
	}
	defer raw.Close()
	_ = raw.SetDeadline(time.Now().Add(10 * time.Second))
	tc := tls.Client(raw, ccfg)
	res := hsResult{}
	res.cerr = tc.Handshake()
	if res.cerr == nil {
		res.resumed = tc.ConnectionState().DidResume
		if _, err := tc.Write([]byte("ping")); err == nil {
			buf := make([]byte, 4)
			// reading also takes in the TLS 1.3 session tickets the server sends after the handshake
			if _, err := io.ReadFull(tc, buf); err == nil && string(buf) == "pong" {
				res.pong = true
			}
		}
	}
	select {
	case res.serr = <-e.results:
	case <-time.After(15 * time.Second):
		res.why = "no server-side handshake result (watchdog)"
		return res
	}
	res.accepted = res.serr == nil
	if res.accepted != res.pong {
		res.why = fmt.Sprintf("server-side handshake (%v) and client round trip (pong=%v, err=%v) disagree", res.serr, res.pong, res.cerr)
		return res
	}
	res.ok = true
	return res
}

func (p *pki) tlsInfo(o serverOpts) security.TLSInfo {
	ti := security.TLSInfo{CertFile: p.srvCertFile, KeyFile: p.srvKeyFile, ClientCertAuth: o.ClientCertAuth, AllowedCN: o.AllowedCN, AllowedHostname: o.AllowedHostname}
	if o.CA {
		ti.TrustedCAFile = p.caFile
		if o.TrustOther {
			ti.TrustedCAFile = p.otherCAFile
		}
	}
	return ti
}

func runTLSInproc(r *ev.Run, gid string, rng *rand.Rand, all bool) {
	p, err := newPKI(filepath.Join(scratchDir(), gid), rng)
	if err != nil {
		r.Inconclusive(gid + ": pki: " + err.Error())
		return
	}
	// the two name options together are a configuration error
	if _, err := (security.TLSInfo{CertFile: p.srvCertFile, KeyFile: p.srvKeyFile, TrustedCAFile: p.caFile, AllowedCN: "a", AllowedHostname: "b"}).ServerConfig(); err != nil {
		r.Count("cn_and_hostname_together_refused_by_config", 1)
	} else {
		r.Note("ServerConfig accepted AllowedCN and AllowedHostname together (not judged)")
	}
	for _, o := range optionSets(rng) {
		cfg, err := p.tlsInfo(o).ServerConfig()
		if err != nil {
			r.Inconclusive(fmt.Sprintf("%s: ServerConfig(%s) failed: %v", gid, o.class(), err))
			continue
		}
		ep, err := serveTLS(cfg)
		if err != nil {
			r.Inconclusive(gid + ": listen: " + err.Error())
			continue
		}
		r.Distinct("option_sets_inproc", o.class())
		for _, s := range credentialsFor(rng, o, all) {
			cert, err := p.mint(s)
			if err != nil {
				r.Count("unmintable_variants", 1)
				continue
			}
			for _, tv := range tlsVersions {
				res := ep.connect(clientTLS(p, cert, tv.v))
				if !res.ok {
					r.Inconclusive(fmt.Sprintf("%s: %s/%s: %s", gid, o.class(), s.Class, res.why))
					continue
				}
				r.Count("handshakes_inproc", 1)
				w := tlsWitness{Group: gid, Tier: r.Tier, Seed: r.Seed, Where: "inproc", Options: o, Cred: s, TLSMax: tv.name}
				judgeTLS(r, w, res.accepted)
				if s.Near && o.judged() && s.Unjudged == "" && r.Get("handshakes_inproc")%7 == 0 {
					es := ""
					if res.serr != nil {
						es = res.serr.Error()
					}
					keep("tls-inproc", map[string]any{"group": gid, "where": "inproc", "options": o, "credential": s, "client_max_tls": tv.name, "observed": acc(res.accepted), "server_handshake_error": es})
				}
			}
		}
		ep.ln.Close()
	}
	runResumptionInproc(r, gid, p, rng)
	// CA-file states, one running endpoint per kind of name rule
	for _, o := range []serverOpts{
		{CA: true, AllowedCN: randCN(rng)},
		{CA: true, ClientCertAuth: true, AllowedHostname: randHost(rng)},
		{CA: true, ClientCertAuth: true},
	} {
		cfg, err := p.tlsInfo(o).ServerConfig()
		if err != nil {
			r.Inconclusive(fmt.Sprintf("%s: ServerConfig(%s) failed: %v", gid, o.class(), err))
			continue
		}
		ep, err := serveTLS(cfg)
		if err != nil {
			r.Inconclusive(gid + ": listen: " + err.Error())
			continue
		}
		runCAFileStates(r, gid, "inproc", o, p, rng, nil, func(c *tls.Certificate, maxVer uint16) (bool, bool, string) {
			res := ep.connect(clientTLS(p, c, maxVer))
			r.Count("handshakes_inproc", 1)
			d := res.why
			if res.serr != nil {
				d = res.serr.Error()
			}
			return res.accepted, res.ok, d
		})
		ep.ln.Close()
	}
}

// judgeResumed applies the oracle to a connection made with a TLS session obtained elsewhere:
// the endpoint under judgement (w.Options) must refuse the client unless the client's
// certificate satisfies *its own* rule - where the client got a session from is irrelevant.
func judgeResumed(r *ev.Run, w tlsWitness, accepted bool) {
	a, b, s := *w.SessionFrom, w.Options, w.Cred
	exp := expectTLS(b, s)
	w.Observed, w.Expected = acc(accepted), acc(exp)
	r.Count("connections_with_session_from_other_endpoint", 1)
	if w.ClientResumed {
		r.Count("sessions_resumed_at_other_endpoint", 1)
	}
	switch {
	case accepted && !exp:
		r.Violation(fmt.Sprintf("tls-accepted-with-session-of-other-endpoint-%s-%s-after-%s", w.Where, b.class(), a.class()),
			fmt.Sprintf("%s TLS endpoint B (%s; trusts_other_ca=%v allowed_cn=%q allowed_hostname=%q) accepted a client (max TLS %s, session resumed: %v) whose certificate is right only for endpoint A (%s; trusts_other_ca=%v allowed_cn=%q allowed_hostname=%q) serving the same key pair: issuer=%s cn=%q dns=%v ips=%v; the client had first completed a connection to A with a TLS session cache",
				w.Where, b.class(), b.TrustOther, b.AllowedCN, b.AllowedHostname, w.TLSMax, w.ClientResumed, a.class(), a.TrustOther, a.AllowedCN, a.AllowedHostname, s.Issuer, s.CN, s.DNS, s.IPs), w)
	case !accepted && exp:
		// accept side: the client is right for B as well; recorded only
		noteUnjudged("session from "+a.class()+" presented at "+b.class()+" (credential right for both)", acc(accepted))
		r.Count("tls_unjudged_variants", 1)
		return
	case accepted && exp:
		noteUnjudged("session from "+a.class()+" presented at "+b.class()+" (credential right for both)", acc(accepted))
	}
	r.Eval(1)
	if !exp {
		r.Nontrivial(fmt.Sprintf("resume|%s|%s|%s|%s|%s|%s", w.Where, a.class(), b.class(), w.TLSMax, a.AllowedCN+a.AllowedHostname, b.AllowedCN+b.AllowedHostname))
		r.Count("near_miss_certificates", 1)
	}
}

// runResumptionInproc: endpoints that serve the SAME server key pair but differ in client CA /
// allowed CN / allowed hostname (two endpoints of one node, or one endpoint restarted with a
// rotated setting - each ServerConfig() call is a fresh instance). A client that is right for A
// and uses a TLS session cache completes a connection to A and then connects to B.
func runResumptionInproc(r *ev.Run, gid string, p *pki, rng *rand.Rand) {
	cnX, cnY := randCN(rng), randCN(rng)
	h1, h2 := randHost(rng), randHost(rng)
	opts := []serverOpts{
		{CA: true, AllowedCN: cnX},
		{CA: true, TrustOther: true, AllowedCN: cnX},
		{CA: true, ClientCertAuth: true, AllowedCN: cnY},
		{CA: true, AllowedHostname: h1},
		{CA: true, TrustOther: true, ClientCertAuth: true, AllowedHostname: h2},
		{CA: true, ClientCertAuth: true},
		{CA: true, TrustOther: true},
		{CA: true, AllowedCN: cnX}, // the same settings again: another instance ("restarted unchanged")
	}
	eps := make([]*tlsEndpoint, len(opts))
	for i, o := range opts {
		cfg, err := p.tlsInfo(o).ServerConfig()
		if err != nil {
			r.Inconclusive(fmt.Sprintf("%s: ServerConfig(%s) failed: %v", gid, o.class(), err))
			return
		}
		if eps[i], err = serveTLS(cfg); err != nil {
			r.Inconclusive(gid + ": listen: " + err.Error())
			return
		}
		defer eps[i].ln.Close()
	}
	for i, a := range opts {
		spec := canonicalSpec(rng, a)
		spec.Class = "right-for-first-endpoint"
		cert, err := p.mint(spec)
		if err != nil {
			r.Inconclusive(gid + ": mint: " + err.Error())
			continue
		}
		for j, b := range opts {
			if i == j {
				continue
			}
			for _, tv := range tlsVersions {
				ccfg := clientTLS(p, cert, tv.v)
				ccfg.ClientSessionCache = tls.NewLRUClientSessionCache(8)
				first := eps[i].connect(ccfg)
				if !first.ok || !first.accepted {
					r.Inconclusive(fmt.Sprintf("%s: resumption scenario: the client right for %s was not served there (%s %v)", gid, a.class(), first.why, first.serr))
					continue
				}
				second := eps[j].connect(ccfg)
				if !second.ok {
					r.Inconclusive(fmt.Sprintf("%s: resumption scenario %s -> %s: %s", gid, a.class(), b.class(), second.why))
					continue
				}
				r.Count("handshakes_inproc", 2)
				a := a
				w := tlsWitness{Group: gid, Tier: r.Tier, Seed: r.Seed, Where: "inproc", Options: b, Cred: spec, TLSMax: tv.name, SessionFrom: &a, ClientResumed: second.resumed}
				judgeResumed(r, w, second.accepted)
				if !expectTLS(b, spec) {
					es := ""
					if second.serr != nil {
						es = second.serr.Error()
					}
					keep("tls-resumption", map[string]any{"group": gid, "where": "inproc", "session_obtained_at": a, "then_connected_to": b, "credential": spec, "client_max_tls": tv.name,
						"observed": acc(second.accepted), "client_saw_session_resumed": second.resumed, "server_handshake_error": es})
				}
			}
		}
	}
}

// ---- (b) the binary ----------------------------------------------------------------------------

func dialPlain(addr string) (*grpc.ClientConn, error) {
	return grpc.NewClient(addr, grpc.WithTransportCredentials(insecure.NewCredentials()), grpc.WithNoProxy(),
		grpc.WithDefaultCallOptions(grpc.MaxCallRecvMsgSize(64<<20)))
}

func dialTLS(addr string, cfg *tls.Config) (*grpc.ClientConn, error) {
	return grpc.NewClient(addr, grpc.WithTransportCredentials(credentials.NewTLS(cfg)), grpc.WithNoProxy(),
		grpc.WithDefaultCallOptions(grpc.MaxCallRecvMsgSize(64<<20)))
}

// roundTrip: does a fresh connection with this credential get an answer from the server
// (Cluster/Status on the API endpoint, Metadata/Get on the leader's replication endpoint)?
// resumed: what the client's TLS state says about session resumption (answered calls only).
func roundTrip(addr string, cfg *tls.Config, repl bool) (ok, resumed bool, detail string) {
	conn, err := dialTLS(addr, cfg)
	if err != nil {
		return false, false, "dial: " + err.Error()
	}
	defer conn.Close()
	ctx, cancel := context.WithTimeout(context.Background(), 8*time.Second)
	defer cancel()
	var pr peer.Peer
	what := "Cluster/Status"
	if repl {
		what = "Metadata/Get"
		_, err = pb.NewMetadataClient(conn).Get(ctx, &pb.MetadataRequest{}, grpc.Peer(&pr))
	} else {
		_, err = pb.NewClusterClient(conn).Status(ctx, &pb.StatusRequest{}, grpc.Peer(&pr))
	}
	if ti, isTLS := pr.AuthInfo.(credentials.TLSInfo); isTLS {
		resumed = ti.State.DidResume
	}
	o := mkOutcome(err, false)
	if o.Code == codes.OK {
		return true, resumed, what + " OK"
	}
	return false, resumed, o.CodeS + ": " + o.Msg
}

func rpcRoundTrip(addr string, cfg *tls.Config) (bool, string) {
	ok, _, d := roundTrip(addr, cfg, false)
	return ok, d
}

// runReplicationProbes: the credential list for the leader's replication endpoint (other client
// CA, client-cert-auth, allowed hostname from the configuration file), decided by a
// Metadata/Get round trip; a failure is attributed to the credential only if the endpoint
// serves its rightful client right afterwards.
func runReplicationProbes(r *ev.Run, g tlsBinGroup, in *instance, p *pki, rng *rand.Rand, b serverOpts, all bool) {
	creds := credentialsFor(rng, b, all)
	canon, err := p.mint(creds[0])
	if err != nil {
		r.Inconclusive(g.id + ": replication endpoint: mint: " + err.Error())
		return
	}
	where := "binary-leader-replication"
	r.Distinct("option_sets_binary", "leader-replication:"+b.class())
	for _, s := range creds {
		cert, err := p.mint(s)
		if err != nil {
			r.Count("unmintable_variants", 1)
			continue
		}
		vers := tlsVersions
		if !all && s.Class != "canonical" {
			vers = vers[rng.Intn(2):][:1]
		}
		for _, tv := range vers {
			if !in.alive() {
				r.Inconclusive(g.id + ": server process is gone: " + lastLine(in.logTail(3)))
				return
			}
			ok, _, detail := roundTrip(in.repl, clientTLS(p, cert, tv.v), true)
			r.Count("tls_rpc_probes", 1)
			r.Count("tls_rpc_probes_replication_endpoint", 1)
			if !ok {
				if s.Class == "canonical" {
					for i := 0; i < 3 && !ok; i++ {
						time.Sleep(300 * time.Millisecond)
						ok, _, detail = roundTrip(in.repl, clientTLS(p, cert, tv.v), true)
					}
				} else if alive, _, d2 := roundTrip(in.repl, clientTLS(p, canon, tls.VersionTLS13), true); !alive {
					r.Inconclusive(fmt.Sprintf("%s: replication endpoint: %s failed (%s) but the rightful client fails too (%s)", g.id, s.Class, detail, d2))
					continue
				}
			}
			judgeTLS(r, tlsWitness{Group: g.id, Tier: r.Tier, Seed: r.Seed, Where: where, Options: b, Cred: s, TLSMax: tv.name, Args: in.args}, ok)
		}
	}
}

// runResumptionBinary: the leader's API endpoint (A: trusted CA + the group's name rule) and its
// replication endpoint (B: the *other* client CA, client-cert-auth, its own allowed hostname) serve the same key pair.
// A client right for one endpoint, with a TLS session cache, completes an RPC there and then
// connects to the other endpoint: that one must judge the client by its own rule.
func runResumptionBinary(r *ev.Run, g tlsBinGroup, in *instance, p *pki, rng *rand.Rand, a, b serverOpts) {
	type side struct {
		o    serverOpts
		addr string
		rt   func(string, *tls.Config) (bool, string)
		name string
	}
	api := side{a, in.api, rpcRoundTrip, "api"}
	repl := side{b, in.repl, func(addr string, cfg *tls.Config) (bool, string) {
		ok, _, d := roundTrip(addr, cfg, true)
		return ok, d
	}, "replication"}
	mk := func(o serverOpts) (certSpec, *tls.Certificate) {
		s := canonicalSpec(rng, o)
		c, err := p.mint(s)
		if err != nil {
			return s, nil
		}
		return s, c
	}
	for _, dir := range [][2]side{{api, repl}, {repl, api}} {
		from, to := dir[0], dir[1]
		spec, cert := mk(from.o)
		_, toCert := mk(to.o)
		if cert == nil || toCert == nil {
			r.Inconclusive(g.id + ": resumption scenario: mint failed")
			return
		}
		spec.Class = "right-for-" + from.name + "-endpoint"
		where := "binary-leader-" + to.name
		for _, tv := range tlsVersions {
			// liveness / control: the client that is right for the second endpoint is served there
			if ok, d := to.rt(to.addr, clientTLS(p, toCert, tv.v)); !ok {
				r.Inconclusive(fmt.Sprintf("%s: resumption scenario: the %s endpoint does not serve its rightful client (%s)", g.id, to.name, d))
				continue
			}
			// baseline without any session: judged like every other credential
			fresh, _ := to.rt(to.addr, clientTLS(p, cert, tv.v))
			r.Count("tls_rpc_probes", 1)
			bs := spec
			bs.Near = true
			judgeTLS(r, tlsWitness{Group: g.id, Tier: r.Tier, Seed: r.Seed, Where: where, Options: to.o, Cred: bs, TLSMax: tv.name, Args: in.args}, fresh)
			// with a session obtained at the first endpoint
			ccfg := clientTLS(p, cert, tv.v)
			ccfg.ClientSessionCache = tls.NewLRUClientSessionCache(8)
			if ok, d := from.rt(from.addr, ccfg); !ok {
				r.Inconclusive(fmt.Sprintf("%s: resumption scenario: the %s endpoint does not serve its rightful client (%s)", g.id, from.name, d))
				continue
			}
			got, resumed, detail := roundTrip(to.addr, ccfg, to.name == "replication")
			r.Count("tls_rpc_probes", 2)
			if !got {
				if ok, d := to.rt(to.addr, clientTLS(p, toCert, tv.v)); !ok {
					r.Inconclusive(fmt.Sprintf("%s: resumption scenario: %s endpoint stopped serving its rightful client (%s)", g.id, to.name, d))
					continue
				}
			}
			fo := from.o
			w := tlsWitness{Group: g.id, Tier: r.Tier, Seed: r.Seed, Where: where, Options: to.o, Cred: spec, TLSMax: tv.name, Args: in.args, SessionFrom: &fo, ClientResumed: resumed}
			judgeResumed(r, w, got)
			keep("tls-resumption-binary", map[string]any{"group": g.id, "where": where, "session_obtained_at": from.name + " endpoint " + from.o.class(), "then_connected_to": to.name + " endpoint " + to.o.class(),
				"credential": spec, "client_max_tls": tv.name, "observed": acc(got), "client_saw_session_resumed": resumed, "client_saw": detail})
		}
	}
}

type tlsBinGroup struct {
	id      string
	kind    string // leader | follower
	opts    serverOpts
	control bool // also run the empty-token control through this instance
}

func runTLSBinary(r *ev.Run, g tlsBinGroup, rng *rand.Rand, all bool) {
	p, err := newPKI(filepath.Join(scratchDir(), g.id+".pki"), rng)
	if err != nil {
		r.Inconclusive(g.id + ": pki: " + err.Error())
		return
	}
	o := g.opts
	tf := &tlsFlags{Cert: p.srvCertFile, Key: p.srvKeyFile, ClientCertAuth: o.ClientCertAuth, AllowedCN: o.AllowedCN, AllowedHostname: o.AllowedHostname}
	if o.CA {
		tf.CA = p.caFile
	}
	creds := credentialsFor(rng, o, all)
	canon, err := p.mint(creds[0])
	if err != nil {
		r.Inconclusive(g.id + ": mint canonical: " + err.Error())
		return
	}
	goodCfg := func() *tls.Config { return clientTLS(p, canon, tls.VersionTLS13) }

	spec := instSpec{Name: g.id, Kind: g.kind, TLS: tf}
	var replOpts serverOpts
	if g.kind == "leader" {
		// the replication endpoint serves the same key pair but trusts the other client CA
		// and has an allowed hostname of its own (an address where the API rule is a DNS name, a DNS name otherwise)
		replOpts = serverOpts{CA: true, TrustOther: true, ClientCertAuth: true, AllowedHostname: randHost(rng)}
		if o.AllowedHostname != "" && net.ParseIP(o.AllowedHostname) == nil {
			replOpts.AllowedHostname = randIP(rng)
		}
		spec.ReplTLS = &tlsFlags{Cert: p.srvCertFile, Key: p.srvKeyFile, CA: p.otherCAFile, ClientCertAuth: true, AllowedHostname: replOpts.AllowedHostname}
	}
	var lead *instance
	if g.kind == "follower" {
		lead, err = startInstance(instSpec{Name: g.id + "-ld", Kind: "leader"}, readyPlain(""))
		if err != nil {
			r.Inconclusive(g.id + ": leader for follower did not start: " + firstLine(err.Error()))
			return
		}
		defer lead.stop()
		spec.LeaderRepl = lead.repl
	}
	in, err := startInstance(spec, func(ctx context.Context, in *instance) error {
		conn, err := dialTLS(in.api, goodCfg())
		if err != nil {
			return err
		}
		defer conn.Close()
		if err := checkIdentity(ctx, conn, in); err != nil {
			return err
		}
		_, err = pb.NewTablesClient(conn).List(ctx, &pb.ListTablesRequest{})
		return err
	})
	if err != nil {
		// The canonical credential never got through within the watchdog, or the process did
		// not start: nothing can be concluded from here (never a violation).
		r.Inconclusive(g.id + ": TLS instance did not become ready with the canonical credential: " + firstLine(err.Error()))
		return
	}
	defer func() { r.Distinct("server_exit", in.stop()) }()
	where := "binary-" + g.kind
	r.Distinct("option_sets_binary", g.kind+":"+o.class())

	for _, s := range creds {
		cert, err := p.mint(s)
		if err != nil {
			r.Count("unmintable_variants", 1)
			continue
		}
		vers := tlsVersions
		if !all {
			vers = vers[rng.Intn(2):][:1] // quick: one client TLS version per credential, seed-chosen
			if s.Class == "canonical" || s.Class == "no-certificate" || s.Class == "other-ca" {
				vers = tlsVersions
			}
		}
		for _, tv := range vers {
			if !in.alive() {
				r.Inconclusive(g.id + ": server process is gone: " + lastLine(in.logTail(3)))
				return
			}
			ok, detail := rpcRoundTrip(in.api, clientTLS(p, cert, tv.v))
			r.Count("tls_rpc_probes", 1)
			if !ok {
				if s.Class == "canonical" {
					// it was answered during start-up; a refusal counts only if it persists
					for i := 0; i < 3 && !ok; i++ {
						time.Sleep(300 * time.Millisecond)
						ok, detail = rpcRoundTrip(in.api, clientTLS(p, cert, tv.v))
					}
				} else if alive, d2 := rpcRoundTrip(in.api, goodCfg()); !alive {
					// the failure is attributed to the credential only if the server answers
					// the canonical credential right afterwards
					r.Inconclusive(fmt.Sprintf("%s: %s failed (%s) but the canonical credential fails too (%s)", g.id, s.Class, detail, d2))
					continue
				}
			}
			w := tlsWitness{Group: g.id, Tier: r.Tier, Seed: r.Seed, Where: where, Options: o, Cred: s, TLSMax: tv.name, Args: in.args}
			judgeTLS(r, w, ok)
			if s.Near && s.Unjudged == "" && r.Get("tls_rpc_probes")%5 == 0 {
				keep("tls-binary", map[string]any{"group": g.id, "where": where, "options": o, "credential": s, "client_max_tls": tv.name, "observed": acc(ok), "client_saw": detail})
			}
		}
	}
	if g.kind == "leader" {
		runReplicationProbes(r, g, in, p, rng, replOpts, all)
		runResumptionBinary(r, g, in, p, rng, o, replOpts)
	}
	// CA-file states against the running process. A refusal needs no liveness control here (the
	// process is checked to be alive, and the rightful client must be served again once the
	// file is restored); an acceptance speaks for itself.
	runCAFileStates(r, g.id, where, o, p, rng, in.args, func(c *tls.Certificate, maxVer uint16) (bool, bool, string) {
		if !in.alive() {
			return false, false, "server process is gone: " + lastLine(in.logTail(3))
		}
		ok, d := rpcRoundTrip(in.api, clientTLS(p, c, maxVer))
		r.Count("tls_rpc_probes", 1)
		return ok, true, d
	})
	if g.control {
		conn, err := dialTLS(in.api, goodCfg())
		if err != nil {
			r.Inconclusive(g.id + ": control dial: " + err.Error())
			return
		}
		defer conn.Close()
		runControl(r, g.id+"/control", g.kind, in, conn, rng)
	}
}

func firstLine(s string) string {
	for i := 0; i < len(s); i++ {
		if s[i] == '\n' {
			return s[:i]
		}
	}
	return s
}

// readyPlain: readiness probe for plain-http instances: Cluster/Status and Tables/List answer.
func readyPlain(tablesToken string) func(ctx context.Context, in *instance) error {
	return func(ctx context.Context, in *instance) error {
		conn, err := dialPlain(in.api)
		if err != nil {
			return err
		}
		defer conn.Close()
		if err := checkIdentity(ctx, conn, in); err != nil {
			return err
		}
		_, err = pb.NewTablesClient(conn).List(bearerCtx(ctx, tablesToken), &pb.ListTablesRequest{})
		if status.Code(err) == codes.Unauthenticated {
			// the server is up but refuses the configured token: that is for the monitor to
			// judge (refused-right-token), not a reason to call the start-up inconclusive
			return nil
		}
		return err
	}
}

// checkIdentity makes sure the server answering on the port is the process this driver started
// (its memberlist node name is unique per start): with "listen on :0, close, reuse" ports a
// foreign server could otherwise be mistaken for ours after a lost port race.
func checkIdentity(ctx context.Context, conn *grpc.ClientConn, in *instance) error {
	if _, err := pb.NewClusterClient(conn).Status(ctx, &pb.StatusRequest{}); err != nil {
		return err
	}
	ml, err := pb.NewClusterClient(conn).MemberList(ctx, &pb.MemberListRequest{})
	if err != nil {
		return err
	}
	for _, m := range ml.Members {
		if m.Name == in.node {
			return nil
		}
	}
	return fmt.Errorf("server on %s is not node %s (members: %v)", in.api, in.node, ml.Members)
}
