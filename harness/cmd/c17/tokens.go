package main

// Token part of C17: every method of the Maintenance and Tables services of the real binary is
// called with crafted metadata; the oracle says "Unauthenticated unless the bearer token is
// exactly the configured one (scheme compared case-insensitively, as the middleware documents)",
// refused calls leave the table list and the table contents unchanged, KV/Cluster never care.

import (
	"context"
	"encoding/base64"
	"errors"
	"fmt"
	"io"
	"math/rand"
	"os"
	"sort"
	"strings"
	"time"

	pb "github.com/jamf/regatta/regattapb"
	"google.golang.org/grpc"
	"google.golang.org/grpc/codes"
	"google.golang.org/grpc/metadata"
	"google.golang.org/grpc/status"
	"google.golang.org/protobuf/types/known/emptypb"

	"verifharness/internal/ev"
)

// ---- credentials -------------------------------------------------------------------------------

type cred struct {
	Class string      `json:"class"`
	MD    [][2]string `json:"metadata"` // nil = call carries no metadata at all
	Admit bool        `json:"oracle_admit"`
	Near  bool        `json:"near_miss"`
}

func (c cred) ctx(parent context.Context) context.Context {
	if len(c.MD) == 0 {
		return parent
	}
	md := metadata.MD{}
	for _, kv := range c.MD {
		md.Append(kv[0], kv[1])
	}
	return metadata.NewOutgoingContext(parent, md)
}

func randomCase(rng *rand.Rand, s string) string {
	for {
		b := []byte(s)
		for i := range b {
			if rng.Intn(2) == 0 {
				b[i] = flipCaseAt(string(b), i)[i]
			}
		}
		if string(b) != s && string(b) != strings.ToLower(s) && string(b) != strings.ToUpper(s) {
			return string(b)
		}
	}
}

// tokenCreds: right = the token configured for the service under probe, other = the token
// configured for the other protected service. all = exhaustive variants (thorough tier).
func tokenCreds(rng *rand.Rand, right, other string, all bool) []cred {
	var out []cred
	auth := func(class, val string, admit, near bool) {
		out = append(out, cred{Class: class, MD: [][2]string{{"authorization", val}}, Admit: admit, Near: near})
	}
	bearer := func(class, tok string) {
		if tok == right {
			return // would be the right token; not a variant
		}
		auth(class, "Bearer "+tok, false, true)
	}
	n := len(right)
	// admitted: exactly the right token; the scheme is case-insensitive (rfc2617 1.2, as AuthFromMD documents)
	auth("right", "Bearer "+right, true, false)
	auth("right-scheme-lower", "bearer "+right, true, true)
	auth("right-scheme-upper", "BEARER "+right, true, true)
	auth("right-scheme-mixed", randomCase(rng, "Bearer")+" "+right, true, true)

	out = append(out, cred{Class: "no-metadata"})
	auth("empty-header", "", false, false)
	auth("scheme-only-no-space", "Bearer", false, true)
	bearer("empty-token", "")
	auth("empty-token-scheme-lower", "bearer ", false, true)
	auth("empty-token-scheme-upper", "BEARER ", false, true)
	bearer("blank-token", " ")
	// whatever the configured string is, it is ONE token: none of its comma/space/semicolon
	// separated parts (trimmed or not), nor the string with a separator dropped or added, is it
	for _, sep := range []string{",", " ", ";"} {
		if !strings.Contains(right, sep) {
			continue
		}
		name := map[string]string{",": "comma", " ": "space", ";": "semicolon"}[sep]
		for _, part := range strings.Split(right, sep) {
			if part != "" {
				bearer("part-of-token-split-at-"+name, part)
			}
			if t := strings.TrimSpace(part); t != part && t != "" {
				bearer("part-of-token-split-at-"+name+"-trimmed", t)
			}
		}
		if i := strings.Index(right, sep); i >= 0 {
			bearer("part-of-token-with-separator-"+name, right[:i+len(sep)])
			bearer("part-of-token-with-separator-"+name, right[i:])
		}
		bearer("token-without-separators-"+name, strings.ReplaceAll(right, sep, ""))
		bearer("token-trimmed-of-"+name, strings.Trim(right, sep+" "))
	}
	bearer("comma-only", ",")
	if all {
		for k := 1; k < n; k++ {
			bearer("prefix", right[:k])
			bearer("tail", right[k:])
		}
		for _, i := range letterPositions(right) {
			bearer("case-flip-one", flipCaseAt(right, i))
		}
		for i := 0; i < n; i++ {
			bearer("substituted-char", substituteAt(right, i))
		}
	} else {
		bearer("prefix", right[:n-1])
		bearer("prefix", right[:1+rng.Intn(n-1)])
		bearer("tail", right[1:])
		lp := letterPositions(right)
		bearer("case-flip-one", flipCaseAt(right, lp[rng.Intn(len(lp))]))
		bearer("substituted-char", substituteAt(right, rng.Intn(n)))
	}
	bearer("suffix-ext", right+string(lower[rng.Intn(26)]))
	bearer("prefix-ext", string(lower[rng.Intn(26)])+right)
	bearer("case-upper", strings.ToUpper(right))
	bearer("case-lower", strings.ToLower(right))
	bearer("doubled", right+right)
	bearer("quoted", `"`+right+`"`)
	bearer("trailing-space", right+" ")
	bearer("double-space", " "+right)
	bearer("comma-list", right+", "+right)
	bearer("scheme-repeated", "Bearer "+right)
	bearer("other-service-token", other)
	bearer("random-token", randToken(rng, "alnum"))
	auth("leading-space", " Bearer "+right, false, true)
	auth("no-scheme", right, false, true)
	auth("token-then-scheme", right+" Bearer", false, true)
	auth("scheme-basic", "Basic "+right, false, true)
	auth("scheme-basic-b64", "Basic "+base64.StdEncoding.EncodeToString([]byte(right)), false, true)
	auth("scheme-basic-b64-userpass", "Basic "+base64.StdEncoding.EncodeToString([]byte("bearer:"+right)), false, true)
	auth("scheme-token", "Token "+right, false, true)
	auth("scheme-digest", "Digest "+right, false, true)
	auth("scheme-typo-short", "Beare "+right, false, true)
	auth("scheme-typo-long", "Bearers "+right, false, true)
	auth("scheme-colon", "Bearer: "+right, false, true)
	auth("scheme-equals", "Bearer="+right, false, true)
	for _, h := range []string{"x-authorization", "authentication", "proxy-authorization", "token", "bearer", "x-api-key", "authorization2", "www-authenticate", "cookie"} {
		if !all && rng.Intn(3) != 0 && h != "proxy-authorization" {
			continue
		}
		out = append(out, cred{Class: "other-header:" + h, MD: [][2]string{{h, "Bearer " + right}}, Near: true})
	}
	out = append(out, cred{Class: "other-header:authorization-bin", MD: [][2]string{{"authorization-bin", "Bearer " + right}}, Near: true})
	out = append(out, cred{Class: "wrong-header-right-plus-authorization-wrong", MD: [][2]string{{"x-authorization", "Bearer " + right}, {"authorization", "Bearer " + substituteAt(right, 0)}}, Near: true})
	return out
}

func randToken(rng *rand.Rand, style string) string {
	const alnum = "abcdefghijklmnopqrstuvwxyzABCDEFGHIJKLMNOPQRSTUVWXYZ0123456789"
	const special = "=+/._-~:;!$%&*"
	n := 8 + rng.Intn(12)
	for {
		b := make([]byte, n)
		for i := range b {
			switch {
			case style == "special" && i > 0 && i < n-1 && rng.Intn(3) == 0:
				b[i] = special[rng.Intn(len(special))]
			case style == "spaced" && i == n/2:
				b[i] = ' '
			default:
				b[i] = alnum[rng.Intn(len(alnum))]
			}
		}
		s := string(b)
		// mixed case wanted so that upper/lower/flip variants all differ from the token
		if s != strings.ToLower(s) && s != strings.ToUpper(s) && len(letterPositions(s)) >= 3 {
			return s
		}
	}
}

// ---- methods -----------------------------------------------------------------------------------

type method struct {
	Service string `json:"service"`
	Name    string `json:"name"`
	Full    string `json:"full"`
	Kind    string `json:"kind"` // unary | server-stream | client-stream | bidi-stream
}

func (m method) short() string { return m.Service + "/" + m.Name }

func methodsOf(svc string, d *grpc.ServiceDesc) []method {
	var out []method
	for _, u := range d.Methods {
		out = append(out, method{svc, u.MethodName, "/" + d.ServiceName + "/" + u.MethodName, "unary"})
	}
	for _, s := range d.Streams {
		k := "bidi-stream"
		switch {
		case s.ServerStreams && !s.ClientStreams:
			k = "server-stream"
		case s.ClientStreams && !s.ServerStreams:
			k = "client-stream"
		}
		out = append(out, method{svc, s.StreamName, "/" + d.ServiceName + "/" + s.StreamName, k})
	}
	sort.Slice(out, func(i, j int) bool { return out[i].Name < out[j].Name })
	return out
}

// protectedMethods enumerates every method the generated descriptors know, so that a method
// added later is probed too (through the generic caller).
func protectedMethods() []method {
	return append(methodsOf("Maintenance", &pb.Maintenance_ServiceDesc), methodsOf("Tables", &pb.Tables_ServiceDesc)...)
}

type outcome struct {
	Code    codes.Code `json:"-"`
	CodeS   string     `json:"code"`
	Msg     string     `json:"message,omitempty"`
	GotData bool       `json:"got_data,omitempty"`
}

func mkOutcome(err error, data bool) outcome {
	if err == nil || errors.Is(err, io.EOF) {
		return outcome{Code: codes.OK, CodeS: "OK", GotData: data}
	}
	st, _ := status.FromError(err)
	msg := st.Message()
	if len(msg) > 160 {
		msg = msg[:160]
	}
	return outcome{Code: st.Code(), CodeS: st.Code().String(), Msg: msg, GotData: data}
}

func (o outcome) refused() bool { return o.Code == codes.Unauthenticated }

// transient: nothing can be concluded about admission (server hiccup, watchdog).
func (o outcome) transient() bool {
	switch o.Code {
	case codes.Unavailable, codes.DeadlineExceeded, codes.Canceled, codes.ResourceExhausted, codes.Aborted:
		return true
	}
	return false
}

// ---- state dump --------------------------------------------------------------------------------

const (
	tblData   = "c17data"   // read target (Backup, Reset, KV)
	tblVictim = "c17victim" // Delete target
	tblRest   = "c17restored"
)

type tokGroup struct {
	r       *ev.Run
	id      string
	flavour string // leader | follower
	rng     *rand.Rand
	all     bool

	spec   instSpec
	target *instance
	conn   *grpc.ClientConn
	lconn  *grpc.ClientConn // follower flavour: connection to its leader (set-up writes only)
	lspec  instSpec

	backup  []*pb.SnapshotChunk
	withRev bool
	createN int
	control bool            // control instance (empty tokens): requests are chosen to have no effect even when admitted
	routed  map[string]bool // spelling name -> the server routes it to registered handlers (measured)
	// noDump: the instance refuses its own configured tables token (reported as a violation by
	// preflight), so the state cannot be read back; probes are then judged on the status alone
	noDump bool
}

// dump reads the state back (or nothing in noDump mode).
func (g *tokGroup) dump() (string, error) {
	if g.noDump {
		return "", nil
	}
	return dumpState(g.conn, g.spec.TablesToken, g.withRev)
}

// preflight: the exactly configured tokens must be admitted. If the instance refuses them the
// monitor says so and carries on in a degraded mode instead of giving up as "not ready".
func (g *tokGroup) preflight() {
	lst := method{Service: "Tables", Name: "List", Full: pb.Tables_List_FullMethodName, Kind: "unary"}
	rst := method{Service: "Maintenance", Name: "Reset", Full: pb.Maintenance_Reset_FullMethodName, Kind: "unary"}
	for _, m := range []method{lst, rst} {
		right, _ := g.tokenFor(m)
		c := cred{Class: "right", MD: [][2]string{{"authorization", "Bearer " + right}}, Admit: true}
		var o outcome
		for attempt := 0; attempt < 20; attempt++ {
			ctx, cancel := context.WithTimeout(context.Background(), 10*time.Second)
			o = g.call(c.ctx(ctx), m, m.Full, "")
			cancel()
			if !o.transient() && o.Code != codes.FailedPrecondition {
				break
			}
			time.Sleep(300 * time.Millisecond)
		}
		if o.refused() {
			p := tokProbe{Method: m, Cred: c, Path: m.Full}
			g.r.Violation(fmt.Sprintf("refused-right-token-%s-%s-right", g.flavour, m.short()),
				fmt.Sprintf("%s %s called with exactly the configured token (%v) was refused: %s %q; maintenance.token=%q tables.token=%q",
					g.flavour, m.short(), c.MD, o.CodeS, o.Msg, g.spec.MaintToken, g.spec.TablesToken),
				g.witness(&p, &o, "admitted (any code but Unauthenticated)", ""))
			if m.Service == "Tables" {
				g.noDump = true
				g.r.Count("groups_without_state_dumps_because_right_token_refused", 1)
			}
		}
	}
}

func bearerCtx(ctx context.Context, tok string) context.Context {
	if tok == "" {
		return ctx
	}
	return metadata.AppendToOutgoingContext(ctx, "authorization", "Bearer "+tok)
}

// retryT retries f on transient gRPC codes for up to ~20 s (watchdog; expiry => error => inconclusive).
func retryT(f func(ctx context.Context) error) error {
	var err error
	start := time.Now()
	for i := 0; i < 60 && time.Since(start) < 20*time.Second; i++ {
		ctx, cancel := context.WithTimeout(context.Background(), 10*time.Second)
		err = f(ctx)
		cancel()
		if err == nil {
			return nil
		}
		if !mkOutcome(err, false).transient() {
			return err
		}
		time.Sleep(250 * time.Millisecond)
	}
	return err
}

// dumpState renders the table list (name, id) and the full content of every table, read through
// the Tables and KV APIs of the instance. The per-table applied index is included only when asked.
func dumpState(conn *grpc.ClientConn, tablesToken string, withRev bool) (string, error) {
	var sb strings.Builder
	var lst *pb.ListTablesResponse
	err := retryT(func(ctx context.Context) (e error) {
		lst, e = pb.NewTablesClient(conn).List(bearerCtx(ctx, tablesToken), &pb.ListTablesRequest{})
		return e
	})
	if err != nil {
		return "", fmt.Errorf("list: %w", err)
	}
	tabs := lst.Tables
	sort.Slice(tabs, func(i, j int) bool { return tabs[i].Name < tabs[j].Name })
	applied := map[string]uint64{}
	if withRev {
		// per-table applied raft index as reported by Cluster/Status: every proposal to a
		// table (also one that leaves the content alone, like Reset) moves it
		var st *pb.StatusResponse
		err := retryT(func(ctx context.Context) (e error) {
			st, e = pb.NewClusterClient(conn).Status(ctx, &pb.StatusRequest{})
			return e
		})
		if err != nil {
			return "", fmt.Errorf("status: %w", err)
		}
		for n, ts := range st.Tables {
			applied[n] = ts.RaftAppliedIndex
		}
	}
	for _, t := range tabs {
		var kvs []*pb.KeyValue
		rev := applied[t.Name]
		key := []byte{0}
		unreadable := false
		for page := 0; ; page++ {
			var resp *pb.RangeResponse
			err := retryT(func(ctx context.Context) (e error) {
				resp, e = pb.NewKVClient(conn).Range(ctx, &pb.RangeRequest{Table: []byte(t.Name), Key: key, RangeEnd: []byte{0}})
				return e
			})
			if err != nil {
				if status.Code(err) == codes.NotFound {
					unreadable = true // listed but not readable (yet / any more): render that fact
					break
				}
				return "", fmt.Errorf("range %s: %w", t.Name, err)
			}
			kvs = append(kvs, resp.Kvs...)
			if !resp.More || len(resp.Kvs) == 0 || page > 1000 {
				break
			}
			key = append(append([]byte{}, resp.Kvs[len(resp.Kvs)-1].Key...), 0)
		}
		switch {
		case unreadable:
			fmt.Fprintf(&sb, "table %q id=%s UNREADABLE(NotFound)\n", t.Name, t.Id)
		case withRev:
			fmt.Fprintf(&sb, "table %q id=%s applied=%d n=%d\n", t.Name, t.Id, rev, len(kvs))
		default:
			fmt.Fprintf(&sb, "table %q id=%s n=%d\n", t.Name, t.Id, len(kvs))
		}
		for _, kv := range kvs {
			fmt.Fprintf(&sb, "  %q=%q\n", kv.Key, kv.Value)
		}
	}
	return sb.String(), nil
}

// contentOnly strips ids and revisions from a dump (leader/follower comparison at set-up).
func contentOnly(d string) string {
	var out []string
	for _, l := range strings.Split(d, "\n") {
		if strings.HasPrefix(l, "table ") {
			f := strings.Fields(l)
			l = f[0] + " " + f[1] + " " + f[len(f)-1]
		}
		out = append(out, l)
	}
	return strings.Join(out, "\n")
}

func firstDiff(a, b string) string {
	la, lb := strings.Split(a, "\n"), strings.Split(b, "\n")
	for i := 0; i < len(la) || i < len(lb); i++ {
		var x, y string
		if i < len(la) {
			x = la[i]
		}
		if i < len(lb) {
			y = lb[i]
		}
		if x != y {
			return fmt.Sprintf("line %d: before %q, after %q", i+1, x, y)
		}
	}
	return "no difference"
}

// ---- :path spellings ---------------------------------------------------------------------------

// A spelling rewrites the canonical full method name ("/pkg.Service/Method") into another
// :path. Whether the server routes a spelling to the registered handler is not assumed: it is
// measured per instance with an unprotected call (routing does not depend on the service), and
// whatever is routed is judged exactly like the canonical spelling.
type spelling struct {
	Name string
	F    func(full string) string
}

func splitFull(full string) (svc, meth string) {
	i := strings.LastIndexByte(full, '/')
	return full[1:i], full[i+1:]
}

var spellings = []spelling{
	{"no-leading-slash", func(f string) string { return f[1:] }},
	{"double-leading-slash", func(f string) string { return "/" + f }},
	{"trailing-slash", func(f string) string { return f + "/" }},
	{"service-upper-case", func(f string) string { s, m := splitFull(f); return "/" + strings.ToUpper(s) + "/" + m }},
	{"method-lower-case", func(f string) string { s, m := splitFull(f); return "/" + s + "/" + strings.ToLower(m) }},
	{"percent-encoded-slash", func(f string) string { s, m := splitFull(f); return "/" + s + "%2F" + m }},
	{"query-suffix", func(f string) string { return f + "?x=1" }},
	{"no-leading-slash-double-inner", func(f string) string { s, m := splitFull(f); return s + "//" + m }},
}

// calibrateRouting measures which spellings this server routes: an unprotected unary call
// (Cluster/Status) and an unprotected server stream (KV/IterateRange) spelled that way are
// answered OK iff the spelling reaches the registered handler. ok=false: could not be measured.
func (g *tokGroup) calibrateRouting(sp spelling) (routed, ok bool) {
	var u, st outcome
	for attempt := 0; attempt < 4; attempt++ {
		ctx, cancel := context.WithTimeout(context.Background(), 10*time.Second)
		u = mkOutcome(g.conn.Invoke(ctx, sp.F(pb.Cluster_Status_FullMethodName), &pb.StatusRequest{}, &pb.StatusResponse{}), false)
		sd := &grpc.StreamDesc{StreamName: "IterateRange", ServerStreams: true}
		cs, err := g.conn.NewStream(ctx, sd, sp.F(pb.KV_IterateRange_FullMethodName))
		if err == nil {
			err = cs.SendMsg(&pb.RangeRequest{Table: []byte(tblData), Key: []byte{0}, RangeEnd: []byte{0}})
			_ = cs.CloseSend()
			for err == nil {
				err = cs.RecvMsg(&pb.RangeResponse{})
			}
		}
		st = mkOutcome(err, false)
		cancel()
		if !u.transient() && !st.transient() {
			break
		}
		time.Sleep(300 * time.Millisecond)
	}
	if u.transient() || st.transient() {
		return false, false
	}
	if (u.Code == codes.OK) != (st.Code == codes.OK) {
		// unary and streaming calls are routed differently for this spelling: treat it as
		// routed (the stricter reading) - whatever answers OK somewhere reaches handlers
		return true, true
	}
	return u.Code == codes.OK, true
}

// ---- calls -------------------------------------------------------------------------------------

// call performs one probe of method m, sent with :path = path (m.Full for the canonical
// spelling), under credential context ctx. The request is chosen so that an admitted call has a
// visible effect wherever the method has one. Everything goes through conn.Invoke /
// conn.NewStream so that the :path is under the driver's control.
func (g *tokGroup) call(ctx context.Context, m method, path, createName string) outcome {
	unary := func(req, resp any) outcome {
		return mkOutcome(g.conn.Invoke(ctx, path, req, resp), false)
	}
	switch m.Full {
	case pb.Tables_Create_FullMethodName:
		return unary(&pb.CreateTableRequest{Name: createName}, &pb.CreateTableResponse{})
	case pb.Tables_Delete_FullMethodName:
		return unary(&pb.DeleteTableRequest{Name: tblVictim}, &pb.DeleteTableResponse{})
	case pb.Tables_List_FullMethodName:
		resp := &pb.ListTablesResponse{}
		o := unary(&pb.ListTablesRequest{}, resp)
		o.GotData = len(resp.Tables) > 0
		return o
	case pb.Maintenance_Reset_FullMethodName:
		return unary(&pb.ResetRequest{Table: []byte(tblData)}, &pb.ResetResponse{})
	case pb.Maintenance_Backup_FullMethodName:
		st, err := g.conn.NewStream(ctx, &grpc.StreamDesc{StreamName: m.Name, ServerStreams: true}, path)
		if err != nil {
			return mkOutcome(err, false)
		}
		if err := st.SendMsg(&pb.BackupRequest{Table: []byte(tblData)}); err != nil && !errors.Is(err, io.EOF) {
			return mkOutcome(err, false)
		}
		_ = st.CloseSend()
		got := false
		for {
			ch := &pb.SnapshotChunk{}
			if err := st.RecvMsg(ch); err != nil {
				return mkOutcome(err, got)
			}
			if len(ch.Data) > 0 {
				got = true
			}
		}
	case pb.Maintenance_Restore_FullMethodName:
		st, err := g.conn.NewStream(ctx, &grpc.StreamDesc{StreamName: m.Name, ClientStreams: true}, path)
		if err != nil {
			return mkOutcome(err, false)
		}
		msgs := []*pb.RestoreMessage{{Data: &pb.RestoreMessage_Info{Info: &pb.RestoreInfo{Table: []byte(tblRest)}}}}
		if g.control {
			msgs = nil // chunk first: an admitted call fails in the handler ("first message should contain info") without effect
		}
		for _, ch := range g.backup {
			msgs = append(msgs, &pb.RestoreMessage{Data: &pb.RestoreMessage_Chunk{Chunk: ch}})
		}
		for _, msg := range msgs {
			if err := st.SendMsg(msg); err != nil {
				break // io.EOF: the status is delivered by RecvMsg
			}
		}
		_ = st.CloseSend()
		return mkOutcome(st.RecvMsg(&pb.RestoreResponse{}), false)
	}
	// a method this driver does not know by name: call it generically with empty messages
	switch m.Kind {
	case "unary":
		return unary(&emptypb.Empty{}, &emptypb.Empty{})
	default:
		sd := &grpc.StreamDesc{StreamName: m.Name, ServerStreams: m.Kind != "client-stream", ClientStreams: m.Kind != "server-stream"}
		st, err := g.conn.NewStream(ctx, sd, path)
		if err != nil {
			return mkOutcome(err, false)
		}
		_ = st.SendMsg(&emptypb.Empty{})
		_ = st.CloseSend()
		return mkOutcome(st.RecvMsg(&emptypb.Empty{}), false)
	}
}

func (g *tokGroup) tokenFor(m method) (right, other string) {
	if m.Service == "Maintenance" {
		return g.spec.MaintToken, g.spec.TablesToken
	}
	return g.spec.TablesToken, g.spec.MaintToken
}

// writer returns the connection + tables token through which set-up writes go (the leader).
func (g *tokGroup) writer() (*grpc.ClientConn, string, string) {
	if g.flavour == "follower" {
		return g.lconn, g.lspec.TablesToken, g.lspec.MaintToken
	}
	return g.conn, g.spec.TablesToken, g.spec.MaintToken
}

func (g *tokGroup) ensureTable(name string, nkeys int) error {
	conn, ttok, _ := g.writer()
	err := retryT(func(ctx context.Context) error {
		_, e := pb.NewTablesClient(conn).Create(bearerCtx(ctx, ttok), &pb.CreateTableRequest{Name: name})
		if status.Code(e) == codes.InvalidArgument && strings.Contains(status.Convert(e).Message(), "exist") {
			return nil
		}
		if status.Code(e) == codes.FailedPrecondition { // "shard is not ready" right after start-up: retried
			return status.Error(codes.Unavailable, "not ready: "+e.Error())
		}
		return e
	})
	if err != nil {
		return fmt.Errorf("create %s: %w", name, err)
	}
	for i := 0; i < nkeys; i++ {
		k := fmt.Sprintf("%s/key-%03d", name, i)
		v := fmt.Sprintf("value-%d-%s", i, strings.Repeat("v", i%7))
		err := retryT(func(ctx context.Context) error {
			_, e := pb.NewKVClient(conn).Put(ctx, &pb.PutRequest{Table: []byte(name), Key: []byte(k), Value: []byte(v)})
			if c := status.Code(e); c == codes.NotFound || c == codes.FailedPrecondition {
				return status.Error(codes.Unavailable, "table not ready: "+e.Error()) // retried
			}
			return e
		})
		if err != nil {
			return fmt.Errorf("put %s: %w", name, err)
		}
	}
	return nil
}

func (g *tokGroup) deleteTable(name string) error {
	conn, ttok, _ := g.writer()
	return retryT(func(ctx context.Context) error {
		_, e := pb.NewTablesClient(conn).Delete(bearerCtx(ctx, ttok), &pb.DeleteTableRequest{Name: name})
		if status.Code(e) == codes.InvalidArgument { // not found
			return nil
		}
		return e
	})
}

// captureBackup takes a backup of tblData with the right token (leader flavour).
func (g *tokGroup) captureBackup() error {
	return retryT(func(ctx context.Context) error {
		st, err := pb.NewMaintenanceClient(g.conn).Backup(bearerCtx(ctx, g.spec.MaintToken), &pb.BackupRequest{Table: []byte(tblData)})
		if err != nil {
			return err
		}
		var chunks []*pb.SnapshotChunk
		for {
			ch, err := st.Recv()
			if errors.Is(err, io.EOF) {
				break
			}
			if err != nil {
				return err
			}
			chunks = append(chunks, ch)
		}
		if len(chunks) == 0 {
			return errors.New("empty backup")
		}
		g.backup = chunks
		return nil
	})
}

// ---- the probe loop ----------------------------------------------------------------------------

type tokProbe struct {
	N        int    `json:"n"`
	Method   method `json:"method"`
	Cred     cred   `json:"credential"`
	Spelling string `json:"path_spelling,omitempty"` // "" = canonical
	Path     string `json:"path"`                    // the :path actually sent
}

type tokWitness struct {
	Group   string    `json:"group"`
	Tier    string    `json:"tier"`
	Seed    int64     `json:"seed"`
	Flavour string    `json:"flavour"`
	Config  instSpec  `json:"instance"`
	Probe   *tokProbe `json:"probe,omitempty"`
	Call    string    `json:"call,omitempty"`
	Outcome *outcome  `json:"outcome,omitempty"`
	Expect  string    `json:"expected"`
	Diff    string    `json:"state_diff,omitempty"`
	Args    []string  `json:"server_args,omitempty"`
}

func (g *tokGroup) witness(p *tokProbe, o *outcome, expect, diff string) tokWitness {
	w := tokWitness{Group: g.id, Tier: g.r.Tier, Seed: g.r.Seed, Flavour: g.flavour, Config: g.spec, Probe: p, Outcome: o, Expect: expect, Diff: diff}
	if g.target != nil {
		w.Args = g.target.args
	}
	return w
}

// probes builds the shuffled probe list: every protected method x every credential.
func (g *tokGroup) probes() []tokProbe {
	var ps []tokProbe
	for _, m := range protectedMethods() {
		right, other := g.tokenFor(m)
		creds := tokenCreds(g.rng, right, other, g.all)
		for _, c := range creds {
			ps = append(ps, tokProbe{Method: m, Cred: c, Path: m.Full})
		}
		// the same method under other spellings of the :path, with one credential per class
		// of a fixed selection (whatever the server routes is judged like the canonical name)
		want := []string{"right", "no-metadata", "empty-header", "empty-token", "substituted-char", "prefix", "case-flip-one", "other-service-token", "scheme-basic"}
		if g.all {
			want = append(want, "suffix-ext", "double-space", "random-token", "right-scheme-lower")
		}
		for _, sp := range spellings {
			seen := map[string]bool{}
			for _, c := range creds {
				if seen[c.Class] || !contains(want, c.Class) {
					continue
				}
				seen[c.Class] = true
				ps = append(ps, tokProbe{Method: m, Cred: c, Spelling: sp.Name, Path: sp.F(m.Full)})
			}
		}
	}
	g.rng.Shuffle(len(ps), func(i, j int) { ps[i], ps[j] = ps[j], ps[i] })
	if g.flavour == "follower" {
		// an admitted Reset makes the follower re-replicate, which moves revisions for a while:
		// keep the probes the oracle admits for Reset at the end, so that all refused ones are
		// judged against a quiescent state including revisions.
		sort.SliceStable(ps, func(i, j int) bool {
			a := ps[i].Method.Full == pb.Maintenance_Reset_FullMethodName && ps[i].Cred.Admit
			b := ps[j].Method.Full == pb.Maintenance_Reset_FullMethodName && ps[j].Cred.Admit
			return !a && b
		})
	}
	for i := range ps {
		ps[i].N = i
	}
	return ps
}

func contains(l []string, x string) bool {
	for _, e := range l {
		if e == x {
			return true
		}
	}
	return false
}

// runProbes is the monitor proper.
func (g *tokGroup) runProbes() {
	r := g.r
	base, err := g.dump()
	if err != nil {
		r.Inconclusive(g.id + ": initial dump failed: " + err.Error())
		return
	}
	rebase := func() bool {
		d, err := g.dump()
		if err != nil {
			r.Inconclusive(g.id + ": dump failed: " + err.Error())
			return false
		}
		base = d
		return true
	}
	g.routed = map[string]bool{}
	measured := map[string]bool{}
	for _, sp := range spellings {
		routed, ok := g.calibrateRouting(sp)
		if !ok {
			r.Inconclusive(fmt.Sprintf("%s: routing of :path spelling %q could not be measured", g.id, sp.Name))
			continue
		}
		measured[sp.Name], g.routed[sp.Name] = true, routed
		if routed {
			r.Distinct("path_spellings_routed_by_server", sp.Name)
		} else {
			r.Distinct("path_spellings_not_routed_by_server", sp.Name)
		}
	}
	for _, p := range g.probes() {
		p := p
		if p.Spelling != "" && !measured[p.Spelling] {
			continue
		}
		routed := p.Spelling == "" || g.routed[p.Spelling]
		if !routed && !contains([]string{"no-metadata", "right", "substituted-char"}, p.Cred.Class) {
			continue // a spelling the server does not route: three credentials are enough
		}
		if !g.target.alive() {
			r.Inconclusive(fmt.Sprintf("%s: server process is gone before probe %d (%s); log tail: %s", g.id, p.N, p.Method.short(), lastLine(g.target.logTail(3))))
			return
		}
		// preconditions that make an admitted call visible
		if !g.noDump && p.Method.Full == pb.Tables_Delete_FullMethodName && g.flavour == "leader" && !strings.Contains(base, fmt.Sprintf("table %q", tblVictim)) {
			if err := g.ensureTable(tblVictim, 3); err != nil {
				r.Inconclusive(g.id + ": cannot recreate victim table: " + err.Error())
				return
			}
			if !rebase() {
				return
			}
		}
		g.createN++
		createName := fmt.Sprintf("c17new%04d", g.createN)
		var o outcome
		for attempt := 0; attempt < 4; attempt++ {
			ctx, cancel := context.WithTimeout(context.Background(), 20*time.Second)
			o = g.call(p.Cred.ctx(ctx), p.Method, p.Path, createName)
			cancel()
			if !o.transient() {
				break
			}
			time.Sleep(300 * time.Millisecond)
		}
		r.Count("token_probes", 1)
		r.Count("token_probes_"+g.flavour, 1)
		r.Distinct("protected_methods_"+g.flavour, p.Method.short())
		r.Distinct("credential_classes", p.Cred.Class)
		r.Count("outcome_"+o.CodeS, 1)
		if o.transient() {
			r.Inconclusive(fmt.Sprintf("%s: probe %d %s with %s: %s %s", g.id, p.N, p.Method.short(), p.Cred.Class, o.CodeS, o.Msg))
			if !rebase() {
				return
			}
			continue
		}
		key := fmt.Sprintf("%s-%s-%s", g.flavour, p.Method.short(), p.Cred.Class)
		if p.Spelling != "" {
			key += "@path:" + p.Spelling
			r.Count("noncanonical_path_probes", 1)
			if routed {
				r.Count("noncanonical_path_probes_routed", 1)
			}
		}
		// noEffectExpected: the call was refused, or the server does not route this spelling at
		// all and said so (the answer came from the framework, no handler ran)
		noEffectExpected := o.refused()
		switch {
		case !routed:
			if o.Code != codes.OK && !o.GotData {
				noEffectExpected = true
			} else if !p.Cred.Admit {
				r.Violation("admitted-"+key,
					fmt.Sprintf("%s %s sent as :path %q (a spelling this server does not route for unprotected calls) with credential %q %v was answered %s (data received: %v)",
						g.flavour, p.Method.short(), p.Path, p.Cred.Class, p.Cred.MD, o.CodeS, o.GotData),
					g.witness(&p, &o, "Unauthenticated or not routed", ""))
			}
		case !p.Cred.Admit && !o.refused():
			r.Violation("admitted-"+key,
				fmt.Sprintf("%s %s (%s) sent as :path %q with credential %q %v was not refused: code %s %q (data received: %v); maintenance.token=%q tables.token=%q",
					g.flavour, p.Method.short(), p.Method.Kind, p.Path, p.Cred.Class, p.Cred.MD, o.CodeS, o.Msg, o.GotData, g.spec.MaintToken, g.spec.TablesToken),
				g.witness(&p, &o, "Unauthenticated", ""))
		case p.Cred.Admit && o.refused():
			r.Violation("refused-right-token-"+key,
				fmt.Sprintf("%s %s (:path %q) called with the configured token (%v) was refused: %s %q", g.flavour, p.Method.short(), p.Path, p.Cred.MD, o.CodeS, o.Msg),
				g.witness(&p, &o, "admitted (any code but Unauthenticated)", ""))
		}
		if o.refused() && o.GotData {
			r.Violation("data-with-refusal-"+key, fmt.Sprintf("%s %s answered Unauthenticated after delivering data", g.flavour, p.Method.short()), g.witness(&p, &o, "no data", ""))
		}
		// effect check
		after, err := g.dump()
		if err != nil {
			r.Inconclusive(g.id + ": dump after probe failed: " + err.Error())
			return
		}
		r.Count("state_dumps", 1)
		if noEffectExpected {
			r.Count("refusals_followed_by_dump", 1)
			if after != base {
				r.Violation("effect-after-refusal-"+key,
					fmt.Sprintf("%s %s (:path %q) was refused (%s) but the state read back through the API (Tables/List ids, KV/Range contents, per-table applied index of Cluster/Status where quiescent) changed: %s", g.flavour, p.Method.short(), p.Path, o.CodeS, firstDiff(base, after)),
					g.witness(&p, &o, "state unchanged", firstDiff(base, after)))
			}
		} else {
			r.Count("admitted_calls", 1)
			if os.Getenv("C17_DEBUG") != "" {
				fmt.Printf("DEBUG %s admitted %s %s: %s | %s\n", g.id, p.Method.short(), o.CodeS, o.Msg, firstDiff(base, after))
			}
			if after != base {
				r.Count("admitted_calls_with_visible_effect", 1)
			}
			// clean up what an admitted Create made, so the instance stays small
			if !g.noDump && p.Method.Full == pb.Tables_Create_FullMethodName && g.flavour == "leader" && o.Code == codes.OK {
				if err := g.deleteTable(createName); err != nil {
					r.Inconclusive(g.id + ": cleanup delete failed: " + err.Error())
					return
				}
			}
			if g.flavour == "follower" && p.Method.Full == pb.Maintenance_Reset_FullMethodName && g.withRev {
				g.withRev = false // follower re-replicates now; revisions are in flux from here on
			}
			if after, err = g.dump(); err != nil {
				r.Inconclusive(g.id + ": dump failed: " + err.Error())
				return
			}
		}
		base = after
		r.Eval(1)
		if p.Cred.Near || (p.Spelling != "" && routed) {
			r.Nontrivial("tok|" + key + "|" + fmt.Sprint(p.Cred.MD))
			r.Count("near_miss_token_probes", 1)
		}
		if p.Spelling != "" && routed && !p.Cred.Admit {
			keep("token-path-"+g.flavour, map[string]any{"group": g.id, "method": p.Method.short(), "kind": p.Method.Kind, "path_sent": p.Path, "spelling": p.Spelling,
				"credential": p.Cred.Class, "metadata": p.Cred.MD, "code": o.CodeS, "message": o.Msg})
		}
		if p.Cred.Near && p.N%11 == 3 {
			keep("token-"+g.flavour, map[string]any{"group": g.id, "method": p.Method.short(), "kind": p.Method.Kind, "path_sent": p.Path, "credential": p.Cred.Class, "metadata": p.Cred.MD,
				"oracle_admit": p.Cred.Admit, "code": o.CodeS, "message": o.Msg})
		}
	}
}

// runUnaffected: KV and Cluster answer no matter what the call carries.
func (g *tokGroup) runUnaffected() {
	r := g.r
	creds := tokenCreds(g.rng, g.spec.TablesToken, g.spec.MaintToken, false)
	kc := pb.NewKVClient(g.conn)
	cc := pb.NewClusterClient(g.conn)
	type ucall struct {
		name string
		f    func(ctx context.Context) error
	}
	calls := []ucall{
		{"KV/Range", func(ctx context.Context) error {
			_, e := kc.Range(ctx, &pb.RangeRequest{Table: []byte(tblData), Key: []byte{0}, RangeEnd: []byte{0}})
			return e
		}},
		{"KV/IterateRange", func(ctx context.Context) error {
			st, e := kc.IterateRange(ctx, &pb.RangeRequest{Table: []byte(tblData), Key: []byte{0}, RangeEnd: []byte{0}})
			if e != nil {
				return e
			}
			for {
				if _, e := st.Recv(); e != nil {
					if errors.Is(e, io.EOF) {
						return nil
					}
					return e
				}
			}
		}},
		{"KV/Txn", func(ctx context.Context) error {
			_, e := kc.Txn(ctx, &pb.TxnRequest{Table: []byte(tblData), Success: []*pb.RequestOp{{Request: &pb.RequestOp_RequestRange{RequestRange: &pb.RequestOp_Range{Key: []byte(tblData + "/key-000")}}}}})
			return e
		}},
		{"Cluster/Status", func(ctx context.Context) error { _, e := cc.Status(ctx, &pb.StatusRequest{}); return e }},
		{"Cluster/MemberList", func(ctx context.Context) error { _, e := cc.MemberList(ctx, &pb.MemberListRequest{}); return e }},
	}
	if g.flavour == "leader" {
		calls = append(calls,
			ucall{"KV/Put", func(ctx context.Context) error {
				_, e := kc.Put(ctx, &pb.PutRequest{Table: []byte(tblData), Key: []byte(tblData + "/key-000"), Value: []byte("value-0-")})
				return e
			}},
			ucall{"KV/DeleteRange", func(ctx context.Context) error {
				_, e := kc.DeleteRange(ctx, &pb.DeleteRangeRequest{Table: []byte(tblData), Key: []byte("no-such-key")})
				return e
			}})
	}
	for _, c := range creds {
		for _, u := range calls {
			var o outcome
			for attempt := 0; attempt < 4; attempt++ {
				ctx, cancel := context.WithTimeout(context.Background(), 10*time.Second)
				o = mkOutcome(u.f(c.ctx(ctx)), false)
				cancel()
				if !o.transient() {
					break
				}
				time.Sleep(300 * time.Millisecond)
			}
			r.Count("unprotected_calls", 1)
			r.Distinct("unprotected_methods", u.name)
			if c.Near {
				keep("unprotected", map[string]any{"group": g.id, "call": u.name, "metadata": c.MD, "code": o.CodeS})
			}
			if o.transient() {
				r.Inconclusive(fmt.Sprintf("%s: %s with %s: %s %s", g.id, u.name, c.Class, o.CodeS, o.Msg))
				continue
			}
			if o.refused() || o.Code == codes.PermissionDenied {
				p := tokProbe{Cred: c}
				w := g.witness(&p, &o, "answered (not Unauthenticated)", "")
				w.Call = u.name
				r.Violation(fmt.Sprintf("unprotected-service-refused-%s-%s", g.flavour, u.name),
					fmt.Sprintf("%s %s is not a protected service but answered %s %q for metadata %v (%s)", g.flavour, u.name, o.CodeS, o.Msg, c.MD, c.Class), w)
			}
			r.Eval(1)
		}
	}
}

// runControl: with an empty configured token every call of the protected services is admitted.
func runControl(r *ev.Run, id, flavour string, in *instance, conn *grpc.ClientConn, rng *rand.Rand) {
	g := &tokGroup{r: r, id: id, flavour: flavour, rng: rng, spec: in.spec, target: in, conn: conn, control: true}
	g.backup = []*pb.SnapshotChunk{{Data: []byte("not a snapshot"), Len: 14}}
	fake := randToken(rng, "alnum")
	creds := tokenCreds(rng, fake, randToken(rng, "alnum"), false)
	for _, m := range protectedMethods() {
		for i, c := range creds {
			if i > 12 && c.Class != "no-metadata" && c.Class != "empty-header" {
				continue
			}
			var o outcome
			for attempt := 0; attempt < 4; attempt++ {
				ctx, cancel := context.WithTimeout(context.Background(), 20*time.Second)
				o = g.call(c.ctx(ctx), m, m.Full, "") // Create with an empty name: InvalidArgument after admission, no effect
				cancel()
				if !o.transient() {
					break
				}
				time.Sleep(300 * time.Millisecond)
			}
			r.Count("control_probes", 1)
			r.Distinct("control_methods_"+flavour, m.short())
			keep("control", map[string]any{"group": id, "configured_tokens": "empty", "method": m.short(), "metadata": c.MD, "code": o.CodeS, "message": o.Msg})
			if o.transient() {
				r.Inconclusive(fmt.Sprintf("%s: %s with %s: %s %s", id, m.short(), c.Class, o.CodeS, o.Msg))
				continue
			}
			if o.refused() {
				p := tokProbe{Method: m, Cred: c}
				r.Violation(fmt.Sprintf("empty-configured-token-refused-%s-%s", flavour, m.short()),
					fmt.Sprintf("%s started with empty tokens refused %s with metadata %v: %s %q", flavour, m.short(), c.MD, o.CodeS, o.Msg),
					g.witness(&p, &o, "admitted (no token configured)", ""))
			}
			r.Eval(1)
		}
	}
}
