// C17 — protected endpoints reject callers lacking the right token or certificate.
//
// Black-box check against the real regatta binary (leader and follower flavours) plus an
// in-process check of security.TLSInfo.ServerConfig() behind a real TLS listener.
//
//   - tokens: every method of the Maintenance and Tables services (enumerated from the generated
//     service descriptors) x crafted metadata; oracle = Unauthenticated unless the bearer token is
//     exactly the configured one; after every call the table list and table contents are read
//     back through the API and must be unchanged after a refusal; KV / Cluster never care; an
//     instance with empty tokens admits everything.
//   - certificates: a PKI minted at run time; oracle = predicate over the construction
//     parameters of the client certificate (chains to the trusted CA, inside validity, key
//     owned, exactly the allowed CN / valid for the allowed hostname).
//
// The work is split into groups (one server configuration each) that run concurrently; a replay
// re-runs the group of the recorded witness.
package main

import (
	"fmt"
	"hash/fnv"
	"math/rand"
	"os"
	"sync"
	"time"

	pb "github.com/jamf/regatta/regattapb"
	"google.golang.org/grpc/codes"
	"google.golang.org/grpc/status"

	"verifharness/internal/ev"
)

// samples are collected per category and flushed round-robin, so that the few samples the
// evidence keeps show every kind of probe.
var (
	sampleMu sync.Mutex
	sampleBy = map[string][]any{}
)

func keep(cat string, v any) {
	sampleMu.Lock()
	if len(sampleBy[cat]) < 2 {
		sampleBy[cat] = append(sampleBy[cat], v)
	}
	sampleMu.Unlock()
}

func flushSamples(r *ev.Run) {
	cats := []string{"token-leader", "token-path-leader", "tls-binary", "tls-ca-file-binary-leader", "tls-resumption", "tls-inproc", "tls-resumption-binary", "tls-ca-file-inproc", "control", "token-follower", "token-path-follower", "unprotected"}
	for round := 0; round < 2; round++ {
		for _, c := range cats {
			if len(sampleBy[c]) > round {
				r.Sample(sampleBy[c][round])
			}
		}
	}
}

type group struct {
	id  string
	run func(r *ev.Run, rng *rand.Rand)
}

func groupRng(seed int64, id string) *rand.Rand {
	h := fnv.New64a()
	h.Write([]byte(id))
	return rand.New(rand.NewSource(seed*1_000_003 + int64(h.Sum64()&0x7fffffff)))
}

func tokenGroup(id, flavour, style string, all bool) group {
	return group{id: id, run: func(r *ev.Run, rng *rand.Rand) { runTokenGroup(r, id, flavour, style, all, rng) }}
}

// pickTokens returns (maintenance, tables) tokens of the given style.
func pickTokens(rng *rand.Rand, style string) (string, string) {
	switch style {
	case "nested": // one token is a proper prefix of the other: the other service's token is a near miss
		a := randToken(rng, "alnum")
		b := a + randToken(rng, "alnum")[:3+rng.Intn(4)]
		if rng.Intn(2) == 0 {
			return a, b
		}
		return b, a
	case "commas":
		// configured values with a comma in a leading / trailing / doubled / blank-separated
		// position, or a plain "a,b": still ONE token each (seed picks which service gets which)
		forms := []func(a, b string) string{
			func(a, b string) string { return "," + b },
			func(a, b string) string { return a + "," },
			func(a, b string) string { return a + ",," + b },
			func(a, b string) string { return a + ", ," + b },
			func(a, b string) string { return a + "," + b },
			func(a, b string) string { return a + ", " + b },
		}
		// the first four forms contain an empty / blank list element; make sure each instance
		// carries two different ones of those, the plain lists come with the repetitions
		i := rng.Intn(4)
		j := (i + 1 + rng.Intn(3)) % 4
		if rng.Intn(5) == 0 {
			j = 4 + rng.Intn(2)
		}
		return forms[i](randToken(rng, "alnum"), randToken(rng, "alnum")), forms[j](randToken(rng, "alnum"), randToken(rng, "alnum"))
	case "casefold": // tokens that differ by letter case only
		a := randToken(rng, "alnum")
		lp := letterPositions(a)
		return a, flipCaseAt(a, lp[rng.Intn(len(lp))])
	default:
		a, b := randToken(rng, style), randToken(rng, style)
		for a == b {
			b = randToken(rng, style)
		}
		return a, b
	}
}

func runTokenGroup(r *ev.Run, id, flavour, style string, all bool, rng *rand.Rand) {
	g := &tokGroup{r: r, id: id, flavour: flavour, rng: rng, all: all}
	mt, tt := pickTokens(rng, style)
	var lead *instance
	var err error
	if flavour == "leader" {
		g.spec = instSpec{Name: id, Kind: "leader", MaintToken: mt, TablesToken: tt}
		lead, err = startInstance(g.spec, readyPlain(tt))
		if err != nil {
			r.Inconclusive(id + ": leader did not start: " + firstLine(err.Error()))
			return
		}
		g.target = lead
		defer func() { r.Distinct("server_exit", lead.stop()) }()
	} else {
		lmt, ltt := pickTokens(rng, "alnum")
		g.lspec = instSpec{Name: id + "-ld", Kind: "leader", MaintToken: lmt, TablesToken: ltt}
		lead, err = startInstance(g.lspec, readyPlain(ltt))
		if err != nil {
			r.Inconclusive(id + ": leader did not start: " + firstLine(err.Error()))
			return
		}
		defer func() { r.Distinct("server_exit", lead.stop()) }()
		g.lconn, err = dialPlain(lead.api)
		if err != nil {
			r.Inconclusive(id + ": dial leader: " + err.Error())
			return
		}
		defer g.lconn.Close()
		g.spec = instSpec{Name: id, Kind: "follower", MaintToken: mt, TablesToken: tt, LeaderRepl: lead.repl}
		fol, err := startInstance(g.spec, readyPlain(tt))
		if err != nil {
			r.Inconclusive(id + ": follower did not start: " + firstLine(err.Error()))
			return
		}
		g.target = fol
		defer func() { r.Distinct("server_exit", fol.stop()) }()
	}
	g.conn, err = dialPlain(g.target.api)
	if err != nil {
		r.Inconclusive(id + ": dial: " + err.Error())
		return
	}
	defer g.conn.Close()

	g.preflight()
	if g.noDump && flavour == "leader" {
		// no way to set tables up through the API: probe with the status oracle only
		g.backup = []*pb.SnapshotChunk{{Data: []byte("not a snapshot"), Len: 14}}
		g.runProbes()
		g.runUnaffected()
		return
	}
	// set-up through the leader with the right tokens
	if err := g.ensureTable(tblData, 12); err != nil {
		r.Inconclusive(id + ": set-up: " + err.Error())
		return
	}
	if err := g.ensureTable(tblVictim, 3); err != nil {
		r.Inconclusive(id + ": set-up: " + err.Error())
		return
	}
	if flavour == "leader" {
		if err := g.captureBackup(); err != nil {
			if status.Code(err) != codes.Unauthenticated { // refusal of the right token: reported by preflight
				r.Inconclusive(id + ": set-up backup: " + err.Error())
				return
			}
			g.backup = []*pb.SnapshotChunk{{Data: []byte("not a snapshot"), Len: 14}}
		}
	} else if !g.noDump {
		// wait (watchdog 45 s) until the follower shows the leader's tables and content, then
		// until two dumps 1 s apart are identical including revisions (replication quiescent)
		g.backup = nil
		want, err := dumpState(g.lconn, g.lspec.TablesToken, false)
		if err != nil {
			r.Inconclusive(id + ": leader dump: " + err.Error())
			return
		}
		deadline := time.Now().Add(45 * time.Second)
		converged := false
		var prev string
		for time.Now().Before(deadline) {
			got, err := dumpState(g.conn, tt, true)
			if err == nil && contentOnly(stripRev(got)) == contentOnly(want) {
				if got == prev {
					converged = true
					break
				}
				prev = got
				time.Sleep(time.Second)
				continue
			}
			prev = ""
			time.Sleep(200 * time.Millisecond)
		}
		if !converged {
			r.Inconclusive(id + ": follower did not converge to its leader within the watchdog")
			return
		}
		g.withRev = true
	}
	g.runProbes()
	g.runUnaffected()
}

// stripRev removes " applied=N" from table lines so that leader and follower dumps compare.
func stripRev(d string) string {
	out := make([]byte, 0, len(d))
	for i := 0; i < len(d); {
		if i+9 <= len(d) && d[i:i+9] == " applied=" {
			j := i + 9
			for j < len(d) && d[j] >= '0' && d[j] <= '9' {
				j++
			}
			i = j
			continue
		}
		out = append(out, d[i])
		i++
	}
	return string(out)
}

// groups builds the seed- and tier-determined list of groups. A group id names its scratch
// directories, seeds its PRNG and is what a replay selects.
func groups(r *ev.Run) []group {
	all := r.Thorough()
	type def func(id string) group
	tok := func(flavour, style string) def {
		return func(id string) group { return tokenGroup(id, flavour, style, all) }
	}
	tlsBin := func(kind string, mk func(rng *rand.Rand) serverOpts, control bool) def {
		return func(id string) group {
			return group{id: id, run: func(r *ev.Run, rng *rand.Rand) {
				runTLSBinary(r, tlsBinGroup{id: id, kind: kind, opts: mk(rng), control: control}, rng, all)
			}}
		}
	}
	tlsIn := func(id string) group {
		return group{id: id, run: func(r *ev.Run, rng *rand.Rand) { runTLSInproc(r, id, rng, all) }}
	}
	opts := func(cca bool, name string) func(rng *rand.Rand) serverOpts {
		return func(rng *rand.Rand) serverOpts {
			o := serverOpts{CA: true, ClientCertAuth: cca}
			switch name {
			case "cn":
				o.AllowedCN = randCN(rng)
			case "host-dns":
				o.AllowedHostname = randHost(rng)
			case "host-ip":
				o.AllowedHostname = randIP(rng)
			}
			return o
		}
	}
	type named struct {
		id string
		mk def
	}
	list := []named{
		{"tok-leader-alnum", tok("leader", "alnum")},
		{"tok-follower-nested", tok("follower", "nested")},
		{"tok-leader-commas", tok("leader", "commas")},
		{"tok-follower-commas", tok("follower", "commas")},
		{"tlsbin-leader-ca+cca+cn", tlsBin("leader", opts(true, "cn"), true)},
		{"tlsbin-leader-ca+host-dns", tlsBin("leader", opts(false, "host-dns"), false)},
		{"tlsbin-follower-ca+cn", tlsBin("follower", opts(false, "cn"), true)},
		{"tlsin", tlsIn},
	}
	reps := 1
	if all {
		reps = 3 // every group again with other tokens / names / PKIs
		list = append(list,
			named{"tok-leader-special", tok("leader", "special")},
			named{"tok-leader-spaced", tok("leader", "spaced")},
			named{"tok-leader-nested", tok("leader", "nested")},
			named{"tok-leader-casefold", tok("leader", "casefold")},
			named{"tok-follower-alnum", tok("follower", "alnum")},
			named{"tok-follower-special", tok("follower", "special")},
			named{"tok-follower-casefold", tok("follower", "casefold")},
			named{"tlsbin-leader-ca", tlsBin("leader", opts(false, ""), false)},
			named{"tlsbin-leader-ca+cca", tlsBin("leader", opts(true, ""), false)},
			named{"tlsbin-leader-ca+cn", tlsBin("leader", opts(false, "cn"), false)},
			named{"tlsbin-leader-ca+cca+host-dns", tlsBin("leader", opts(true, "host-dns"), false)},
			named{"tlsbin-leader-ca+cca+host-ip", tlsBin("leader", opts(true, "host-ip"), false)},
			named{"tlsbin-leader-ca+host-ip", tlsBin("leader", opts(false, "host-ip"), false)},
			named{"tlsbin-follower-ca+cca+cn", tlsBin("follower", opts(true, "cn"), false)},
			named{"tlsbin-follower-ca+host-dns", tlsBin("follower", opts(false, "host-dns"), false)},
			named{"tlsbin-follower-ca", tlsBin("follower", opts(false, ""), false)},
		)
	}
	var gs []group
	for k := 0; k < reps; k++ {
		for _, n := range list {
			id := n.id
			if k > 0 {
				id = fmt.Sprintf("%s.r%d", n.id, k)
			}
			gs = append(gs, n.mk(id))
		}
	}
	return gs
}

func main() {
	r := ev.Start("C17", "exploration")
	installSignalCleanup()
	if err := initHostTrust(scratchDir()); err != nil { // before any use of the x509 system pool
		fmt.Fprintln(os.Stderr, "c17: host trust store:", err)
		os.Exit(2)
	}
	// global watchdog: every single wait in this driver has its own deadline; this one only
	// guards against the unforeseen. Expiry is "check broken", never a verdict.
	time.AfterFunc(25*time.Minute, func() {
		fmt.Println("INCONCLUSIVE property=C17 global watchdog (25 min) expired")
		killAll()
		os.Exit(2)
	})
	code := func() int {
		defer func() {
			killAll()
			if ownScratch != "" {
				_ = os.RemoveAll(ownScratch)
			}
		}()
		return run(r)
	}()
	_ = code
	r.Finish()
}

func run(r *ev.Run) int {
	r.Rule("groups = one server configuration each (real binary leader/follower with seed-chosen tokens; real binary with https + client-CA + allowed-cn / allowed-hostname; " +
		"security.TLSInfo.ServerConfig() behind an in-process TLS listener for every option set). Token probes = every method of Maintenance and Tables (from the generated service descriptors) " +
		"x credential variants derived from the configured token (none, empty, prefix, tail, extension, case, other scheme, spacing, other header, other service's token), in seed-shuffled order, " +
		"each followed by a dump of table list + contents through the API; every method is also sent under other spellings of the HTTP/2 :path (no leading slash, double slash, case, trailing slash, ...) through conn.Invoke/NewStream, " +
		"and whatever spelling the server routes (measured per instance with unprotected calls) is judged like the canonical name. " +
		"Certificate probes = credentials minted from construction parameters (issuer - incl. a CA that is only in the server's host trust store -, validity, key ownership, CN, SANs, unrelated extra certificates sent along with the leaf). " +
		"CA-file scenarios = the configured CA file of a running endpoint (in-process and binary) is removed / half-written / replaced by a directory / emptied / rotated / restored while clients connect. " +
		"Configured tokens include values with commas in leading / trailing / doubled / blank-separated positions (still one token), probed additionally with every separated part of the token. " +
		"Session scenarios = endpoints serving the same server key pair but differing in client CA / allowed CN / allowed hostname (in-process ServerConfig() instances; the binary leader's API vs replication endpoint): " +
		"a client right for A with a TLS session cache completes a round trip at A and then connects to B (TLS 1.2 and 1.3); B must judge it by its own rule. " +
		"Non-trivial = a near-miss credential (differs from the right one in one construction parameter); distinct by flavour+method+metadata resp. option set+variant+names+client TLS version")
	r.Assume(
		"scheme of the authorization header is compared case-insensitively (documented by grpc-middleware AuthFromMD, rfc2617 1.2); the token itself byte-exactly",
		"a call counts as refused iff its status is Unauthenticated and as admitted iff it got any status produced behind the interceptor (OK, Unimplemented, InvalidArgument, ...); Unavailable/DeadlineExceeded are inconclusive",
		"several authorization values in one call are not probed (which one counts is not stated)",
		"for acceptance only the canonical right credential is binding; variants the reference predicate accepts (intermediate chain, extra SANs, wildcard, upper-case SAN) and an address written as text into a dNSName SAN are recorded, not judged",
		"'valid for that hostname' is the x509 rule: the name is among the certificate's subjectAltNames of the matching type (dNSName resp. iPAddress); the subject CN is never an identity, with or without SANs",
		"option sets without a trusted CA are outside the statement: their outcomes are recorded, not judged",
		"a :path spelling counts as routed by the server iff an unprotected unary call (Cluster/Status) or server stream (KV/IterateRange) spelled that way is answered OK; an unrouted spelling must not answer OK and must leave the state unchanged",
		"where a client obtained a TLS session is irrelevant to the endpoint it presents it to: the oracle for the second endpoint is the same predicate over the certificate's construction parameters",
		"the server's host trust store (SSL_CERT_FILE / SSL_CERT_DIR of the child processes and of this process) holds exactly one CA of the driver's own that is never configured as a client CA",
		"CA-file states: the refusal side is judged while the file content is the configured one or the file cannot be read/parsed; an emptied or rotated file is a configuration change the statement does not define (recorded only); the rightful client is binding only while the content is the configured one (before, and after the file is restored)",
		"a configured token is one opaque string whatever characters it contains; if an instance refuses its own configured token the monitor reports that and judges the remaining probes on the status alone (no state dumps possible)",
		"the client's certificate is the leaf it proves possession of; certificates it merely sends along (not part of the leaf's chain) never lend their names to it",
		"acceptance over TLS is decided by a round trip (server-side handshake result + ping/pong in-process, Cluster/Status RPC against the binary), never by the client-side handshake alone",
		"the follower's Reset effect is observed through table revisions while replication is quiescent (oracle-admitted Reset probes are ordered last)",
	)
	gs := groups(r)
	if r.Replay != "" {
		var w struct {
			Group string `json:"group"`
			Tier  string `json:"tier"`
			Seed  int64  `json:"seed"`
		}
		if _, err := r.ReadReplay(&w); err != nil {
			fmt.Fprintln(os.Stderr, "replay:", err)
			return 2
		}
		if w.Tier != "" {
			r.Tier = w.Tier
		}
		r.Seed = w.Seed
		var sel []group
		base := w.Group
		for i := 0; i < len(base); i++ {
			if base[i] == '/' { // "<group>/control"
				base = base[:i]
				break
			}
		}
		for _, g := range groups(r) {
			if g.id == base {
				sel = append(sel, g)
			}
		}
		if len(sel) == 0 {
			fmt.Fprintln(os.Stderr, "replay: unknown group", w.Group)
			return 2
		}
		gs = sel
		fmt.Printf("replay: re-running group %s (tier %s, seed %d)\n", base, r.Tier, r.Seed)
	}

	var wallMu sync.Mutex
	walls := map[string]float64{}
	par := 12
	sem := make(chan struct{}, par)
	var wg sync.WaitGroup
	for _, g := range gs {
		g := g
		wg.Add(1)
		go func() {
			defer wg.Done()
			sem <- struct{}{}
			defer func() { <-sem }()
			t0 := time.Now()
			g.run(r, groupRng(r.Seed, g.id))
			wallMu.Lock()
			walls[g.id] = float64(time.Since(t0).Milliseconds()) / 1000
			wallMu.Unlock()
			r.Distinct("groups_run", g.id)
		}()
	}
	wg.Wait()
	flushSamples(r)
	r.Extra("group_wall_s", walls)
	r.Extra("server_start_retries_after_port_clash", startRetries.Load())
	unjMu.Lock()
	if len(unj) > 0 {
		r.Extra("unjudged_outcomes", unj)
	}
	unjMu.Unlock()

	if r.Replay == "" {
		nm := int64(len(protectedMethods()))
		r.FloorDistinct("protected_methods_leader", nm)
		r.FloorDistinct("protected_methods_follower", nm)
		r.FloorDistinct("control_methods_leader", nm)
		r.FloorDistinct("control_methods_follower", nm)
		r.FloorDistinct("unprotected_methods", 7)
		r.FloorCount("token_probes", int64(r.Pick(400, 10000)))
		r.FloorCount("refusals_followed_by_dump", int64(r.Pick(350, 9000)))
		r.FloorCount("admitted_calls", int64(r.Pick(36, 400)))
		r.FloorCount("admitted_calls_with_visible_effect", int64(r.Pick(9, 100)))
		r.FloorCount("unprotected_calls", int64(r.Pick(350, 4000)))
		r.FloorCount("control_probes", int64(r.Pick(100, 300)))
		r.FloorCount("handshakes_inproc", int64(r.Pick(600, 4000)))
		r.FloorCount("tls_rpc_probes", int64(r.Pick(90, 3000)))
		r.FloorCount("near_miss_token_probes", int64(r.Pick(350, 9000)))
		r.FloorCount("near_miss_certificates", int64(r.Pick(330, 4500)))
		r.FloorCount("tls_observed_accepted", int64(r.Pick(150, 1000)))
		r.FloorCount("multi_certificate_client_messages", int64(r.Pick(90, 550)))
		r.FloorCount("host_trust_store_effective_inproc", 2)
		r.FloorCount("connections_under_ca_file_states", int64(r.Pick(300, 2500)))
		r.FloorCount("noncanonical_path_probes", int64(r.Pick(250, 3500)))
		r.FloorCount("connections_with_session_from_other_endpoint", int64(r.Pick(90, 300)))
		r.FloorDistinct("option_sets_inproc", 16)
		r.FloorDistinct("option_sets_binary", int64(r.Pick(3, 12)))
		r.FloorNontrivial(int64(r.Pick(750, 14000)))
	}
	return 0
}
