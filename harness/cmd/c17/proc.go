package main

// Starting / stopping the real regatta binary on free loopback ports with scratch directories.
// Every child is registered in a global table and is killed (SIGTERM, then SIGKILL) before the
// driver exits, also on failure paths and on SIGINT/SIGTERM of the driver itself.

import (
	"context"
	"errors"
	"fmt"
	"net"
	"os"
	"os/exec"
	"os/signal"
	"path/filepath"
	"strings"
	"sync"
	"sync/atomic"
	"syscall"
	"time"
)

// tlsFlags are the --api.* TLS options of one instance.
type tlsFlags struct {
	Cert            string `json:"cert,omitempty"`
	Key             string `json:"key,omitempty"`
	CA              string `json:"ca,omitempty"`
	ClientCertAuth  bool   `json:"client_cert_auth,omitempty"`
	AllowedCN       string `json:"allowed_cn,omitempty"`
	AllowedHostname string `json:"allowed_hostname,omitempty"`
}

// instSpec describes one regatta process.
type instSpec struct {
	Name        string    `json:"name"`
	Kind        string    `json:"kind"` // leader | follower
	MaintToken  string    `json:"maintenance_token"`
	TablesToken string    `json:"tables_token"`
	TLS         *tlsFlags `json:"tls,omitempty"`
	ReplTLS     *tlsFlags `json:"replication_tls,omitempty"` // leader only: TLS options of the replication endpoint
	LeaderRepl  string    `json:"-"`                         // follower only: host:port of the leader's replication API
}

type instance struct {
	spec    instSpec
	dir     string
	logPath string
	api     string // host:port of the API server
	repl    string // host:port of the replication server (leader only)
	node    string // memberlist node name, unique per process start: identifies *our* server
	cmd     *exec.Cmd
	done    chan struct{}
	waitErr error
	args    []string
}

var (
	procMu sync.Mutex
	procs  = map[*instance]struct{}{}
	portMu sync.Mutex
	recent = map[int]time.Time{}
)

func scratchDir() string {
	if d := os.Getenv("SCRATCH"); d != "" {
		return d
	}
	d, err := os.MkdirTemp("/var/tmp", "verif.c17.")
	if err != nil {
		fmt.Fprintln(os.Stderr, "c17: cannot create scratch dir:", err)
		os.Exit(2)
	}
	os.Setenv("SCRATCH", d)
	ownScratch = d
	return d
}

var (
	ownScratch   string
	startRetries atomic.Int64
)

// installSignalCleanup makes sure children die when the driver is interrupted.
func installSignalCleanup() {
	ch := make(chan os.Signal, 2)
	signal.Notify(ch, os.Interrupt, syscall.SIGTERM, syscall.SIGHUP)
	go func() {
		<-ch
		killAll()
		if ownScratch != "" {
			_ = os.RemoveAll(ownScratch)
		}
		os.Exit(2)
	}()
}

func killAll() {
	procMu.Lock()
	all := make([]*instance, 0, len(procs))
	for p := range procs {
		all = append(all, p)
	}
	procMu.Unlock()
	var wg sync.WaitGroup
	for _, p := range all {
		wg.Add(1)
		go func(p *instance) { defer wg.Done(); p.stop() }(p)
	}
	wg.Wait()
}

// freePorts returns n distinct loopback ports that were free (TCP and UDP) a moment ago and were
// not handed out by this process during the last minute.
func freePorts(n int) ([]int, error) {
	portMu.Lock()
	defer portMu.Unlock()
	var (
		out   []int
		holdT []net.Listener
		holdU []net.PacketConn
	)
	defer func() {
		for _, l := range holdT {
			_ = l.Close()
		}
		for _, u := range holdU {
			_ = u.Close()
		}
	}()
	for tries := 0; len(out) < n && tries < 50*n; tries++ {
		l, err := net.Listen("tcp", "127.0.0.1:0")
		if err != nil {
			return nil, err
		}
		holdT = append(holdT, l)
		p := l.Addr().(*net.TCPAddr).Port
		if t, ok := recent[p]; ok && time.Since(t) < time.Minute {
			continue
		}
		u, err := net.ListenPacket("udp", fmt.Sprintf("127.0.0.1:%d", p))
		if err != nil {
			continue
		}
		holdU = append(holdU, u)
		recent[p] = time.Now()
		out = append(out, p)
	}
	if len(out) < n {
		return nil, errors.New("no free ports")
	}
	return out, nil
}

func (s instSpec) build(dir, node string, ports []int) (args []string, api, repl string) {
	hp := func(i int) string { return fmt.Sprintf("127.0.0.1:%d", ports[i]) }
	scheme := "http"
	if s.TLS != nil {
		scheme = "https"
	}
	args = []string{
		s.Kind, "--dev-mode", "--log-level=INFO",
		"--api.address=" + scheme + "://" + hp(0),
		"--api.advertise-address=" + scheme + "://" + hp(0),
		"--raft.address=" + hp(1),
		"--raft.initial-members=1=" + hp(1),
		"--raft.node-id=1",
		"--raft.node-host-dir=" + filepath.Join(dir, "nh"),
		"--raft.state-machine-dir=" + filepath.Join(dir, "sm"),
		"--raft.rtt=5ms",
		"--memberlist.address=" + hp(2),
		"--memberlist.node-name=" + node,
		"--rest.address=http://" + hp(3),
		"--maintenance.token=" + s.MaintToken,
		"--tables.token=" + s.TablesToken,
	}
	if s.Kind == "leader" {
		repl = hp(4)
		if t := s.ReplTLS; t != nil {
			args = append(args, "--replication.address=https://"+hp(4),
				"--replication.cert-filename="+t.Cert, "--replication.key-filename="+t.Key)
			if t.CA != "" {
				args = append(args, "--replication.ca-filename="+t.CA)
			}
			if t.ClientCertAuth {
				args = append(args, "--replication.client-cert-auth=true")
			}
		} else {
			args = append(args, "--replication.address=http://"+hp(4))
		}
	} else {
		args = append(args,
			"--replication.leader-address=http://"+s.LeaderRepl,
			"--replication.poll-interval=50ms",
			"--replication.reconcile-interval=300ms",
			"--replication.lease-interval=1s",
		)
	}
	if t := s.TLS; t != nil {
		if t.Cert != "" {
			args = append(args, "--api.cert-filename="+t.Cert)
		}
		if t.Key != "" {
			args = append(args, "--api.key-filename="+t.Key)
		}
		if t.CA != "" {
			args = append(args, "--api.ca-filename="+t.CA)
		}
		if t.ClientCertAuth {
			args = append(args, "--api.client-cert-auth=true")
		}
		if t.AllowedCN != "" {
			args = append(args, "--api.allowed-cn="+t.AllowedCN)
		}
		if t.AllowedHostname != "" {
			args = append(args, "--api.allowed-hostname="+t.AllowedHostname)
		}
	}
	return args, hp(0), repl
}

var errStartFailed = errors.New("process exited during start-up")

// startInstance starts the binary and waits until ready(inst) succeeds. Port clashes (process
// exits with an address error in its log) are retried with fresh ports up to 10 times. A
// start-up that does not complete within the watchdog is reported as an error by the caller as
// *inconclusive*, never as a violation. If the process exits for a reason that is not a port
// clash, errStartFailed (wrapped, with the log tail) is returned.
func startInstance(spec instSpec, ready func(ctx context.Context, in *instance) error) (*instance, error) {
	bin := os.Getenv("VERIF_REGATTA_BIN")
	if bin == "" {
		return nil, errors.New("VERIF_REGATTA_BIN is not set (run through /verif/check)")
	}
	var lastErr error
attempts:
	for attempt := 0; attempt < 10; attempt++ {
		ports, err := freePorts(5)
		if err != nil {
			return nil, err
		}
		dir := filepath.Join(scratchDir(), fmt.Sprintf("%s.%d", spec.Name, attempt))
		for _, d := range []string{dir, filepath.Join(dir, "tmp"), filepath.Join(dir, "home")} {
			if err := os.MkdirAll(d, 0o755); err != nil {
				return nil, err
			}
		}
		in := &instance{spec: spec, dir: dir, logPath: filepath.Join(dir, "log.txt"), done: make(chan struct{})}
		in.node = fmt.Sprintf("%s-%d-%d", spec.Name, os.Getpid(), attempt)
		in.args, in.api, in.repl = spec.build(dir, in.node, ports)
		if t := spec.ReplTLS; t != nil && (t.AllowedCN != "" || t.AllowedHostname != "") {
			// replication.allowed-cn / replication.allowed-hostname are read by the leader but have
			// no command line flag: they come from the configuration file (./config.yaml)
			cfgYAML := "replication:\n"
			if t.AllowedCN != "" {
				cfgYAML += fmt.Sprintf("  allowed-cn: %q\n", t.AllowedCN)
			}
			if t.AllowedHostname != "" {
				cfgYAML += fmt.Sprintf("  allowed-hostname: %q\n", t.AllowedHostname)
			}
			if err := os.WriteFile(filepath.Join(dir, "config.yaml"), []byte(cfgYAML), 0o600); err != nil {
				return nil, err
			}
		}
		logf, err := os.Create(in.logPath)
		if err != nil {
			return nil, err
		}
		if os.Getenv("C17_SELFTEST_CLASH") != "" && attempt == 0 {
			// self-test knob of the harness: occupy the API port so that the retry path is taken
			if l, err := net.Listen("tcp", in.api); err == nil {
				defer l.Close()
			}
		}
		cmd := exec.Command(bin, in.args...)
		cmd.Dir = dir // viper also looks for ./config.*
		cmd.Env = []string{"PATH=/usr/bin:/bin", "HOME=" + filepath.Join(dir, "home"), "TMPDIR=" + filepath.Join(dir, "tmp"),
			// the server's "host trust store" holds exactly the driver's host CA (see certs.go)
			"SSL_CERT_FILE=" + hostCAFile, "SSL_CERT_DIR=" + hostCertDir}
		cmd.Stdout, cmd.Stderr = logf, logf
		cmd.SysProcAttr = &syscall.SysProcAttr{Setpgid: true, Pdeathsig: syscall.SIGKILL}
		if err := cmd.Start(); err != nil {
			logf.Close()
			return nil, err
		}
		logf.Close()
		in.cmd = cmd
		procMu.Lock()
		procs[in] = struct{}{}
		procMu.Unlock()
		go func() { in.waitErr = cmd.Wait(); close(in.done) }()

		deadline := time.Now().Add(40 * time.Second) // watchdog only; expiry => inconclusive
		var rerr error
		for {
			select {
			case <-in.done:
				full := in.logAll()
				in.stop()
				if isAddrClash(full) {
					lastErr = fmt.Errorf("port clash: %s", errorLines(full))
					startRetries.Add(1)
					continue attempts
				}
				return nil, fmt.Errorf("%w: %v: %s", errStartFailed, in.waitErr, errorLines(full))
			default:
			}
			ctx, cancel := context.WithTimeout(context.Background(), 3*time.Second)
			rerr = ready(ctx, in)
			cancel()
			if rerr == nil && in.alive() {
				return in, nil
			}
			if time.Now().After(deadline) {
				tail := in.logTail(15)
				in.stop()
				return nil, fmt.Errorf("not ready after 40s (watchdog): %v\n%s", rerr, tail)
			}
			time.Sleep(100 * time.Millisecond)
		}
	}
	return nil, fmt.Errorf("no start after 10 attempts with fresh ports: %v", lastErr)
}

func isAddrClash(log string) bool {
	l := strings.ToLower(log)
	return strings.Contains(l, "address already in use") || strings.Contains(l, "bind:") ||
		strings.Contains(l, "failed to start tcp listener") || strings.Contains(l, "failed to obtain an address")
}

// errorLines extracts what the binary reported before its usage text.
func errorLines(log string) string {
	var out []string
	for _, l := range strings.Split(log, "\n") {
		if strings.HasPrefix(l, "Error:") || strings.Contains(l, "\tERROR\t") || strings.Contains(l, "panic") {
			if len(l) > 300 {
				l = l[:300]
			}
			out = append(out, l)
		}
	}
	if len(out) > 4 {
		out = out[len(out)-4:]
	}
	if len(out) == 0 {
		return lastLine(log)
	}
	return strings.Join(out, " | ")
}

func (in *instance) logAll() string {
	b, _ := os.ReadFile(in.logPath)
	if len(b) > 1<<20 {
		b = b[:1<<20]
	}
	return string(b)
}

func lastLine(s string) string {
	s = strings.TrimSpace(s)
	if i := strings.LastIndexByte(s, '\n'); i >= 0 {
		return s[i+1:]
	}
	return s
}

func (in *instance) alive() bool {
	select {
	case <-in.done:
		return false
	default:
		return true
	}
}

func (in *instance) logTail(n int) string {
	b, err := os.ReadFile(in.logPath)
	if err != nil {
		return ""
	}
	lines := strings.Split(strings.TrimRight(string(b), "\n"), "\n")
	if len(lines) > n {
		lines = lines[len(lines)-n:]
	}
	return strings.Join(lines, "\n")
}

// stop terminates the process: SIGTERM, wait up to 8 s, SIGKILL (whole process group).
// It returns a description of how the process ended (evidence only; not judged by C17).
func (in *instance) stop() string {
	if in == nil || in.cmd == nil || in.cmd.Process == nil {
		return "not started"
	}
	defer func() {
		procMu.Lock()
		delete(procs, in)
		procMu.Unlock()
	}()
	how := "already exited"
	if in.alive() {
		_ = in.cmd.Process.Signal(syscall.SIGTERM)
		select {
		case <-in.done:
			how = "exited on SIGTERM"
		case <-time.After(8 * time.Second):
			_ = syscall.Kill(-in.cmd.Process.Pid, syscall.SIGKILL)
			_ = in.cmd.Process.Kill()
			<-in.done
			how = "needed SIGKILL"
		}
	}
	if in.waitErr != nil {
		how += " (" + in.waitErr.Error() + ")"
	} else {
		how += " (status 0)"
	}
	// keep the log (small) but drop the data directories right away
	_ = os.RemoveAll(filepath.Join(in.dir, "nh"))
	_ = os.RemoveAll(filepath.Join(in.dir, "sm"))
	_ = os.RemoveAll(filepath.Join(in.dir, "tmp"))
	return how
}
