// C13 — the metadata store is a deterministic compare-and-set register map.
//
// Layer 1 (layer1.go): the real kv.LFSM driven through Update / Lookup / PrepareSnapshot /
// SaveSnapshot / RecoverFromSnapshot against an independent CAS model, two replicas fed the
// same entries in different apply batches, snapshot transfers at random points.
// Layer 2 (layer2.go): the real kv.RaftStore on a real single-node NodeHost, 8 concurrent
// clients, history checked with porcupine + version monotonicity.
// Layer 3 (conc.go): the concurrency the IConcurrentStateMachine contract permits, directly on
// one LFSM, under the race detector; race logs are scanned afterwards (race.go).
package main

import (
	"fmt"
	"math/rand"
	"os"
	"path"
	"runtime"
	"sort"
	"strings"
	"sync"
	"syscall"
	"time"

	"github.com/jamf/regatta/storage/kv"

	"verifharness/internal/ev"
)

var (
	repMu   sync.Mutex
	repSeen = map[string]int{}
)

// report forwards a violation; at most 2 witnesses per signature, the rest is only counted.
func report(r *ev.Run, sig, what string, witness any) {
	repMu.Lock()
	repSeen[sig]++
	n := repSeen[sig]
	repMu.Unlock()
	r.Count("violating_cases:"+sig, 1)
	if len(what) > 3000 {
		what = what[:3000] + "…"
	}
	if n <= 2 {
		r.Violation(sig, what, witness)
	}
}

// The Go race runtime turns exit status 0 into 66 when any report was printed, including
// reports that are entirely inside third-party code, which this check lists but does not
// judge. Re-exec once with exitcode=0 so that the exit status is the one ev.Finish decides.
func reexecForRaceExitCode() {
	if !raceEnabled || strings.Contains(os.Getenv("GORACE"), "exitcode=") {
		return
	}
	self, err := os.Executable()
	if err != nil {
		return
	}
	env := []string{}
	for _, e := range os.Environ() {
		if !strings.HasPrefix(e, "GORACE=") {
			env = append(env, e)
		}
	}
	env = append(env, strings.TrimSpace("GORACE="+os.Getenv("GORACE")+" exitcode=0"))
	_ = syscall.Exec(self, os.Args, env)
}

func parallel(n int, f func(i int)) {
	workers := runtime.GOMAXPROCS(0)
	if workers > 16 {
		workers = 16
	}
	var wg sync.WaitGroup
	ch := make(chan int, 64)
	for w := 0; w < workers; w++ {
		wg.Add(1)
		go func() {
			defer wg.Done()
			for i := range ch {
				f(i)
			}
		}()
	}
	for i := 0; i < n; i++ {
		ch <- i
	}
	close(ch)
	wg.Wait()
}

// selfTestGlob cross-checks the model's glob reader against path.Match (map.go documents
// path.Match syntax for GetAll patterns). A disagreement means the check is broken (exit 2).
func selfTestGlob(r *ev.Run) {
	g := newGen(r.Seed*31 + 7)
	g.profile = 2
	m := newCAS()
	fixed := [][2]string{{"/tables/*", "/tables/foo"}, {"/tables/*", "/tables/foo/lease"}, {"/tables/*", "/tables/"}, {"a[", "a"}, {"[]a]", "a"}, {"[^/]", "/"},
		{"\\", ""}, {"a\\", "a"}, {"[a-]", "a"}, {"[-a]", "a"}, {"*[", "x"}, {"**", "ab"}, {"*?", "a"}, {"[a-c-e]", "d"}, {"[\\]]", "]"}, {"?", "日"}, {"[日-本]", "木"}, {"x*[", "y"}}
	n, quirk := 0, 0
	check := func(pat, name string) {
		n++
		toks, ok := parseGlob(pat)
		if ok && byteSkipQuirk(toks, name) {
			quirk++
			return // not modelled, see byteSkipQuirk
		}
		want, err := path.Match(pat, name)
		got := ok && globMatch(toks, []rune(name))
		if ok != (err == nil) || got != want {
			fmt.Printf("check broken: model glob disagrees with path.Match on pattern %q name %q: model (valid=%v match=%v) path.Match (%v, %v)\n", pat, name, ok, got, want, err)
			os.Exit(2)
		}
	}
	for _, f := range fixed {
		check(f[0], f[1])
	}
	for i := 0; i < 30000; i++ {
		g.profile = i % 3
		name := g.key()
		m.M = map[string]cell{name: {}}
		if i%2 == 0 {
			m.M[g.key()] = cell{}
		}
		pat, _ := g.pattern(m)
		check(pat, name)
		check(pat, g.key())
	}
	r.Count("selftest_glob_pairs_vs_path_Match", int64(n-quirk))
	r.Count("selftest_glob_pairs_skipped_path_Match_byte_skip_quirk", int64(quirk))
}

func main() {
	reexecForRaceExitCode()
	r := ev.Start("C13", "exploration")
	quiet()
	r.Rule("layer 1: seeded update sequences (6-55 set/delete proposals over a pool of 3-7 keys: the callers' key shapes, clean path-like keys, nasty UTF-8 keys; versions current/zero/stale/future/other key's/random; " +
		"sparse increasing indices; apply batches of 1-6; in a fixed share of the cases a handful of values of 0, 1, 4095-4097, 65534-65537 (and a little below), 128 KiB or 1 MiB bytes, the largest one stored for sure and snapshotted while present) applied to two real LFSM replicas with different batching, lookups after every apply call, snapshot transfers (fresh or lagging target, save deferred past later updates) at random points. " +
		"A sequence is non-trivial when it contains a rejection of a version the key really had earlier, a successful delete followed by a re-creation of the same key, and a snapshot taken strictly inside the sequence; distinct by hash of the judged update list. " +
		"layer 2: 8 clients x 2 phases on a real RaftStore (restart in between), porcupine per key. layer 3: Lookup/SaveSnapshot concurrent with Update/RecoverFromSnapshot on one LFSM under -race")
	r.Assume(
		"updates of MISSING keys are not constrained by the statement: observed and counted (update:create-v0 / create-vN / missing-delete-ok ...), the model follows the observed outcome; only replica agreement and 'a successful set hands out a fresh larger version and is visible to lookups' are judged there",
		"the data carried by a successful delete result is not judged (RaftStore.Delete discards it)",
		"GetAll/GetAllValues answers are compared as sets of pairs / multisets of values (order is only required to be the same on all replicas)",
		"malformed glob patterns (path.ErrBadPattern) are not modelled: replica agreement only",
		"patterns in which '?' or a character class follows '*' are not modelled for keys that hold a multi-byte character: Go's path.Match lets '*' skip single bytes, so path.Match(\"*??\", \"\U0001F600\") is true although '?' is documented as one character; GetAll documents path.Match syntax and calls it (observed, replica agreement only)",
		"List/ListDir are modelled only when the path and every stored key are clean non-root paths (semantics taken from the repository's kv tests: next path components below the directory, ListDir = those that have children); otherwise replica agreement only. Observed and not judged: List(\"/\") omits sub-directories",
		"keys and values are valid UTF-8 (proposals and snapshots are JSON)",
		"layer 2 reads are RaftStore.Get (a local read of the only replica) and are required to be linearizable with the updates of the same key; operations that end in an error other than version mismatch / not-exist stay open to the end of the history",
	)
	if kv.ResultCodeSuccess != codeSuccess || kv.ResultCodeVersionMismatch != codeMismatch || kv.ResultCodeFailure != codeFailure {
		fmt.Println("check broken: kv result codes changed")
		os.Exit(2)
	}
	selfTestGlob(r)
	probeUnjudged(r)

	if r.Replay != "" {
		replay(r)
		r.Finish()
	}

	walls := map[string]float64{} // informational only
	t0 := time.Now()
	lap := func(name string) { walls[name] = time.Since(t0).Seconds(); t0 = time.Now() }
	n := r.Pick(1500, 80000)
	// same case list as ever, but the cases with large values (much slower under -race) go first
	order := make([]int, n)
	for i := range order {
		order[i] = i
	}
	l1seed := func(i int) int64 { return r.Seed*1_000_003 + int64(i) }
	sort.SliceStable(order, func(a, b int) bool {
		return sizeClassOf(order[a], r.Thorough()) > sizeClassOf(order[b], r.Thorough())
	})
	parallel(n, func(i int) {
		runSeq(r, caseID{Layer: 1, Seed: l1seed(order[i]), SizeClass: sizeClassOf(order[i], r.Thorough())})
	})
	lap("layer1_sequences")
	nc := r.Pick(2, 12)
	for i := 0; i < nc; i++ {
		runConc(r, caseID{Layer: 3, Seed: r.Seed*5_000_011 + int64(i)})
	}
	lap("layer3_concurrent_lfsm")
	ns := r.Pick(1, 30)
	for i := 0; i < ns; i++ {
		runStoreCase(r, caseID{Layer: 2, Seed: r.Seed*9_000_011 + int64(i)})
	}
	lap("layer2_raftstore")
	scanRaceLogs(r)
	r.Extra("wall_s_by_layer", walls)

	// coverage floors: roughly 70% of what the fixed, seed-determined case lists produce
	r.FloorNontrivial(int64(r.Pick(600, 32000)))
	r.FloorCount("updates", int64(r.Pick(35000, 1750000)))
	r.FloorCount("lookups", int64(r.Pick(700000, 36000000)))
	r.FloorCount("snapshots", int64(r.Pick(2500, 135000)))
	r.FloorCount("update:mismatch-lower", int64(r.Pick(4500, 240000)))
	r.FloorCount("update:mismatch-higher", int64(r.Pick(3000, 160000)))
	r.FloorCount("update:mismatch-zero", int64(r.Pick(3500, 185000)))
	r.FloorCount("update:delete-ok", int64(r.Pick(4000, 215000)))
	r.FloorCount("getall_nonempty_answers", int64(r.Pick(16000, 800000)))
	r.FloorCount("getall_nonempty_answers_caller_patterns", int64(r.Pick(1500, 80000)))
	r.FloorCount("list_nonempty_answers", int64(r.Pick(16000, 800000)))
	r.FloorCount("raftstore_ops", int64(r.Pick(3000, 100000)))
	r.FloorCount("raftstore_op:set-mismatch", int64(r.Pick(500, 30000)))
	r.FloorCount("raftstore_op:set-ok", int64(r.Pick(150, 9000)))
	r.FloorCount("raftstore_real_snapshots_created", int64(r.Pick(10, 1400)))
	r.FloorCount("raftstore_replica_restarts", int64(r.Pick(1, 25)))
	r.FloorCount("concurrent_lookups", int64(r.Pick(5000, 200000)))
	r.FloorCount("concurrent_lookups_overlapping_an_update", int64(r.Pick(1000, 100000)))
	r.FloorCount("concurrent_snapshots_saved_and_restored", int64(r.Pick(150, 2000)))
	// value sizes (a handful of sized cases per run, see sizeClassOf)
	r.FloorCount("set_ok_value_size:~64KiB", int64(r.Pick(30, 1000)))
	r.FloorCount("set_ok_value_size:128KiB", int64(r.Pick(6, 150)))
	r.FloorCount("set_ok_value_size:1MiB", int64(r.Pick(2, 30)))
	r.FloorCount("snapshots_largest_value:~64KiB", int64(r.Pick(30, 1000)))
	r.FloorCount("snapshots_largest_value:128KiB", int64(r.Pick(8, 250)))
	r.FloorCount("snapshots_largest_value:1MiB", int64(r.Pick(1, 20)))
	r.FloorCount("concurrent_sized_value_windows", int64(r.Pick(6, 36)))
	r.FloorCount("raftstore_sized_values_before_restart", int64(r.Pick(1, 25)))
	r.FloorCount("raftstore_requested_snapshots", int64(r.Pick(1, 25)))
	r.Finish()
}

func replay(r *ev.Run) {
	var w struct {
		Case    caseID `json:"case"`
		History []hop  `json:"history"`
	}
	sig, err := r.ReadReplay(&w)
	if err != nil {
		fmt.Fprintln(os.Stderr, "replay:", err)
		os.Exit(2)
	}
	switch w.Case.Layer {
	case 1:
		runSeq(r, w.Case)
	case 3:
		runConc(r, w.Case)
	case 2:
		// 1. re-judge the recorded history offline (deterministic; this is the witness)
		if strings.HasPrefix(sig, "raftstore-version") {
			judgeVersions(r, w.Case, w.History)
		} else {
			judgeLinearizable(r, w.Case, w.History)
		}
		fmt.Printf("replay: recorded history re-judged, violations so far %d\n", r.Violations())
		// 2. re-run the scenario (schedule dependent)
		before := r.Violations()
		for i := 0; i < 5 && r.Violations() == before; i++ {
			runStoreCase(r, w.Case)
		}
		fmt.Printf("replay: scenario re-run reproduced=%v\n", r.Violations() > before)
	default: // race report: run the concurrent layers again and scan the logs
		runConc(r, caseID{Layer: 3, Seed: r.Seed*5_000_011 + rand.Int63n(1000)})
		runStoreCase(r, caseID{Layer: 2, Seed: r.Seed * 9_000_011})
		scanRaceLogs(r)
	}
}

// probeUnjudged records, on a fixed small store, the answers to the lookups this check does
// not judge (root listings, malformed patterns), so that the evidence shows what was seen.
func probeUnjudged(r *ev.Run) {
	sm := kv.NewLFSM()(1, 1)
	var ops []opDesc
	for i, k := range []string{"/a", "/b/c", "/b/d/e", "x", "y/z"} {
		ops = append(ops, opDesc{Index: uint64(i + 1), Op: kv.UpdateOpSet, Key: k, Val: "v"})
	}
	if _, err := applyCuts(sm, ops, []int{len(ops)}); err != nil {
		return
	}
	obs := map[string]string{"store_keys": `/a /b/c /b/d/e x y/z`}
	for _, q := range []query{{"list", "/", ""}, {"listdir", "/", ""}, {"list", "", ""}, {"list", "/b/", ""}, {"getall", "[", ""}} {
		got, err := sm.Lookup(q.req())
		obs[q.String()] = render(got, err)
	}
	got, err := kv.NewLFSM()(1, 2).Lookup(kv.QueryAll{Pattern: "["})
	obs[`getall("[") on an empty store`] = render(got, err)
	q := kv.NewLFSM()(1, 3)
	if _, err := applyCuts(q, []opDesc{{Index: 1, Op: kv.UpdateOpSet, Key: "\U0001F600", Val: "v"}}, []int{1}); err == nil {
		got, err = q.Lookup(kv.QueryAll{Pattern: "*??"})
		obs[`getall("*??") on a store holding the one-character key U+1F600`] = render(got, err)
	}
	r.Extra("observed_not_judged", obs)
}
