package main

// The reference model of the metadata store: key -> (value, version), judged compare-and-set
// updates, and the lookups (get / exists / glob / directory listings). Nothing in this file
// calls into regatta or into path.Match; selfTestGlob (main.go) cross-checks the glob reader
// against path.Match because storage/kv/map.go documents "the syntax of patterns is the same
// as in path.Match".

import (
	"fmt"
	"sort"
	"strings"
	"unicode/utf8"
)

type cell struct {
	Val string
	Ver uint64
}

// CAS is the model store.
type CAS struct {
	M      map[string]cell
	MaxVer uint64 // largest version handed out so far (by any successful set)
}

func newCAS() *CAS { return &CAS{M: map[string]cell{}} }

func (c *CAS) clone() *CAS {
	n := &CAS{M: make(map[string]cell, len(c.M)), MaxVer: c.MaxVer}
	for k, v := range c.M {
		n.M[k] = v
	}
	return n
}

// result codes of the state machine (storage/kv/raft.go: iota Failure, Success, VersionMismatch);
// kept as own constants so that a renumbering in /repo is noticed by the cross-check in main.go.
const (
	codeFailure  = 0
	codeSuccess  = 1
	codeMismatch = 2
)

type pairJ struct {
	Key   string
	Value string
	Ver   uint64
}

// outcome of one update as seen at the state machine / client boundary.
type outcome struct {
	Code   uint64 // codeSuccess / codeMismatch / other
	Pair   pairJ  // decoded result pair
	PairOK bool   // result carried a decodable pair
	Raw    []byte // undecoded result data
}

func (o outcome) raw() string { return short(string(o.Raw)) }

type verdict struct {
	Sig  string
	What string
}

// Judge applies one update to the model given what the implementation answered, and returns a
// non-nil verdict if the answer contradicts the property statement. class is a coarse label
// of what happened (used for coverage counters and the non-trivial rule).
func (c *CAS) Judge(op, key, val string, ver uint64, o outcome) (v *verdict, class string) {
	cur, exists := c.M[key]
	rel := func() string {
		switch {
		case ver == 0:
			return "zero"
		case ver < cur.Ver:
			return "lower"
		default:
			return "higher"
		}
	}
	if exists {
		if ver == cur.Ver {
			if o.Code != codeSuccess {
				return &verdict{"current-version-rejected:" + op, fmt.Sprintf("%s of existing key %q with its current version %d answered code %d (data %s), expected success", op, key, ver, o.Code, o.raw())}, ""
			}
			if op == "set" {
				if vv := c.checkSetPair(key, val, o); vv != nil {
					return vv, ""
				}
				c.M[key] = cell{val, o.Pair.Ver}
				c.MaxVer = o.Pair.Ver
				return nil, "set-ok"
			}
			delete(c.M, key)
			return nil, "delete-ok"
		}
		if o.Code != codeMismatch {
			return &verdict{fmt.Sprintf("stale-version-accepted:%s:supplied-%s", op, rel()),
				fmt.Sprintf("%s of existing key %q (current version %d) with version %d answered code %d (data %s), expected version mismatch", op, key, cur.Ver, ver, o.Code, o.raw())}, ""
		}
		if !o.PairOK || o.Pair != (pairJ{key, cur.Val, cur.Ver}) {
			return &verdict{"mismatch-does-not-report-current-pair:" + op,
				fmt.Sprintf("version mismatch on %q reported %s, current pair is {%q %q %d}", key, o.raw(), key, short(cur.Val), cur.Ver)}, ""
		}
		return nil, "mismatch-" + rel()
	}
	// missing key: the statement constrains existing keys only; the model follows what happened.
	switch {
	case op == "set" && o.Code == codeSuccess:
		if vv := c.checkSetPair(key, val, o); vv != nil {
			return vv, ""
		}
		c.M[key] = cell{val, o.Pair.Ver}
		c.MaxVer = o.Pair.Ver
		if ver == 0 {
			return nil, "create-v0"
		}
		return nil, "create-vN"
	case op == "set" && o.Code == codeMismatch:
		return nil, "missing-set-mismatch"
	case op == "set":
		return nil, "missing-set-other"
	case o.Code == codeSuccess:
		return nil, "missing-delete-ok"
	case o.Code == codeMismatch:
		return nil, "missing-delete-mismatch"
	}
	return nil, "missing-delete-other"
}

// a successful set reports the pair it wrote and hands out a version larger than every
// version handed out before.
func (c *CAS) checkSetPair(key, val string, o outcome) *verdict {
	if !o.PairOK || o.Pair.Key != key || o.Pair.Value != val {
		return &verdict{"set-result-pair", fmt.Sprintf("successful set of %q=%q reported %s", key, short(val), o.raw())}
	}
	if o.Pair.Ver <= c.MaxVer {
		return &verdict{"version-not-larger-than-earlier-ones", fmt.Sprintf("successful set of %q got version %d; the largest version handed out before is %d (0 = none yet)", key, o.Pair.Ver, c.MaxVer)}
	}
	return nil
}

func (c *CAS) sortedKeys() []string {
	ks := make([]string, 0, len(c.M))
	for k := range c.M {
		ks = append(ks, k)
	}
	sort.Strings(ks)
	return ks
}

// GetAll returns the pairs whose key matches the pattern, sorted by key; unmodelled reports a
// malformed pattern, or a pattern/key combination on which Go's path.Match departs from its
// own documentation (see byteSkipQuirk); then only replica agreement is judged.
func (c *CAS) GetAll(pattern string) (ps []pairJ, unmodelled bool) {
	toks, ok := parseGlob(pattern)
	if !ok {
		return nil, true
	}
	if singleAfterStar(toks) {
		for k := range c.M {
			if byteSkipQuirk(toks, k) {
				return nil, true
			}
		}
	}
	ps = []pairJ{}
	for _, k := range c.sortedKeys() {
		if globMatch(toks, []rune(k)) {
			ps = append(ps, pairJ{k, c.M[k].Val, c.M[k].Ver})
		}
	}
	return ps, false
}

// ---- directory listings -------------------------------------------------------------------
//
// Semantics (as exercised by the repository's own kv tests, "ls"-like): for a clean non-root
// path P, List(P) = the distinct next path components of every key below P (P + "/" + rest),
// plus the base name of P itself when P is a key; ListDir(P) = the next components that are
// directories (rest has a further "/"). Both sorted. Unclean paths/keys and the root are not
// modelled (replica agreement only).

func cleanPath(p string) bool {
	if p == "" || p == "." || p == "/" {
		return false
	}
	segs := strings.Split(p, "/")
	for i, s := range segs {
		if s == "" && i == 0 {
			continue // leading "/"
		}
		if s == "" || s == "." || s == ".." {
			return false
		}
	}
	return true
}

// cleanKey: keys that look like paths in canonical form ("/" and "." excluded as well).
func cleanKey(k string) bool { return cleanPath(k) }

func (c *CAS) listable(p string) bool {
	if !cleanPath(p) {
		return false
	}
	for k := range c.M {
		if !cleanKey(k) {
			return false
		}
	}
	return true
}

func (c *CAS) List(p string, dirsOnly bool) []string {
	set := map[string]bool{}
	for k := range c.M {
		if k == p && !dirsOnly {
			set[k[strings.LastIndex(k, "/")+1:]] = true
			continue
		}
		if !strings.HasPrefix(k, p+"/") {
			continue
		}
		rest := k[len(p)+1:]
		i := strings.Index(rest, "/")
		if i < 0 {
			if !dirsOnly {
				set[rest] = true
			}
			continue
		}
		set[rest[:i]] = true
	}
	out := make([]string, 0, len(set))
	for s := range set {
		out = append(out, s)
	}
	sort.Strings(out)
	return out
}

// ---- glob ------------------------------------------------------------------------------------
//
// path.Match's documented grammar:
//   '*' any sequence of non-/ characters; '?' any single non-/ character;
//   '[' ['^'] {range} ']' character class (non-empty); c; '\\' c;  range: c | c '-' c.

const (
	tLit = iota
	tStar
	tAny
	tClass
)

type gtok struct {
	kind int
	r    rune
	neg  bool
	rs   [][2]rune
}

func parseGlob(p string) ([]gtok, bool) {
	var out []gtok
	i := 0
	esc := func() (rune, bool) { // one class member character
		if i >= len(p) || p[i] == '-' || p[i] == ']' {
			return 0, false
		}
		if p[i] == '\\' {
			i++
			if i >= len(p) {
				return 0, false
			}
		}
		r, n := utf8.DecodeRuneInString(p[i:])
		if r == utf8.RuneError && n == 1 {
			return 0, false
		}
		i += n
		if i >= len(p) { // class never closed
			return 0, false
		}
		return r, true
	}
	for i < len(p) {
		switch p[i] {
		case '*':
			out = append(out, gtok{kind: tStar})
			i++
		case '?':
			out = append(out, gtok{kind: tAny})
			i++
		case '\\':
			i++
			if i >= len(p) {
				return nil, false
			}
			r, n := utf8.DecodeRuneInString(p[i:])
			out = append(out, gtok{kind: tLit, r: r})
			i += n
		case '[':
			i++
			t := gtok{kind: tClass}
			if i < len(p) && p[i] == '^' {
				t.neg = true
				i++
			}
			for {
				if i < len(p) && p[i] == ']' && len(t.rs) > 0 {
					i++
					break
				}
				lo, ok := esc()
				if !ok {
					return nil, false
				}
				hi := lo
				if p[i] == '-' {
					i++
					if hi, ok = esc(); !ok {
						return nil, false
					}
				}
				t.rs = append(t.rs, [2]rune{lo, hi})
			}
			out = append(out, t)
		default:
			r, n := utf8.DecodeRuneInString(p[i:])
			out = append(out, gtok{kind: tLit, r: r})
			i += n
		}
	}
	return out, true
}

// singleAfterStar: a '?' or a character class follows a '*' somewhere in the pattern.
func singleAfterStar(t []gtok) bool {
	star := false
	for _, x := range t {
		switch x.kind {
		case tStar:
			star = true
		case tAny, tClass:
			if star {
				return true
			}
		}
	}
	return false
}

// byteSkipQuirk: path.Match documents '?' as "any single non-/ character", but its '*' skips
// single BYTES, so after a '*' a '?' or a class can be matched against the tail of a
// multi-byte character: path.Match("*??", "\U0001F600") is true. MapStore.GetAll documents
// "the syntax of patterns is the same as in path.Match" and calls it, so this is Go's behaviour,
// not regatta's; the model does not take sides on such pattern/name pairs.
func byteSkipQuirk(t []gtok, name string) bool {
	if !singleAfterStar(t) {
		return false
	}
	for i := 0; i < len(name); i++ {
		if name[i] >= utf8.RuneSelf {
			return true
		}
	}
	return false
}

func globMatch(t []gtok, s []rune) bool {
	if len(t) == 0 {
		return len(s) == 0
	}
	switch t[0].kind {
	case tStar:
		for n := 0; ; n++ {
			if globMatch(t[1:], s[n:]) {
				return true
			}
			if n >= len(s) || s[n] == '/' {
				return false
			}
		}
	case tAny:
		return len(s) > 0 && s[0] != '/' && globMatch(t[1:], s[1:])
	case tLit:
		return len(s) > 0 && s[0] == t[0].r && globMatch(t[1:], s[1:])
	case tClass:
		if len(s) == 0 {
			return false
		}
		in := false
		for _, r := range t[0].rs {
			if r[0] <= s[0] && s[0] <= r[1] {
				in = true
			}
		}
		return in != t[0].neg && globMatch(t[1:], s[1:])
	}
	return false
}
