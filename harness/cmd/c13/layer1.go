package main

// Layer 1: the real kv.LFSM driven directly through the calls dragonboat makes (Update with
// JSON proposals exactly as RaftStore builds them, Lookup, PrepareSnapshot / SaveSnapshot /
// RecoverFromSnapshot) against the CAS model, on two replicas that are fed the same entries in
// different apply batches, with snapshot transfers at random points.

import (
	"bytes"
	"encoding/json"
	"errors"
	"fmt"
	"reflect"
	"sort"
	"strings"
	"sync/atomic"
	"time"

	"github.com/jamf/regatta/storage/kv"
	dbsm "github.com/lni/dragonboat/v4/statemachine"

	"verifharness/internal/ev"
)

type caseID struct {
	Layer     int   `json:"layer"`
	Seed      int64 `json:"case_seed"`
	SizeClass int   `json:"value_size_class,omitempty"` // layer 1: see sizeClassOf
}

type opDesc struct {
	Index  uint64 `json:"index"`
	Op     string `json:"op"`
	Key    string `json:"key"`
	Val    string `json:"-"`
	Shown  string `json:"value,omitempty"` // Val, long values cut (the case is regenerated from its seed)
	Ver    uint64 `json:"version"`
	How    string `json:"version_choice"`
	Result string `json:"result,omitempty"`
	cmd    []byte // the proposal, encoded once (several replicas apply it)
}

type witness1 struct {
	Case    caseID   `json:"case"`
	Pool    []string `json:"key_pool"`
	Ops     []opDesc `json:"updates"`
	Batches []int    `json:"apply_batches"`
	Events  []string `json:"snapshot_events"`
	At      string   `json:"at"`
}

type replica struct {
	kind string
	sm   dbsm.IConcurrentStateMachine
}

func proposal(o opDesc) []byte {
	// exactly what RaftStore.Set / RaftStore.Delete propose
	p := kv.Pair{Key: o.Key, Ver: o.Ver}
	if o.Op == kv.UpdateOpSet {
		p.Value = o.Val
	}
	b, err := json.Marshal(kv.Update{Op: o.Op, KVPair: p})
	if err != nil {
		panic(err)
	}
	return b
}

func entriesOf(ops []opDesc) []dbsm.Entry {
	es := make([]dbsm.Entry, len(ops))
	for i := range ops {
		if ops[i].cmd == nil {
			ops[i].cmd = proposal(ops[i])
		}
		es[i] = dbsm.Entry{Index: ops[i].Index, Cmd: ops[i].cmd}
	}
	return es
}

// applyCuts applies ops to sm in consecutive Update calls of the given sizes.
func applyCuts(sm dbsm.IConcurrentStateMachine, ops []opDesc, cuts []int) ([]dbsm.Result, error) {
	var out []dbsm.Result
	pos := 0
	for _, c := range cuts {
		es := entriesOf(ops[pos : pos+c])
		res, err := sm.Update(es)
		if err != nil {
			return out, err
		}
		if len(res) != c {
			return out, fmt.Errorf("Update returned %d entries for %d", len(res), c)
		}
		for _, e := range res {
			out = append(out, dbsm.Result{Value: e.Result.Value, Data: append([]byte(nil), e.Result.Data...)})
		}
		pos += c
	}
	return out, nil
}

func outcomeOf(res dbsm.Result) outcome {
	o := outcome{Code: res.Value, Raw: res.Data}
	var p pairJ
	if err := json.Unmarshal(res.Data, &p); err == nil {
		o.Pair, o.PairOK = p, true
	}
	return o
}

type query struct {
	Kind string // get exists getall getallvalues list listdir
	Arg  string
	Tag  string // pattern class
}

func (q query) req() interface{} {
	switch q.Kind {
	case "get":
		return kv.QueryKey{Key: q.Arg}
	case "exists":
		return kv.QueryExist{Key: q.Arg}
	case "getall":
		return kv.QueryAll{Pattern: q.Arg}
	case "getallvalues":
		return kv.QueryAllValues{Pattern: q.Arg}
	case "list":
		return kv.QueryList{Path: q.Arg}
	}
	return kv.QueryListDir{Path: q.Arg}
}

func (q query) String() string { return fmt.Sprintf("%s(%q)", q.Kind, q.Arg) }

// render is for messages, witnesses and samples only (never for comparisons): long strings
// are cut and identified by length and digest.
func render(v interface{}, err error) string {
	if err != nil {
		return "error: " + err.Error()
	}
	switch x := v.(type) {
	case kv.Pair:
		x.Value = short(x.Value)
		v = x
	case []kv.Pair:
		c := make([]kv.Pair, len(x))
		for i, p := range x {
			p.Value = short(p.Value)
			c[i] = p
		}
		v = c
	case []pairJ:
		c := make([]pairJ, len(x))
		for i, p := range x {
			p.Value = short(p.Value)
			c[i] = p
		}
		v = c
	case []string:
		c := make([]string, len(x))
		for i, e := range x {
			c[i] = short(e)
		}
		v = c
	}
	b, _ := json.Marshal(v)
	return string(b)
}

func pairsOf(ps []kv.Pair) []pairJ {
	out := make([]pairJ, len(ps))
	for i, p := range ps {
		out[i] = pairJ{p.Key, p.Value, p.Ver}
	}
	sort.Slice(out, func(i, j int) bool { return out[i].Key < out[j].Key })
	return out
}

func samePairs(a, b []pairJ) bool {
	if len(a) != len(b) {
		return false
	}
	for i := range a {
		if a[i] != b[i] {
			return false
		}
	}
	return true
}

func sameStrings(a, b []string) bool {
	if len(a) != len(b) {
		return false
	}
	for i := range a {
		if a[i] != b[i] {
			return false
		}
	}
	return true
}

// sameAnswer: two replicas answered identically (value, order, nil-ness of the error).
func sameAnswer(a interface{}, aerr error, b interface{}, berr error) bool {
	if (aerr == nil) != (berr == nil) || (aerr != nil && aerr.Error() != berr.Error()) {
		return false
	}
	return reflect.DeepEqual(a, b)
}

func sortedCopy(s []string) []string {
	out := append([]string{}, s...)
	sort.Strings(out)
	return out
}

// judgeLookup compares one Lookup answer with the model. judged=false: the model has no
// opinion (malformed pattern, unclean path), only replica agreement applies.
func judgeLookup(m *CAS, q query, got interface{}, gerr error) (why string, judged bool) {
	switch q.Kind {
	case "get":
		c, ok := m.M[q.Arg]
		if !ok {
			if !errors.Is(gerr, kv.ErrNotExist) {
				return fmt.Sprintf("key is absent, answer %s", render(got, gerr)), true
			}
			return "", true
		}
		p, isPair := got.(kv.Pair)
		if gerr != nil || !isPair || (pairJ{p.Key, p.Value, p.Ver}) != (pairJ{q.Arg, c.Val, c.Ver}) {
			return fmt.Sprintf("expected {%q %q %d}, answer %s", q.Arg, short(c.Val), c.Ver, render(got, gerr)), true
		}
		return "", true
	case "exists":
		_, ok := m.M[q.Arg]
		b, isB := got.(bool)
		if gerr != nil || !isB || b != ok {
			return fmt.Sprintf("expected %v, answer %s", ok, render(got, gerr)), true
		}
		return "", true
	case "getall", "getallvalues":
		exp, bad := m.GetAll(q.Arg)
		if bad {
			return "", false
		}
		if q.Kind == "getall" {
			ps, isPs := got.([]kv.Pair)
			if gerr != nil || !isPs || !samePairs(pairsOf(ps), exp) {
				return fmt.Sprintf("expected %s, answer %s", render(exp, nil), render(got, gerr)), true
			}
			return "", true
		}
		vals := make([]string, 0, len(exp))
		for _, p := range exp {
			vals = append(vals, p.Value)
		}
		sort.Strings(vals)
		vs, isVs := got.([]string)
		if gerr != nil || !isVs || !sameStrings(sortedCopy(vs), vals) {
			return fmt.Sprintf("expected %s, answer %s", render(vals, nil), render(got, gerr)), true
		}
		return "", true
	case "list", "listdir":
		if !m.listable(q.Arg) {
			return "", false
		}
		exp := m.List(q.Arg, q.Kind == "listdir")
		vs, isVs := got.([]string)
		if gerr != nil || !isVs || !sameStrings(sortedCopy(vs), exp) {
			return fmt.Sprintf("expected %s, answer %s", render(exp, nil), render(got, gerr)), true
		}
		return "", true
	}
	return "", false
}

func stepQueries(g *gen, m *CAS) []query {
	var qs []query
	for _, k := range g.pool {
		qs = append(qs, query{"get", k, ""}, query{"exists", k, ""})
	}
	qs = append(qs, query{"get", "/absent/key", ""}, query{"exists", "/absent/key", ""})
	for i := 0; i < 3; i++ {
		p, tag := g.pattern(m)
		qs = append(qs, query{"getall", p, tag}, query{"getallvalues", p, tag})
	}
	for i := 0; i < 2; i++ {
		p := g.listPath(m)
		qs = append(qs, query{"list", p, ""}, query{"listdir", p, ""})
	}
	return qs
}

var l1samples atomic.Int32 // the evidence keeps 6 samples; leave room for layers 2 and 3

type pendingSnap struct {
	ctx   interface{}
	from  string
	at    int // number of updates applied when PrepareSnapshot ran
	delay int
}

func runSeq(r *ev.Run, id caseID) {
	g := newGen(id.Seed)
	m := newCAS()
	A := &replica{"original", kv.NewLFSM()(1, 1)}
	B := &replica{"rebatched", kv.NewLFSM()(1, 2)}
	w := witness1{Case: id, Pool: g.pool}
	// counters are collected per case and flushed once (the evidence writer has one global lock)
	lc, ld := map[string]int64{}, map[[2]string]struct{}{}
	cnt := func(name string, n int64) { lc[name] += n }
	dst := func(set, elem string) { ld[[2]string{set, elem}] = struct{}{} }
	defer func() {
		for k, v := range lc {
			r.Count(k, v)
		}
		for k := range ld {
			r.Distinct(k[0], k[1])
		}
	}()
	fail := func(sig, at, what string) {
		w.At = at
		report(r, sig, what+" @ "+at, w)
	}

	n := 6 + g.r.Intn(50)
	idx := uint64(g.r.Intn(5))
	sizeClass := id.SizeClass // 0: small values only; else a handful of boundary-sized values
	if sizeClass >= 2 && n > 40-sizeClass*10 {
		n = 40 - sizeClass*10 // shorter sequences around the very large values (cost)
	}
	t0 := time.Now() // informational (evidence: where the time goes), never a verdict
	defer func() {
		cnt(fmt.Sprintf("layer1_cases_value_size_class_%d", sizeClass), 1)
		cnt(fmt.Sprintf("layer1_busy_ms_value_size_class_%d", sizeClass), time.Since(t0).Milliseconds())
	}()
	nSized, nLarge, n64 := 0, 0, 0
	// every sized case stores its largest value once for sure: early, alone in its apply batch,
	// with the key's current version; a snapshot is prepared right after (forceSnap)
	forceAt := 2 + g.r.Intn(4)
	if sizeClass == 0 {
		forceAt = -1
	}
	var (
		allRes       []dbsm.Result
		hist         = map[string][]uint64{}
		deleted      = map[string]bool{}
		pend         *pendingSnap
		staleReject  bool
		recreate     bool
		midSnapshot  bool
		snapAtPoints []int
		sig          strings.Builder
		forceSnap    bool // a value of >= ~64 KiB was just stored: take a snapshot while it is there
	)
	for len(w.Ops) < n {
		bs := 1
		if g.r.Intn(2) == 0 {
			bs = 1 + g.r.Intn(6)
		}
		if bs > n-len(w.Ops) {
			bs = n - len(w.Ops)
		}
		forced := forceAt >= 0 && len(w.Ops) >= forceAt
		if forced {
			bs, forceAt = 1, -1
		}
		start := len(w.Ops)
		for j := 0; j < bs; j++ {
			switch x := g.r.Intn(100); {
			case x < 70:
				idx++
			case x < 90:
				idx += 2 + uint64(g.r.Intn(2))
			case x < 98:
				idx += 1 + uint64(g.r.Intn(1000))
			default:
				idx += 1 << 32
			}
			o := opDesc{Index: idx, Op: kv.UpdateOpSet, Key: g.pool[g.r.Intn(len(g.pool))]}
			if g.r.Intn(100) < 35 {
				o.Op = kv.UpdateOpDelete
			} else {
				o.Val = g.value()
			}
			sized := o.Op == kv.UpdateOpSet && sizeClass > 0 && nSized < 6 && g.r.Intn(100) < 14
			if sized {
				nSized++
				o.Val = sizedValue(g.r, pickSize(g.r, sizeClass, &nLarge, &n64), fmt.Sprintf("s%d-", idx))
			}
			o.Shown = short(o.Val)
			o.Ver, o.How = g.version(m, o.Key, hist[o.Key], idx)
			if sized && g.r.Intn(10) < 7 {
				o.Ver, o.How = m.M[o.Key].Ver, "current"
			}
			if forced {
				size := []int{0, boundarySizes[5+g.r.Intn(4)], 128 << 10, 1 << 20}[sizeClass]
				if sizeClass == 1 && g.r.Intn(2) == 0 {
					size = 65536 - g.r.Intn(160)
				}
				if sizeClass >= 2 {
					nLarge++
				} else {
					n64++
				}
				o.Op, o.Val = kv.UpdateOpSet, sizedValue(g.r, size, fmt.Sprintf("s%d-", idx))
				o.Shown = short(o.Val)
				o.Ver, o.How = m.M[o.Key].Ver, "current"
			}
			if o.Op == kv.UpdateOpDelete && g.r.Intn(2) == 0 {
				o.Ver, o.How = m.M[o.Key].Ver, "current"
			}
			w.Ops = append(w.Ops, o)
		}
		w.Batches = append(w.Batches, bs)
		batch := w.Ops[start:]

		resA, err := applyCuts(A.sm, batch, []int{bs})
		if err != nil {
			fail("update-error", fmt.Sprintf("batch ending at index %d", idx), "Update failed on valid proposals: "+err.Error())
			return
		}
		// the other replica gets the same entries in different apply batches
		var cuts []int
		for left := bs; left > 0; {
			c := 1 + g.r.Intn(left)
			cuts = append(cuts, c)
			left -= c
		}
		resB, err := applyCuts(B.sm, batch, cuts)
		if err != nil {
			fail("update-error:"+B.kind, fmt.Sprintf("batch ending at index %d", idx), "Update failed on valid proposals: "+err.Error())
			return
		}
		for j := range batch {
			o := &w.Ops[start+j]
			o.Result = fmt.Sprintf("%d %s", resA[j].Value, short(string(resA[j].Data)))
			at := fmt.Sprintf("update #%d (index %d %s %q ver %d)", start+j, o.Index, o.Op, o.Key, o.Ver)
			if resA[j].Value != resB[j].Value || !bytes.Equal(resA[j].Data, resB[j].Data) {
				fail("replicas-disagree:update-result:"+B.kind, at, fmt.Sprintf("original answered %d %s, %s replica answered %d %s", resA[j].Value, short(string(resA[j].Data)), B.kind, resB[j].Value, short(string(resB[j].Data))))
				return
			}
			prev, existed := m.M[o.Key]
			v, class := m.Judge(o.Op, o.Key, o.Val, o.Ver, outcomeOf(resA[j]))
			if v != nil {
				fail(v.Sig, at, v.What)
				return
			}
			cnt("updates", 1)
			cnt("update:"+class, 1)
			dst("version_choices", o.How+"/"+class)
			fmt.Fprintf(&sig, "%s|%s|%q|%d|%s;", o.Op, o.Key, o.Shown, o.Ver, class)
			if class == "set-ok" || class == "create-v0" || class == "create-vN" {
				cnt("set_ok_value_size:"+sizeBucket(len(o.Val)), 1)
				if len(o.Val) >= 65000 {
					forceSnap = true
				}
			}
			switch class {
			case "set-ok", "delete-ok":
				hist[o.Key] = append(hist[o.Key], prev.Ver)
				if class == "delete-ok" {
					deleted[o.Key] = true
				}
			case "create-v0", "create-vN":
				if deleted[o.Key] {
					recreate = true
				}
			case "mismatch-lower", "mismatch-zero", "mismatch-higher":
				for _, h := range hist[o.Key] {
					if existed && h == o.Ver && h != 0 {
						staleReject = true
					}
				}
			}
		}
		allRes = append(allRes, resA...)

		// snapshot transfer: prepare now, save (possibly after further updates), recover into a
		// fresh or a lagging instance, let it catch up, and make it the second replica.
		if draw := g.r.Intn(100); pend == nil && (draw < 22 || forceSnap) {
			forceSnap = false
			largest := 0
			for _, c := range m.M {
				if len(c.Val) > largest {
					largest = len(c.Val)
				}
			}
			cnt("snapshots_largest_value:"+sizeBucket(largest), 1)
			src := A
			if g.r.Intn(3) == 0 {
				src = B
			}
			ctx, err := src.sm.PrepareSnapshot()
			if err != nil {
				fail("snapshot-error:prepare", fmt.Sprintf("after %d updates", len(w.Ops)), err.Error())
				return
			}
			pend = &pendingSnap{ctx: ctx, from: src.kind, at: len(w.Ops), delay: g.r.Intn(3)}
			w.Events = append(w.Events, fmt.Sprintf("PrepareSnapshot on %s after %d updates", src.kind, pend.at))
		} else if pend != nil && pend.delay > 0 {
			pend.delay--
		}
		if pend != nil && pend.delay == 0 {
			src := A
			if pend.from != A.kind {
				src = B
			}
			var buf bytes.Buffer
			if err := src.sm.SaveSnapshot(pend.ctx, &buf, nil, nil); err != nil {
				fail("snapshot-error:save", fmt.Sprintf("after %d updates", len(w.Ops)), err.Error())
				return
			}
			T := &replica{"restored", kv.NewLFSM()(1, 3)}
			if g.r.Intn(100) < 40 && pend.at > 0 {
				// a lagging replica that already applied a prefix installs the snapshot
				p := 1 + g.r.Intn(pend.at)
				if _, err := applyCuts(T.sm, w.Ops[:p], []int{p}); err != nil {
					fail("update-error:lagging", "prefix replay", err.Error())
					return
				}
				T.kind = "restored-over-stale"
				w.Events = append(w.Events, fmt.Sprintf("lagging replica had applied %d updates", p))
			}
			if err := T.sm.RecoverFromSnapshot(bytes.NewReader(buf.Bytes()), nil, nil); err != nil {
				fail("snapshot-error:recover", fmt.Sprintf("snapshot prepared after %d updates (%d bytes)", pend.at, buf.Len()), err.Error())
				return
			}
			w.Events = append(w.Events, fmt.Sprintf("SaveSnapshot after %d updates, RecoverFromSnapshot into %s, catch-up of %d updates", len(w.Ops), T.kind, len(w.Ops)-pend.at))
			if rest := w.Ops[pend.at:]; len(rest) > 0 {
				resT, err := applyCuts(T.sm, rest, []int{len(rest)})
				if err != nil {
					fail("update-error:"+T.kind, "catch-up after snapshot", err.Error())
					return
				}
				for j := range rest {
					a := allRes[pend.at+j]
					if a.Value != resT[j].Value || !bytes.Equal(a.Data, resT[j].Data) {
						fail("replicas-disagree:update-result:"+T.kind, fmt.Sprintf("catch-up update #%d (index %d) after snapshot prepared at %d", pend.at+j, rest[j].Index, pend.at),
							fmt.Sprintf("original answered %d %s, %s replica answered %d %s", a.Value, short(string(a.Data)), T.kind, resT[j].Value, short(string(resT[j].Data))))
						return
					}
				}
			}
			snapAtPoints = append(snapAtPoints, pend.at)
			cnt("snapshots", 1)
			cnt("snapshot_bytes", int64(buf.Len()))
			B = T
			pend = nil
		}

		// lookups on both replicas after every apply call
		for _, q := range stepQueries(g, m) {
			gotA, errA := A.sm.Lookup(q.req())
			gotB, errB := B.sm.Lookup(q.req())
			at := func() string { return fmt.Sprintf("after %d updates (index %d): %s", len(w.Ops), idx, q) }
			why, judged := judgeLookup(m, q, gotA, errA)
			if why != "" {
				fail("lookup-"+q.Kind+":"+A.kind, at(), why)
				return
			}
			if why, _ := judgeLookup(m, q, gotB, errB); why != "" {
				fail("lookup-"+q.Kind+":"+B.kind, at(), why)
				return
			}
			if !sameAnswer(gotA, errA, gotB, errB) {
				fail("replicas-disagree:"+q.Kind+":"+B.kind, at(), fmt.Sprintf("original answered %s, %s replica answered %s", render(gotA, errA), B.kind, render(gotB, errB)))
				return
			}
			cnt("lookups", 2)
			if judged {
				cnt("lookups_judged_by_model:"+q.Kind, 2)
			} else {
				cnt("lookups_replica_agreement_only:"+q.Kind, 2)
			}
			if q.Tag != "" {
				dst("pattern_kinds", q.Tag)
				if q.Kind == "getall" && judged {
					if ps, _ := gotA.([]kv.Pair); len(ps) > 0 {
						cnt("getall_nonempty_answers", 1)
						if q.Tag == "caller" {
							cnt("getall_nonempty_answers_caller_patterns", 1)
						}
					}
				}
			}
			if (q.Kind == "list" || q.Kind == "listdir") && judged {
				if vs, _ := gotA.([]string); len(vs) > 0 {
					cnt("list_nonempty_answers", 1)
				}
			}
		}
	}
	for _, p := range snapAtPoints {
		if p > 0 && p < len(w.Ops) {
			midSnapshot = true
		}
	}
	r.Eval(1)
	if staleReject && recreate && midSnapshot {
		r.Nontrivial(sig.String())
	}
	if id.Seed%97 == 0 && l1samples.Add(1) <= 3 {
		ops := w.Ops
		if len(ops) > 8 {
			ops = ops[:8]
		}
		fm := map[string]cell{}
		for k, c := range m.M {
			fm[k] = cell{short(c.Val), c.Ver}
		}
		r.Sample(map[string]any{"layer": 1, "case_seed": id.Seed, "key_pool": w.Pool, "updates": len(w.Ops), "first_updates": ops,
			"apply_batches": w.Batches, "snapshot_events": w.Events, "final_model": fm, "value_size_class": sizeClass})
	}
}
