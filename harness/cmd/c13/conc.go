package main

// Layer 3: the concurrency dragonboat's IConcurrentStateMachine contract permits, produced
// directly on one kv.LFSM under the race detector: Update and PrepareSnapshot and
// RecoverFromSnapshot from one goroutine (the system guarantees their mutual exclusion),
// Lookup from several goroutines concurrently with all of them, SaveSnapshot concurrently
// with later Updates. Besides feeding the race detector, every concurrent Lookup answer must
// equal the model's answer in one of the states that existed between its call and its return
// (entry counts read from atomics before/after the call), and every concurrently saved
// snapshot must restore to the state at its PrepareSnapshot point.

import (
	"bytes"
	"fmt"
	"runtime"
	"sync"
	"sync/atomic"

	"github.com/jamf/regatta/storage/kv"
	dbsm "github.com/lni/dragonboat/v4/statemachine"

	"verifharness/internal/ev"
)

type readRec struct {
	q      query
	lo, hi int64
	got    interface{}
	err    error
}

type savedSnap struct {
	at  int // number of entries applied at PrepareSnapshot
	ctx interface{}
	sm  dbsm.IConcurrentStateMachine
	err error
}

type witness3 struct {
	Case caseID `json:"case"`
	What string `json:"what"`
	Got  string `json:"got,omitempty"`
	Want string `json:"candidate_states,omitempty"`
}

func runConc(r *ev.Run, id caseID) {
	g := newGen(id.Seed)
	g.profile = 1
	g.pool = []string{"/c/k0", "/c/k1", "/c/k*", "/c/d/k3", "/c/d/e/k4", "/c/k\u2028\"<"}
	sm := kv.NewLFSM()(1, 1)
	m := newCAS()
	states := []*CAS{m.clone()}
	var done, started atomic.Int64
	var stop atomic.Bool

	const readers = 4
	recs := make([][]readRec, readers)
	var wg sync.WaitGroup
	for i := 0; i < readers; i++ {
		wg.Add(1)
		go func(i int) {
			defer wg.Done()
			qs := []query{
				{"get", g.pool[i%len(g.pool)], ""}, {"exists", g.pool[(i+1)%len(g.pool)], ""},
				{"getall", "/c/*", ""}, {"getallvalues", "/c/*/*", ""}, {"list", "/c", ""}, {"listdir", "/c", ""},
				{"getall", "/c/k[0-9]", ""}, {"get", g.pool[(i+3)%len(g.pool)], ""},
			}
			for n := 0; !stop.Load(); n++ {
				// paced by the updater (about 5 lookups per applied entry and reader) so that the
				// readers are there for the whole run and the number of answers to judge is bounded
				for int64(n) > 5*(done.Load()+40) && !stop.Load() {
					runtime.Gosched()
				}
				q := qs[n%len(qs)]
				lo := done.Load()
				got, err := sm.Lookup(q.req())
				hi := started.Load()
				recs[i] = append(recs[i], readRec{q, lo, hi, got, err})
				if n%8 == 0 {
					runtime.Gosched()
				}
			}
		}(i)
	}

	saveCh := make(chan *savedSnap, 64)
	var saved []*savedSnap
	var swg sync.WaitGroup
	swg.Add(1)
	go func() { // SaveSnapshot runs concurrently with later Updates
		defer swg.Done()
		for s := range saveCh {
			var buf bytes.Buffer
			if s.err = sm.SaveSnapshot(s.ctx, &buf, nil, nil); s.err == nil {
				s.sm = kv.NewLFSM()(1, 9)
				s.err = s.sm.RecoverFromSnapshot(bytes.NewReader(buf.Bytes()), nil, nil)
			}
			s.ctx = nil
			saved = append(saved, s)
		}
	}()

	var verdictSeen *verdict
	var updErr error
	idx := uint64(1)
	batches := r.Pick(900, 2500)
	applied := 0
	var inPlace int
	hist := map[string][]uint64{}
	// three windows per run in which one key holds a boundary-sized value (64 KiB +-, 128 KiB,
	// in the last window of odd seeds 1 MiB): stored by a single-entry batch, snapshot prepared
	// right away (saved concurrently with later updates), in-place recovery two batches later,
	// overwritten by a small value after a few batches.
	type window struct{ size, closeAt int }
	bigAt := map[int]window{}
	for wi := 0; wi < 3; wi++ {
		size := []int{65536 - g.r.Intn(160), boundarySizes[5+g.r.Intn(4)], 128 << 10}[g.r.Intn(3)]
		length := 6
		if wi == 2 && id.Seed%2 == 1 {
			size, length = 1<<20, 3
		}
		bigAt[50+wi*(batches/3)] = window{size, 50 + wi*(batches/3) + length}
	}
	closeAt, recoverAt := -1, -1
updater:
	for b := 0; b < batches; b++ {
		bs := 1 + g.r.Intn(5)
		win, opens := bigAt[b]
		if opens || b == closeAt {
			bs = 1
		}
		ops := make([]opDesc, bs)
		for j := range ops {
			idx += 1 + uint64(g.r.Intn(2))
			o := opDesc{Index: idx, Op: kv.UpdateOpSet, Key: g.pool[g.r.Intn(len(g.pool))]}
			if g.r.Intn(100) < 30 {
				o.Op = kv.UpdateOpDelete
			} else {
				o.Val = fmt.Sprintf("v%d", idx)
			}
			o.Ver, o.How = g.version(m, o.Key, hist[o.Key], idx)
			if g.r.Intn(2) == 0 {
				o.Ver = m.M[o.Key].Ver
			}
			if opens || b == closeAt {
				o.Op, o.Key, o.Ver = kv.UpdateOpSet, g.pool[0], m.M[g.pool[0]].Ver
				o.Val = fmt.Sprintf("v%d", idx)
				if opens {
					o.Val = sizedValue(g.r, win.size, o.Val+"-")
					closeAt, recoverAt = win.closeAt, b+2
					r.Count("concurrent_sized_value_windows:"+sizeBucket(win.size), 1)
					r.Count("concurrent_sized_value_windows", 1)
				}
			}
			ops[j] = o
		}
		started.Store(int64(applied + bs))
		res, err := sm.Update(entriesOf(ops))
		if err != nil {
			updErr = err
			break
		}
		for j, o := range ops {
			prev := m.M[o.Key].Ver
			v, class := m.Judge(o.Op, o.Key, o.Val, o.Ver, outcomeOf(res[j].Result))
			if v != nil {
				verdictSeen = v
				break updater
			}
			if class == "set-ok" || class == "delete-ok" {
				hist[o.Key] = append(hist[o.Key], prev)
				if len(hist[o.Key]) > 16 {
					hist[o.Key] = hist[o.Key][8:]
				}
			}
			states = append(states, m.clone())
		}
		applied += bs
		done.Store(int64(applied))
		if b%9 == 4 || opens {
			ctx, err := sm.PrepareSnapshot()
			if err != nil {
				updErr = err
				break
			}
			saveCh <- &savedSnap{at: applied, ctx: ctx}
		}
		if b%31 == 7 || b == recoverAt {
			// install a snapshot of the current state into the live instance while readers run
			ctx, err := sm.PrepareSnapshot()
			if err == nil {
				var buf bytes.Buffer
				if err = sm.SaveSnapshot(ctx, &buf, nil, nil); err == nil {
					err = sm.RecoverFromSnapshot(bytes.NewReader(buf.Bytes()), nil, nil)
				}
			}
			if err != nil {
				updErr = err
				break
			}
			inPlace++
		}
	}
	stop.Store(true)
	close(saveCh)
	wg.Wait()
	swg.Wait()

	if updErr != nil {
		report(r, "concurrent:update-or-snapshot-error", updErr.Error(), witness3{Case: id, What: updErr.Error()})
		return
	}
	if verdictSeen != nil {
		report(r, verdictSeen.Sig, "under concurrent lookups: "+verdictSeen.What, witness3{Case: id, What: verdictSeen.What})
		return
	}
	overlapped := 0
	for _, rr := range recs {
		for _, rec := range rr {
			r.Count("concurrent_lookups", 1)
			if rec.hi > rec.lo {
				overlapped++
			}
			ok := false
			for j := rec.lo; j <= rec.hi && j < int64(len(states)); j++ {
				if why, _ := judgeLookup(states[j], rec.q, rec.got, rec.err); why == "" {
					ok = true
					break
				}
			}
			if !ok {
				var want []string
				for j := rec.lo; j <= rec.hi && j < int64(len(states)); j++ {
					why, _ := judgeLookup(states[j], rec.q, rec.got, rec.err)
					want = append(want, fmt.Sprintf("after %d entries: %s", j, why))
				}
				what := fmt.Sprintf("%s concurrent with Update answered %s, which matches none of the states between entry %d and entry %d", rec.q, render(rec.got, rec.err), rec.lo, rec.hi)
				report(r, "concurrent-lookup-answer-matches-no-state:"+rec.q.Kind, what, witness3{Case: id, What: what, Got: render(rec.got, rec.err), Want: fmt.Sprint(want)})
				return
			}
		}
	}
	r.Count("concurrent_lookups_overlapping_an_update", int64(overlapped))
	for _, s := range saved {
		if s.err != nil {
			report(r, "concurrent:snapshot-error", s.err.Error(), witness3{Case: id, What: s.err.Error()})
			return
		}
		st := states[s.at]
		qs := []query{{"getall", "/c/*", ""}, {"getall", "/c/*/*", ""}, {"getall", "/c/*/*/*", ""}, {"list", "/c", ""}}
		for _, k := range g.pool {
			qs = append(qs, query{"get", k, ""})
		}
		for _, q := range qs {
			got, err := s.sm.Lookup(q.req())
			if why, _ := judgeLookup(st, q, got, err); why != "" {
				what := fmt.Sprintf("snapshot prepared after %d entries and saved concurrently with later updates restored to a store where %s: %s", s.at, q, why)
				report(r, "concurrent-snapshot-not-point-in-time:"+q.Kind, what, witness3{Case: id, What: what})
				return
			}
		}
		r.Count("concurrent_snapshots_saved_and_restored", 1)
	}
	if id.Seed%2 == 1 {
		nrec := 0
		for _, rr := range recs {
			nrec += len(rr)
		}
		var ex map[string]any
		if len(recs[0]) > 0 {
			rec := recs[0][len(recs[0])/2]
			ex = map[string]any{"query": rec.q.String(), "entries_applied_before_call": rec.lo, "entries_possibly_applied_at_return": rec.hi, "answer": render(rec.got, rec.err)}
		}
		r.Sample(map[string]any{"layer": 3, "case_seed": id.Seed, "key_pool": g.pool, "entries_applied": applied, "concurrent_lookups": nrec,
			"snapshots_saved_concurrently": len(saved), "in_place_recoveries": inPlace, "example_lookup": ex})
	}
	r.Count("concurrent_updates", int64(applied))
	r.Count("concurrent_inplace_recoveries", int64(inPlace))
	r.Eval(1)
}
