package main

// Layer 2: the real kv.RaftStore on a real single-node dragonboat NodeHost (in-memory file
// system). Eight clients issue Set/Delete/Get with stale, current, zero and future versions
// on three keys; call/return events carry numbers from one atomic counter; the per-key
// histories are checked against a CAS-register model with porcupine, and the versions handed
// out by successful sets are checked for monotonicity against real-time order.
// Small SnapshotEntries make dragonboat snapshot the state machine while the workload runs,
// and the replica is restarted between the two workload phases (snapshot recovery + log replay).

import (
	"context"
	"crypto/sha256"
	"errors"
	"fmt"
	"io"
	"log"
	"math"
	"math/rand"
	"net"
	"sort"
	"sync"
	"sync/atomic"
	"time"

	"github.com/anishathalye/porcupine"
	"github.com/jamf/regatta/storage/kv"
	"github.com/lni/dragonboat/v4"
	"github.com/lni/dragonboat/v4/config"
	"github.com/lni/dragonboat/v4/logger"
	"github.com/lni/dragonboat/v4/raftio"
	"github.com/lni/vfs"

	"verifharness/internal/ev"
)

var quietOnce sync.Once

// quiet silences dragonboat's loggers (same list as internal/cluster.Quiet, which is not
// imported here to keep the -race build of this driver small).
func quiet() {
	quietOnce.Do(func() {
		// pebble (dragonboat's log DB) reports "background error: vfs: not supported" on the
		// in-memory FS through the standard library logger
		log.SetOutput(io.Discard)
		for _, n := range []string{"raft", "rsm", "transport", "grpc", "dragonboat", "logdb", "raftpb", "config", "settings", "tan", "utils", "pebblekv", "order", "tests", "server", "fileutil"} {
			logger.GetLogger(n).SetLevel(logger.CRITICAL)
		}
	})
}

type hop struct {
	Client int    `json:"client"`
	Kind   string `json:"op"` // set delete get
	Key    string `json:"key"`
	Val    string `json:"value,omitempty"` // long values: length and digest, see digest()
	ValLen int    `json:"value_bytes,omitempty"`
	Ver    uint64 `json:"version"`
	How    string `json:"version_choice,omitempty"`
	Call   int64  `json:"call"`
	Ret    int64  `json:"return"` // 0: outcome unknown, stays open
	Out    string `json:"out"`    // ok mismatch notfound unknown
	OutKey string `json:"out_key,omitempty"`
	OutVal string `json:"out_value,omitempty"`
	OutVer uint64 `json:"out_version,omitempty"`
	Err    string `json:"error,omitempty"`
}

type regState struct {
	K   int8 // 0 missing, 1 present, 2 unknown (after an update whose outcome is unknown)
	Val string
	Ver uint64
}

// casStep is the sequential specification of one key.
func casStep(st regState, in hop) (bool, regState) {
	present := func(val string, ver uint64) regState { return regState{1, val, ver} }
	switch in.Kind {
	case "get":
		switch {
		case in.Out == "unknown":
			return true, st
		case st.K == 2:
			if in.Out == "notfound" {
				return true, regState{}
			}
			return in.OutKey == in.Key, present(in.OutVal, in.OutVer)
		case st.K == 0:
			return in.Out == "notfound", st
		}
		return in.Out == "ok" && in.OutKey == in.Key && in.OutVal == st.Val && in.OutVer == st.Ver, st
	case "set":
		okPair := in.OutKey == in.Key && in.OutVal == in.Val
		switch {
		case in.Out == "unknown":
			return true, regState{K: 2}
		case st.K == 2:
			if in.Out == "ok" {
				return okPair, present(in.Val, in.OutVer)
			}
			return in.Out == "mismatch" && in.OutKey == in.Key, present(in.OutVal, in.OutVer)
		case st.K == 0: // missing key: not constrained by the statement, follow the outcome
			if in.Out == "ok" {
				return okPair && in.OutVer > 0, present(in.Val, in.OutVer)
			}
			return in.Out == "mismatch", st
		case in.Ver == st.Ver:
			return in.Out == "ok" && okPair && in.OutVer > st.Ver, present(in.Val, in.OutVer)
		}
		return in.Out == "mismatch" && in.OutKey == in.Key && in.OutVal == st.Val && in.OutVer == st.Ver, st
	case "delete":
		switch {
		case in.Out == "unknown":
			return true, regState{K: 2}
		case st.K == 2:
			if in.Out == "ok" {
				return true, regState{}
			}
			return in.Out == "mismatch", st
		case st.K == 0:
			return in.Out == "ok" || in.Out == "mismatch", st
		case in.Ver == st.Ver:
			return in.Out == "ok", regState{}
		}
		return in.Out == "mismatch", st
	}
	return false, st
}

var casModel = porcupine.Model{
	Init: func() interface{} { return regState{} },
	Step: func(state, input, output interface{}) (bool, interface{}) {
		ok, ns := casStep(state.(regState), input.(hop))
		return ok, ns
	},
	Equal: func(a, b interface{}) bool { return a.(regState) == b.(regState) },
	DescribeOperation: func(input, output interface{}) string {
		h := input.(hop)
		return fmt.Sprintf("%s(%q,%q,%d)->%s %q %d", h.Kind, h.Key, h.Val, h.Ver, h.Out, h.OutVal, h.OutVer)
	},
}

// histAt renders the history as it stood at logical time t: operations called by then; the
// ones that had not returned (or never returned a definite outcome) are open.
func histAt(ops []hop, t int64) []porcupine.Operation {
	var out []porcupine.Operation
	end := int64(math.MaxInt64 - 1)
	for _, o := range ops {
		if o.Call > t {
			continue
		}
		in := o
		ret := o.Ret
		if ret == 0 || ret > t {
			in.Out, in.OutKey, in.OutVal, in.OutVer = "unknown", "", "", 0
			ret = end
		}
		out = append(out, porcupine.Operation{ClientId: o.Client, Input: in, Call: o.Call, Output: nil, Return: ret})
	}
	return out
}

type witness2 struct {
	Case        caseID `json:"case"`
	Key         string `json:"key"`
	History     []hop  `json:"history"`
	IllegalAt   int64  `json:"illegal_from_event,omitempty"`
	Culprit     *hop   `json:"operation_returning_at_that_event,omitempty"`
	Reproduced  string `json:"reproduced,omitempty"`
	Description string `json:"description,omitempty"`
}

func judgeHistory(r *ev.Run, id caseID, all []hop) {
	judgeLinearizable(r, id, all)
	judgeVersions(r, id, all)
}

// judgeLinearizable checks every key's history against the CAS-register model.
func judgeLinearizable(r *ev.Run, id caseID, all []hop) {
	byKey := map[string][]hop{}
	for _, o := range all {
		byKey[o.Key] = append(byKey[o.Key], o)
	}
	keys := make([]string, 0, len(byKey))
	for k := range byKey {
		keys = append(keys, k)
	}
	sort.Strings(keys)
	for _, k := range keys {
		ops := byKey[k]
		sort.Slice(ops, func(i, j int) bool { return ops[i].Call < ops[j].Call })
		res := porcupine.CheckOperationsTimeout(casModel, histAt(ops, math.MaxInt64-2), 60*time.Second)
		switch res {
		case porcupine.Unknown:
			r.Inconclusive(fmt.Sprintf("porcupine timed out on key %q (%d operations)", k, len(ops)))
			continue
		case porcupine.Ok:
			r.Count("raftstore_keys_linearizable", 1)
			continue
		}
		// illegal: find the first event at which the history stops being explainable
		var times []int64
		for _, o := range ops {
			if o.Ret != 0 {
				times = append(times, o.Ret)
			}
		}
		sort.Slice(times, func(i, j int) bool { return times[i] < times[j] })
		lo, hi := 0, len(times)-1
		for lo < hi {
			mid := (lo + hi) / 2
			if porcupine.CheckOperationsTimeout(casModel, histAt(ops, times[mid]), 20*time.Second) == porcupine.Illegal {
				hi = mid
			} else {
				lo = mid + 1
			}
		}
		w := witness2{Case: id, Key: k, History: ops}
		what := fmt.Sprintf("history of key %q (%d operations) is not a linearizable compare-and-set register history", k, len(ops))
		sig := "raftstore-history-not-cas-linearizable"
		if len(times) > 0 {
			w.IllegalAt = times[lo]
			for i := range ops {
				if ops[i].Ret == times[lo] {
					c := ops[i]
					w.Culprit = &c
					what += fmt.Sprintf("; first inexplicable return: client %d %s(%q, ver %d, %s) -> %s {%q %d}", c.Client, c.Kind, c.Key, c.Ver, c.How, c.Out, c.OutVal, c.OutVer)
					sig += ":" + c.Kind + "-" + c.Out
				}
			}
		}
		report(r, sig, what, w)
	}
}

// judgeVersions: versions handed out by successful sets are distinct and ordered like real time.
func judgeVersions(r *ev.Run, id caseID, all []hop) {
	var sets []hop
	for _, o := range all {
		if o.Kind == "set" && o.Out == "ok" {
			sets = append(sets, o)
		}
	}
	byRet := append([]hop{}, sets...)
	sort.Slice(byRet, func(i, j int) bool { return byRet[i].Ret < byRet[j].Ret })
	sort.Slice(sets, func(i, j int) bool { return sets[i].Call < sets[j].Call })
	seen := map[uint64]hop{}
	var maxBefore hop
	p := 0
	for _, s := range sets {
		for p < len(byRet) && byRet[p].Ret < s.Call {
			if byRet[p].OutVer > maxBefore.OutVer {
				maxBefore = byRet[p]
			}
			p++
		}
		if maxBefore.OutVer != 0 && s.OutVer <= maxBefore.OutVer {
			report(r, "raftstore-version-not-larger-than-earlier-ones",
				fmt.Sprintf("set of %q called at event %d got version %d although version %d had been handed out (set of %q returned at event %d)", s.Key, s.Call, s.OutVer, maxBefore.OutVer, maxBefore.Key, maxBefore.Ret),
				witness2{Case: id, Key: s.Key, History: []hop{maxBefore, s}})
			break
		}
		if o, dup := seen[s.OutVer]; dup {
			report(r, "raftstore-version-handed-out-twice", fmt.Sprintf("version %d handed out to set of %q and to set of %q", s.OutVer, o.Key, s.Key),
				witness2{Case: id, Key: s.Key, History: []hop{o, s}})
			break
		}
		seen[s.OutVer] = s
	}
	r.Count("raftstore_successful_sets_checked_for_version_order", int64(len(sets)))
}

type sysEvents struct {
	created, recovered, unloaded atomic.Int64
}

func (s *sysEvents) NodeHostShuttingDown()                            {}
func (s *sysEvents) NodeUnloaded(info raftio.NodeInfo)                { s.unloaded.Add(1) }
func (s *sysEvents) NodeDeleted(info raftio.NodeInfo)                 {}
func (s *sysEvents) NodeReady(info raftio.NodeInfo)                   {}
func (s *sysEvents) MembershipChanged(info raftio.NodeInfo)           {}
func (s *sysEvents) ConnectionEstablished(info raftio.ConnectionInfo) {}
func (s *sysEvents) ConnectionFailed(info raftio.ConnectionInfo)      {}
func (s *sysEvents) SendSnapshotStarted(info raftio.SnapshotInfo)     {}
func (s *sysEvents) SendSnapshotCompleted(info raftio.SnapshotInfo)   {}
func (s *sysEvents) SendSnapshotAborted(info raftio.SnapshotInfo)     {}
func (s *sysEvents) SnapshotReceived(info raftio.SnapshotInfo)        {}
func (s *sysEvents) SnapshotRecovered(info raftio.SnapshotInfo)       { s.recovered.Add(1) }
func (s *sysEvents) SnapshotCreated(info raftio.SnapshotInfo)         { s.created.Add(1) }
func (s *sysEvents) SnapshotCompacted(info raftio.SnapshotInfo)       {}
func (s *sysEvents) LogCompacted(info raftio.EntryInfo)               {}
func (s *sysEvents) LogDBCompacted(info raftio.EntryInfo)             {}

const metaShard = 1313

func startStore(se *sysEvents) (*kv.RaftStore, kv.RaftConfig, error) {
	var lastErr error
	for attempt := 0; attempt < 10; attempt++ {
		l, err := net.Listen("tcp", "127.0.0.1:0")
		if err != nil {
			return nil, kv.RaftConfig{}, err
		}
		addr := l.Addr().String()
		l.Close()
		nhc := config.NodeHostConfig{
			WALDir:              "/nh/wal",
			NodeHostDir:         "/nh/dir",
			RTTMillisecond:      uint64(pickRace(2, 5)),
			RaftAddress:         addr,
			SystemEventListener: se,
		}
		_ = nhc.Prepare()
		nhc.Expert.FS = vfs.NewMem()
		nhc.Expert.Engine.ExecShards = 1
		nhc.Expert.LogDB.Shards = 1
		nh, err := dragonboat.NewNodeHost(nhc)
		if err != nil {
			lastErr = err
			continue
		}
		rs := &kv.RaftStore{NodeHost: nh, ClusterID: metaShard}
		cfg := kv.RaftConfig{
			NodeID:             1,
			ElectionRTT:        10,
			HeartbeatRTT:       1,
			SnapshotEntries:    25,
			CompactionOverhead: 5,
			InitialMembers:     map[uint64]dragonboat.Target{1: addr},
		}
		if err := rs.Start(cfg); err != nil {
			nh.Close()
			lastErr = err
			continue
		}
		ctx, cancel := context.WithTimeout(context.Background(), 30*time.Second)
		err = rs.WaitForLeader(ctx)
		cancel()
		if err != nil {
			nh.Close()
			lastErr = fmt.Errorf("no leader: %w", err)
			continue
		}
		return rs, cfg, nil
	}
	return nil, kv.RaftConfig{}, lastErr
}

func pickRace(plain, race int) int {
	if raceEnabled {
		return race
	}
	return plain
}

var l2keys = []string{"/tables/sys/idseq", "/tables/a*b/lease", "queue/q\u2028<&>\"/1"}

// digest is how values appear in the recorded history: short ones verbatim, long ones by
// length and SHA-256 (keeps witnesses small and the porcupine states cheap to compare).
func digest(v string) string {
	if len(v) <= 120 {
		return v
	}
	h := sha256.Sum256([]byte(v))
	return fmt.Sprintf("#%d bytes sha256 %x", len(v), h[:12])
}

// perform executes one recorded operation at the client boundary: call and return numbers
// come from the one atomic counter; val is the full value of a set (h.Val holds its digest).
func perform(rs *kv.RaftStore, h *hop, val string, ctr *atomic.Int64) (kv.Pair, bool) {
	h.Val, h.ValLen = digest(val), len(val)
	h.Call = ctr.Add(1)
	var err error
	var p kv.Pair
	switch h.Kind {
	case "get":
		p, err = rs.Get(h.Key)
	case "set":
		p, err = rs.Set(h.Key, val, h.Ver)
	case "delete":
		err = rs.Delete(h.Key, h.Ver)
	}
	ret := ctr.Add(1)
	switch {
	case err == nil:
		h.Out, h.Ret = "ok", ret
		if h.Kind != "delete" {
			h.OutKey, h.OutVal, h.OutVer = p.Key, digest(p.Value), p.Ver
		}
	case errors.Is(err, kv.ErrVersionMismatch):
		h.Out, h.Ret = "mismatch", ret
		if h.Kind == "set" {
			h.OutKey, h.OutVal, h.OutVer = p.Key, digest(p.Value), p.Ver
		}
	case errors.Is(err, kv.ErrNotExist) && h.Kind == "get":
		h.Out, h.Ret = "notfound", ret
	default:
		h.Out, h.Err = "unknown", err.Error() // stays open
		return p, false
	}
	return p, true
}

// client runs one client's share of a workload phase.
func client(rs *kv.RaftStore, id int, seed int64, n int, ctr *atomic.Int64, known map[string]kv.Pair, seen map[string][]uint64) []hop {
	rng := rand.New(rand.NewSource(seed))
	var out []hop
	note := func(p kv.Pair) {
		known[p.Key] = p
		seen[p.Key] = append(seen[p.Key], p.Ver)
	}
	for i := 0; i < n; i++ {
		h := hop{Client: id, Key: l2keys[rng.Intn(len(l2keys))]}
		val := ""
		switch x := rng.Intn(100); {
		case x < 25:
			h.Kind = "get"
		case x < 75:
			h.Kind = "set"
			val = fmt.Sprintf("c%d-%d-%d\u2028\"<&>", id, seed%1000, i)
			if rng.Intn(100) < 3 { // a handful of boundary-sized values per client
				size := boundarySizes[rng.Intn(len(boundarySizes))]
				switch rng.Intn(6) {
				case 0:
					size = 65536 - rng.Intn(160)
				case 1:
					size = 128 << 10
				}
				val = sizedValue(rng, size, val)
			}
		default:
			h.Kind = "delete"
		}
		if h.Kind != "get" {
			cur := known[h.Key].Ver
			switch x := rng.Intn(100); {
			case x < 50:
				h.Ver, h.How = cur, "last-seen"
			case x < 62:
				h.Ver, h.How = 0, "zero"
			case x < 77:
				if s := seen[h.Key]; len(s) > 0 {
					h.Ver, h.How = s[rng.Intn(len(s))], "stale"
				} else {
					h.Ver, h.How = cur, "last-seen"
				}
			case x < 90:
				h.Ver, h.How = cur+1+uint64(rng.Intn(8)), "future"
			default:
				h.Ver, h.How = uint64(rng.Intn(int(cur)+50)), "random"
			}
		}
		p, definite := perform(rs, &h, val, ctr)
		switch {
		case !definite:
		case h.Out == "ok" && h.Kind == "delete", h.Out == "notfound":
			delete(known, h.Key)
		case h.Kind == "get" && h.Out == "ok", h.Kind == "set":
			note(kv.Pair{Key: p.Key, Value: h.OutVal, Ver: p.Ver})
		}
		out = append(out, h)
	}
	return out
}

const nClients = 8

// runStore runs one layer-2 scenario and returns the recorded history.
func runStore(r *ev.Run, id caseID) ([]hop, bool) {
	se := &sysEvents{}
	rs, cfg, err := startStore(se)
	if err != nil {
		r.Inconclusive("layer 2: node host / metadata shard did not start: " + err.Error())
		return nil, false
	}
	defer rs.NodeHost.Close()
	var ctr atomic.Int64
	perPhase := r.Pick(200, 250)
	var all []hop
	known := make([]map[string]kv.Pair, nClients)
	seen := make([]map[string][]uint64, nClients)
	for c := range known {
		known[c], seen[c] = map[string]kv.Pair{}, map[string][]uint64{}
	}
	// the coordinator is a ninth, sequential client; its operations are part of the history
	coord := func(kind, key, val string, ver uint64) hop {
		h := hop{Client: nClients, Kind: kind, Key: key, Ver: ver, How: "coordinator"}
		perform(rs, &h, val, &ctr)
		all = append(all, h)
		return h
	}
	for phase := 0; phase < 2; phase++ {
		if phase == 1 {
			// Before the restart (no client is running): store a boundary-sized value with the
			// key's current version, have dragonboat snapshot the state machine, leave a short log
			// tail behind the snapshot. The restart then restores the snapshot and replays the tail.
			crng := rand.New(rand.NewSource(id.Seed*977 + 5))
			size := []int{65536 - crng.Intn(160), boundarySizes[5+crng.Intn(4)], 128 << 10, 1 << 20}[crng.Intn(4)]
			k := l2keys[crng.Intn(len(l2keys))]
			cur := coord("get", k, "", 0)
			if st := coord("set", k, sizedValue(crng, size, "blob-"), cur.OutVer); st.Out == "ok" {
				r.Count("raftstore_sized_value_before_restart:"+sizeBucket(size), 1)
				r.Count("raftstore_sized_values_before_restart", 1)
			}
			for try := 0; try < 20; try++ {
				ctx, cancel := context.WithTimeout(context.Background(), 30*time.Second)
				_, err := rs.NodeHost.SyncRequestSnapshot(ctx, metaShard, dragonboat.DefaultSnapshotOption)
				cancel()
				if err == nil {
					r.Count("raftstore_requested_snapshots", 1)
					break
				}
				time.Sleep(10 * time.Millisecond) // e.g. an automatic snapshot is still being saved
			}
			k2 := l2keys[(crng.Intn(len(l2keys)-1)+1+indexOf(l2keys, k))%len(l2keys)]
			cur2 := coord("get", k2, "", 0)
			coord("set", k2, "tail-"+fmt.Sprint(id.Seed), cur2.OutVer)

			// restart the replica: state comes back from the last snapshot plus log replay
			before := se.unloaded.Load()
			if err := rs.NodeHost.StopShard(metaShard); err != nil {
				r.Inconclusive("layer 2: StopShard: " + err.Error())
				return all, false
			}
			deadline := time.Now().Add(20 * time.Second) // watchdog only
			for se.unloaded.Load() == before && time.Now().Before(deadline) {
				time.Sleep(5 * time.Millisecond)
			}
			var serr error
			for try := 0; try < 200; try++ {
				if serr = rs.Start(cfg); serr == nil {
					break
				}
				time.Sleep(20 * time.Millisecond)
			}
			if serr != nil {
				r.Inconclusive("layer 2: restart of the metadata replica failed: " + serr.Error())
				return all, false
			}
			ctx, cancel := context.WithTimeout(context.Background(), 30*time.Second)
			err := rs.WaitForLeader(ctx)
			cancel()
			if err != nil {
				r.Inconclusive("layer 2: no leader after restart")
				return all, false
			}
			r.Count("raftstore_replica_restarts", 1)
			for _, key := range l2keys { // what the restarted replica holds
				coord("get", key, "", 0)
			}
		}
		res := make([][]hop, nClients)
		var wg sync.WaitGroup
		for c := 0; c < nClients; c++ {
			wg.Add(1)
			go func(c int) {
				defer wg.Done()
				res[c] = client(rs, c, id.Seed*131+int64(phase*nClients+c), perPhase, &ctr, known[c], seen[c])
			}(c)
		}
		wg.Wait()
		for _, h := range res {
			all = append(all, h...)
		}
	}
	r.Count("raftstore_real_snapshots_created", se.created.Load())
	r.Count("raftstore_real_snapshots_recovered", se.recovered.Load())
	return all, true
}

func runStoreCase(r *ev.Run, id caseID) {
	all, ok := runStore(r, id)
	if len(all) == 0 {
		return
	}
	for _, h := range all {
		r.Count("raftstore_ops", 1)
		r.Count("raftstore_op:"+h.Kind+"-"+h.Out, 1)
		if h.Kind != "get" {
			r.Distinct("raftstore_version_choices", h.How+"/"+h.Out)
		}
		if h.Kind == "set" && h.Out == "ok" && h.ValLen >= 4095 {
			r.Count("raftstore_set_ok_value_size:"+sizeBucket(h.ValLen), 1)
		}
	}
	judgeHistory(r, id, all)
	if ok {
		r.Eval(1)
	}
	if len(all) > 6 {
		r.Sample(map[string]any{"layer": 2, "case_seed": id.Seed, "operations": len(all), "first_operations": all[:6]})
	}
}

func indexOf(ss []string, s string) int {
	for i, e := range ss {
		if e == s {
			return i
		}
	}
	return 0
}
