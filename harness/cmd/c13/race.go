package main

import (
	"os"
	"path/filepath"
	"regexp"
	"sort"
	"strings"

	"verifharness/internal/ev"
)

// raceLogPrefix extracts log_path from GORACE ("" if absent).
func raceLogPrefix() string {
	for _, f := range strings.Fields(os.Getenv("GORACE")) {
		if strings.HasPrefix(f, "log_path=") {
			return strings.TrimPrefix(f, "log_path=")
		}
	}
	return ""
}

var frameRe = regexp.MustCompile(`^\s+([^\s(][^\s]*)\(`)

// raceReport is one "WARNING: DATA RACE" block.
type raceReport struct {
	text   string
	stacks [][]string // function names, innermost first, one list per stack of the report
}

func parseRaceLog(text string) []raceReport {
	var out []raceReport
	for _, blk := range strings.Split(text, "WARNING: DATA RACE")[1:] {
		if i := strings.Index(blk, "=================="); i >= 0 {
			blk = blk[:i]
		}
		rep := raceReport{text: "WARNING: DATA RACE" + blk}
		var cur []string
		flush := func() {
			if len(cur) > 0 {
				rep.stacks = append(rep.stacks, cur)
			}
			cur = nil
		}
		for _, ln := range strings.Split(blk, "\n") {
			if !strings.HasPrefix(ln, " ") || strings.TrimSpace(ln) == "" {
				flush() // section header ("Write at …", "Previous read at …", "Goroutine … created at:")
				continue
			}
			if m := frameRe.FindStringSubmatch(ln); m != nil && !strings.Contains(m[1], ".go:") {
				cur = append(cur, m[1])
			}
		}
		flush()
		out = append(out, rep)
	}
	return out
}

const regattaPath = "github.com/jamf/regatta/"

// signature: the outermost regatta function of each of the two access stacks.
func (rep raceReport) signature() (string, bool) {
	var outer []string
	for i, st := range rep.stacks {
		if i >= 2 { // the first two stacks are the two accesses; the rest are goroutine creation sites
			break
		}
		o := ""
		for _, f := range st { // innermost first: the last regatta frame is the outermost
			if strings.Contains(f, regattaPath) {
				o = strings.TrimPrefix(f[strings.Index(f, regattaPath):], regattaPath)
			}
		}
		if o != "" {
			outer = append(outer, o)
		}
	}
	if len(outer) == 0 {
		if strings.Contains(rep.text, regattaPath) {
			return "race:regatta-frame-outside-access-stacks", true
		}
		return "", false
	}
	sort.Strings(outer)
	return "race:" + strings.Join(outer, "|"), true
}

// scanRaceLogs reads the race detector's log files of this process tree and reports every
// data race with a regatta frame as a violation (C13's subject is a shared in-memory map).
func scanRaceLogs(r *ev.Run) {
	r.Extra("race_detector", raceEnabled)
	prefix := raceLogPrefix()
	if !raceEnabled || prefix == "" {
		r.Note("race logs not scanned (binary built without -race or GORACE log_path unset)")
		return
	}
	files, _ := filepath.Glob(prefix + "*")
	seen := map[string]int{}
	third := 0
	for _, f := range files {
		b, err := os.ReadFile(f)
		if err != nil {
			continue
		}
		for _, rep := range parseRaceLog(string(b)) {
			sig, regatta := rep.signature()
			if !regatta {
				third++
				continue
			}
			seen[sig]++
			if seen[sig] == 1 {
				txt := rep.text
				if len(txt) > 6000 {
					txt = txt[:6000]
				}
				report(r, sig, "data race reported by the race detector with a regatta frame", map[string]any{"report": txt})
			}
		}
	}
	n := 0
	for _, c := range seen {
		n += c
	}
	r.Count("race_reports_regatta", int64(n))
	r.Count("race_reports_third_party_only", int64(third))
	r.Count("race_log_files", int64(len(files)))
}
