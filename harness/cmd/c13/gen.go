package main

import (
	"crypto/sha256"
	"fmt"
	"math"
	"math/rand"
	"strings"
	"unicode/utf8"
)

// symbols used for nasty keys / values / patterns: JSON-sensitive characters, HTML-escaped ones,
// U+2028/2029 (escaped by encoding/json), pattern characters, multi-byte runes, controls.
var symbols = []string{"a", "b", "k", "/", "/", "*", "?", "[", "]", "\\", "\"", "'", "<", ">", "&", "\u2028", "\u2029",
	"\u00e9", "\u65e5", "\U0001F600", " ", "\n", "\t", "\u0000", "{", "}", ":", ",", "-", "^", "%", ".", "\ufffd", "0"}

var cleanSegs = []string{"a", "b", "ab", "c1", "a*", "x?", "[k]", "d\\e", "ü", "<v>", "\"q\"", "\u2028", "lease", "n&m", "日本"}

var tableNames = []string{"t1", "foo", "a*b", "x?", "sys", "q[1]", "日本", "<t>&\"", "t 1", "foo2", "\u2028t", "b\\c"}

type gen struct {
	r       *rand.Rand
	profile int // 0 callers' key shapes, 1 clean path-like, 2 nasty
	pool    []string
}

func newGen(seed int64) *gen {
	g := &gen{r: rand.New(rand.NewSource(seed))}
	g.profile = []int{0, 0, 1, 1, 1, 2, 2}[g.r.Intn(7)]
	n := 3 + g.r.Intn(5)
	seen := map[string]bool{}
	for tries := 0; len(g.pool) < n && tries < 200; tries++ {
		k := g.key()
		if !seen[k] {
			seen[k] = true
			g.pool = append(g.pool, k)
		}
	}
	return g
}

func (g *gen) nasty(max int) string {
	n := g.r.Intn(max + 1)
	var sb strings.Builder
	for i := 0; i < n; i++ {
		sb.WriteString(symbols[g.r.Intn(len(symbols))])
	}
	return sb.String()
}

func (g *gen) key() string {
	switch g.profile {
	case 0:
		t := tableNames[g.r.Intn(len(tableNames))]
		switch g.r.Intn(8) {
		case 0, 1, 2:
			return "/tables/" + t
		case 3:
			return "/tables/" + t + "/lease"
		case 4:
			return "/tables/sys/idseq"
		case 5, 6:
			return fmt.Sprintf("/cleanup/%d/%d", 1+g.r.Intn(3), 10001+g.r.Intn(3))
		default:
			return fmt.Sprintf("queue/%s/%d", t, 1+g.r.Intn(3))
		}
	case 1:
		d := 1 + g.r.Intn(4)
		segs := make([]string, d)
		for i := range segs {
			// few choices per level so that keys share directories
			segs[i] = cleanSegs[(g.r.Intn(3)+i*2+g.r.Intn(2)*5)%len(cleanSegs)]
		}
		k := strings.Join(segs, "/")
		if g.r.Intn(5) > 0 {
			k = "/" + k
		}
		return k
	default:
		if g.r.Intn(4) == 0 {
			return []string{"", "/", "//", "a/", "/a//b", "a/./b", "a/../b", ".", "..", "/a/", "*", "/*", "[", "\\", "a\\", "/tables/*"}[g.r.Intn(16)]
		}
		return g.nasty(6)
	}
}

func (g *gen) value() string {
	switch g.r.Intn(10) {
	case 0:
		return ""
	case 1, 2:
		return fmt.Sprintf(`{"id":%d,"until":"2026-01-0%dT00:00:00Z"}`, g.r.Intn(4), 1+g.r.Intn(9))
	case 3, 4:
		return fmt.Sprintf("%d", 10000+g.r.Intn(50))
	case 5:
		return fmt.Sprintf("%d$%d", 1700000000000+g.r.Int63n(1000), g.r.Intn(100))
	default:
		return g.nasty(8)
	}
}

// version picks the version to supply for an update of key; hist are the versions the key
// had earlier in this history; returns the version and how it was chosen.
func (g *gen) version(m *CAS, key string, hist []uint64, nextIdx uint64) (uint64, string) {
	cur := m.M[key].Ver // 0 when missing
	switch x := g.r.Intn(100); {
	case x < 40:
		return cur, "current"
	case x < 52:
		return 0, "zero"
	case x < 67:
		if len(hist) > 0 {
			return hist[g.r.Intn(len(hist))], "stale"
		}
		if cur > 0 {
			return cur - 1, "stale-1"
		}
		return cur, "current"
	case x < 80:
		switch g.r.Intn(5) {
		case 0:
			return nextIdx, "future-own-index"
		case 1:
			return 1 << 63, "future-2^63"
		case 2:
			return math.MaxUint64, "future-max"
		default:
			return cur + 1 + uint64(g.r.Intn(3)), "future"
		}
	case x < 88:
		o := g.pool[g.r.Intn(len(g.pool))]
		return m.M[o].Ver, "other-key"
	default:
		return uint64(g.r.Int63n(int64(nextIdx%(1<<40)) + 2)), "random"
	}
}

// patterns the callers use, instantiated on the pool, plus generated ones.
func (g *gen) pattern(m *CAS) (string, string) {
	pick := func() string {
		if len(m.M) > 0 && g.r.Intn(3) > 0 {
			ks := m.sortedKeys()
			return ks[g.r.Intn(len(ks))]
		}
		return g.pool[g.r.Intn(len(g.pool))]
	}
	switch g.r.Intn(14) {
	case 0, 1:
		return "/tables/*", "caller"
	case 2:
		return fmt.Sprintf("/cleanup/%d/*", 1+g.r.Intn(3)), "caller"
	case 3:
		return fmt.Sprintf("queue/%s/*", tableNames[g.r.Intn(len(tableNames))]), "caller"
	case 4: // directory of an existing key + "/*" (the callers' shape on arbitrary keys)
		k := pick()
		if i := strings.LastIndex(k, "/"); i >= 0 {
			return k[:i] + "/*", "dir-star"
		}
		return "*", "dir-star"
	case 5: // one segment replaced by *
		segs := strings.Split(pick(), "/")
		segs[g.r.Intn(len(segs))] = "*"
		return strings.Join(segs, "/"), "seg-star"
	case 6: // one rune replaced by ?
		rs := []rune(pick())
		if len(rs) > 0 {
			rs[g.r.Intn(len(rs))] = '?'
		}
		return string(rs), "qmark"
	case 7: // the key escaped so that it matches literally
		return escapeGlob(pick()), "escaped-literal"
	case 8: // the key verbatim (a pattern if it holds pattern characters)
		return pick(), "verbatim-key"
	case 9: // character class for one rune
		rs := []rune(pick())
		if len(rs) == 0 {
			return "[a-z]", "class"
		}
		i := g.r.Intn(len(rs))
		cls := []string{"[a-z]", "[^/]", "[^a]", "[\\*\\?\\[]", "[ -~]", "[日-本]", "[\\]]", "[a-a]"}[g.r.Intn(8)]
		return escapeGlob(string(rs[:i])) + cls + escapeGlob(string(rs[i+1:])), "class"
	case 10: // prefix + star suffix inside a segment
		k := pick()
		rs := []rune(k)
		i := 0
		if len(rs) > 0 {
			i = g.r.Intn(len(rs) + 1)
		}
		return escapeGlob(string(rs[:i])) + "*", "prefix-star"
	case 11:
		return []string{"*", "*/*", "/*", "/*/*", "/*/*/*", "/*/*/*/*", "**", "/tables/*/lease", "?", ""}[g.r.Intn(10)], "generic"
	default:
		return g.nasty(5), "random"
	}
}

func escapeGlob(s string) string {
	var sb strings.Builder
	for _, r := range s {
		switch r {
		case '*', '?', '[', '\\':
			sb.WriteByte('\\')
		}
		sb.WriteRune(r)
	}
	return sb.String()
}

// listPath picks a directory path for List/ListDir: a directory prefix of a key, a key, a
// sibling-prefix trap ("/a/pre" vs "/a/prefix"), or something odd.
func (g *gen) listPath(m *CAS) string {
	k := g.pool[g.r.Intn(len(g.pool))]
	if len(m.M) > 0 && g.r.Intn(3) > 0 {
		ks := m.sortedKeys()
		k = ks[g.r.Intn(len(ks))]
	}
	switch g.r.Intn(8) {
	case 0:
		return k
	case 1:
		if len(k) > 1 {
			return k[:len(k)-1] // string prefix that is not a path prefix
		}
		return k
	case 2:
		return []string{"/", "", ".", "/tables", "/cleanup", "queue", "/tables/", "/cleanup/1", "//"}[g.r.Intn(9)]
	default:
		segs := strings.Split(k, "/")
		n := 1 + g.r.Intn(len(segs))
		return strings.Join(segs[:n], "/")
	}
}

// ---- value sizes --------------------------------------------------------------------------
//
// The store is generic (no documented value limit), so a handful of updates per "sized" case
// carry values at buffer-size boundaries: 0, 1, 4 KiB +-1, 64 KiB +-2 (and a little below, where
// the JSON-encoded pair crosses 64 KiB), 128 KiB, 1 MiB.

var boundarySizes = []int{0, 1, 4095, 4096, 4097, 65534, 65535, 65536, 65537}

// sizeClassOf the i-th layer-1 case: 0 small values only, 1 up to 64 KiB+1, 2 additionally
// 128 KiB, 3 additionally 1 MiB (recorded in the case id, so a replay does not depend on it).
// JSON under the race detector runs at roughly 10 MB/s and every stored byte passes through
// it 20-25 times (proposals, results, mismatch answers, snapshots, restores, catch-up): a
// class-1 case costs ~0.5 s, a class-3 case seconds of CPU against ~25 ms for class 0. Hence
// fixed small shares, smaller in the thorough tier whose case list is 50 times longer.
func sizeClassOf(i int, thorough bool) int {
	m := [3]int{40, 150, 500}
	if thorough {
		m = [3]int{80, 400, 2000}
	}
	switch {
	case i%m[2] == 7:
		return 3
	case i%m[1] == 3:
		return 2
	case i%m[0] == 1:
		return 1
	}
	return 0
}

// pickSize draws a value size for a sized update; nLarge counts the >= 128 KiB values already
// used by the case (at most one 1 MiB / two 128 KiB), n64 the ~64 KiB ones (at most two).
func pickSize(r *rand.Rand, class int, nLarge, n64 *int) int {
	if class >= 2 && *nLarge < 4-class && r.Intn(2) == 0 {
		*nLarge++
		if class == 3 {
			return 1 << 20
		}
		return 128 << 10
	}
	size := boundarySizes[r.Intn(len(boundarySizes))]
	if r.Intn(4) == 0 {
		size = 65536 - r.Intn(160) // encoded pair just below / above 64 KiB
	}
	if size > 60000 {
		if *n64 >= 2 {
			return boundarySizes[r.Intn(5)]
		}
		*n64++
	}
	return size
}

// sizedValue returns valid UTF-8 of exactly size bytes that starts with tag (cut to fit):
// plain letters, letters sprinkled with characters JSON escapes, or with multi-byte runes.
func sizedValue(r *rand.Rand, size int, tag string) string {
	var sb strings.Builder
	sb.Grow(size)
	if len(tag) > size {
		tag = tag[:size] // tags are ASCII
	}
	sb.WriteString(tag)
	mode := r.Intn(3)
	var cb strings.Builder
	for cb.Len() < 180+r.Intn(120) {
		switch {
		case mode == 1 && r.Intn(40) == 0:
			cb.WriteString([]string{"<", "\"", "\u2028", "\\", "&", "\n"}[r.Intn(6)])
		case mode == 2 && r.Intn(12) == 0:
			cb.WriteString([]string{"日", "\U0001F600", "é"}[r.Intn(3)])
		default:
			cb.WriteByte(byte('a' + r.Intn(26)))
		}
	}
	chunk := cb.String()
	for sb.Len()+len(chunk) <= size {
		sb.WriteString(chunk)
	}
	for _, c := range chunk {
		if sb.Len()+len(string(c)) > size {
			break
		}
		sb.WriteRune(c)
	}
	for sb.Len() < size {
		sb.WriteByte('x')
	}
	return sb.String()
}

func sizeBucket(n int) string {
	switch {
	case n == 0:
		return "0"
	case n < 4095:
		return "<4KiB"
	case n < 65000:
		return "4KiB.."
	case n < 70000:
		return "~64KiB"
	case n < 1<<20:
		return "128KiB"
	}
	return "1MiB"
}

// short renders a string for messages, witnesses and samples: long ones are cut and
// identified by length and digest.
func short(s string) string {
	if len(s) <= 120 {
		return s
	}
	cut := 40
	for cut > 0 && !utf8.RuneStart(s[cut]) {
		cut--
	}
	h := sha256.Sum256([]byte(s))
	return fmt.Sprintf("%s…[%d bytes, sha256 %x]", s[:cut], len(s), h[:6])
}
