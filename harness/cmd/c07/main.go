// C07 — restoring a table stream reproduces exactly the content that was captured.
//
// A: Engine.Restore of generated streams into engines whose MaxInMemLogSize is chosen so that the
//    "half the in-memory log" batch threshold falls on (and just after) every record position of
//    the content, plus 0 (= unlimited), 64 KiB, 1 MiB; the target table is pre-filled with
//    different keys (nothing of it may survive) or absent; the table id must grow.
// B: the real backup client (replication/backup) against the real Maintenance/Cluster services
//    over gRPC: Backup() to files, tables changed, Restore() from the files, content must equal
//    what was captured; a flipped byte in a table file or an altered manifest checksum must be
//    refused and leave the table unchanged.
// C: point-in-time: ActiveTable.Snapshot while a writer keeps writing; the stream's content must
//    be exactly the table's content at the log index the stream declares; restoring it (with the
//    final marker the leader appends) into another engine records exactly that leader index.
package main

import (
	"context"
	"encoding/json"
	"errors"
	"fmt"
	"io"
	"math/rand"
	"os"
	"path/filepath"
	"sort"
	"strings"
	"sync"
	"sync/atomic"
	"time"

	pb "github.com/jamf/regatta/regattapb"
	"github.com/jamf/regatta/regattaserver"
	"github.com/jamf/regatta/replication/backup"
	"github.com/jamf/regatta/replication/snapshot"
	"github.com/jamf/regatta/storage"
	"github.com/jamf/regatta/storage/table/fsm"
	"google.golang.org/grpc"

	"verifharness/internal/cluster"
	"verifharness/internal/ev"
	"verifharness/internal/fsmx"
	"verifharness/internal/model"
)

type caseID struct {
	Kind  string `json:"kind"` // threshold | backup | pit
	Seed  int64  `json:"case_seed"`
	Limit uint64 `json:"max_in_mem_log_size"`
}

type witness struct {
	Case    caseID   `json:"case"`
	Content []string `json:"content"`
	What    string   `json:"what"`
}

func main() {
	r := ev.Start("C07", "exploration")
	r.Supervise()
	r.Rule("A: contents of 0-40 small records (and a few with 0.5-2 MiB values) restored under MaxInMemLogSize settings 2*c_i and 2*c_i+2 for every cumulative record size c_i of the content (threshold on / just after every record), 0, 64 KiB, 1 MiB; " +
		"B: backup/restore round trips through the real backup client and Maintenance service incl. corrupted file / altered manifest; C: captures concurrent with a writer. " +
		"Non-trivial: a restore in which the batch threshold falls strictly inside the record sequence (>=2 proposals) or MaxInMemLogSize == 0; distinct by (content seed, setting)")
	r.Assume("transport chunking of the stream itself (chunk boundaries inside records / length prefixes) is C18's subject; follower recovery end to end is exercised by C05")
	if r.Replay != "" {
		var w witness
		if _, err := r.ReadReplay(&w); err != nil {
			fmt.Fprintln(os.Stderr, "replay:", err)
			os.Exit(2)
		}
		switch w.Case.Kind {
		case "threshold":
			runThreshold(r, w.Case)
		case "backup":
			runBackup(r, w.Case)
		case "pit":
			runPIT(r, w.Case)
		case "fsm-capture":
			for i := 0; i < 20 && r.Violations() == 0; i++ {
				if why, _, err := fsmx.CaptureUnderWrites(w.Case.Seed, fsm.SnapshotRecoveryType(i%2), 1000, 2+i%3); err == nil && why != "" {
					r.Violation("capture-is-not-the-state-at-its-declared-index", why, w)
				}
			}
		}
		r.Finish()
	}
	// A
	var jobs []caseID
	for i, n := 0, r.Pick(5, 24); i < n; i++ {
		seed := r.Seed*1_000_003 + int64(i)
		recs := genContent(rand.New(rand.NewSource(seed)), "t", i%2 == 1 && r.Thorough())
		limits := map[uint64]bool{0: true, 64 * 1024: true, 1 << 20: true}
		cum := uint64(0)
		for j, rec := range recs {
			cum += uint64(recSize("t", rec))
			// dragonboat never accepts a proposal when MaxInMemLogSize is only a few record sizes
			// (the restore then retries forever, by design): thresholds start where 2*c_i >= 1000
			_ = j
			if 2*cum >= 1000 { // every record position, including the last one
				limits[2*cum] = true
				limits[2*cum+2] = true
			}
		}
		var maxRec uint64
		for _, rec := range recs {
			if sz := uint64(recSize("t", rec)); sz > maxRec {
				maxRec = sz
			}
		}
		for l := range limits {
			if l != 0 && l < 4*maxRec {
				continue // dragonboat rejects proposals forever when MaxInMemLogSize is not well above the record size
			}
			jobs = append(jobs, caseID{"threshold", seed, l})
		}
	}
	sort.Slice(jobs, func(i, j int) bool {
		if jobs[i].Seed != jobs[j].Seed {
			return jobs[i].Seed < jobs[j].Seed
		}
		return jobs[i].Limit < jobs[j].Limit
	})
	var wg sync.WaitGroup
	ch := make(chan caseID)
	for w := 0; w < 8; w++ {
		wg.Add(1)
		go func() {
			defer wg.Done()
			for j := range ch {
				runThreshold(r, j)
			}
		}()
	}
	for _, j := range jobs {
		ch <- j
	}
	close(ch)
	wg.Wait()
	for i, n := 0, r.Pick(1, 6); i < n; i++ {
		runBackup(r, caseID{Kind: "backup", Seed: r.Seed*2_000_003 + int64(i)})
	}
	for i, n := 0, r.Pick(1, 6); i < n; i++ {
		runPIT(r, caseID{Kind: "pit", Seed: r.Seed*3_000_003 + int64(i)})
	}
	// D: table streams taken from the state machine while it applies writes as fast as it can
	for i, n := 0, r.Pick(16, 300); i < n; i++ {
		why, st, err := fsmx.CaptureUnderWrites(r.Seed*4_000_003+int64(i), fsm.SnapshotRecoveryType(i%2), 1000, 2+i%3)
		if err != nil {
			r.Inconclusive("capture layer: " + err.Error())
			continue
		}
		r.Count("fsm_captures_under_writes", st.Captures)
		r.Count("fsm_captures_at_an_index_already_overtaken", st.CapturesMidWrite)
		r.Count("fsm_capture_distinct_indices", int64(st.DistinctIndices))
		if why != "" {
			r.Violation("capture-is-not-the-state-at-its-declared-index", "[state machine level, writer applying single entries back to back] "+why, witness{Case: caseID{Kind: "fsm-capture", Seed: r.Seed*4_000_003 + int64(i)}, What: why})
			continue
		}
		r.Eval(1)
	}
	r.FloorCount("fsm_captures_under_writes", int64(r.Pick(12000, 250000)))
	r.FloorCount("fsm_capture_distinct_indices", int64(r.Pick(1000, 20000)))
	r.FloorNontrivial(int64(r.Pick(15, 150)))
	r.FloorCount("restores_judged", int64(r.Pick(30, 300)))
	r.FloorCount("restores_with_several_proposals", int64(r.Pick(10, 100)))
	r.FloorCount("restores_retried_after_a_broken_attempt", int64(r.Pick(10, 100)))
	r.FloorCount("restores_unlimited_log", int64(r.Pick(2, 12)))
	r.FloorCount("backup_roundtrips", int64(r.Pick(1, 4)))
	r.FloorCount("corrupted_backups_refused", int64(r.Pick(2, 8)))
	r.FloorCount("captures_concurrent_with_writes", int64(r.Pick(3, 30)))
	r.Finish()
}

var edgeKeys = []string{"\x00", "\x00\x00", strings.Repeat("\xff", 1019), strings.Repeat("\xff", 1024), strings.Repeat("\xff", 1019) + "\x00", "\xff", "\x00a"}

func genContent(g *rand.Rand, table string, big bool) []model.KV {
	n := 12 + g.Intn(10)
	switch g.Intn(7) {
	case 0:
		n = 0
	case 1:
		n = 1
	case 2:
		n = 20 + g.Intn(21)
	}
	seen := map[string]bool{}
	var out []model.KV
	for i := 0; i < n; i++ {
		k := fmt.Sprintf("key-%03d", g.Intn(500))
		if seen[k] {
			continue
		}
		seen[k] = true
		v := []byte(strings.Repeat("v", 20+g.Intn(40)) + fmt.Sprint(i))
		switch g.Intn(10) {
		case 0:
			v = nil
		case 1:
			if big {
				v = make([]byte, 512*1024+g.Intn(3*512*1024))
				copy(v, fmt.Sprintf("big-%d", i))
			}
		}
		out = append(out, model.KV{K: k, V: v})
	}
	// keys at the edges of the key space (every table content may hold them: they are ordinary keys)
	if len(out) > 0 && g.Intn(4) == 0 {
		for _, k := range []string{"\x00", "\x00\x00", strings.Repeat("\xff", 1019), strings.Repeat("\xff", 1024), strings.Repeat("\xff", 1019) + "\x00", "\xff", "\x00a"} {
			if g.Intn(2) == 0 && !seen[k] {
				seen[k] = true
				out = append(out, model.KV{K: k, V: []byte("edge-" + fmt.Sprint(len(out)))})
			}
		}
	}
	sort.Slice(out, func(i, j int) bool { return out[i].K < out[j].K })
	return out
}

func recSize(table string, kv model.KV) int {
	return (&pb.Command{Table: []byte(table), Type: pb.Command_PUT, Kv: &pb.KeyValue{Key: []byte(kv.K), Value: kv.V}}).SizeVT()
}

func render(kvs []model.KV) []string {
	var out []string
	for _, kv := range kvs {
		out = append(out, fmt.Sprintf("%s=%dB", kv.K, len(kv.V)))
	}
	if len(out) > 30 {
		out = append(out[:30], fmt.Sprintf("… %d more", len(kvs)-30))
	}
	return out
}

func toTable(kvs []model.KV) *model.Table {
	m := model.NewTable()
	for _, kv := range kvs {
		m.M[kv.K] = kv.V
	}
	return m
}

func dump(e *storage.Engine, name string) (*model.Table, error) {
	deadline := time.Now().Add(30 * time.Second)
	for {
		ctx, cancel := context.WithTimeout(context.Background(), 20*time.Second)
		seq, err := e.IterateRange(ctx, &pb.RangeRequest{Table: []byte(name), Key: []byte{0}, RangeEnd: []byte{0}, Linearizable: true})
		if err == nil {
			m := model.NewTable()
			seq(func(rr *pb.RangeResponse) bool {
				for _, kv := range rr.Kvs {
					m.M[string(kv.Key)] = kv.Value
				}
				return true
			})
			cancel()
			return m, nil
		}
		cancel()
		if time.Now().After(deadline) {
			return nil, err
		}
		time.Sleep(20 * time.Millisecond)
	}
}

func put(e *storage.Engine, table, k string, v []byte) error {
	var err error
	for i := 0; i < 200; i++ {
		ctx, cancel := context.WithTimeout(context.Background(), 10*time.Second)
		_, err = e.Put(ctx, &pb.PutRequest{Table: []byte(table), Key: []byte(k), Value: v})
		cancel()
		if err == nil {
			return nil
		}
		time.Sleep(20 * time.Millisecond)
	}
	return err
}

// restoreWithWatchdog runs Engine.Restore; a restore that does not return is inconclusive here
// (it retries rejected proposals forever by design).
// breakingReader fails after `left` bytes.
type breakingReader struct {
	r    io.Reader
	left int
}

func (b *breakingReader) Read(p []byte) (int, error) {
	if b.left <= 0 {
		return 0, fmt.Errorf("stream broken (injected)")
	}
	if len(p) > b.left {
		p = p[:b.left]
	}
	n, err := b.r.Read(p)
	b.left -= n
	return n, err
}

func restoreWithWatchdog(e *storage.Engine, name string, rd io.Reader) (error, bool) {
	done := make(chan error, 1)
	go func() { done <- e.Restore(name, rd) }()
	select {
	case err := <-done:
		return err, true
	case <-time.After(120 * time.Second):
		return nil, false
	}
}

func runThreshold(r *ev.Run, id caseID) {
	g := rand.New(rand.NewSource(id.Seed))
	content := genContent(g, "t", false)
	_ = g
	// regenerate exactly as main did (big flag depends on tier parity) — content is a function of the seed only
	content = genContent(rand.New(rand.NewSource(id.Seed)), "t", (id.Seed-r.Seed*1_000_003)%2 == 1 && r.Thorough())
	w := witness{Case: id, Content: render(content)}
	c, err := cluster.Start(cluster.Opts{Nodes: 1, MaxInMemLogSize: id.Limit})
	if err != nil {
		r.Inconclusive(fmt.Sprintf("engine start (MaxInMemLogSize=%d): %v", id.Limit, err))
		return
	}
	defer c.Close()
	e := c.Nodes[0].Engine
	exp := toTable(content)
	// how many proposals will a correct restore need?
	proposals, est := 1, uint64(0)
	lim := id.Limit / 2
	for _, kv := range content {
		est += uint64(recSize("t", kv))
		if lim != 0 && est >= lim {
			proposals++
			est = 0
		}
	}
	for variant := 0; variant < 4; variant++ {
		name := fmt.Sprintf("t%d", variant)
		var oldID uint64
		if variant == 3 {
			// an earlier restore of the same table broke off in mid-stream (it carried other pairs
			// as well): the restore judged here is the retry
			var first []model.KV
			for i := 0; i < 12; i++ {
				first = append(first, model.KV{K: fmt.Sprintf("!only-in-the-attempt-that-broke-off-%02d", i), V: []byte(strings.Repeat("x", 40))})
			}
			first = append(first, content...)
			total := 0
			for _, kv := range first {
				total += recSize(name, kv) + 8
			}
			rd, cleanup, err := cluster.SnapshotStream(name, first, nil)
			if err != nil {
				r.Inconclusive("stream: " + err.Error())
				return
			}
			err, returned := restoreWithWatchdog(e, name, &breakingReader{r: rd, left: total * 3 / 4})
			cleanup()
			if !returned {
				r.Inconclusive("restore from a stream that breaks off did not return within 120 s")
				return
			}
			if err == nil {
				r.Violation("restore-succeeded-on-broken-stream", fmt.Sprintf("Restore(MaxInMemLogSize=%d) reported success although its stream ended with an error after %d of %d bytes", id.Limit, total*3/4, total), w)
				return
			}
			r.Count("restores_retried_after_a_broken_attempt", 1)
		}
		if variant == 0 {
			// target exists and holds different keys
			tb, err := c.CreateTable(name)
			if err != nil {
				r.Inconclusive("create table: " + err.Error())
				return
			}
			oldID = tb.ClusterID
			for i := 0; i < 4; i++ {
				if err := put(e, name, fmt.Sprintf("pre-restore-%d", i), []byte("old")); err != nil {
					r.Inconclusive("pre-fill: " + err.Error())
					return
				}
			}
		}
		// variant 2 is a leader snapshot stream: it ends with the marker that declares the leader index
		var declared *uint64
		if variant == 2 {
			v := uint64(1000 + len(content))
			declared = &v
		}
		rd, cleanup, err := cluster.SnapshotStream(name, content, declared)
		if err != nil {
			r.Inconclusive("stream: " + err.Error())
			return
		}
		err, returned := restoreWithWatchdog(e, name, rd)
		cleanup()
		if !returned {
			r.Inconclusive(fmt.Sprintf("restore with MaxInMemLogSize=%d did not return within 120 s", id.Limit))
			return
		}
		if err != nil {
			r.Violation("restore-failed", fmt.Sprintf("Restore(MaxInMemLogSize=%d): %v", id.Limit, err), w)
			return
		}
		c.ReconcileAll()
		d, err := dump(e, name)
		if err != nil {
			r.Inconclusive("dump: " + err.Error())
			return
		}
		if why := fsmx.DiffContent(d, exp); why != "" {
			sig := "restored-content-differs"
			switch {
			case len(d.M) < len(exp.M) && onlyMissing(d, exp):
				sig = "restore-loses-records"
			case hasPrefixKey(d, "!only-in-the-attempt-that-broke-off-"):
				sig = "pairs-of-a-broken-off-attempt-survive"
			case hasPrefixKey(d, "pre-restore-"):
				sig = "pre-restore-content-survives"
			}
			w.What = fmt.Sprintf("restored %d of %d pairs (MaxInMemLogSize=%d, %d proposals expected): %s", len(d.M), len(exp.M), id.Limit, proposals, why)
			r.Violation(sig, w.What, w)
			return
		}
		nt, err := e.GetTable(name)
		if err != nil {
			r.Violation("restored-table-not-in-catalogue", err.Error(), w)
			return
		}
		if nt.ClusterID <= oldID {
			r.Violation("restore-did-not-move-to-a-new-shard", fmt.Sprintf("table id %d after restore, %d before", nt.ClusterID, oldID), w)
			return
		}
		if declared != nil {
			ctx, cancel := context.WithTimeout(context.Background(), 10*time.Second)
			li, err := nt.LeaderIndex(ctx, true)
			cancel()
			if err != nil || li.Index != *declared {
				w.What = fmt.Sprintf("stream of %d pairs declares leader index %d; after the restore (MaxInMemLogSize=%d, %d proposals expected) the table records %v (err %v)", len(content), *declared, id.Limit, proposals, li, err)
				r.Violation("recorded-leader-index-differs-from-declared-index", w.What, w)
				return
			}
			r.Count("leader_stream_restores_with_index_checked", 1)
			if os.Getenv("C07_DEBUG") != "" {
				fmt.Fprintf(os.Stderr, "DEBUG limit=%d n=%d proposals=%d li=%d\n", id.Limit, len(content), proposals, li.Index)
			}
		}
		r.Count("restores_judged", 1)
		r.Eval(1)
		if proposals >= 2 {
			r.Count("restores_with_several_proposals", 1)
		}
		if id.Limit == 0 {
			r.Count("restores_unlimited_log", 1)
		}
		if proposals >= 2 || id.Limit == 0 {
			r.Nontrivial(fmt.Sprint(id.Seed, id.Limit, variant))
		}
	}
	r.Sample(map[string]any{"kind": "threshold", "max_in_mem_log_size": id.Limit, "pairs": len(content), "proposals_needed": proposals, "content": head(w.Content, 5)})
}

func onlyMissing(got, exp *model.Table) bool {
	for k, v := range got.M {
		if w, ok := exp.M[k]; !ok || string(w) != string(v) {
			return false
		}
	}
	return true
}

func hasPrefixKey(t *model.Table, p string) bool {
	for k := range t.M {
		if strings.HasPrefix(k, p) {
			return true
		}
	}
	return false
}

func head(s []string, n int) []string {
	if len(s) > n {
		return append(append([]string{}, s[:n]...), "…")
	}
	return s
}

type quiet struct{}

func (quiet) Info(args ...interface{})               {}
func (quiet) Infof(msg string, args ...interface{}) {}

func serveAll(e *storage.Engine) (string, func(), error) {
	return cluster.Serve(func(s *grpc.Server) {
		pb.RegisterKVServer(s, &regattaserver.KVServer{Storage: e})
		pb.RegisterClusterServer(s, &regattaserver.ClusterServer{Cluster: e, Config: func() map[string]any { return nil }})
		pb.RegisterMaintenanceServer(s, &regattaserver.BackupServer{Tables: e})
		pb.RegisterTablesServer(s, &regattaserver.TablesServer{Tables: e})
	})
}

func runBackup(r *ev.Run, id caseID) {
	g := rand.New(rand.NewSource(id.Seed))
	w := witness{Case: id}
	limit := []uint64{0, 6 << 20, 16 << 20, 6 << 20}[g.Intn(4)] // tables with 0.5-2 MiB values: the limit must exceed the largest record several times
	c, err := cluster.Start(cluster.Opts{Nodes: 1, MaxInMemLogSize: limit})
	if err != nil {
		r.Inconclusive("engine start: " + err.Error())
		return
	}
	defer c.Close()
	e := c.Nodes[0].Engine
	addr, stop, err := serveAll(e)
	if err != nil {
		r.Inconclusive("serve: " + err.Error())
		return
	}
	defer stop()
	conn, err := cluster.Dial(addr)
	if err != nil {
		r.Inconclusive("dial: " + err.Error())
		return
	}
	defer conn.Close()
	// bk-empty holds nothing when it is captured; bk-max holds one pair at the limits (1024-byte
	// key, 2 MiB value) next to a few small ones
	names := []string{"bk-a", "bk-b", "bk-c", "bk-empty", "bk-max"}
	captured := map[string]*model.Table{}
	for i, n := range names {
		if _, err := c.CreateTable(n); err != nil {
			r.Inconclusive("create: " + err.Error())
			return
		}
		content := genContent(g, n, i == 1)
		if i == 2 && g.Intn(2) == 0 {
			content = nil
		}
		if n == "bk-empty" {
			content = nil
		}
		if n == "bk-max" {
			content = []model.KV{{K: "a", V: []byte("1")}, {K: strings.Repeat("k", 1024), V: append([]byte("max|"), make([]byte, 2*1024*1024-4)...)}, {K: "z", V: []byte("2")}}
		}
		if i == 0 {
			// the first table always holds the keys at the edges of the key space
			have := map[string]bool{}
			for _, kv := range content {
				have[kv.K] = true
			}
			for j, k := range edgeKeys {
				if !have[k] {
					content = append(content, model.KV{K: k, V: []byte(fmt.Sprintf("edge-%d", j))})
				}
			}
		}
		for _, kv := range content {
			if err := put(e, n, kv.K, kv.V); err != nil {
				r.Inconclusive("fill: " + err.Error())
				return
			}
		}
		captured[n] = toTable(content)
		w.Content = append(w.Content, fmt.Sprintf("%s: %d pairs", n, len(content)))
	}
	dir, err := os.MkdirTemp(os.Getenv("TMPDIR"), "c07-backup-")
	if err != nil {
		r.Inconclusive(err.Error())
		return
	}
	defer os.RemoveAll(dir)
	b := &backup.Backup{Conn: conn, Dir: dir, Timeout: 2 * time.Minute, Log: quiet{}}
	man, err := b.Backup()
	if err != nil {
		r.Violation("backup-failed", err.Error(), w)
		return
	}
	if len(man.Tables) != len(names) {
		r.Violation("backup-manifest-incomplete", fmt.Sprintf("manifest lists %d tables, %d exist", len(man.Tables), len(names)), w)
		return
	}
	// change every table after the capture
	changed := map[string]*model.Table{}
	for _, n := range names {
		for i := 0; i < 3; i++ {
			if err := put(e, n, fmt.Sprintf("post-backup-%d", i), []byte("new")); err != nil {
				r.Inconclusive("post fill: " + err.Error())
				return
			}
		}
		d, err := dump(e, n)
		if err != nil {
			r.Inconclusive("dump: " + err.Error())
			return
		}
		changed[n] = d
	}
	// --- corrupted backups are refused and leave the tables unchanged
	corrupt := func(kind string) bool {
		cdir, _ := os.MkdirTemp(os.Getenv("TMPDIR"), "c07-corrupt-")
		defer os.RemoveAll(cdir)
		ents, _ := os.ReadDir(dir)
		for _, en := range ents {
			b, _ := os.ReadFile(filepath.Join(dir, en.Name()))
			_ = os.WriteFile(filepath.Join(cdir, en.Name()), b, 0o644)
		}
		// the victim is the table with the largest file; tables before it in manifest order are
		// restored before the refusal, so only the victim and the tables after it must be unchanged
		vi := 0
		for i, t := range man.Tables {
			if st, err := os.Stat(filepath.Join(dir, t.FileName)); err == nil {
				if s0, err := os.Stat(filepath.Join(dir, man.Tables[vi].FileName)); err == nil && st.Size() > s0.Size() {
					vi = i
				}
			}
		}
		victim := man.Tables[vi]
		switch kind {
		case "flip-byte":
			p := filepath.Join(cdir, victim.FileName)
			bts, _ := os.ReadFile(p)
			if len(bts) == 0 {
				return true
			}
			bts[g.Intn(len(bts))] ^= 0x40
			_ = os.WriteFile(p, bts, 0o644)
		case "alter-manifest-md5":
			p := filepath.Join(cdir, "manifest.json")
			var m backup.Manifest
			bts, _ := os.ReadFile(p)
			if json.Unmarshal(bts, &m) != nil {
				return true
			}
			x := []byte(m.Tables[vi].MD5)
			if x[0] == 'a' {
				x[0] = 'b'
			} else {
				x[0] = 'a'
			}
			m.Tables[vi].MD5 = string(x)
			bts, _ = json.Marshal(m)
			_ = os.WriteFile(p, bts, 0o644)
		case "truncate":
			p := filepath.Join(cdir, victim.FileName)
			bts, _ := os.ReadFile(p)
			if len(bts) < 2 {
				return true
			}
			_ = os.WriteFile(p, bts[:len(bts)/2], 0o644)
		}
		cb := &backup.Backup{Conn: conn, Dir: cdir, Timeout: 2 * time.Minute, Log: quiet{}}
		err := cb.Restore()
		if err == nil {
			r.Violation("corrupted-backup-accepted:"+kind, fmt.Sprintf("backup with %s of table %q was restored without complaint", kind, victim.Name), w)
			return false
		}
		for i, mt := range man.Tables {
			if i < vi {
				// legitimately restored before the corrupted table was reached: bring it back to the changed state
				continue
			}
			n := mt.Name
			d, derr := dump(e, n)
			if derr != nil {
				r.Inconclusive("dump: " + derr.Error())
				return false
			}
			if why := fsmx.DiffContent(d, changed[n]); why != "" {
				r.Violation("refused-backup-changed-a-table:"+kind, fmt.Sprintf("restore was refused (%v) but table %q changed: %s", err, n, why), w)
				return false
			}
		}
		r.Count("corrupted_backups_refused", 1)
		return true
	}
	for _, k := range []string{"flip-byte", "alter-manifest-md5", "truncate"} {
		if !corrupt(k) {
			return
		}
	}
	// --- the intact backup restores exactly what was captured
	if err := b.Restore(); err != nil {
		r.Violation("backup-restore-failed", err.Error(), w)
		return
	}
	c.ReconcileAll()
	for _, n := range names {
		d, err := dump(e, n)
		if err != nil {
			r.Inconclusive("dump: " + err.Error())
			return
		}
		if why := fsmx.DiffContent(d, captured[n]); why != "" {
			sig := "backup-roundtrip-content-differs"
			if hasPrefixKey(d, "post-backup-") {
				sig = "pre-restore-content-survives"
			} else if len(d.M) < len(captured[n].M) && onlyMissing(d, captured[n]) {
				sig = "restore-loses-records"
			}
			r.Violation(sig, fmt.Sprintf("table %q after backup->restore (MaxInMemLogSize=%d): %s", n, limit, why), w)
			return
		}
		r.Count("restores_judged", 1)
	}
	// --- and into a different, empty cluster
	c2, err := cluster.Start(cluster.Opts{Nodes: 1})
	if err == nil {
		defer c2.Close()
		addr2, stop2, err := serveAll(c2.Nodes[0].Engine)
		if err == nil {
			defer stop2()
			conn2, err := cluster.Dial(addr2)
			if err == nil {
				defer conn2.Close()
				if err := (&backup.Backup{Conn: conn2, Dir: dir, Timeout: 2 * time.Minute, Log: quiet{}}).Restore(); err != nil {
					r.Violation("backup-restore-into-empty-cluster-failed", err.Error(), w)
					return
				}
				c2.ReconcileAll()
				for _, n := range names {
					d, err := dump(c2.Nodes[0].Engine, n)
					if err != nil {
						r.Violation("restored-table-unreadable-in-empty-cluster", err.Error(), w)
						return
					}
					if why := fsmx.DiffContent(d, captured[n]); why != "" {
						r.Violation("backup-roundtrip-content-differs", fmt.Sprintf("table %q restored into an empty cluster: %s", n, why), w)
						return
					}
					r.Count("restores_judged", 1)
				}
			}
		}
	}
	r.Count("backup_roundtrips", 1)
	r.Eval(1)
	r.Sample(map[string]any{"kind": "backup", "tables": w.Content, "max_in_mem_log_size": limit})
}

// runPIT: captures taken while a writer keeps writing are point-in-time images of the declared index.
func runPIT(r *ev.Run, id caseID) {
	g := rand.New(rand.NewSource(id.Seed))
	w := witness{Case: id}
	c, err := cluster.Start(cluster.Opts{Nodes: 1})
	if err != nil {
		r.Inconclusive("engine start: " + err.Error())
		return
	}
	defer c.Close()
	e := c.Nodes[0].Engine
	if _, err := c.CreateTable("t"); err != nil {
		r.Inconclusive("create: " + err.Error())
		return
	}
	type write struct {
		rev uint64
		k   string
		v   []byte
		del bool
	}
	var mu sync.Mutex
	var writes []write
	// the table holds the keys at the edges of the key space from the start
	for j, k := range edgeKeys {
		ctx, cancel := context.WithTimeout(context.Background(), 10*time.Second)
		v := []byte(fmt.Sprintf("edge-%d", j))
		resp, err := e.Put(ctx, &pb.PutRequest{Table: []byte("t"), Key: []byte(k), Value: v})
		cancel()
		if err != nil {
			r.Inconclusive("edge key put: " + err.Error())
			return
		}
		writes = append(writes, write{rev: resp.Header.Revision, k: k, v: v})
	}
	var stop atomic.Bool
	var failed atomic.Value
	var wg sync.WaitGroup
	for cl := 0; cl < 3; cl++ {
		wg.Add(1)
		go func(cl int) {
			defer wg.Done()
			lg := rand.New(rand.NewSource(id.Seed*7 + int64(cl)))
			for i := 0; !stop.Load(); i++ {
				k := fmt.Sprintf("k%02d", lg.Intn(40))
				ctx, cancel := context.WithTimeout(context.Background(), 10*time.Second)
				if lg.Intn(4) == 0 {
					resp, err := e.Delete(ctx, &pb.DeleteRangeRequest{Table: []byte("t"), Key: []byte(k)})
					cancel()
					if err != nil {
						failed.Store(err.Error())
						return
					}
					mu.Lock()
					writes = append(writes, write{rev: resp.Header.Revision, k: k, del: true})
					mu.Unlock()
				} else {
					v := []byte(fmt.Sprintf("c%d-%d-%s", cl, i, strings.Repeat("x", lg.Intn(2000))))
					resp, err := e.Put(ctx, &pb.PutRequest{Table: []byte("t"), Key: []byte(k), Value: v})
					cancel()
					if err != nil {
						failed.Store(err.Error())
						return
					}
					mu.Lock()
					writes = append(writes, write{rev: resp.Header.Revision, k: k, v: v})
					mu.Unlock()
				}
			}
		}(cl)
	}
	type capture struct {
		index uint64
		kvs   []model.KV
	}
	var caps []capture
	tab, err := e.GetTable("t")
	if err != nil {
		stop.Store(true)
		wg.Wait()
		r.Inconclusive(err.Error())
		return
	}
	for i, n := 0, 6+g.Intn(4); i < n; i++ {
		time.Sleep(time.Duration(20+g.Intn(60)) * time.Millisecond)
		sf, err := snapshot.NewTemp()
		if err != nil {
			break
		}
		ctx, cancel := context.WithTimeout(context.Background(), 30*time.Second)
		resp, err := tab.Snapshot(ctx, sf)
		cancel()
		if err != nil {
			sf.Close()
			os.Remove(sf.Path())
			stop.Store(true)
			wg.Wait()
			r.Violation("capture-failed", err.Error(), w)
			return
		}
		_ = sf.Sync()
		_, _ = sf.Seek(0, io.SeekStart)
		var kvs []model.KV
		buf := make([]byte, 4<<20)
		for {
			n, err := sf.Read(buf)
			if err != nil {
				if !errors.Is(err, io.EOF) && !errors.Is(err, io.ErrUnexpectedEOF) {
					w.What = err.Error()
				}
				break
			}
			cmd := &pb.Command{}
			if err := cmd.UnmarshalVT(buf[:n]); err != nil {
				w.What = "record does not decode: " + err.Error()
				break
			}
			if cmd.Kv != nil {
				kvs = append(kvs, model.KV{K: string(cmd.Kv.Key), V: append([]byte{}, cmd.Kv.Value...)})
			}
		}
		sf.Close()
		os.Remove(sf.Path())
		caps = append(caps, capture{resp.Index, kvs})
	}
	stop.Store(true)
	wg.Wait()
	if v := failed.Load(); v != nil {
		r.Inconclusive("writer failed: " + v.(string))
		return
	}
	sort.Slice(writes, func(i, j int) bool { return writes[i].rev < writes[j].rev })
	stateAt := func(idx uint64) *model.Table {
		m := model.NewTable()
		for _, wr := range writes {
			if wr.rev > idx {
				break
			}
			if wr.del {
				delete(m.M, wr.k)
			} else {
				m.M[wr.k] = wr.v
			}
		}
		return m
	}
	var second *cluster.Cluster
	for i, cp := range caps {
		exp := stateAt(cp.index)
		got := toTable(cp.kvs)
		if len(cp.kvs) != len(got.M) {
			r.Violation("capture-has-duplicate-keys", fmt.Sprintf("stream declares index %d and carries %d records for %d distinct keys", cp.index, len(cp.kvs), len(got.M)), w)
			return
		}
		if why := fsmx.DiffContent(got, exp); why != "" {
			r.Violation("capture-is-not-the-state-at-its-declared-index", fmt.Sprintf("stream declares index %d (%d writes acknowledged up to it) but %s", cp.index, len(exp.M), why), w)
			return
		}
		r.Count("captures_concurrent_with_writes", 1)
		// restore the capture like a follower does (final marker with the leader index)
		if i%3 == 0 {
			if second == nil {
				second, err = cluster.Start(cluster.Opts{Nodes: 1, MaxInMemLogSize: []uint64{0, 64 * 1024, 1 << 20}[g.Intn(3)]})
				if err != nil {
					r.Inconclusive("second engine: " + err.Error())
					return
				}
				defer second.Close()
			}
			idx := cp.index
			rd, cleanup, err := cluster.SnapshotStream("t", cp.kvs, &idx)
			if err != nil {
				r.Inconclusive(err.Error())
				return
			}
			e2 := second.Nodes[0].Engine
			err, returned := restoreWithWatchdog(e2, "t", rd)
			cleanup()
			if !returned {
				r.Inconclusive("follower-style restore did not return")
				return
			}
			if err != nil {
				r.Violation("restore-failed", err.Error(), w)
				return
			}
			second.ReconcileAll()
			d, err := dump(e2, "t")
			if err != nil {
				r.Inconclusive("dump: " + err.Error())
				return
			}
			if why := fsmx.DiffContent(d, exp); why != "" {
				sig := "restored-content-differs"
				if len(d.M) < len(exp.M) && onlyMissing(d, exp) {
					sig = "restore-loses-records"
				}
				r.Violation(sig, fmt.Sprintf("follower-style restore of the capture at index %d: %s", cp.index, why), w)
				return
			}
			t2, _ := e2.GetTable("t")
			ctx, cancel := context.WithTimeout(context.Background(), 10*time.Second)
			li, err := t2.LeaderIndex(ctx, true)
			cancel()
			if err != nil || li.Index != cp.index {
				r.Violation("recorded-leader-index-differs-from-declared-index", fmt.Sprintf("after restoring the stream that declares index %d the table records leader index %v (err %v)", cp.index, li, err), w)
				return
			}
			r.Count("restores_judged", 1)
			r.Count("follower_style_restores", 1)
		}
	}
	r.Eval(1)
	r.Sample(map[string]any{"kind": "pit", "writes": len(writes), "captures": len(caps), "declared_indices": func() []uint64 {
		var o []uint64
		for _, c := range caps {
			o = append(o, c.index)
		}
		return o
	}()})
}
