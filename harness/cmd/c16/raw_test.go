package main

import (
	"testing"

	pb "github.com/jamf/regatta/regattapb"
)

// The deep-nesting encoders must produce bytes that really decode to the nesting they claim.
func TestDeepEncodersDecode(t *testing.T) {
	for _, d := range []int{1, 2, 50, 3000} {
		for name, enc := range map[string][]byte{"struct": deepStruct(d), "list": deepList(d)} {
			raw := appBytes(appBytes(nil, 1, []byte("x")), 5, enc)
			m := &pb.CreateTableRequest{}
			if err := m.UnmarshalVT(raw); err != nil {
				t.Fatalf("%s depth %d: %v", name, d, err)
			}
			depth := 0
			v := m.Config.Fields["k"]
			for v != nil {
				depth++
				if name == "struct" {
					v = v.GetStructValue().GetFields()["k"]
				} else if lv := v.GetListValue(); lv != nil && len(lv.Values) == 1 {
					v = lv.Values[0]
				} else {
					v = nil
				}
			}
			want := d
			if name == "list" {
				want = d + 1
			}
			if depth != want {
				t.Fatalf("%s: decoded depth %d, want %d", name, depth, want)
			}
		}
	}
}
