package main

// Raw-wire side: a pass-through gRPC codec (named "proto", so the server picks its normal
// codec) and the byte-level mutators.

import (
	"encoding/binary"
	"fmt"
	"math/rand"

	pb "github.com/jamf/regatta/regattapb"
)

// rawCodec sends []byte as is and hands received bytes back untouched.
type rawCodec struct{}

func (rawCodec) Name() string { return "proto" }

func (rawCodec) Marshal(v any) ([]byte, error) {
	switch b := v.(type) {
	case []byte:
		return b, nil
	case *[]byte:
		return *b, nil
	}
	return nil, fmt.Errorf("rawCodec: cannot marshal %T", v)
}

func (rawCodec) Unmarshal(data []byte, v any) error {
	p, ok := v.(*[]byte)
	if !ok {
		return fmt.Errorf("rawCodec: cannot unmarshal into %T", v)
	}
	*p = append((*p)[:0], data...)
	return nil
}

// ---- tiny wire writer ----------------------------------------------------------------------------

const (
	wtVarint  = 0
	wtFixed64 = 1
	wtBytes   = 2
	wtSGroup  = 3
	wtEGroup  = 4
	wtFixed32 = 5
)

func appVarint(b []byte, v uint64) []byte { return binary.AppendUvarint(b, v) }
func appTag(b []byte, num uint64, wt int) []byte {
	return appVarint(b, num<<3|uint64(wt))
}
func appBytes(b []byte, num uint64, data []byte) []byte {
	b = appTag(b, num, wtBytes)
	b = appVarint(b, uint64(len(data)))
	return append(b, data...)
}
func appUint(b []byte, num uint64, v uint64) []byte {
	return appVarint(appTag(b, num, wtVarint), v)
}

// deepStruct encodes a google.protobuf.Struct nested `depth` levels deep
// (Struct.fields["k"] = Value{struct_value: Struct{…}}); sizes first, then one linear pass.
func deepStruct(depth int) []byte {
	// s[i]: size of a Struct body holding i levels; e[i] its map entry; v[i] the entry's Value
	s := make([]int, depth+1)
	e := make([]int, depth+1)
	v := make([]int, depth+1)
	for i := 1; i <= depth; i++ {
		v[i] = 1 + uvarintLen(uint64(s[i-1])) + s[i-1]
		e[i] = 3 + 1 + uvarintLen(uint64(v[i])) + v[i]
		s[i] = 1 + uvarintLen(uint64(e[i])) + e[i]
	}
	out := make([]byte, 0, s[depth])
	for i := depth; i >= 1; i-- {
		out = append(out, 1<<3|wtBytes) // Struct.fields
		out = appVarint(out, uint64(e[i]))
		out = append(out, 1<<3|wtBytes, 1, 'k') // entry.key = "k"
		out = append(out, 2<<3|wtBytes)         // entry.value
		out = appVarint(out, uint64(v[i]))
		out = append(out, 5<<3|wtBytes) // Value.struct_value
		out = appVarint(out, uint64(s[i-1]))
	}
	return out
}

// deepList encodes Struct{fields{"k": Value}} where the Value is a chain of `depth` nested
// list_value / values wrappers (the cheapest recursion per byte the schema offers).
func deepList(depth int) []byte {
	v := make([]int, depth+1) // Value body sizes
	l := make([]int, depth+1) // ListValue body sizes
	for i := 1; i <= depth; i++ {
		l[i] = 1 + uvarintLen(uint64(v[i-1])) + v[i-1]
		v[i] = 1 + uvarintLen(uint64(l[i])) + l[i]
	}
	entry := 3 + 1 + uvarintLen(uint64(v[depth])) + v[depth]
	out := make([]byte, 0, entry+8)
	out = append(out, 1<<3|wtBytes)
	out = appVarint(out, uint64(entry))
	out = append(out, 1<<3|wtBytes, 1, 'k', 2<<3|wtBytes)
	out = appVarint(out, uint64(v[depth]))
	for i := depth; i >= 1; i-- {
		out = append(out, 6<<3|wtBytes) // Value.list_value
		out = appVarint(out, uint64(l[i]))
		out = append(out, 1<<3|wtBytes) // ListValue.values
		out = appVarint(out, uint64(v[i-1]))
	}
	return out
}

func uvarintLen(v uint64) int {
	n := 1
	for v >= 0x80 {
		v >>= 7
		n++
	}
	return n
}

// deepGroups encodes `depth` nested start-group tags of an unknown field, then closes them.
func deepGroups(depth int, close bool) []byte {
	var b []byte
	for i := 0; i < depth; i++ {
		b = appTag(b, 1000, wtSGroup)
	}
	if close {
		for i := 0; i < depth; i++ {
			b = appTag(b, 1000, wtEGroup)
		}
	}
	return b
}

// bytesFields lists the length-delimited field numbers of the request type of a method.
func lenFields(method string) []uint64 {
	switch method {
	case mRange, mIterate, mDelete:
		return []uint64{1, 2, 3}
	case mPut:
		return []uint64{1, 2, 3}
	case mTxn:
		return []uint64{1, 2, 3, 4}
	case mCreate:
		return []uint64{1, 5}
	case mDropTable:
		return []uint64{1}
	}
	return []uint64{1}
}

func varintFields(method string) []uint64 {
	switch method {
	case mRange, mIterate:
		return []uint64{4, 5, 6, 7, 8, 9, 10, 11}
	case mPut:
		return []uint64{4}
	case mDelete:
		return []uint64{4, 5}
	}
	return nil
}

var mutations = []string{"truncate", "bitflip", "zero-length-field", "repeated-field", "unknown-field", "wrong-wire-type", "deep-nesting", "bad-varint-or-length", "nested-zero-length"}

// mutate derives a raw mutant from the valid encoding of a request of the given method.
func mutate(r *rand.Rand, method string, enc []byte, mut string, tier string) []byte {
	b := append([]byte{}, enc...)
	switch mut {
	case "truncate":
		if len(b) > 0 {
			b = b[:r.Intn(len(b))]
		}
	case "bitflip":
		if len(b) == 0 {
			b = []byte{0}
		}
		lim := len(b)
		if lim > 64 && r.Intn(3) != 0 {
			lim = 64 // headers matter more than payload bytes
		}
		for i, n := 0, 1+r.Intn(4); i < n; i++ {
			b[r.Intn(lim)] ^= 1 << uint(r.Intn(8))
		}
	case "zero-length-field":
		fs := lenFields(method)
		for i, n := 0, 1+r.Intn(2); i < n; i++ {
			b = appBytes(b, fs[r.Intn(len(fs))], nil)
		}
	case "repeated-field":
		fs := lenFields(method)
		f := fs[r.Intn(len(fs))]
		vals := [][]byte{[]byte("t0"), []byte("a"), []byte("nope"), {0}, {}, []byte("k1")}
		for i, n := 0, 1+r.Intn(3); i < n; i++ {
			b = appBytes(b, f, vals[r.Intn(len(vals))])
		}
		if vf := varintFields(method); len(vf) > 0 && r.Intn(2) == 0 {
			f := vf[r.Intn(len(vf))]
			b = appUint(b, f, uint64(r.Intn(3)))
			b = appUint(b, f, uint64(r.Intn(3)))
		}
	case "unknown-field":
		num := []uint64{12, 15, 16, 100, 1 << 20, 1<<29 - 1, 0, 1 << 29}[r.Intn(8)]
		switch r.Intn(7) {
		case 0:
			b = appUint(b, num, r.Uint64())
		case 1:
			b = append(appTag(b, num, wtFixed64), 1, 2, 3, 4, 5, 6, 7, 8)
		case 2:
			b = appBytes(b, num, []byte("unknown-bytes"))
		case 3:
			b = append(appTag(b, num, wtFixed32), 1, 2, 3, 4)
		case 4:
			b = appTag(appTag(b, num, wtSGroup), num, wtEGroup)
		case 5:
			b = appTag(b, num, 6) // wire type that does not exist
		default:
			b = appTag(b, num, 7)
		}
	case "wrong-wire-type":
		if r.Intn(2) == 0 {
			fs := lenFields(method)
			f := fs[r.Intn(len(fs))]
			switch r.Intn(3) {
			case 0:
				b = appUint(b, f, uint64(r.Intn(300)))
			case 1:
				b = append(appTag(b, f, wtFixed64), 1, 2, 3, 4, 5, 6, 7, 8)
			default:
				b = append(appTag(b, f, wtFixed32), 1, 2, 3, 4)
			}
		} else {
			fs := varintFields(method)
			if len(fs) == 0 {
				fs = []uint64{2}
			}
			f := fs[r.Intn(len(fs))]
			if r.Intn(2) == 0 {
				b = appBytes(b, f, []byte{1, 2, 3})
			} else {
				b = append(appTag(b, f, wtFixed64), 0xff, 0xff, 0xff, 0xff, 0xff, 0xff, 0xff, 0xff)
			}
		}
	case "deep-nesting":
		depth := []int{50, 1000, 20000}[r.Intn(3)]
		if tier == "thorough" && r.Intn(3) == 0 {
			depth = 200000
		}
		switch method {
		case mCreate:
			// CreateTableRequest.config is a recursive Struct
			if tier == "thorough" && r.Intn(4) == 0 {
				b = appBytes(b, 5, deepList(450000)) // ≈3.6 MiB, as deep as one message can get
			} else if r.Intn(2) == 0 {
				b = appBytes(b, 5, deepList(depth))
			} else {
				b = appBytes(b, 5, deepStruct(depth))
			}
		case mTxn:
			// a RequestOp whose put carries, as unknown field, deeply nested groups
			inner := appBytes(nil, 1, []byte("a"))
			inner = append(inner, deepGroups(depth, r.Intn(2) == 0)...)
			op := appBytes(nil, 2, inner)
			b = appBytes(b, 3, op)
		default:
			b = append(b, deepGroups(depth, r.Intn(2) == 0)...)
		}
	case "bad-varint-or-length":
		switch r.Intn(6) {
		case 5: // the largest int64 where a limit / flag lives
			b = appUint(b, 4, 1<<63-1)
		case 0: // varint that never ends
			b = append(appTag(b, 4, wtVarint), 0xff, 0xff, 0xff, 0xff, 0xff, 0xff, 0xff, 0xff, 0xff, 0xff, 0xff, 0x01)
		case 1: // length far beyond the buffer
			b = appVarint(appTag(b, 2, wtBytes), 1<<31)
		case 2: // "negative" length
			b = appVarint(appTag(b, 2, wtBytes), 1<<63|5)
		case 3: // length one past the end
			b = append(appVarint(appTag(b, 3, wtBytes), 4), 'a', 'b', 'c')
		default: // limit = -1 as ten-byte varint (decodes to a negative int64)
			b = appUint(b, 4, ^uint64(0))
		}
	case "nested-zero-length":
		// only meaningful for Txn: operations whose oneof member / key / range_end are present
		// but zero-length
		var op []byte
		switch r.Intn(6) {
		case 0:
			op = appBytes(nil, 2, nil) // request_put: <empty message>
		case 1:
			op = appBytes(nil, 1, nil) // request_range: <empty message>
		case 2:
			op = appBytes(nil, 3, nil) // request_delete_range: <empty message>
		case 3:
			op = appBytes(nil, 3, appBytes(appBytes(nil, 1, []byte("a")), 2, nil)) // delete a with range_end present but empty
		case 4:
			op = appBytes(nil, 1, appBytes(appBytes(nil, 1, []byte("a")), 2, nil)) // range a with range_end present but empty
		default:
			op = appBytes(appBytes(nil, 2, appBytes(nil, 1, []byte("k1"))), 1, appBytes(nil, 1, []byte("k1"))) // two oneof members
		}
		if method == mTxn {
			b = appBytes(b, uint64(3+r.Intn(2)), op)
		} else {
			// top level: key present, range_end present but empty
			b = appBytes(appBytes(b, 2, []byte("a")), 3, nil)
		}
	}
	return b
}

// decode tries to read raw bytes as the request type of method.
func decode(method string, raw []byte) vtMsg {
	m := newMsg(method)
	if m == nil {
		return nil
	}
	defer func() { _ = recover() }()
	if err := m.UnmarshalVT(raw); err != nil {
		return nil
	}
	return m
}

var _ = pb.Compare_EQUAL
