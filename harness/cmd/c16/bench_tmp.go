package main

import (
	"context"
	"fmt"
	"os"
	"time"

	pb "github.com/jamf/regatta/regattapb"
)

func init() {
	if os.Getenv("C16_BENCH") == "" {
		return
	}
	defer os.Exit(0)
	defer killAll()
	c := &cluster{bin: os.Getenv("VERIF_REGATTA_BIN"), dir: os.Getenv("SCRATCH") + "/bench"}
	_ = os.MkdirAll(c.dir, 0o755)
	if err := c.startLeader(); err != nil {
		fmt.Println(err)
		return
	}
	cl := newClients(c)
	ctx := context.Background()
	for _, t := range []string{"t0", "t1", "t2"} {
		_, err := cl.ltab.Create(ctx, &pb.CreateTableRequest{Name: t})
		fmt.Println("create", t, err)
	}
	time.Sleep(2 * time.Second)
	for _, t := range []string{"t0", "t1", "t2"} {
		for i := 0; i < 5; i++ {
			_, err := cl.lkv.Put(ctx, &pb.PutRequest{Table: []byte(t), Key: []byte(fmt.Sprint("k", i)), Value: []byte("v")})
			if err != nil {
				fmt.Println(err)
			}
		}
	}
	n := 300
	t0 := time.Now()
	for i := 0; i < n; i++ {
		cl.ltab.List(ctx, &pb.ListTablesRequest{})
	}
	fmt.Printf("List: %.2f ms\n", time.Since(t0).Seconds()*1000/float64(n))
	t0 = time.Now()
	for i := 0; i < n; i++ {
		dumpTable(cl.lkv, "t0")
	}
	fmt.Printf("IterateRange dump: %.2f ms\n", time.Since(t0).Seconds()*1000/float64(n))
	t0 = time.Now()
	for i := 0; i < n; i++ {
		cl.lkv.Range(ctx, &pb.RangeRequest{Table: []byte("t0"), Key: []byte{0}, RangeEnd: []byte{0}})
	}
	fmt.Printf("Range all: %.2f ms\n", time.Since(t0).Seconds()*1000/float64(n))
	t0 = time.Now()
	for i := 0; i < n; i++ {
		cl.lkv.Put(ctx, &pb.PutRequest{Table: []byte("t0"), Key: []byte("x"), Value: []byte("v")})
	}
	fmt.Printf("Put: %.2f ms\n", time.Since(t0).Seconds()*1000/float64(n))
	t0 = time.Now()
	for i := 0; i < n; i++ {
		cl.lkv.Put(ctx, &pb.PutRequest{Table: []byte("t0"), Key: nil, Value: []byte("v")})
	}
	fmt.Printf("Put invalid: %.2f ms\n", time.Since(t0).Seconds()*1000/float64(n))
	t0 = time.Now()
	for i := 0; i < n; i++ {
		cl.lkv.Range(ctx, &pb.RangeRequest{Table: []byte("nope"), Key: []byte{0}, RangeEnd: []byte{0}})
	}
	fmt.Printf("Range unknown table: %.2f ms\n", time.Since(t0).Seconds()*1000/float64(n))
}
