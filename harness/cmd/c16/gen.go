package main

// Seeded generator of well-typed requests: valid ones and ones that violate exactly one
// documented rule (top level or nested inside a transaction).

import (
	"bytes"
	"fmt"
	"math"
	"math/rand"
	"path"
	"strings"

	pb "github.com/jamf/regatta/regattapb"
)

const (
	mRange     = "KV.Range"
	mIterate   = "KV.IterateRange"
	mPut       = "KV.Put"
	mDelete    = "KV.DeleteRange"
	mTxn       = "KV.Txn"
	mCreate    = "Tables.Create"
	mDropTable = "Tables.Delete"
	mList      = "Tables.List"
)

var fullMethod = map[string]string{
	mRange:     "/regatta.v1.KV/Range",
	mIterate:   "/regatta.v1.KV/IterateRange",
	mPut:       "/regatta.v1.KV/Put",
	mDelete:    "/regatta.v1.KV/DeleteRange",
	mTxn:       "/regatta.v1.KV/Txn",
	mCreate:    "/regatta.v1.Tables/Create",
	mDropTable: "/regatta.v1.Tables/Delete",
	mList:      "/regatta.v1.Tables/List",
}

type vtMsg interface {
	MarshalVT() ([]byte, error)
	UnmarshalVT([]byte) error
	SizeVT() int
}

func newMsg(method string) vtMsg {
	switch method {
	case mRange, mIterate:
		return &pb.RangeRequest{}
	case mPut:
		return &pb.PutRequest{}
	case mDelete:
		return &pb.DeleteRangeRequest{}
	case mTxn:
		return &pb.TxnRequest{}
	case mCreate:
		return &pb.CreateTableRequest{}
	case mDropTable:
		return &pb.DeleteTableRequest{}
	case mList:
		return &pb.ListTablesRequest{}
	}
	return nil
}

// request is one case of the stream.
type request struct {
	N        int
	Follower bool
	Method   string
	Kind     string // "valid", the id of the single rule violated on purpose, "probe:…" or "raw:<mutation>"
	Msg      vtMsg  // typed message (for raw mutants: what the bytes decode to, nil if they do not decode)
	Raw      []byte // raw mutants only: the bytes sent
	IsRaw    bool
	Nested   bool // the violated rule sits inside a transaction
	Where    string
	Keep     bool // Tables.Create with an unusual name: do not drop the table right after an accepted creation
}

type genEnv struct {
	lane    int
	stable  []string
	dyn     []string
	ghosts  []string // names that never exist
	keys    [][]byte
	hasFoll bool
	// creation budget for dynamic tables (every created table is one more Raft group in the server)
	createBudget int
	created      int
	// catalogue support: force the violated rule / the branch an invalid operation is put into
	forceKind   string // "" = draw
	forceBranch int    // 0 = draw, 1 = success, 2 = failure
	minimalTxn  bool   // the transaction carries nothing but the operation under test
}

func newGenEnv(lane int, hasFoll bool, createBudget int) *genEnv {
	e := &genEnv{lane: lane, hasFoll: hasFoll, createBudget: createBudget}
	e.stable = []string{"t0", "t1", "t2"}
	e.dyn = []string{"dyn0", "dyn1"}
	e.ghosts = []string{"nope", "T0", "t0 ", "t00", "dyn9", "\x00", "t0\x00", "täble"}
	e.keys = [][]byte{
		[]byte("a"), []byte("ab"), []byte("abc"), []byte("b"), []byte("k1"), []byte("k2"), []byte("k3"),
		[]byte("zz"), []byte("a\x00"), []byte("m\xff"), []byte("key/with/slash"), []byte("\x01"),
		bytes.Repeat([]byte("L"), maxKeyLen), // longest legal key
	}
	return e
}

func (e *genEnv) key(r *rand.Rand) []byte {
	if r.Intn(40) == 0 {
		return e.keys[len(e.keys)-1]
	}
	return e.keys[r.Intn(len(e.keys)-1)]
}

var smallValues = [][]byte{[]byte("v0"), []byte("v1"), []byte("v2"), {}, []byte("\x00"), []byte("longer-value-0123456789")}

func (e *genEnv) value(r *rand.Rand, allowHuge bool) []byte {
	switch x := r.Intn(200); {
	case x < 120:
		return smallValues[r.Intn(len(smallValues))]
	case x < 190:
		b := make([]byte, 1+r.Intn(48))
		r.Read(b)
		return b
	case x < 198 || !allowHuge:
		b := make([]byte, 64*1024)
		fill(b, byte('A'+r.Intn(26)))
		return b
	default:
		b := make([]byte, maxValueLen) // largest legal value
		fill(b, byte('a'+r.Intn(26)))
		return b
	}
}

func fill(b []byte, c byte) {
	for i := range b {
		b[i] = c
	}
}

func (e *genEnv) rangeEnd(r *rand.Rand, k []byte) []byte {
	switch x := r.Intn(20); {
	case x < 10:
		return nil
	case x < 15:
		return e.key(r)
	case x < 18:
		return []byte{0}
	default:
		if len(k) > 0 && k[len(k)-1] != 0xff {
			p := append([]byte{}, k...)
			p[len(p)-1]++
			return p
		}
		return []byte{0}
	}
}

func oversizeKey(r *rand.Rand) []byte {
	n := []int{maxKeyLen + 1, maxKeyLen + 1, maxKeyLen + 2, 2 * maxKeyLen, 70000}[r.Intn(5)]
	b := make([]byte, n)
	fill(b, 'O')
	copy(b, "OVERSIZE-KEY-")
	b[13] = byte('0' + r.Intn(4))
	return b
}

func oversizeValue(r *rand.Rand, topLevel bool) []byte {
	n := []int{maxValueLen + 1, maxValueLen + 1, 3 << 20}[r.Intn(3)]
	if topLevel && r.Intn(6) == 0 {
		n = 5 << 20 // beyond the transport's message limit as well
	}
	b := make([]byte, n)
	fill(b, byte('a'+r.Intn(26)))
	return b
}

func (e *genEnv) table(r *rand.Rand, follower bool) []byte {
	if follower || r.Intn(10) < 8 {
		return []byte(e.stable[r.Intn(len(e.stable))])
	}
	return []byte(e.dyn[r.Intn(len(e.dyn))])
}

// ---- valid building blocks ---------------------------------------------------------------------

// hugeLimits: legal (non-negative) limits no table can ever satisfy. The API documents limit as
// "a limit on the number of keys returned", any int64 >= 0 is a valid value. (Values around
// 2^31..2^40 are left out on purpose: should a server size something by them, it would take the
// sandbox's memory with it instead of failing fast.)
var hugeLimits = []int64{math.MaxInt64, math.MaxInt64 - 1, 1 << 62, 1 << 45, 1 << 48, math.MaxInt64}

func hugeLimit(r *rand.Rand) int64 { return hugeLimits[r.Intn(len(hugeLimits))] }

// maxLimit returns the largest limit found anywhere in a message (0 when there is none).
func maxLimit(msg any) int64 {
	var mx int64
	switch m := msg.(type) {
	case *pb.RangeRequest:
		if m != nil {
			mx = m.Limit
		}
	case *pb.TxnRequest:
		if m == nil {
			break
		}
		for _, ops := range [][]*pb.RequestOp{m.Success, m.Failure} {
			for _, op := range ops {
				if g := op.GetRequestRange(); g != nil && g.Limit > mx {
					mx = g.Limit
				}
			}
		}
	}
	return mx
}

func (e *genEnv) validRange(r *rand.Rand, follower bool) *pb.RangeRequest {
	k := e.key(r)
	if r.Intn(8) == 0 {
		k = []byte{0}
	}
	m := &pb.RangeRequest{Table: e.table(r, follower), Key: k, RangeEnd: e.rangeEnd(r, k)}
	switch x := r.Intn(12); {
	case x < 4:
		m.Limit = int64(r.Intn(4))
	case x == 4:
		m.Limit = hugeLimit(r)
		if r.Intn(2) == 0 {
			m.Key, m.RangeEnd = []byte{0}, []byte{0} // the whole table: certainly not an empty range
		}
	}
	switch r.Intn(6) {
	case 0:
		m.KeysOnly = true
	case 1:
		m.CountOnly = true
	}
	m.Linearizable = r.Intn(4) == 0
	return m
}

func (e *genEnv) validPut(r *rand.Rand, follower bool) *pb.PutRequest {
	return &pb.PutRequest{Table: e.table(r, follower), Key: e.key(r), Value: e.value(r, !follower), PrevKv: r.Intn(3) == 0}
}

func (e *genEnv) validDelete(r *rand.Rand, follower bool) *pb.DeleteRangeRequest {
	k := e.key(r)
	m := &pb.DeleteRangeRequest{Table: e.table(r, follower), Key: k, PrevKv: r.Intn(3) == 0, Count: r.Intn(3) == 0}
	if r.Intn(3) == 0 {
		m.RangeEnd = e.rangeEnd(r, k)
	}
	return m
}

func (e *genEnv) opPut(r *rand.Rand) *pb.RequestOp {
	return &pb.RequestOp{Request: &pb.RequestOp_RequestPut{RequestPut: &pb.RequestOp_Put{Key: e.key(r), Value: e.value(r, false), PrevKv: r.Intn(3) == 0}}}
}

func (e *genEnv) opRange(r *rand.Rand) *pb.RequestOp {
	k := e.key(r)
	g := &pb.RequestOp_Range{Key: k, RangeEnd: e.rangeEnd(r, k)}
	switch x := r.Intn(12); {
	case x < 4:
		g.Limit = int64(r.Intn(4))
	case x == 4:
		g.Limit = hugeLimit(r)
		if r.Intn(2) == 0 {
			g.Key, g.RangeEnd = []byte{0}, []byte{0}
		}
	}
	switch r.Intn(6) {
	case 0:
		g.KeysOnly = true
	case 1:
		g.CountOnly = true
	}
	return &pb.RequestOp{Request: &pb.RequestOp_RequestRange{RequestRange: g}}
}

func (e *genEnv) opDelete(r *rand.Rand) *pb.RequestOp {
	k := e.key(r)
	d := &pb.RequestOp_DeleteRange{Key: k, PrevKv: r.Intn(3) == 0, Count: r.Intn(3) == 0}
	if r.Intn(3) == 0 {
		d.RangeEnd = e.rangeEnd(r, k)
	}
	return &pb.RequestOp{Request: &pb.RequestOp_RequestDeleteRange{RequestDeleteRange: d}}
}

func (e *genEnv) op(r *rand.Rand, readOnly bool) *pb.RequestOp {
	if readOnly {
		return e.opRange(r)
	}
	switch r.Intn(5) {
	case 0, 1:
		return e.opPut(r)
	case 2:
		return e.opDelete(r)
	default:
		return e.opRange(r)
	}
}

func (e *genEnv) compare(r *rand.Rand) *pb.Compare {
	k := e.key(r)
	c := &pb.Compare{Key: k, Result: pb.Compare_CompareResult(r.Intn(4))}
	if r.Intn(4) == 0 {
		c.RangeEnd = e.rangeEnd(r, k)
	}
	if r.Intn(3) != 0 {
		c.TargetUnion = &pb.Compare_Value{Value: smallValues[r.Intn(len(smallValues))]}
	}
	return c
}

func (e *genEnv) validTxn(r *rand.Rand, follower bool) *pb.TxnRequest {
	readOnly := r.Intn(5) == 0
	m := &pb.TxnRequest{Table: e.table(r, follower)}
	if e.minimalTxn {
		return m
	}
	for i, n := 0, r.Intn(3); i < n; i++ {
		m.Compare = append(m.Compare, e.compare(r))
	}
	for i, n := 0, r.Intn(4); i < n; i++ {
		m.Success = append(m.Success, e.op(r, readOnly))
	}
	for i, n := 0, r.Intn(3); i < n; i++ {
		m.Failure = append(m.Failure, e.op(r, readOnly))
	}
	return m
}

// ---- single-rule violations ---------------------------------------------------------------------

var rangeViolations = []string{"missing-table", "missing-key", "negative-limit", "keysonly-countonly",
	"min-mod-revision", "max-mod-revision", "min-create-revision", "max-create-revision", "oversize-key", "unknown-table"}
var putViolations = []string{"missing-table", "missing-key", "oversize-key", "oversize-value", "unknown-table"}
var deleteViolations = []string{"missing-table", "missing-key", "oversize-key", "unknown-table"}
var txnViolations = []string{"missing-table", "unknown-table",
	"txn-nested-put-empty-key", "txn-nested-put-oversize-key", "txn-nested-put-oversize-value",
	"txn-nested-range-empty-key", "txn-nested-range-oversize-key", "txn-nested-range-negative-limit", "txn-nested-range-keysonly-countonly",
	"txn-nested-delete-empty-key", "txn-nested-delete-oversize-key",
	"txn-compare-empty-key", "txn-compare-oversize-key", "txn-empty-oneof",
	// nested ones are drawn more often: they are the part no unit test reaches
	"txn-nested-put-empty-key", "txn-nested-put-oversize-key", "txn-nested-put-oversize-value",
	"txn-nested-range-negative-limit", "txn-nested-range-keysonly-countonly", "txn-empty-oneof"}

// ghost draws the name of a table that does not exist: a plainly different name or, one time in
// three, a path-like / look-alike spelling of a stable table's name.
func (e *genEnv) ghost(r *rand.Rand) []byte {
	if r.Intn(3) == 0 {
		n := e.stable[r.Intn(len(e.stable))]
		sp := aliasSpellings(n, e.stable[r.Intn(len(e.stable))])
		return []byte(sp[r.Intn(len(sp))])
	}
	return []byte(e.ghosts[r.Intn(len(e.ghosts))])
}

// aliasSpellings: names that are NOT name but that a careless normalisation (path cleaning, URL
// decoding, trimming, Unicode folding) would turn into it. The first coreAliases entries are the
// path-like ones.
func aliasSpellings(name, other string) []string {
	return []string{
		"./" + name, name + "/", name + "/.", "/" + name, "//" + name, other + "/../" + name, "../tables/" + name,
		name + "/../" + name, name + "//", "./././" + name, other + "//..//" + name, "./" + name + "/",
		// not path-like
		"%2F" + name, name + "%2f", ".%2F" + name, name + " ", " " + name, name + "\t", name + "\u200b", "\ufeff" + name, strings.ToUpper(name[:1]) + name[1:],
	}
}

const coreAliases = 12

// aliasTarget names the existing table a path-like spelling cleans to ("" if none). Used to label
// signatures only, never for a verdict.
func aliasTarget(name string, w world) string {
	if name == "" || !strings.ContainsAny(name, "/.") {
		return ""
	}
	c := path.Join("/tables/", name)
	if !strings.HasPrefix(c, "/tables/") {
		return ""
	}
	t := strings.TrimPrefix(c, "/tables/")
	if t != name && t != "" && !strings.Contains(t, "/") && w.tableExists(t) {
		return t
	}
	return ""
}

// aliasKV builds the five key-value requests addressed to the (non-existing) table alias. The
// writes would be clearly visible should they reach a real table.
func aliasKV(alias string, follower bool) []*request {
	t := []byte(alias)
	all := []byte{0}
	return []*request{
		{Follower: follower, Method: mRange, Kind: "range-unknown-table", Msg: &pb.RangeRequest{Table: t, Key: all, RangeEnd: all}},
		{Follower: follower, Method: mIterate, Kind: "iterate-range-unknown-table", Msg: &pb.RangeRequest{Table: t, Key: all, RangeEnd: all}},
		{Follower: follower, Method: mPut, Kind: "put-unknown-table", Msg: &pb.PutRequest{Table: t, Key: []byte("alias-probe"), Value: []byte("x")}},
		{Follower: follower, Method: mTxn, Kind: "txn-unknown-table", Msg: &pb.TxnRequest{Table: t, Success: []*pb.RequestOp{
			{Request: &pb.RequestOp_RequestPut{RequestPut: &pb.RequestOp_Put{Key: []byte("alias-probe-txn"), Value: []byte("y")}}}}}},
		{Follower: follower, Method: mTxn, Kind: "txn-unknown-table", Msg: &pb.TxnRequest{Table: t, Success: []*pb.RequestOp{
			{Request: &pb.RequestOp_RequestRange{RequestRange: &pb.RequestOp_Range{Key: all, RangeEnd: all}}}}}},
		{Follower: follower, Method: mDelete, Kind: "delete-range-unknown-table", Msg: &pb.DeleteRangeRequest{Table: t, Key: all, RangeEnd: all, Count: true}},
	}
}

// aliasCases: the catalogue block about look-alike table names, for the tables that exist when
// the catalogue starts (the stable ones).
//   - lanes with a follower: every spelling of every table through every key-value method on the
//     follower (local reads, forwarded writes), one table per spelling on the leader;
//   - leader-only lanes: every spelling of every table on the leader, then the tables API:
//     Tables.Delete of every spelling of every table and Tables.Create of the path-like ones.
func (e *genEnv) aliasCases(withFollower bool) []*request {
	var out []*request
	for ti, t := range e.stable {
		other := e.stable[(ti+1)%len(e.stable)]
		for si, sp := range aliasSpellings(t, other) {
			if ti > 0 && si >= coreAliases {
				continue // the spellings that are not path-like: first table only
			}
			if withFollower {
				out = append(out, aliasKV(sp, true)...)
				if si%len(e.stable) == ti {
					out = append(out, aliasKV(sp, false)...)
				}
			} else {
				out = append(out, aliasKV(sp, false)...)
			}
		}
	}
	if withFollower {
		return out
	}
	for ti, t := range e.stable {
		other := e.stable[(ti+1)%len(e.stable)]
		for si, sp := range aliasSpellings(t, other) {
			if ti > 0 && si >= coreAliases {
				continue
			}
			out = append(out, &request{Method: mDropTable, Kind: "tables-delete-unknown-table", Msg: &pb.DeleteTableRequest{Name: sp}})
		}
	}
	// creating a look-alike: whatever the answer, the existing table and the list must be what the
	// model says; an accepted creation is a NEW table under exactly the name sent
	for ti, t := range e.stable {
		sps := aliasSpellings(t, e.stable[(ti+1)%len(e.stable)])
		// the path-like ones contain '/': refused. Of the others, which may be accepted, a few per run.
		pick := []int{0, 1, 2, 3, 4, 5, 6, 7, 8, 9, 10, 11, 12, 15, 18, 20}
		if ti > 0 {
			pick = []int{ti * 3, ti*3 + 1, 12 + ti}
		}
		for _, si := range pick {
			sp := sps[si]
			// Keep: an accepted creation is not dropped right away; the write and the read that
			// follow must then act on the NEW table only, and the deletion must remove only it.
			// (Where the creation is refused, the three are requests to an unknown table.)
			out = append(out,
				&request{Method: mCreate, Kind: "probe:look-alike-table-name", Keep: true, Msg: &pb.CreateTableRequest{Name: sp}},
				&request{Method: mPut, Kind: "look-alike-put", Msg: &pb.PutRequest{Table: []byte(sp), Key: []byte("after-create"), Value: []byte("z")}},
				&request{Method: mRange, Kind: "look-alike-range", Msg: &pb.RangeRequest{Table: []byte(sp), Key: []byte{0}, RangeEnd: []byte{0}}},
				&request{Method: mDropTable, Kind: "look-alike-delete", Msg: &pb.DeleteTableRequest{Name: sp}},
			)
		}
	}
	return out
}

func negLimit(r *rand.Rand) int64 {
	return []int64{-1, -1, -2, -1 << 31, -1 << 63}[r.Intn(5)]
}

func revision(r *rand.Rand) int64 { return []int64{1, 1, 2, 1 << 40, 1<<63 - 1}[r.Intn(5)] }

// insertOp puts op at a random position of the success or the failure branch.
func (e *genEnv) insertOp(r *rand.Rand, m *pb.TxnRequest, op *pb.RequestOp) string {
	ins := func(ops []*pb.RequestOp) ([]*pb.RequestOp, int) {
		i := r.Intn(len(ops) + 1)
		ops = append(ops, nil)
		copy(ops[i+1:], ops[i:])
		ops[i] = op
		return ops, i
	}
	var i int
	succ := r.Intn(2) == 0
	if e.forceBranch != 0 {
		succ = e.forceBranch == 1
	}
	if succ {
		m.Success, i = ins(m.Success)
		return fmt.Sprintf("success[%d]", i)
	}
	m.Failure, i = ins(m.Failure)
	return fmt.Sprintf("failure[%d]", i)
}

// typed draws one typed key-value request for method, valid or violating exactly one rule.
func (e *genEnv) typed(r *rand.Rand, n int, method string, follower bool) *request {
	q := &request{N: n, Follower: follower, Method: method, Kind: "valid"}
	invalid := r.Intn(100) < 58
	pick := func(list []string) string {
		k := list[r.Intn(len(list))]
		if e.forceKind != "" {
			k = e.forceKind
		}
		return k
	}
	if e.forceKind != "" {
		invalid = e.forceKind != "valid"
	}
	switch method {
	case mRange, mIterate:
		m := e.validRange(r, follower)
		q.Msg = m
		if !invalid {
			break
		}
		q.Kind = pick(rangeViolations)
		switch q.Kind {
		case "missing-table":
			m.Table = nil
		case "missing-key":
			m.Key = nil
		case "negative-limit":
			m.Limit = negLimit(r)
		case "keysonly-countonly":
			m.KeysOnly, m.CountOnly = true, true
		case "min-mod-revision":
			m.MinModRevision = revision(r)
		case "max-mod-revision":
			m.MaxModRevision = revision(r)
		case "min-create-revision":
			m.MinCreateRevision = revision(r)
		case "max-create-revision":
			m.MaxCreateRevision = revision(r)
		case "oversize-key":
			m.Key = oversizeKey(r)
			if len(m.RangeEnd) > 0 && r.Intn(2) == 0 {
				m.RangeEnd = []byte{0}
			}
		case "unknown-table":
			m.Table = e.ghost(r)
		}
	case mPut:
		m := e.validPut(r, follower)
		q.Msg = m
		if !invalid {
			break
		}
		q.Kind = pick(putViolations)
		switch q.Kind {
		case "missing-table":
			m.Table = nil
		case "missing-key":
			m.Key = nil
		case "oversize-key":
			m.Key = oversizeKey(r)
		case "oversize-value":
			m.Value = oversizeValue(r, true)
		case "unknown-table":
			m.Table = e.ghost(r)
		}
	case mDelete:
		m := e.validDelete(r, follower)
		q.Msg = m
		if !invalid {
			break
		}
		q.Kind = pick(deleteViolations)
		switch q.Kind {
		case "missing-table":
			m.Table = nil
		case "missing-key":
			m.Key = nil
		case "oversize-key":
			m.Key = oversizeKey(r)
		case "unknown-table":
			m.Table = e.ghost(r)
		}
	case mTxn:
		m := e.validTxn(r, follower)
		q.Msg = m
		if !invalid {
			break
		}
		q.Kind = pick(txnViolations)
		q.Nested = strings.HasPrefix(q.Kind, "txn-")
		switch q.Kind {
		case "missing-table":
			m.Table = nil
		case "unknown-table":
			m.Table = e.ghost(r)
		case "txn-nested-put-empty-key":
			op := e.opPut(r)
			op.GetRequestPut().Key = nil
			q.Where = e.insertOp(r, m, op)
		case "txn-nested-put-oversize-key":
			op := e.opPut(r)
			op.GetRequestPut().Key = oversizeKey(r)
			q.Where = e.insertOp(r, m, op)
		case "txn-nested-put-oversize-value":
			op := e.opPut(r)
			op.GetRequestPut().Value = oversizeValue(r, false)
			q.Where = e.insertOp(r, m, op)
		case "txn-nested-range-empty-key":
			op := e.opRange(r)
			op.GetRequestRange().Key = nil
			q.Where = e.insertOp(r, m, op)
		case "txn-nested-range-oversize-key":
			op := e.opRange(r)
			op.GetRequestRange().Key = oversizeKey(r)
			q.Where = e.insertOp(r, m, op)
		case "txn-nested-range-negative-limit":
			op := e.opRange(r)
			op.GetRequestRange().Limit = negLimit(r)
			q.Where = e.insertOp(r, m, op)
		case "txn-nested-range-keysonly-countonly":
			op := e.opRange(r)
			op.GetRequestRange().KeysOnly, op.GetRequestRange().CountOnly = true, true
			q.Where = e.insertOp(r, m, op)
		case "txn-nested-delete-empty-key":
			op := e.opDelete(r)
			op.GetRequestDeleteRange().Key = nil
			q.Where = e.insertOp(r, m, op)
		case "txn-nested-delete-oversize-key":
			op := e.opDelete(r)
			op.GetRequestDeleteRange().Key = oversizeKey(r)
			q.Where = e.insertOp(r, m, op)
		case "txn-compare-empty-key":
			c := e.compare(r)
			c.Key = nil
			m.Compare = append(m.Compare, c)
			q.Where = fmt.Sprintf("compare[%d]", len(m.Compare)-1)
		case "txn-compare-oversize-key":
			c := e.compare(r)
			c.Key = oversizeKey(r)
			m.Compare = append(m.Compare, c)
			q.Where = fmt.Sprintf("compare[%d]", len(m.Compare)-1)
		case "txn-empty-oneof":
			q.Where = e.insertOp(r, m, &pb.RequestOp{})
		}
	}
	if q.Kind != "valid" && !q.Nested {
		q.Kind = methodSlug(method) + "-" + q.Kind
	}
	return q
}

// hostile table names: nothing is documented about them, so only "the server survives" and
// "refused ⇒ no effect" are judged.
func hostileNames(r *rand.Rand) string {
	return hostileNameAt(r.Intn(len(hostileNameList)))
}

// tables draws one request to the tables API.
func (e *genEnv) tables(r *rand.Rand, n int, follower bool, hostile bool) *request {
	q := &request{N: n, Follower: follower, Kind: "valid"}
	if follower {
		switch r.Intn(5) {
		case 0:
			q.Method, q.Msg = mList, &pb.ListTablesRequest{}
		case 1, 2:
			q.Method, q.Msg, q.Kind = mCreate, &pb.CreateTableRequest{Name: []string{"t0", "newtable", "dyn0"}[r.Intn(3)]}, "follower-tables-create"
		default:
			q.Method, q.Msg, q.Kind = mDropTable, &pb.DeleteTableRequest{Name: []string{"t0", "t1", "nope"}[r.Intn(3)]}, "follower-tables-delete"
		}
		return q
	}
	switch x := r.Intn(20); {
	case x < 2:
		q.Method, q.Msg = mList, &pb.ListTablesRequest{}
	case x < 4:
		q.Method, q.Msg, q.Kind = mCreate, &pb.CreateTableRequest{}, "tables-create-missing-name"
	case x < 6:
		q.Method, q.Msg, q.Kind = mDropTable, &pb.DeleteTableRequest{}, "tables-delete-missing-name"
	case x < 8:
		q.Method, q.Msg, q.Kind = mCreate, &pb.CreateTableRequest{Name: e.stable[r.Intn(len(e.stable))]}, "tables-create-existing-table"
	case x < 10:
		q.Method, q.Msg, q.Kind = mDropTable, &pb.DeleteTableRequest{Name: e.ghosts[r.Intn(len(e.ghosts))]}, "tables-delete-unknown-table"
	case x < 11 && hostile:
		q.Method, q.Msg, q.Kind = mCreate, &pb.CreateTableRequest{Name: hostileNames(r)}, "probe:hostile-table-name"
	case x < 14 && e.created < e.createBudget:
		// create a dynamic table (a duplicate if it exists already, the validator decides)
		q.Method, q.Msg, q.Kind = mCreate, &pb.CreateTableRequest{Name: e.dyn[r.Intn(len(e.dyn))]}, "dyn-create"
	case x < 14:
		q.Method, q.Msg = mList, &pb.ListTablesRequest{}
	default:
		q.Method, q.Msg, q.Kind = mDropTable, &pb.DeleteTableRequest{Name: e.dyn[r.Intn(len(e.dyn))]}, "dyn-delete"
	}
	return q
}

// ---- rendering --------------------------------------------------------------------------------

func qb(b []byte) string {
	if b == nil {
		return "-"
	}
	if len(b) > 20 {
		return fmt.Sprintf("%q…(%dB)", b[:12], len(b))
	}
	return fmt.Sprintf("%q", b)
}

func renderOp(op *pb.RequestOp) string {
	switch o := op.GetRequest().(type) {
	case *pb.RequestOp_RequestPut:
		return fmt.Sprintf("put(%s=%s prev=%v)", qb(o.RequestPut.GetKey()), qb(o.RequestPut.GetValue()), o.RequestPut.GetPrevKv())
	case *pb.RequestOp_RequestRange:
		g := o.RequestRange
		return fmt.Sprintf("range(%s,%s limit=%d keys_only=%v count_only=%v)", qb(g.GetKey()), qb(g.GetRangeEnd()), g.GetLimit(), g.GetKeysOnly(), g.GetCountOnly())
	case *pb.RequestOp_RequestDeleteRange:
		d := o.RequestDeleteRange
		return fmt.Sprintf("delete(%s,%s prev=%v count=%v)", qb(d.GetKey()), qb(d.GetRangeEnd()), d.GetPrevKv(), d.GetCount())
	}
	return "op(<empty oneof>)"
}

func render(msg any) string {
	switch m := msg.(type) {
	case *pb.RangeRequest:
		s := fmt.Sprintf("table=%s key=%s range_end=%s limit=%d lin=%v keys_only=%v count_only=%v", qb(m.Table), qb(m.Key), qb(m.RangeEnd), m.Limit, m.Linearizable, m.KeysOnly, m.CountOnly)
		if m.MinModRevision != 0 || m.MaxModRevision != 0 || m.MinCreateRevision != 0 || m.MaxCreateRevision != 0 {
			s += fmt.Sprintf(" revs=[%d %d %d %d]", m.MinModRevision, m.MaxModRevision, m.MinCreateRevision, m.MaxCreateRevision)
		}
		return s
	case *pb.PutRequest:
		return fmt.Sprintf("table=%s key=%s value=%s prev_kv=%v", qb(m.Table), qb(m.Key), qb(m.Value), m.PrevKv)
	case *pb.DeleteRangeRequest:
		return fmt.Sprintf("table=%s key=%s range_end=%s prev_kv=%v count=%v", qb(m.Table), qb(m.Key), qb(m.RangeEnd), m.PrevKv, m.Count)
	case *pb.TxnRequest:
		var sb strings.Builder
		fmt.Fprintf(&sb, "table=%s if[", qb(m.Table))
		for i, c := range m.Compare {
			if i > 0 {
				sb.WriteString(" && ")
			}
			tgt := "exists"
			if c.GetTargetUnion() != nil {
				tgt = fmt.Sprintf("%s %s", c.GetResult(), qb(c.GetValue()))
			}
			fmt.Fprintf(&sb, "(%s,%s) %s", qb(c.GetKey()), qb(c.GetRangeEnd()), tgt)
		}
		sb.WriteString("] then[")
		for i, op := range m.Success {
			if i > 0 {
				sb.WriteString("; ")
			}
			sb.WriteString(renderOp(op))
		}
		sb.WriteString("] else[")
		for i, op := range m.Failure {
			if i > 0 {
				sb.WriteString("; ")
			}
			sb.WriteString(renderOp(op))
		}
		sb.WriteString("]")
		return sb.String()
	case *pb.CreateTableRequest:
		cfg := ""
		if m.Config != nil {
			cfg = " config=<set>"
		}
		return fmt.Sprintf("name=%s%s", qb([]byte(m.Name)), cfg)
	case *pb.DeleteTableRequest:
		return fmt.Sprintf("name=%s", qb([]byte(m.Name)))
	case *pb.ListTablesRequest:
		return "{}"
	case nil:
		return "<does not decode>"
	}
	return fmt.Sprintf("%T", msg)
}

// inverted tells whether (key, range_end) denotes a range whose end is not above its start
// (range_end present, not the "\0" wildcard, and <= key).
func inverted(key, end []byte) bool {
	if len(end) == 0 || len(key) == 0 || (len(end) == 1 && end[0] == 0) {
		return false
	}
	return bytes.Compare(end, key) <= 0
}

// straighten removes inverted read bounds from a message (the range_end is dropped, the read
// becomes a single-key read) and reports whether it found any. Only reads matter: they are what
// builds an iterator with inverted bounds (Range, IterateRange, nested range, range compare,
// range delete asking for prev_kv / count).
func straighten(msg any) bool {
	found := false
	switch m := msg.(type) {
	case *pb.RangeRequest:
		if inverted(m.Key, m.RangeEnd) {
			m.RangeEnd, found = nil, true
		}
	case *pb.DeleteRangeRequest:
		if inverted(m.Key, m.RangeEnd) {
			m.RangeEnd, found = nil, true
		}
	case *pb.TxnRequest:
		for _, c := range m.Compare {
			if c != nil && inverted(c.Key, c.RangeEnd) {
				c.RangeEnd, found = nil, true
			}
		}
		for _, ops := range [][]*pb.RequestOp{m.Success, m.Failure} {
			for _, op := range ops {
				switch o := op.GetRequest().(type) {
				case *pb.RequestOp_RequestRange:
					if o.RequestRange != nil && inverted(o.RequestRange.Key, o.RequestRange.RangeEnd) {
						o.RequestRange.RangeEnd, found = nil, true
					}
				case *pb.RequestOp_RequestDeleteRange:
					if o.RequestDeleteRange != nil && inverted(o.RequestDeleteRange.Key, o.RequestDeleteRange.RangeEnd) {
						o.RequestDeleteRange.RangeEnd, found = nil, true
					}
				}
			}
		}
	}
	return found
}
