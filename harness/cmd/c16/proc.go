package main

// Starting, watching and stopping the REAL regatta binary (black box). Helpers are private to
// this driver on purpose (C17 has its own).

import (
	"bytes"
	"context"
	"errors"
	"fmt"
	"net"
	"os"
	"os/exec"
	"path/filepath"
	"regexp"
	"runtime"
	"sort"
	"strings"
	"sync"
	"syscall"
	"time"

	pb "github.com/jamf/regatta/regattapb"
	"google.golang.org/grpc"
	"google.golang.org/grpc/credentials/insecure"
)

// ---- child process bookkeeping ------------------------------------------------------------

// Children are started from one goroutine locked to an OS thread that never exits, because
// Pdeathsig is delivered when the *thread* that forked the child dies.
var spawnCh = make(chan func())

func init() {
	go func() {
		runtime.LockOSThread()
		for f := range spawnCh {
			f()
		}
	}()
}

type proc struct {
	name    string
	cmd     *exec.Cmd
	logPath string
	raceLog string // GORACE log_path prefix
	done    chan struct{}
	waitErr error
	stopped bool // we asked it to stop
}

var (
	childMu  sync.Mutex
	children []*proc
)

func startProc(name, bin string, args []string, logPath, raceLog string) (*proc, error) {
	lf, err := os.OpenFile(logPath, os.O_CREATE|os.O_WRONLY|os.O_APPEND, 0o644)
	if err != nil {
		return nil, err
	}
	cmd := exec.Command(bin, args...)
	cmd.Stdout = lf
	cmd.Stderr = lf
	cmd.Dir = filepath.Dir(logPath)
	cmd.SysProcAttr = &syscall.SysProcAttr{Pdeathsig: syscall.SIGKILL, Setpgid: true}
	env := []string{}
	for _, e := range os.Environ() {
		if strings.HasPrefix(e, "GORACE=") {
			continue
		}
		env = append(env, e)
	}
	// exitcode=0: the exit status then tells how the program itself ended; race reports are
	// read from the log files.
	env = append(env, "GORACE=halt_on_error=0 exitcode=0 log_path="+raceLog)
	cmd.Env = env
	errc := make(chan error, 1)
	spawnCh <- func() { errc <- cmd.Start() }
	err = <-errc
	_ = lf.Close()
	if err != nil {
		return nil, err
	}
	p := &proc{name: name, cmd: cmd, logPath: logPath, raceLog: raceLog, done: make(chan struct{})}
	go func() {
		p.waitErr = cmd.Wait()
		close(p.done)
	}()
	childMu.Lock()
	children = append(children, p)
	childMu.Unlock()
	return p, nil
}

func (p *proc) alive() bool {
	select {
	case <-p.done:
		return false
	default:
		return true
	}
}

func (p *proc) kill() {
	if p == nil {
		return
	}
	p.stopped = true
	if p.alive() {
		_ = p.cmd.Process.Kill()
		select {
		case <-p.done:
		case <-time.After(10 * time.Second):
		}
	}
}

// terminate sends SIGTERM and waits. It returns (exited, exit description).
func (p *proc) terminate(wait time.Duration) (bool, string) {
	p.stopped = true
	if !p.alive() {
		return true, p.exitString()
	}
	_ = p.cmd.Process.Signal(syscall.SIGTERM)
	select {
	case <-p.done:
		return true, p.exitString()
	case <-time.After(wait):
		// goroutine dump into the log for whoever looks at it, then kill
		_ = p.cmd.Process.Signal(syscall.SIGQUIT)
		select {
		case <-p.done:
		case <-time.After(5 * time.Second):
			_ = p.cmd.Process.Kill()
			<-p.done
		}
		return false, "no exit within watchdog after SIGTERM"
	}
}

func (p *proc) exitString() string {
	if p.alive() {
		return "running"
	}
	if p.waitErr == nil {
		return "exit status 0"
	}
	return p.waitErr.Error()
}

func (p *proc) exitedCleanly() bool { return !p.alive() && p.waitErr == nil }

func killAll() {
	childMu.Lock()
	cs := append([]*proc{}, children...)
	childMu.Unlock()
	for _, p := range cs {
		if p.alive() {
			_ = p.cmd.Process.Kill()
		}
	}
	for _, p := range cs {
		select {
		case <-p.done:
		case <-time.After(5 * time.Second):
		}
	}
}

// ---- crash evidence in the server output ------------------------------------------------------

var crashRe = regexp.MustCompile(`(?m)^(panic: .*|fatal error: .*|\[signal .*|.*checkptr: .*|.*unexpected fault address.*|SIGSEGV: .*|\S+\tFATAL\t.*)$`)

// crashLines returns the crash-like lines in the process log (first few) and a context excerpt.
func (p *proc) crashLines() (lines []string, excerpt string) {
	b, err := os.ReadFile(p.logPath)
	if err != nil {
		return nil, ""
	}
	locs := crashRe.FindAllIndex(b, 8)
	for _, l := range locs {
		lines = append(lines, string(b[l[0]:l[1]]))
	}
	if len(locs) > 0 {
		from := locs[0][0]
		to := from + 3000
		if to > len(b) {
			to = len(b)
		}
		excerpt = string(b[from:to])
	}
	return lines, excerpt
}

func (p *proc) logTail(n int) string {
	b, err := os.ReadFile(p.logPath)
	if err != nil {
		return ""
	}
	if len(b) > n {
		b = b[len(b)-n:]
	}
	return string(b)
}

type raceReport struct {
	Key     string `json:"key"`
	Regatta bool   `json:"regatta_frame"`
	// Coro: the report involves regatta's copy of iter.Pull (util/iter), which switches
	// coroutines through runtime.coroswitch without the race annotations the standard library's
	// iter.Pull carries; the two sides never run concurrently, the report is an artefact of -race.
	Coro   bool     `json:"coroutine_handoff_artefact"`
	Frames []string `json:"frames"`
	Text   string   `json:"text,omitempty"`
}

var frameRe = regexp.MustCompile(`(?m)^\s{2}([A-Za-z0-9_./\-]+(?:\.\(\*?[A-Za-z0-9_\[\]\.,\* ]+\))?[A-Za-z0-9_.\[\]\-]*)\(`)

// raceReports parses the GORACE log files (and the process log, should a report land there).
func (p *proc) raceReports() []raceReport {
	var texts []string
	files, _ := filepath.Glob(p.raceLog + ".*")
	files = append(files, p.logPath)
	for _, f := range files {
		b, err := os.ReadFile(f)
		if err != nil || !bytes.Contains(b, []byte("WARNING: DATA RACE")) {
			continue
		}
		for _, part := range strings.Split(string(b), "==================") {
			if strings.Contains(part, "WARNING: DATA RACE") {
				texts = append(texts, part)
			}
		}
	}
	seen := map[string]bool{}
	var out []raceReport
	for _, t := range texts {
		var reg []string
		for _, m := range frameRe.FindAllStringSubmatch(t, -1) {
			if strings.Contains(m[1], "github.com/jamf/regatta/") {
				reg = append(reg, strings.TrimPrefix(m[1], "github.com/jamf/regatta/"))
			}
		}
		rr := raceReport{Regatta: len(reg) > 0, Coro: strings.Contains(t, "github.com/jamf/regatta/util/iter.Pull")}
		if len(reg) > 4 {
			reg = reg[:4]
		}
		rr.Frames = reg
		if rr.Regatta {
			u := append([]string{}, reg...)
			sort.Strings(u)
			rr.Key = strings.Join(u, "|")
		} else {
			first := ""
			if m := frameRe.FindStringSubmatch(t); m != nil {
				first = m[1]
			}
			rr.Key = "third-party:" + first
		}
		if seen[rr.Key] {
			continue
		}
		seen[rr.Key] = true
		if len(t) > 2500 {
			t = t[:2500]
		}
		rr.Text = t
		out = append(out, rr)
	}
	return out
}

// ---- ports -----------------------------------------------------------------------------------

// freePorts returns n loopback ports that were free a moment ago (TCP and UDP).
func freePorts(n int) ([]int, error) {
	var ls []net.Listener
	var ps []net.PacketConn
	defer func() {
		for _, l := range ls {
			_ = l.Close()
		}
		for _, p := range ps {
			_ = p.Close()
		}
	}()
	var ports []int
	for tries := 0; len(ports) < n && tries < 200; tries++ {
		l, err := net.Listen("tcp", "127.0.0.1:0")
		if err != nil {
			return nil, err
		}
		port := l.Addr().(*net.TCPAddr).Port
		pc, err := net.ListenPacket("udp", fmt.Sprintf("127.0.0.1:%d", port))
		if err != nil {
			_ = l.Close()
			continue
		}
		ls = append(ls, l)
		ps = append(ps, pc)
		ports = append(ports, port)
	}
	if len(ports) < n {
		return nil, errors.New("no free ports")
	}
	return ports, nil
}

// ---- one leader (+ optional follower) ---------------------------------------------------------

type cluster struct {
	bin       string
	dir       string
	gen       int // restart generation (fresh directories every time)
	leader    *proc
	follower  *proc
	leaderAPI string
	replAddr  string
	follAPI   string
	lconn     *grpc.ClientConn
	fconn     *grpc.ClientConn
}

var errStartup = errors.New("server did not come up")

func dial(addr string) (*grpc.ClientConn, error) {
	return grpc.NewClient("passthrough:///"+addr,
		grpc.WithTransportCredentials(insecure.NewCredentials()),
		grpc.WithDefaultCallOptions(grpc.MaxCallRecvMsgSize(256<<20), grpc.MaxCallSendMsgSize(256<<20)),
	)
}

// waitReady polls Tables.List until the API answers OK, the process dies, or the watchdog fires.
func waitReady(p *proc, conn *grpc.ClientConn, bound time.Duration) error {
	deadline := time.Now().Add(bound)
	tc := pb.NewTablesClient(conn)
	for time.Now().Before(deadline) {
		if !p.alive() {
			return fmt.Errorf("%s exited during start-up: %s", p.name, p.exitString())
		}
		ctx, cancel := context.WithTimeout(context.Background(), 2*time.Second)
		_, err := tc.List(ctx, &pb.ListTablesRequest{})
		cancel()
		if err == nil {
			return nil
		}
		time.Sleep(50 * time.Millisecond)
	}
	return errStartup
}

func (c *cluster) startLeader() error {
	var last error
	for attempt := 0; attempt < 10; attempt++ {
		c.gen++
		d := filepath.Join(c.dir, fmt.Sprintf("leader%d", c.gen))
		if err := os.MkdirAll(filepath.Join(d, "sm", "data"), 0o755); err != nil {
			return err
		}
		ports, err := freePorts(5)
		if err != nil {
			last = err
			continue
		}
		api, raft, ml, repl, rest := ports[0], ports[1], ports[2], ports[3], ports[4]
		args := []string{"leader", "--dev-mode", "--log-level=INFO",
			fmt.Sprintf("--api.address=http://127.0.0.1:%d", api),
			fmt.Sprintf("--raft.address=127.0.0.1:%d", raft),
			fmt.Sprintf("--raft.initial-members=1=127.0.0.1:%d", raft),
			"--raft.node-host-dir=" + filepath.Join(d, "nh"),
			"--raft.state-machine-dir=" + filepath.Join(d, "sm", "data"),
			fmt.Sprintf("--memberlist.address=127.0.0.1:%d", ml),
			fmt.Sprintf("--replication.address=http://127.0.0.1:%d", repl),
			fmt.Sprintf("--rest.address=http://127.0.0.1:%d", rest),
			"--raft.rtt=5ms",
		}
		p, err := startProc("leader", c.bin, args, filepath.Join(d, "out.log"), filepath.Join(d, "race"))
		if err != nil {
			return err
		}
		addr := fmt.Sprintf("127.0.0.1:%d", api)
		conn, err := dial(addr)
		if err != nil {
			p.kill()
			return err
		}
		if err := waitReady(p, conn, 30*time.Second); err != nil {
			last = err
			_ = conn.Close()
			p.kill()
			if errors.Is(err, errStartup) {
				return err
			}
			continue // died during start-up: most likely a port clash, draw fresh ports
		}
		c.leader, c.leaderAPI, c.lconn = p, addr, conn
		c.replAddr = fmt.Sprintf("127.0.0.1:%d", repl)
		return nil
	}
	return fmt.Errorf("leader start failed 10 times: %v", last)
}

func (c *cluster) startFollower() error {
	var last error
	for attempt := 0; attempt < 10; attempt++ {
		d := filepath.Join(c.dir, fmt.Sprintf("follower%d-%d", c.gen, attempt))
		if err := os.MkdirAll(filepath.Join(d, "sm", "data"), 0o755); err != nil {
			return err
		}
		ports, err := freePorts(4)
		if err != nil {
			last = err
			continue
		}
		api, raft, ml, rest := ports[0], ports[1], ports[2], ports[3]
		args := []string{"follower", "--dev-mode", "--log-level=INFO",
			fmt.Sprintf("--api.address=http://127.0.0.1:%d", api),
			fmt.Sprintf("--raft.address=127.0.0.1:%d", raft),
			fmt.Sprintf("--raft.initial-members=1=127.0.0.1:%d", raft),
			"--raft.node-host-dir=" + filepath.Join(d, "nh"),
			"--raft.state-machine-dir=" + filepath.Join(d, "sm", "data"),
			fmt.Sprintf("--memberlist.address=127.0.0.1:%d", ml),
			"--memberlist.cluster-name=follower",
			fmt.Sprintf("--rest.address=http://127.0.0.1:%d", rest),
			"--raft.rtt=5ms",
			"--replication.leader-address=http://" + c.replAddr,
			"--replication.poll-interval=50ms",
			"--replication.reconcile-interval=400ms",
			"--replication.lease-interval=2s",
		}
		p, err := startProc("follower", c.bin, args, filepath.Join(d, "out.log"), filepath.Join(d, "race"))
		if err != nil {
			return err
		}
		addr := fmt.Sprintf("127.0.0.1:%d", api)
		conn, err := dial(addr)
		if err != nil {
			p.kill()
			return err
		}
		if err := waitReady(p, conn, 30*time.Second); err != nil {
			last = err
			_ = conn.Close()
			p.kill()
			if errors.Is(err, errStartup) {
				return err
			}
			continue
		}
		c.follower, c.follAPI, c.fconn = p, addr, conn
		return nil
	}
	return fmt.Errorf("follower start failed 10 times: %v", last)
}

// stopAll kills both servers (used on restart after a crash and on failure paths).
func (c *cluster) stopAll() {
	if c.lconn != nil {
		_ = c.lconn.Close()
		c.lconn = nil
	}
	if c.fconn != nil {
		_ = c.fconn.Close()
		c.fconn = nil
	}
	c.follower.kill()
	c.leader.kill()
	c.follower, c.leader = nil, nil
}
