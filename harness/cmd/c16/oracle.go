package main

// The independent validator: from a request message alone (plus which tables exist and which
// server is addressed) it derives which documented rule the request violates and which status
// class the property promises for it. It knows nothing about how the request was generated.

import (
	"fmt"
	"strings"

	pb "github.com/jamf/regatta/regattapb"
	"github.com/jamf/regatta/storage/table"
	"github.com/jamf/regatta/storage/table/key"
	"google.golang.org/grpc/codes"
)

// The size limits are the ones the code base declares (exported constants), not copies.
const (
	maxKeyLen   = key.LatestVersionLen // 1024
	maxValueLen = table.MaxValueLen    // 2 MiB
)

// expectation classes
const (
	expOK      = "ok"       // no rule violated: the property promises nothing about the status
	expNonOK   = "non-ok"   // any non-OK status
	expUnknown = "unjudged" // no documented rule either way: only liveness / no effect when refused
)

type violation struct {
	Rule  string     // stable id, used in signatures
	Class string     // expNonOK or "code"
	Code  codes.Code // when Class == "code"
}

type expectation struct {
	Class string     `json:"class"` // ok | non-ok | code | unjudged
	Code  codes.Code `json:"-"`
	CodeS string     `json:"code,omitempty"`
	Rule  string     `json:"rule,omitempty"`
	All   []string   `json:"all_rules,omitempty"`
}

func (e expectation) String() string {
	switch e.Class {
	case "code":
		return fmt.Sprintf("%s (rule %s)", e.Code, e.Rule)
	case expNonOK:
		return fmt.Sprintf("any non-OK (rule %s)", e.Rule)
	}
	return e.Class
}

func inv(rule string) violation {
	return violation{Rule: rule, Class: "code", Code: codes.InvalidArgument}
}
func unimpl(rule string) violation {
	return violation{Rule: rule, Class: "code", Code: codes.Unimplemented}
}
func notFound(rule string) violation {
	return violation{Rule: rule, Class: "code", Code: codes.NotFound}
}
func nonOK(rule string) violation { return violation{Rule: rule, Class: expNonOK} }

// world is what the validator may know about the server state: the set of existing tables.
type world interface {
	tableExists(name string) bool
}

func methodSlug(method string) string {
	switch method {
	case mRange:
		return "range"
	case mIterate:
		return "iterate-range"
	case mPut:
		return "put"
	case mDelete:
		return "delete-range"
	case mTxn:
		return "txn"
	case mCreate:
		return "tables-create"
	case mDropTable:
		return "tables-delete"
	case mList:
		return "tables-list"
	}
	return strings.ToLower(method)
}

// violations lists every documented rule the message violates.
func violations(method string, follower bool, msg any, w world) (vs []violation, unjudged bool) {
	slug := methodSlug(method)
	tableRules := func(tbl []byte) {
		if len(tbl) == 0 {
			vs = append(vs, inv(slug+"-missing-table"))
		} else if !w.tableExists(string(tbl)) {
			vs = append(vs, notFound(slug+"-unknown-table"))
		}
	}
	switch m := msg.(type) {
	case *pb.RangeRequest:
		tableRules(m.Table)
		if len(m.Key) == 0 {
			vs = append(vs, inv(slug+"-missing-key"))
		}
		if m.Limit < 0 {
			vs = append(vs, inv(slug+"-negative-limit"))
		}
		if m.KeysOnly && m.CountOnly {
			vs = append(vs, inv(slug+"-keysonly-countonly"))
		}
		if m.MinModRevision > 0 {
			vs = append(vs, unimpl(slug+"-min-mod-revision"))
		}
		if m.MaxModRevision > 0 {
			vs = append(vs, unimpl(slug+"-max-mod-revision"))
		}
		if m.MinCreateRevision > 0 {
			vs = append(vs, unimpl(slug+"-min-create-revision"))
		}
		if m.MaxCreateRevision > 0 {
			vs = append(vs, unimpl(slug+"-max-create-revision"))
		}
		if m.MinModRevision < 0 || m.MaxModRevision < 0 || m.MinCreateRevision < 0 || m.MaxCreateRevision < 0 {
			unjudged = true // nothing documented about negative revision bounds
		}
		if len(m.Key) > maxKeyLen {
			vs = append(vs, nonOK(slug+"-oversize-key"))
		}
		if len(m.RangeEnd) > maxKeyLen {
			unjudged = true // a bound is not a key of a record; nothing documented
		}
	case *pb.PutRequest:
		tableRules(m.Table)
		if len(m.Key) == 0 {
			vs = append(vs, inv(slug+"-missing-key"))
		}
		if len(m.Key) > maxKeyLen {
			vs = append(vs, nonOK(slug+"-oversize-key"))
		}
		if len(m.Value) > maxValueLen {
			vs = append(vs, nonOK(slug+"-oversize-value"))
		}
	case *pb.DeleteRangeRequest:
		tableRules(m.Table)
		if len(m.Key) == 0 {
			vs = append(vs, inv(slug+"-missing-key"))
		}
		if len(m.Key) > maxKeyLen {
			vs = append(vs, nonOK(slug+"-oversize-key"))
		}
		if len(m.RangeEnd) > maxKeyLen {
			unjudged = true
		}
	case *pb.TxnRequest:
		tableRules(m.Table)
		for _, c := range m.Compare {
			if c == nil {
				continue
			}
			if len(c.Key) == 0 {
				vs = append(vs, inv("txn-compare-empty-key"))
			}
			if len(c.Key) > maxKeyLen {
				vs = append(vs, nonOK("txn-compare-oversize-key"))
			}
			if len(c.RangeEnd) > maxKeyLen {
				unjudged = true
			}
			if c.Result < 0 || c.Result > pb.Compare_NOT_EQUAL || c.Target != pb.Compare_VALUE {
				unjudged = true // enum values outside the schema: nothing documented
			}
		}
		for _, ops := range [][]*pb.RequestOp{m.Success, m.Failure} {
			for _, op := range ops {
				if op == nil {
					continue
				}
				switch o := op.Request.(type) {
				case nil:
					vs = append(vs, inv("txn-empty-oneof"))
				case *pb.RequestOp_RequestPut:
					p := o.RequestPut
					if len(p.GetKey()) == 0 {
						vs = append(vs, inv("txn-nested-put-empty-key"))
					}
					if len(p.GetKey()) > maxKeyLen {
						vs = append(vs, nonOK("txn-nested-put-oversize-key"))
					}
					if len(p.GetValue()) > maxValueLen {
						vs = append(vs, nonOK("txn-nested-put-oversize-value"))
					}
				case *pb.RequestOp_RequestRange:
					g := o.RequestRange
					if len(g.GetKey()) == 0 {
						vs = append(vs, inv("txn-nested-range-empty-key"))
					}
					if len(g.GetKey()) > maxKeyLen {
						vs = append(vs, nonOK("txn-nested-range-oversize-key"))
					}
					if g.GetLimit() < 0 {
						vs = append(vs, inv("txn-nested-range-negative-limit"))
					}
					if g.GetKeysOnly() && g.GetCountOnly() {
						vs = append(vs, inv("txn-nested-range-keysonly-countonly"))
					}
					if len(g.GetRangeEnd()) > maxKeyLen {
						unjudged = true
					}
				case *pb.RequestOp_RequestDeleteRange:
					d := o.RequestDeleteRange
					if len(d.GetKey()) == 0 {
						vs = append(vs, inv("txn-nested-delete-empty-key"))
					}
					if len(d.GetKey()) > maxKeyLen {
						vs = append(vs, nonOK("txn-nested-delete-oversize-key"))
					}
					if len(d.GetRangeEnd()) > maxKeyLen {
						unjudged = true
					}
				}
			}
		}
	case *pb.CreateTableRequest:
		if follower {
			vs = append(vs, unimpl("follower-tables-create"))
		}
		if len(m.Name) == 0 {
			vs = append(vs, inv(slug+"-missing-name"))
		} else if !follower {
			if strings.Contains(m.Name, "/") {
				// a table name must not contain '/' (it could not be listed: the catalogue is matched
				// like a path)
				vs = append(vs, inv(slug+"-name-with-slash"))
			} else if w.tableExists(m.Name) {
				vs = append(vs, nonOK(slug+"-existing-table"))
			} else if !plainName(m.Name) {
				unjudged = true // nothing documented about which names are acceptable
			}
		}
	case *pb.DeleteTableRequest:
		if follower {
			vs = append(vs, unimpl("follower-tables-delete"))
		}
		if len(m.Name) == 0 {
			vs = append(vs, inv(slug+"-missing-name"))
		} else if !follower && !w.tableExists(m.Name) {
			// the statement names NotFound for an unknown table of a key-value request; for the
			// tables API only "refused" is taken as promised
			vs = append(vs, nonOK(slug+"-unknown-table"))
		}
	case *pb.ListTablesRequest:
	}
	return vs, unjudged
}

func plainName(s string) bool {
	if len(s) == 0 || len(s) > 64 {
		return false
	}
	for i := 0; i < len(s); i++ {
		c := s[i]
		if !(c >= 'a' && c <= 'z' || c >= 'A' && c <= 'Z' || c >= '0' && c <= '9' || c == '-' || c == '_') {
			return false
		}
	}
	return true
}

// expect turns the list of violated rules into the status class the property promises.
func expect(method string, follower bool, msg any, w world) expectation {
	vs, unj := violations(method, follower, msg, w)
	var all []string
	for _, v := range vs {
		all = append(all, v.Rule)
	}
	switch {
	case len(vs) == 0 && unj:
		return expectation{Class: expUnknown}
	case len(vs) == 0:
		return expectation{Class: expOK}
	case len(vs) == 1 && !unj:
		v := vs[0]
		e := expectation{Class: v.Class, Code: v.Code, Rule: v.Rule, All: all}
		if v.Class == "code" {
			e.CodeS = v.Code.String()
		}
		return e
	default:
		// several rules at once: refused for sure, but the statement does not say which class wins
		return expectation{Class: expNonOK, Rule: vs[0].Rule, All: all}
	}
}
