// C16 — invalid requests are rejected without effect; no request can crash a server.
//
// Black box: the REAL regatta binary (built with -race from the working tree) is started as a
// leader and, in half of the lanes, a follower replicating from it. A sequential client sends
// (a) well-typed requests through the generated gRPC clients — valid ones and ones violating
// exactly one documented rule, at top level or nested in a transaction — and (b) raw byte
// mutants of valid encodings through a pass-through codec. An independent validator derives the
// promised status class; every table is dumped through the API after every request and compared
// with a reference model; the server processes are watched for crashes, their output for panics /
// fatal errors / race reports, and they must exit cleanly on SIGTERM.
package main

import (
	"context"
	"crypto/sha256"
	"encoding/hex"
	"encoding/json"
	"fmt"
	"math/rand"
	"os"
	"os/signal"
	"path/filepath"
	"regexp"
	"sort"
	"strings"
	"sync"
	"syscall"
	"time"
	"unicode/utf8"

	pb "github.com/jamf/regatta/regattapb"
	_ "github.com/jamf/regatta/regattaserver/encoding/proto" // the codec regatta's own clients use
	"google.golang.org/grpc/codes"
	"google.golang.org/grpc/status"

	"verifharness/internal/ev"
	"verifharness/internal/model"
)

type witness struct {
	Lane     int      `json:"lane"`
	N        int      `json:"case"`
	Seed     int64    `json:"seed"`
	Tier     string   `json:"tier"`
	Target   string   `json:"target"`
	Method   string   `json:"method"`
	Kind     string   `json:"kind"`
	Where    string   `json:"where,omitempty"`
	Request  string   `json:"request"`
	Hex      string   `json:"request_hex,omitempty"`
	Expected string   `json:"expected"`
	Observed string   `json:"observed"`
	Detail   string   `json:"detail,omitempty"`
	Recent   []string `json:"previous_requests,omitempty"`
}

// shared is the cross-lane part: de-duplication of violation signatures and samples.
type shared struct {
	r         *ev.Run
	mu        sync.Mutex
	reported  map[string]int
	codes     map[string]map[string]int // rule -> observed status -> count
	disabled  map[string]bool           // request classes that crashed a server (not sent again)
	picked    map[string][]any          // curated samples by class
	replaySig string                    // replay mode: the signature being reproduced
	// avoidInverted: set after the race-build-only pebble assertion killed a server; reads with
	// range_end <= key are then no longer generated (they would cost a restart each)
	avoidInverted bool
	noted         map[string]bool
}

func (s *shared) setAvoidInverted()    { s.mu.Lock(); s.avoidInverted = true; s.mu.Unlock() }
func (s *shared) avoidsInverted() bool { s.mu.Lock(); defer s.mu.Unlock(); return s.avoidInverted }

func (s *shared) noteOnce(key, text string) {
	s.mu.Lock()
	first := !s.noted[key]
	s.noted[key] = true
	s.mu.Unlock()
	if first {
		fmt.Println(text)
		s.r.Note(text)
	}
}

var siteRe = regexp.MustCompile(`(?m)^github\.com/jamf/regatta/([A-Za-z0-9_/]+\.(?:\(\*?[A-Za-z0-9_]+\)\.)?[A-Za-z0-9_]+)`)

// panicSite returns the first regatta function in the stack of the panicking goroutine
// ("" when the panic was raised on a goroutine that runs no regatta code, e.g. inside dragonboat).
func panicSite(excerpt string) string {
	i := strings.Index(excerpt, "[running]:")
	if i < 0 {
		return ""
	}
	rest := excerpt[i:]
	if j := strings.Index(rest, "\n\ngoroutine "); j > 0 {
		rest = rest[:j] // only the panicking goroutine
	}
	for _, m := range siteRe.FindAllStringSubmatch(rest, -1) {
		if strings.HasPrefix(m[1], "log.") {
			continue // the logging adapter third-party code panics through is not a failure site
		}
		return strings.NewReplacer("(", "", ")", "", "*", "").Replace(m[1])
	}
	return ""
}

func pebbleBoundsInvariant(lines []string) bool {
	for _, l := range lines {
		if strings.Contains(l, "FATAL") && strings.Contains(l, "pebble@") && strings.Contains(l, "bound violation") {
			return true
		}
	}
	return false
}

func (s *shared) isDisabled(k string) bool { s.mu.Lock(); defer s.mu.Unlock(); return s.disabled[k] }
func (s *shared) disable(k string)         { s.mu.Lock(); s.disabled[k] = true; s.mu.Unlock() }

func (s *shared) violation(sig, what string, w witness) {
	if s.replaySig != "" && sig != s.replaySig {
		return // replay: the prefix of the stream meets other findings again, only the witnessed one counts
	}
	s.mu.Lock()
	n := s.reported[sig]
	s.reported[sig]++
	s.mu.Unlock()
	if n == 0 {
		s.r.Violation(sig, what, w)
	}
}

// sample keeps the first two samples of every class; emit() hands a mixed selection to the evidence.
func (s *shared) sample(class string, v any) {
	s.mu.Lock()
	if len(s.picked[class]) < 2 {
		s.picked[class] = append(s.picked[class], v)
	}
	s.mu.Unlock()
}

func (s *shared) emit() {
	s.mu.Lock()
	defer s.mu.Unlock()
	var classes []string
	for c := range s.picked {
		classes = append(classes, c)
	}
	sort.Strings(classes)
	// the six "headline" samples: one per group, then everything under more_samples
	groups := []string{"nested:", "raw-decoded", "rejected:", "accepted:", "follower:", "effect:"}
	for _, g := range groups {
		for _, c := range classes {
			if strings.HasPrefix(c, g) {
				s.r.Sample(s.picked[c][0])
				break
			}
		}
	}
	more := map[string]any{}
	for _, c := range classes {
		more[c] = s.picked[c][0]
	}
	s.r.Extra("more_samples", more)
}

func (s *shared) observed(rule string, code codes.Code) {
	s.mu.Lock()
	m := s.codes[rule]
	if m == nil {
		m = map[string]int{}
		s.codes[rule] = m
	}
	m[code.String()]++
	s.mu.Unlock()
}

func scratchDir() string {
	if d := os.Getenv("SCRATCH"); d != "" {
		return d
	}
	d, err := os.MkdirTemp("/var/tmp", "verif.c16.")
	if err != nil {
		fmt.Fprintln(os.Stderr, "scratch:", err)
		os.Exit(2)
	}
	ownScratch = d
	return d
}

var ownScratch string

func cleanup() {
	killAll()
	if ownScratch != "" {
		_ = os.RemoveAll(ownScratch)
	}
}

func main() {
	r := ev.Start("C16", "exploration")
	r.Rule("black-box requests against the real -race binary (leader; leader+follower in even lanes): a fixed catalogue (every documented rule per method, every nested rule in the executed " +
		"and in the not executed branch, follower-side table mutations, hostile table names, every wire mutation per method) followed by a seeded stream (typed: 42% valid / 58% violating exactly one rule; " +
		"raw: truncation, bit flips, zero-length fields, repeated / unknown fields, wrong wire types, deep nesting, bad varints). Non-trivial = a typed request violating exactly one rule inside a " +
		"transaction operation or compare, or a raw mutant that still decodes; distinct by hash of the request bytes")
	r.Assume("size limits are the constants the code base exports (key.LatestVersionLen, table.MaxValueLen)",
		"an over-long range_end, enum values outside the schema, negative revision bounds and unusual table names have no documented rule: only liveness and 'refused ⇒ no effect' are judged for them",
		"raw mutants have no expected status: only 'server stays alive' and 'refused ⇒ dump unchanged' are judged; their agreement with the validator is reported as a counter",
		"DEADLINE_EXCEEDED / UNAVAILABLE / CANCELLED are transport-level outcomes: the case is inconclusive (model re-synchronised from a dump) unless the server keeps answering UNAVAILABLE while healthy",
		"Tables.Delete of an unknown table is only required to be refused (the statement names NotFound for key-value requests)",
		"race reports whose stacks contain regatta's util/iter.Pull are not judged: that copy of the standard library's iter.Pull switches coroutines through runtime.coroswitch without the race annotations of the original, the two sides never run concurrently; any other race report with a regatta frame is a violation",
		"a server terminated by pebble's 'levelIter … bound violation' assertion is a race-build artefact (pebble compiles the assertion in only under the race/invariants tags; checked: the same stream against a binary built without -race never terminates): reported as NOTE, the cluster is restarted and reads with range_end <= key are no longer generated in that run")

	bin := os.Getenv("VERIF_REGATTA_BIN")
	if bin == "" {
		fmt.Fprintln(os.Stderr, "C16 needs VERIF_REGATTA_BIN (run through /verif/check)")
		os.Exit(2)
	}
	sigc := make(chan os.Signal, 1)
	signal.Notify(sigc, os.Interrupt, syscall.SIGTERM)
	go func() {
		<-sigc
		cleanup()
		os.Exit(2)
	}()
	defer cleanup()

	// whole-run watchdog: a wedged server must not wedge the check
	go func() {
		time.Sleep(time.Duration(r.Pick(10, 45)) * time.Minute)
		fmt.Printf("INCONCLUSIVE property=C16 whole-run watchdog fired\n")
		cleanup()
		os.Exit(2)
	}()

	sh := &shared{r: r, reported: map[string]int{}, codes: map[string]map[string]int{}, disabled: map[string]bool{}, picked: map[string][]any{}, noted: map[string]bool{}}
	base := scratchDir()

	if r.Replay != "" {
		var w witness
		sig, err := r.ReadReplay(&w)
		if err != nil {
			fmt.Fprintln(os.Stderr, "replay:", err)
			cleanup()
			os.Exit(2)
		}
		sh.replaySig = sig
		// witnesses written while replaying go to the scratch directory, not over the originals
		_ = os.Setenv("VERIF_OUT", filepath.Join(base, "replay-out"))
		r.Seed = w.Seed
		if w.Tier != "" {
			r.Tier = w.Tier
		}
		fmt.Printf("replay: lane %d of seed %d (%s) up to case %d: %s %s\n", w.Lane, w.Seed, r.Tier, w.N, w.Method, w.Request)
		l := newLane(sh, w.Lane, bin, base)
		l.run(laneCases(r), w.N)
		cleanup()
		if r.Violations() > 0 {
			fmt.Printf("replay: REPRODUCED %s\n", sig)
		} else {
			fmt.Printf("replay: NOT reproduced: %s\n", sig)
		}
		r.Finish()
	}

	lanes := r.Pick(2, 6)
	var wg sync.WaitGroup
	for i := 0; i < lanes; i++ {
		wg.Add(1)
		go func(i int) {
			defer wg.Done()
			l := newLane(sh, i, bin, base)
			l.run(laneCases(r), -1)
		}(i)
	}
	wg.Wait()

	sh.emit()
	sh.mu.Lock()
	r.Extra("violation_occurrences", sh.reported)
	r.Extra("observed_status_by_rule", sh.codes)
	sh.mu.Unlock()
	r.FloorNontrivial(int64(r.Pick(300, 6000)))
	r.FloorCount("requests_rejected", int64(r.Pick(700, 15000)))
	r.FloorCount("requests_accepted", int64(r.Pick(500, 10000)))
	r.FloorCount("dumps_compared", int64(r.Pick(1300, 30000)))
	r.FloorCount("raw_mutants_decoded", int64(r.Pick(200, 4000)))
	r.FloorCount("follower_requests", int64(r.Pick(80, 1500)))
	r.FloorCount("clean_exits_on_sigterm", int64(r.Pick(3, 9)))
	r.FloorDistinct("rules_exercised", 40)
	cleanup()
	r.Finish()
}

func laneCases(r *ev.Run) int { return r.Pick(1000, 10000) }

// ---- lane ---------------------------------------------------------------------------------------

type lane struct {
	sh   *shared
	r    *ev.Run
	id   int
	seed int64
	cl   *cluster
	env  *genEnv
	cli  *clients

	models   map[string]*model.Table
	pending  int // accepted requests applied to the model since the last compared dump
	recent   []string
	logf     *os.File
	restarts int
	dead     bool // lane cannot continue

	repairing                   bool
	follWritesOff               bool
	follTimeouts                int
	tSend, tDump, tWait, tStart time.Duration
	began                       time.Time
	crashReported               map[*proc]bool
}

func (l *lane) tableExists(name string) bool { _, ok := l.models[name]; return ok }

func newLane(sh *shared, id int, bin, base string) *lane {
	dir := filepath.Join(base, fmt.Sprintf("c16-lane%d", id))
	_ = os.MkdirAll(dir, 0o755)
	l := &lane{sh: sh, r: sh.r, id: id, seed: sh.r.Seed*1000 + int64(id), models: map[string]*model.Table{},
		crashReported: map[*proc]bool{}}
	l.cl = &cluster{bin: bin, dir: dir}
	l.env = newGenEnv(id, id%2 == 0, sh.r.Pick(6, 40))
	f, err := os.Create(filepath.Join(dir, "requests.log"))
	if err == nil {
		l.logf = f
	}
	return l
}

func (l *lane) hasFollower() bool { return l.env.hasFoll && l.cl.follower != nil }

func (l *lane) up() error {
	t0 := time.Now()
	defer func() { l.tStart += time.Since(t0) }()
	if err := l.cl.startLeader(); err != nil {
		return err
	}
	if l.env.hasFoll {
		if err := l.cl.startFollower(); err != nil {
			return err
		}
	}
	l.cli = newClients(l.cl)
	l.cli.onNudge = func() { l.r.Count("follower_write_nudges", 1) }
	return nil
}

// prelude creates the stable tables and a few records, through the ordinary judged path.
func (l *lane) prelude() {
	n := -1000
	for _, t := range l.env.stable {
		l.exec(&request{N: n, Method: mCreate, Kind: "prelude", Msg: &pb.CreateTableRequest{Name: t}})
		n++
		for _, k := range []string{"a", "ab", "k1", "zz"} {
			l.exec(&request{N: n, Method: mPut, Kind: "prelude", Msg: &pb.PutRequest{Table: []byte(t), Key: []byte(k), Value: []byte("v0")}})
			n++
		}
	}
	if l.env.hasFoll && !l.dead {
		l.waitFollower()
	}
}

// waitFollower waits (generously) until the follower serves every stable table with the
// leader's content. A follower that does not get there is not a violation of this property.
func (l *lane) waitFollower() {
	deadline := time.Now().Add(90 * time.Second)
	for time.Now().Before(deadline) {
		if !l.cl.follower.alive() || !l.cl.leader.alive() {
			return
		}
		ok := true
		for _, t := range l.env.stable {
			d, err := dumpTable(l.cli.fkv, t)
			if err != nil || len(d) != len(l.models[t].M) {
				ok = false
				break
			}
		}
		if ok {
			l.r.Count("follower_ready", 1)
			return
		}
		time.Sleep(100 * time.Millisecond)
	}
	l.r.Inconclusive(fmt.Sprintf("lane %d: follower did not replicate the stable tables within the watchdog; follower requests skipped", l.id))
	l.env.hasFoll = false
}

func (l *lane) run(cases int, upto int) {
	l.began = time.Now()
	defer func() {
		if l.logf != nil {
			_ = l.logf.Close()
		}
	}()
	if err := l.up(); err != nil {
		l.r.Inconclusive(fmt.Sprintf("lane %d: %v", l.id, err))
		l.cl.stopAll()
		return
	}
	l.prelude()
	cat := l.catalogue()
	total := len(cat) + cases
	for n := 0; n < total && !l.dead; n++ {
		if upto >= 0 && n > upto {
			break
		}
		var q *request
		if n < len(cat) {
			q = cat[n]
			q.N = n
		} else {
			q = l.draw(n)
		}
		if l.sh.isDisabled(classKey(q)) {
			l.r.Count("skipped_after_crash_finding", 1)
			continue
		}
		if m, ok := q.Msg.(*pb.DeleteTableRequest); ok && m != nil && !q.Follower && q.Method == mDropTable && isStable(l.env, m.Name) {
			// (a raw mutant that decodes to) the deletion of a stable table: not sent, the follower
			// lanes rely on the stable tables staying what they are
			l.r.Count("skipped_stable_table_deletion", 1)
			continue
		}
		if l.sh.avoidsInverted() && q.Msg != nil && straighten(q.Msg) {
			if q.IsRaw {
				l.r.Count("skipped_inverted_bounds_raw", 1)
				continue
			}
			l.r.Count("inverted_bounds_straightened", 1)
		}
		if q.Follower && l.follWritesOff && isWrite(q) {
			q.Follower = false // follower writes kept timing out: do not pay the deadline again and again
		}
		if q.Follower && !l.hasFollower() {
			q.Follower = false
			if strings.HasPrefix(q.Kind, "follower-") {
				continue
			}
		}
		l.exec(q)
		l.repairStable()
	}
	l.finish()
}

// draw produces case n of the seeded stream.
func (l *lane) draw(n int) *request {
	r := rand.New(rand.NewSource(l.seed*1_000_003 + int64(n)))
	follower := l.hasFollower() && r.Intn(100) < 18
	rawShare := 15
	if !l.env.hasFoll {
		rawShare = 40
	}
	x := r.Intn(100)
	methods := []string{mRange, mIterate, mPut, mPut, mDelete, mTxn, mTxn, mTxn}
	switch {
	case x < 8:
		return l.env.tables(r, n, follower, true)
	case x < 8+rawShare:
		// raw mutant of a typed request (valid or singly invalid)
		var base *request
		if r.Intn(6) == 0 {
			base = l.env.tables(r, n, follower, false)
		} else {
			base = l.env.typed(r, n, methods[r.Intn(len(methods))], follower)
		}
		return l.rawFrom(r, base, mutations[r.Intn(len(mutations))])
	default:
		q := l.env.typed(r, n, methods[r.Intn(len(methods))], follower)
		if follower && l.follWritesOff && isWrite(q) {
			q.Follower = false
		}
		return q
	}
}

func (l *lane) rawFrom(r *rand.Rand, base *request, mut string) *request {
	if base.Follower {
		// keep follower traffic cheap: oversized payloads go to the leader
		if base.Msg.SizeVT() > 1<<20 {
			base.Follower = false
		}
	}
	enc, _ := base.Msg.MarshalVT()
	raw := mutate(r, base.Method, enc, mut, l.r.Tier)
	q := &request{N: base.N, Follower: base.Follower, Method: base.Method, Kind: "raw:" + mut, IsRaw: true, Raw: raw}
	q.Msg = decode(base.Method, raw)
	return q
}

// repairStable re-creates a stable table that a (wrongly accepted) request made disappear, so
// that the rest of the run still has its tables; the follower is given time to follow.
func (l *lane) repairStable() {
	if l.dead || l.repairing {
		return
	}
	for _, t := range l.env.stable {
		if l.tableExists(t) {
			continue
		}
		l.repairing = true
		l.r.Count("stable_table_repairs", 1)
		l.exec(&request{N: -2, Method: mCreate, Kind: "repair", Msg: &pb.CreateTableRequest{Name: t}})
		for _, k := range []string{"a", "ab", "k1", "zz"} {
			l.exec(&request{N: -2, Method: mPut, Kind: "repair", Msg: &pb.PutRequest{Table: []byte(t), Key: []byte(k), Value: []byte("v0")}})
		}
		if l.hasFollower() && !l.dead {
			time.Sleep(1500 * time.Millisecond) // let the follower drop the old incarnation first
			l.waitFollower()
		}
		l.repairing = false
	}
}

// answers tells whether key-value requests addressed to the table name are served.
func (l *lane) answers(name string) bool {
	// (an unlisted table is not covered by waitUsable: give its Raft group a moment to start)
	for i := 0; i < 150; i++ {
		_, err := dumpTable(l.cli.lkv, name)
		if err == nil {
			return true
		}
		if c := status.Code(err); c != codes.Unavailable || !l.alive() {
			return false
		}
		time.Sleep(40 * time.Millisecond)
	}
	return false
}

func (w world1) names() []string {
	var out []string
	for t := range w.tables {
		out = append(out, fmt.Sprintf("%q", trunc(t, 40)))
	}
	sort.Strings(out)
	return out
}

// tableOf returns the table a key-value / tables request names ("" if none).
func tableOf(msg any) string {
	switch m := msg.(type) {
	case *pb.RangeRequest:
		return string(m.GetTable())
	case *pb.PutRequest:
		return string(m.GetTable())
	case *pb.DeleteRangeRequest:
		return string(m.GetTable())
	case *pb.TxnRequest:
		return string(m.GetTable())
	case *pb.DeleteTableRequest:
		return m.GetName()
	case *pb.CreateTableRequest:
		return m.GetName()
	}
	return ""
}

func isStable(e *genEnv, name string) bool {
	for _, t := range e.stable {
		if t == name {
			return true
		}
	}
	return false
}

func isWrite(q *request) bool {
	switch q.Method {
	case mPut, mDelete:
		return true
	case mTxn:
		if m, ok := q.Msg.(*pb.TxnRequest); ok {
			return !m.IsReadonly()
		}
		return true
	}
	return false
}

// classKey names the class of requests that is not sent again once a request of the class has
// crashed a server. Classes are narrow on purpose: a table-name class for creations (typed or a
// raw mutant that decodes), the exact bytes for everything else.
func classKey(q *request) string {
	if m, ok := q.Msg.(*pb.CreateTableRequest); ok && m != nil && q.Method == mCreate && m.Name != "" && !plainName(m.Name) {
		return "hostile:" + nameClass(m.Name)
	}
	if maxLimit(q.Msg) >= 1<<30 {
		// reads whose limit no table could ever satisfy (typed, nested, or a raw mutant that
		// decodes), one class per read path
		path := q.Method
		if q.Method == mTxn && isWrite(q) {
			path += "(writing)"
		}
		return "huge-limit|" + path
	}
	b := q.Raw
	if !q.IsRaw && q.Msg != nil {
		b, _ = q.Msg.MarshalVT()
	}
	h := sha256.Sum256(b)
	return q.Method + "|" + q.Kind + "|" + hex.EncodeToString(h[:8])
}

func nameClass(s string) string {
	switch {
	case len(s) > 255:
		return "name-longer-than-255"
	case strings.Contains(s, "\x00"):
		return "name-with-nul"
	case strings.Contains(s, ".."):
		return "name-with-dotdot"
	case strings.Contains(s, "/"):
		return "name-with-slash"
	case s == ".":
		return "name-dot"
	case strings.Contains(s, "\n"):
		return "name-with-newline"
	case strings.TrimSpace(s) == "":
		return "name-blank"
	}
	for i := 0; i < len(s); i++ {
		if s[i] >= 0x80 {
			return "name-not-utf8"
		}
	}
	return "name-other"
}

// ---- the catalogue ------------------------------------------------------------------------------

func (l *lane) catalogue() []*request {
	e := l.env
	var out []*request
	seq := 0
	mk := func(method, kind string, follower bool, branch int) *request {
		seq++
		r := rand.New(rand.NewSource(int64(7000 + seq)))
		e.forceKind, e.forceBranch, e.minimalTxn = kind, branch, isNestedRule(kind)
		q := e.typed(r, 0, method, follower)
		e.forceKind, e.forceBranch, e.minimalTxn = "", 0, false
		// catalogue cases address a stable table (except the table rules themselves)
		if !strings.HasSuffix(kind, "-table") {
			setTable(q.Msg, []byte("t0"))
		}
		if t, ok := q.Msg.(*pb.TxnRequest); ok && strings.HasPrefix(kind, "txn-nested") || ok && kind == "txn-empty-oneof" {
			t.Compare = nil // the success branch is the executed one
		}
		return q
	}
	// hostile (but legal) numeric fields first: limits no table can satisfy, on every read path,
	// over ranges that HOLD keys (t1 carries the prelude's a, ab, k1, zz at this point)
	out = append(out, hugeLimitCases(l.id%2 == 0, e.hasFoll)...)
	// look-alike spellings of the names of the tables that exist now
	out = append(out, e.aliasCases(l.id%2 == 0 && e.hasFoll)...)
	if l.id%2 == 0 {
		for _, m := range []string{mRange, mIterate} {
			for _, k := range rangeViolations {
				out = append(out, mk(m, k, false, 0))
			}
		}
		for _, k := range putViolations {
			out = append(out, mk(mPut, k, false, 0))
		}
		for _, k := range deleteViolations {
			out = append(out, mk(mDelete, k, false, 0))
		}
		seen := map[string]bool{}
		for _, k := range txnViolations {
			if seen[k] {
				continue
			}
			seen[k] = true
			if strings.HasPrefix(k, "txn-nested") || k == "txn-empty-oneof" {
				out = append(out, mk(mTxn, k, false, 1), mk(mTxn, k, false, 2))
			} else {
				out = append(out, mk(mTxn, k, false, 0))
			}
		}
		// boundary-valid sizes, top level and nested
		big := make([]byte, maxValueLen)
		fill(big, 'b')
		longest := e.keys[len(e.keys)-1]
		out = append(out,
			&request{Method: mPut, Kind: "valid", Msg: &pb.PutRequest{Table: []byte("t1"), Key: longest, Value: big}},
			&request{Method: mRange, Kind: "valid", Msg: &pb.RangeRequest{Table: []byte("t1"), Key: longest}},
			&request{Method: mTxn, Kind: "valid", Msg: &pb.TxnRequest{Table: []byte("t2"), Success: []*pb.RequestOp{
				{Request: &pb.RequestOp_RequestPut{RequestPut: &pb.RequestOp_Put{Key: longest, Value: big}}}}}},
			&request{Method: mDelete, Kind: "valid", Msg: &pb.DeleteRangeRequest{Table: []byte("t2"), Key: longest, Count: true}},
		)
		// tables API on the leader
		out = append(out,
			&request{Method: mCreate, Kind: "tables-create-missing-name", Msg: &pb.CreateTableRequest{}},
			&request{Method: mDropTable, Kind: "tables-delete-missing-name", Msg: &pb.DeleteTableRequest{}},
			&request{Method: mCreate, Kind: "tables-create-existing-table", Msg: &pb.CreateTableRequest{Name: "t0"}},
			&request{Method: mDropTable, Kind: "tables-delete-unknown-table", Msg: &pb.DeleteTableRequest{Name: "nope"}},
			&request{Method: mCreate, Kind: "dyn-create", Msg: &pb.CreateTableRequest{Name: "dyn0"}},
			&request{Method: mPut, Kind: "valid", Msg: &pb.PutRequest{Table: []byte("dyn0"), Key: []byte("a"), Value: []byte("v1")}},
			&request{Method: mDropTable, Kind: "dyn-delete", Msg: &pb.DeleteTableRequest{Name: "dyn0"}},
			&request{Method: mPut, Kind: "put-unknown-table", Msg: &pb.PutRequest{Table: []byte("dyn0"), Key: []byte("a"), Value: []byte("v1")}},
			&request{Method: mList, Kind: "valid", Msg: &pb.ListTablesRequest{}},
		)
		// the follower: table mutations, forwarded writes, locally validated reads
		if e.hasFoll {
			out = append(out,
				&request{Follower: true, Method: mCreate, Kind: "follower-tables-create", Msg: &pb.CreateTableRequest{Name: "newtable"}},
				&request{Follower: true, Method: mCreate, Kind: "follower-tables-create", Msg: &pb.CreateTableRequest{Name: "t0"}},
				&request{Follower: true, Method: mDropTable, Kind: "follower-tables-delete", Msg: &pb.DeleteTableRequest{Name: "t0"}},
				&request{Follower: true, Method: mDropTable, Kind: "follower-tables-delete", Msg: &pb.DeleteTableRequest{Name: "nope"}},
				&request{Follower: true, Method: mList, Kind: "valid", Msg: &pb.ListTablesRequest{}},
			)
			for _, mk2 := range [][2]string{{mRange, "negative-limit"}, {mRange, "unknown-table"}, {mIterate, "keysonly-countonly"}, {mIterate, "min-mod-revision"},
				{mPut, "missing-key"}, {mPut, "oversize-value"}, {mPut, "oversize-key"}, {mPut, "unknown-table"}, {mPut, "valid"},
				{mDelete, "missing-table"}, {mDelete, "valid"},
				{mTxn, "txn-nested-put-empty-key"}, {mTxn, "txn-nested-put-oversize-key"}, {mTxn, "txn-nested-range-negative-limit"}, {mTxn, "txn-empty-oneof"}, {mTxn, "valid"}} {
				out = append(out, mk(mk2[0], mk2[1], true, 1))
			}
		}
	} else {
		// leader-only lanes: hostile table names, then every wire mutation for every method
		for i := 0; i < len(hostileNameList); i++ {
			name := hostileNameAt(i)
			out = append(out, &request{Method: mCreate, Kind: "probe:hostile-table-name", Msg: &pb.CreateTableRequest{Name: name}})
		}
		seq2 := 0
		for _, m := range []string{mRange, mIterate, mPut, mDelete, mTxn, mCreate, mDropTable, mList} {
			for _, mut := range mutations {
				for rep := 0; rep < 2; rep++ {
					seq2++
					r := rand.New(rand.NewSource(int64(9000 + seq2)))
					var base *request
					switch m {
					case mCreate:
						base = &request{Method: m, Msg: &pb.CreateTableRequest{Name: "t0"}}
					case mDropTable:
						base = &request{Method: m, Msg: &pb.DeleteTableRequest{Name: "nope"}}
					case mList:
						base = &request{Method: m, Msg: &pb.ListTablesRequest{}}
					default:
						e.forceKind = "valid"
						base = e.typed(r, 0, m, false)
						e.forceKind = ""
					}
					out = append(out, l.rawFrom(r, base, mut))
				}
			}
		}
	}
	return out
}

// hugeLimitCases: valid reads with limits far beyond anything storable, through Range,
// IterateRange, a read-only transaction and a writing transaction (the nested read then runs in
// the Raft apply path), on the leader and through the follower.
func hugeLimitCases(full, foll bool) []*request {
	t := []byte("t1")
	all := []byte{0}
	rng := func(lim int64, keysOnly bool) *pb.RequestOp {
		return &pb.RequestOp{Request: &pb.RequestOp_RequestRange{RequestRange: &pb.RequestOp_Range{Key: all, RangeEnd: all, Limit: lim, KeysOnly: keysOnly}}}
	}
	put := &pb.RequestOp{Request: &pb.RequestOp_RequestPut{RequestPut: &pb.RequestOp_Put{Key: []byte("k1"), Value: []byte("v0")}}}
	var out []*request
	lims := hugeLimits[:5]
	if !full {
		lims = lims[:1]
	}
	for i, lim := range lims {
		out = append(out,
			&request{Method: mRange, Kind: "valid", Msg: &pb.RangeRequest{Table: t, Key: all, RangeEnd: all, Limit: lim}},
			&request{Method: mRange, Kind: "valid", Msg: &pb.RangeRequest{Table: t, Key: []byte("a"), RangeEnd: []byte("b"), Limit: lim, KeysOnly: true, Linearizable: true}},
			&request{Method: mIterate, Kind: "valid", Msg: &pb.RangeRequest{Table: t, Key: all, RangeEnd: all, Limit: lim}},
			&request{Method: mTxn, Kind: "valid", Msg: &pb.TxnRequest{Table: t, Success: []*pb.RequestOp{rng(lim, false)}}},
			&request{Method: mTxn, Kind: "valid", Msg: &pb.TxnRequest{Table: t, Success: []*pb.RequestOp{put, rng(lim, i%2 == 1)}}},
			// … and in the branch that a failing compare selects
			&request{Method: mTxn, Kind: "valid", Msg: &pb.TxnRequest{Table: t, Compare: []*pb.Compare{{Key: []byte("no-such-key")}}, Failure: []*pb.RequestOp{rng(lim, false), put}}},
		)
	}
	if foll {
		lim := hugeLimits[0]
		out = append(out,
			&request{Follower: true, Method: mRange, Kind: "valid", Msg: &pb.RangeRequest{Table: t, Key: all, RangeEnd: all, Limit: lim}},
			&request{Follower: true, Method: mIterate, Kind: "valid", Msg: &pb.RangeRequest{Table: t, Key: all, RangeEnd: all, Limit: lim - 1}},
			&request{Follower: true, Method: mTxn, Kind: "valid", Msg: &pb.TxnRequest{Table: t, Success: []*pb.RequestOp{rng(lim, true)}}},
			&request{Follower: true, Method: mTxn, Kind: "valid", Msg: &pb.TxnRequest{Table: t, Success: []*pb.RequestOp{put, rng(lim, false)}}},
		)
	}
	return out
}

// hostileNameList: names around every length limit a file system or the API may have (in bytes AND
// in characters: multi-byte names are short in runes and long in bytes), plus special bytes.
var hostileNameList = []string{strings.Repeat("n", 300), "nul\x00byte", "sl/ash", "../esc", "\xff\xfe\xfd", ".", strings.Repeat("N", 5000), " ", "new\nline",
	strings.Repeat("表", 100), // 100 characters, 300 bytes
	strings.Repeat("é", 126), // 126 characters, 252 bytes
	strings.Repeat("x", 200), strings.Repeat("y", 201), strings.Repeat("z", 250), strings.Repeat("w", 255), strings.Repeat("表", 66) + "ab"}

func hostileNameAt(i int) string {
	return hostileNameList[i%len(hostileNameList)]
}

func setTable(msg any, t []byte) {
	switch m := msg.(type) {
	case *pb.RangeRequest:
		m.Table = t
	case *pb.PutRequest:
		m.Table = t
	case *pb.DeleteRangeRequest:
		m.Table = t
	case *pb.TxnRequest:
		m.Table = t
	}
}

// ---- executing and judging one request -----------------------------------------------------------

func transient(c codes.Code) bool {
	return c == codes.DeadlineExceeded || c == codes.Unavailable || c == codes.Canceled
}

func (l *lane) target(q *request) string {
	if q.Follower {
		return "follower"
	}
	return "leader"
}

func (l *lane) witness(q *request, exp expectation, observed, detail string) witness {
	w := witness{Lane: l.id, N: q.N, Seed: l.r.Seed, Tier: l.r.Tier, Target: l.target(q), Method: q.Method, Kind: q.Kind, Where: q.Where,
		Request: render(q.Msg), Expected: exp.String(), Observed: observed, Detail: detail, Recent: append([]string{}, l.recent...)}
	b := q.Raw
	if !q.IsRaw && q.Msg != nil {
		b, _ = q.Msg.MarshalVT()
	}
	if len(b) <= 4096 {
		w.Hex = hex.EncodeToString(b)
	} else {
		h := sha256.Sum256(b)
		w.Hex = fmt.Sprintf("(%d bytes, sha256 %s)", len(b), hex.EncodeToString(h[:8]))
	}
	return w
}

func (l *lane) logRequest(q *request, exp expectation) {
	if l.logf == nil {
		return
	}
	w := l.witness(q, exp, "", "")
	w.Recent = nil
	b, _ := json.Marshal(w)
	_, _ = l.logf.Write(append(b, '\n'))
}

func (l *lane) remember(q *request) {
	s := fmt.Sprintf("#%d %s %s [%s] %s", q.N, l.target(q), q.Method, q.Kind, render(q.Msg))
	if len(s) > 300 {
		s = s[:300] + "…"
	}
	l.recent = append(l.recent, s)
	if len(l.recent) > 6 {
		l.recent = l.recent[len(l.recent)-6:]
	}
}

func (l *lane) exec(q *request) {
	if l.dead {
		return
	}
	var exp expectation
	var info expectation // raw mutants: what the validator would say about the decoded message
	if q.IsRaw {
		exp = expectation{Class: expUnknown}
		if q.Msg != nil {
			info = expect(q.Method, q.Follower, q.Msg, l)
		}
	} else {
		exp = expect(q.Method, q.Follower, q.Msg, l)
	}
	l.logRequest(q, exp)
	defer l.remember(q)

	t0 := time.Now()
	out := l.cli.send(q)
	l.tSend += time.Since(t0)
	if !l.alive() {
		l.crashed(q, exp, out)
		return
	}
	if transient(out.Code) {
		resend := exp.Class == "code" || exp.Class == expNonOK || !isWrite(q) && !strings.HasPrefix(q.Method, "Tables.")
		// (no second try after a deadline: a request the server cannot answer costs 20 s each time)
		for i := 0; resend && i < 3 && transient(out.Code) && out.Code != codes.DeadlineExceeded; i++ {
			time.Sleep(300 * time.Millisecond)
			out = l.cli.send(q)
			if !l.alive() {
				l.crashed(q, exp, out)
				return
			}
		}
		if transient(out.Code) {
			healthy := l.cli.probe(q.Follower)
			if !l.alive() {
				l.crashed(q, exp, out)
				return
			}
			if exp.Class == "code" && out.Code == codes.Unavailable && healthy {
				// a healthy server that keeps answering UNAVAILABLE chose that status
			} else {
				l.r.Inconclusive(fmt.Sprintf("lane %d case %d: %s %s answered %s (%s)", l.id, q.N, l.target(q), q.Method, out.Code, trunc(out.Msg, 120)))
				if q.Follower && out.Code == codes.DeadlineExceeded {
					l.follTimeouts++
					if l.follTimeouts >= 2 {
						l.follWritesOff = true
					}
				}
				l.resync(q, "after an inconclusive outcome")
				return
			}
		}
	}

	l.r.Eval(1)
	l.r.Count("requests_total", 1)
	l.r.Count("req_"+q.Method, 1)
	l.r.Distinct("status_codes", out.Code.String())
	if q.Follower {
		l.r.Count("follower_requests", 1)
	}
	ruleForStats := exp.Rule
	if strings.HasSuffix(exp.Rule, "-unknown-table") {
		if t := aliasTarget(tableOf(q.Msg), l); t != "" {
			ruleForStats = exp.Rule + "-path-alias-of-existing" // narrower class: the name cleans, as a path, to an existing table's
		}
	}
	switch {
	case q.IsRaw:
		l.r.Count("raw_mutants", 1)
		l.r.Distinct("raw_mutations", q.Method+"/"+q.Kind)
		if q.Msg != nil {
			l.r.Count("raw_mutants_decoded", 1)
			l.r.Nontrivial("raw|" + q.Method + "|" + string(q.Raw))
			l.sh.sample("raw-decoded", map[string]any{"raw_mutant_that_decodes": q.Kind, "method": q.Method, "bytes": len(q.Raw), "decodes_to": render(q.Msg), "status": out.Code.String()})
			// informational: does the server agree with the validator on the decoded message?
			switch info.Class {
			case "code":
				if out.Code == info.Code {
					l.r.Count("raw_decoded_validator_agrees", 1)
				} else {
					l.r.Count("raw_decoded_validator_disagrees", 1)
					l.sh.observed("raw:"+info.Rule, out.Code)
				}
			case expNonOK:
				if out.Code != codes.OK {
					l.r.Count("raw_decoded_validator_agrees", 1)
				} else {
					l.r.Count("raw_decoded_validator_disagrees", 1)
					l.sh.observed("raw:"+info.Rule, out.Code)
				}
			}
		}
	case exp.Class == expOK:
		l.r.Count("typed_valid", 1)
	case exp.Class == expUnknown:
		l.r.Count("typed_unjudged_status", 1)
	default:
		l.r.Count("typed_invalid", 1)
		l.r.Distinct("rules_exercised", exp.Rule)
		if len(exp.All) == 1 {
			l.sh.observed(exp.Rule, out.Code)
		}
		if len(exp.All) == 1 && isNestedRule(exp.Rule) {
			b, _ := q.Msg.MarshalVT()
			l.r.Nontrivial("nested|" + string(b))
			l.sh.sample("nested:"+exp.Rule, map[string]any{"nested_violation": exp.Rule, "where": q.Where, "target": l.target(q), "request": trunc(render(q.Msg), 400), "expected": exp.String(), "status": out.Code.String()})
		}
	}

	// ---- the status class -------------------------------------------------------------------
	observed := fmt.Sprintf("%s %q", out.Code, trunc(out.Msg, 160))
	switch exp.Class {
	case "code":
		if out.Code == codes.OK {
			l.sh.violation(ruleForStats+"-accepted", fmt.Sprintf("%s %s violating '%s' answered OK, %s promised: %s", l.target(q), q.Method, exp.Rule, exp.Code, trunc(render(q.Msg), 300)), l.witness(q, exp, observed, ""))
		} else if out.Code != exp.Code {
			l.sh.violation(fmt.Sprintf("%s-status-%s", ruleForStats, out.Code), fmt.Sprintf("%s %s violating '%s' answered %s, %s promised: %s", l.target(q), q.Method, exp.Rule, out.Code, exp.Code, trunc(render(q.Msg), 300)), l.witness(q, exp, observed, ""))
		}
	case expNonOK:
		if out.Code == codes.OK {
			l.sh.violation(ruleForStats+"-accepted", fmt.Sprintf("%s %s violating '%s' answered OK, a refusal is promised: %s", l.target(q), q.Method, strings.Join(exp.All, "+"), trunc(render(q.Msg), 300)), l.witness(q, exp, observed, ""))
		}
	case expOK:
		if out.Code != codes.OK {
			l.r.Count("valid_refused", 1)
			l.sh.sample("valid-refused", map[string]any{"valid_request_refused": render(q.Msg), "method": q.Method, "status": observed})
		}
	}

	// ---- the effect ---------------------------------------------------------------------------
	if out.Code != codes.OK {
		l.r.Count("requests_rejected", 1)
		d, err := l.dump()
		if err != nil {
			l.dumpFailed(q, exp, err)
			return
		}
		if diff := diffWorld(d, l.models); diff != "" {
			sig := "refused-but-state-changed-" + slugOf(q, exp)
			l.sh.violation(sig, fmt.Sprintf("%s %s was refused (%s) but the table dumps changed: %s", l.target(q), q.Method, out.Code, diff), l.witness(q, exp, observed, diff))
			l.adopt(d)
		}
		cls := "rejected:" + q.Method
		if q.Follower {
			cls = "follower:rejected:" + q.Method
		}
		l.sh.sample(cls, map[string]any{"rejected": q.Method, "target": l.target(q), "kind": q.Kind, "request": trunc(render(q.Msg), 200), "expected": exp.String(), "status": out.Code.String(), "dumps_unchanged": true})
		return
	}
	l.r.Count("requests_accepted", 1)
	if q.Method == mCreate {
		// the table's Raft group starts asynchronously: wait until it serves linearizable reads
		// (a crash caused by the creation surfaces here and is attributed to it)
		if !l.waitUsable(q) {
			return
		}
	}
	if exp.Class == expOK && !q.IsRaw {
		l.apply(q)
		d, err := l.dump()
		if err != nil {
			l.dumpFailed(q, exp, err)
			return
		}
		if diff := diffWorld(d, l.models); diff != "" {
			sig := "accepted-" + methodSlug(q.Method) + "-state-differs-from-model"
			l.sh.violation(sig, fmt.Sprintf("after the accepted %s %s the dumps differ from the reference model: %s", l.target(q), q.Method, diff), l.witness(q, exp, observed, diff))
			l.adopt(d)
		}
		cls := "accepted:" + q.Method
		if q.Follower {
			cls = "follower:accepted:" + q.Method
		}
		l.sh.sample(cls, map[string]any{"accepted": q.Method, "target": l.target(q), "request": trunc(render(q.Msg), 200), "dumps_equal_model": true})
		l.tidy(d)
		return
	}
	// accepted although a refusal was promised, or no promise at all (raw / unjudged): take the
	// server's state as the new reference so that later comparisons are not poisoned
	d, err := l.dump()
	if err != nil {
		l.dumpFailed(q, exp, err)
		return
	}
	if m, ok := q.Msg.(*pb.CreateTableRequest); ok && m != nil && q.Method == mCreate && !q.Follower && exp.Class == expUnknown &&
		m.Name != "" && utf8.ValidString(m.Name) && !l.tableExists(m.Name) {
		// No rule says which names are acceptable, but an ACCEPTED creation has one meaning: a new,
		// empty table listed under exactly the name sent, everything else untouched. (Names that
		// are not UTF-8 are left out: the listing cannot return them byte for byte.)
		l.models[m.Name] = model.NewTable()
		if _, listed := d.tables[m.Name]; !listed && l.answers(m.Name) {
			// the table exists (key-value requests reach it) but Tables.List does not show it
			cls := nameClass(m.Name)
			if strings.Contains(m.Name, "/") {
				cls = "name-with-slash"
			}
			l.sh.violation("accepted-tables-create-not-listed-"+cls, fmt.Sprintf("Tables.Create of %s answered OK and key-value requests reach the new table, but Tables.List does not show it", qb([]byte(m.Name))),
				l.witness(q, exp, observed, "Tables.List after the creation: "+strings.Join(d.names(), ", ")))
			// drop it again (directly: it cannot be judged against a listing that does not show it)
			ctx, cancel := context.WithTimeout(context.Background(), 10*time.Second)
			_, _ = l.cli.ltab.Delete(ctx, &pb.DeleteTableRequest{Name: m.Name})
			cancel()
			delete(l.models, m.Name)
			l.r.Count("unlisted_tables_dropped", 1)
		} else if diff := diffWorld(d, l.models); diff != "" {
			l.sh.violation("accepted-tables-create-state-differs-from-model", fmt.Sprintf("after the accepted Tables.Create of %s the table list / dumps are not 'as before plus one empty table of that name': %s", qb([]byte(m.Name)), diff),
				l.witness(q, exp, observed, diff))
		} else {
			l.sh.sample("accepted:unusual-name", map[string]any{"accepted_creation_of_unusual_name": m.Name, "listed_under_exactly_that_name": true, "other_tables_unchanged": true})
		}
	}
	if diff := diffWorld(d, l.models); diff != "" {
		l.r.Count("accepted_unjudged_changed_state", 1)
		if exp.Class == "code" || exp.Class == expNonOK {
			l.sh.sample("effect:"+exp.Rule, map[string]any{"accepted_invalid_request_effect": exp.Rule, "state_change": trunc(diff, 300)})
		}
	}
	l.adopt(d)
	if q.Method == mCreate {
		// hostile names that were accepted: drop the table again to keep the world small
		if m, ok := q.Msg.(*pb.CreateTableRequest); ok && m != nil && !plainName(m.Name) && l.tableExists(m.Name) && !q.Keep {
			l.exec(&request{N: q.N, Method: mDropTable, Kind: "cleanup", Msg: &pb.DeleteTableRequest{Name: m.Name}})
		}
	}
	l.tidy(d)
}

func isNestedRule(rule string) bool {
	return strings.HasPrefix(rule, "txn-nested-") || strings.HasPrefix(rule, "txn-compare-") || rule == "txn-empty-oneof"
}

func slugOf(q *request, exp expectation) string {
	if exp.Rule != "" {
		return exp.Rule
	}
	if q.IsRaw {
		return methodSlug(q.Method) + "-" + strings.ReplaceAll(q.Kind, ":", "-")
	}
	return methodSlug(q.Method) + "-" + strings.ReplaceAll(q.Kind, ":", "-")
}

func trunc(s string, n int) string {
	if len(s) > n {
		return s[:n] + "…"
	}
	return s
}

// apply executes an accepted valid request on the reference model.
func (l *lane) apply(q *request) {
	switch m := q.Msg.(type) {
	case *pb.PutRequest:
		if t := l.models[string(m.Table)]; t != nil {
			t.Apply(0, &pb.Command{Type: pb.Command_PUT, Kv: &pb.KeyValue{Key: m.Key, Value: m.Value}, PrevKvs: m.PrevKv})
		}
	case *pb.DeleteRangeRequest:
		if t := l.models[string(m.Table)]; t != nil {
			t.Apply(0, &pb.Command{Type: pb.Command_DELETE, Kv: &pb.KeyValue{Key: m.Key}, RangeEnd: nilIfEmpty(m.RangeEnd), PrevKvs: m.PrevKv, Count: m.Count})
		}
	case *pb.TxnRequest:
		if t := l.models[string(m.Table)]; t != nil {
			t.Apply(0, &pb.Command{Type: pb.Command_TXN, Txn: &pb.Txn{Compare: m.Compare, Success: m.Success, Failure: m.Failure}})
		}
	case *pb.CreateTableRequest:
		l.models[m.Name] = model.NewTable()
		l.env.created++
	case *pb.DeleteTableRequest:
		delete(l.models, m.Name)
	}
}

func nilIfEmpty(b []byte) []byte {
	if len(b) == 0 {
		return nil
	}
	return b
}

// waitUsable waits until every table the server lists and the model does not know yet (the one
// just created, under whatever name the server gave it) answers linearizable and local reads:
// a table's Raft group starts asynchronously. It returns false when the lane cannot go on with
// this request (a server died: reported).
func (l *lane) waitUsable(q *request) bool {
	t0 := time.Now()
	defer func() { l.tWait += time.Since(t0) }()
	deadline := time.Now().Add(30 * time.Second)
	for time.Now().Before(deadline) {
		if !l.alive() {
			l.crashed(q, expectation{Class: expUnknown}, outcome{Code: codes.OK, Msg: "server died after answering OK"})
			return false
		}
		ctx, cancel := context.WithTimeout(context.Background(), 3*time.Second)
		lst, err := l.cli.ltab.List(ctx, &pb.ListTablesRequest{})
		ready := err == nil
		for i := 0; ready && i < len(lst.GetTables()); i++ {
			name := lst.Tables[i].Name
			if l.tableExists(name) {
				continue
			}
			if _, err := l.cli.lkv.Range(ctx, &pb.RangeRequest{Table: []byte(name), Key: []byte{0}, RangeEnd: []byte{0}, Linearizable: true, CountOnly: true}); err != nil {
				ready = false
			} else if _, err := dumpTable(l.cli.lkv, name); err != nil {
				ready = false
			}
		}
		cancel()
		if ready {
			return true
		}
		time.Sleep(20 * time.Millisecond)
	}
	if !l.alive() {
		l.crashed(q, expectation{Class: expUnknown}, outcome{Code: codes.OK, Msg: "server died after answering OK"})
		return false
	}
	l.r.Inconclusive(fmt.Sprintf("lane %d case %d: a created table is not readable within the watchdog", l.id, q.N))
	return true
}

// tidy removes records that an accepted-but-invalid request left behind and that would make
// every later dump expensive (multi-MiB values, over-long keys). The removals are ordinary valid
// requests, judged like any other.
func (l *lane) tidy(d world1) {
	for tbl, kvs := range d.tables {
		if !l.tableExists(tbl) {
			continue
		}
		for k, v := range kvs {
			if len(k) > maxKeyLen {
				lo := []byte(k[:maxKeyLen])
				hi := successor(lo)
				if hi == nil {
					continue
				}
				l.r.Count("cleanup_requests", 1)
				l.exec(&request{N: -1, Method: mDelete, Kind: "cleanup", Msg: &pb.DeleteRangeRequest{Table: []byte(tbl), Key: lo, RangeEnd: hi}})
				return
			}
			if len(v) > 256*1024 {
				l.r.Count("cleanup_requests", 1)
				l.exec(&request{N: -1, Method: mDelete, Kind: "cleanup", Msg: &pb.DeleteRangeRequest{Table: []byte(tbl), Key: []byte(k)}})
				return
			}
		}
	}
}

// successor returns the smallest byte string greater than every string prefixed by p.
func successor(p []byte) []byte {
	q := append([]byte{}, p...)
	for i := len(q) - 1; i >= 0; i-- {
		if q[i] != 0xff {
			q[i]++
			return q[:i+1]
		}
	}
	return nil
}

func (l *lane) resync(q *request, why string) {
	d, err := l.dump()
	if err != nil {
		l.dumpFailed(q, expectation{Class: expUnknown}, err)
		return
	}
	l.adopt(d)
	l.r.Count("model_resyncs", 1)
}

func (l *lane) adopt(d world1) {
	l.models = map[string]*model.Table{}
	for t, kvs := range d.tables {
		m := model.NewTable()
		for k, v := range kvs {
			m.M[k] = v
		}
		l.models[t] = m
	}
	l.pending = 0
}

func (l *lane) alive() bool {
	if l.cl.leader == nil || !l.cl.leader.alive() {
		return false
	}
	if l.cl.follower != nil && !l.cl.follower.alive() {
		return false
	}
	return true
}

func (l *lane) dumpFailed(q *request, exp expectation, err error) {
	// give a dying process a moment to be reaped, then decide
	for i := 0; i < 20 && l.alive(); i++ {
		time.Sleep(50 * time.Millisecond)
		if _, err2 := l.dump(); err2 == nil {
			l.r.Inconclusive(fmt.Sprintf("lane %d case %d: a dump failed transiently: %v", l.id, q.N, err))
			l.resync(q, "after a failed dump")
			return
		}
	}
	if !l.alive() {
		l.crashed(q, exp, outcome{Code: codes.Unknown, Msg: "dump after the request failed: " + err.Error()})
		return
	}
	l.r.Inconclusive(fmt.Sprintf("lane %d case %d: dumps keep failing (%v); lane stopped", l.id, q.N, err))
	l.dead = true
}

// crashed reports a server process that died and brings up a fresh cluster so that the run goes on.
func (l *lane) crashed(q *request, exp expectation, out outcome) {
	time.Sleep(200 * time.Millisecond) // let the output reach the file
	var p *proc
	role := "leader"
	if l.cl.leader != nil && !l.cl.leader.alive() {
		p = l.cl.leader
	} else if l.cl.follower != nil && !l.cl.follower.alive() {
		p, role = l.cl.follower, "follower"
	}
	if p != nil && !l.crashReported[p] {
		l.crashReported[p] = true
		lines, excerpt := p.crashLines()
		what := "no panic text in the output"
		if len(lines) > 0 {
			what = lines[0]
		}
		if pebbleBoundsInvariant(lines) {
			// Not the product's behaviour: pebble compiles its iterator-bounds assertion in only
			// under the race / invariants build tags (internal/invariants), and this binary is a
			// -race build. A release build answers such a read with an empty range.
			l.r.Count("race_build_only_pebble_invariant_terminations", 1)
			l.sh.noteOnce("pebble-bounds", fmt.Sprintf("NOTE race-build only: the %s process was terminated by pebble's iterator-bounds assertion (%s) after a read with range_end <= key reached an sstable; "+
				"pebble compiles that assertion in only under the race/invariants build tags, a release build is not affected. Reads with inverted bounds are not generated for the rest of the run.", role, trunc(what, 160)))
			l.sh.sample("race-build-artefact", map[string]any{"race_build_only_termination": trunc(what, 300), "in_flight": trunc(render(q.Msg), 200), "previous_requests": l.recent})
			l.sh.setAvoidInverted()
			l.restart()
			return
		}
		kind := strings.ReplaceAll(q.Kind, ":", "-")
		if m, ok := q.Msg.(*pb.CreateTableRequest); ok && m != nil && q.Method == mCreate && m.Name != "" && !plainName(m.Name) {
			kind = nameClass(m.Name)
		} else if exp.Rule != "" {
			kind = exp.Rule
		} else if maxLimit(q.Msg) >= 1<<30 {
			kind = "huge-limit"
		}
		sig := fmt.Sprintf("crash-%s-%s-%s", role, methodSlug(q.Method), kind)
		if site := panicSite(excerpt); site != "" {
			// a panic raised in regatta's own code: the site names the failure class better than
			// whatever request happened to trigger it
			sig = fmt.Sprintf("crash-%s-panic-at-%s", role, site)
		}
		l.r.Count("server_crashes", 1)
		l.sh.violation(sig, fmt.Sprintf("the %s process died (%s) while/after serving %s %s [%s]: %s — %s", role, p.exitString(), l.target(q), q.Method, q.Kind, trunc(render(q.Msg), 200), what),
			l.witness(q, exp, fmt.Sprintf("%s %q; process: %s", out.Code, trunc(out.Msg, 120), p.exitString()), trunc(excerpt, 2500)))
		l.noteRaces(p)
	}
	l.sh.disable(classKey(q))
	l.restart()
}

// restart brings up a fresh cluster (fresh directories) after a server died.
func (l *lane) restart() {
	l.restarts++
	if l.restarts > 8 {
		l.r.Note(fmt.Sprintf("lane %d: stopped after %d restarts", l.id, l.restarts))
		l.dead = true
		l.cl.stopAll()
		return
	}
	l.cl.stopAll()
	l.models = map[string]*model.Table{}
	l.pending = 0
	l.env.hasFoll = l.id%2 == 0
	if err := l.up(); err != nil {
		l.r.Inconclusive(fmt.Sprintf("lane %d: restart failed: %v", l.id, err))
		l.dead = true
		l.cl.stopAll()
		return
	}
	l.r.Count("cluster_restarts", 1)
	l.prelude()
}

func (l *lane) noteRaces(p *proc) {
	for _, rr := range p.raceReports() {
		if rr.Coro {
			l.r.Count("race_reports_coroutine_handoff_artefact", 1)
			l.sh.sample("race-artefact", map[string]any{"race_report_not_judged": "util/iter.Pull switches coroutines without race annotations; both sides never run concurrently", "frames": rr.Frames})
		} else if rr.Regatta {
			l.r.Count("race_reports_regatta", 1)
			l.sh.violation("data-race-"+trunc(rr.Key, 120), fmt.Sprintf("race detector report in the %s process with regatta frames %v", p.name, rr.Frames),
				witness{Lane: l.id, Seed: l.r.Seed, Tier: l.r.Tier, Target: p.name, Method: "-", Request: "(whole run)", Observed: "WARNING: DATA RACE", Detail: rr.Text, N: 1 << 30})
		} else {
			l.r.Count("race_reports_third_party", 1)
			l.r.Distinct("third_party_races", rr.Key)
		}
	}
}

// finish stops the servers with SIGTERM and judges exit status and output.
func (l *lane) finish() {
	tf := time.Now()
	defer func() {
		fmt.Printf("lane %d: total %.1fs (start-up %.1fs, requests %.1fs, dumps %.1fs, table waits %.1fs, shutdown %.1fs), %d restarts\n", l.id, time.Since(l.began).Seconds(),
			l.tStart.Seconds(), l.tSend.Seconds(), l.tDump.Seconds(), l.tWait.Seconds(), time.Since(tf).Seconds(), l.restarts)
	}()
	if l.cli != nil {
		l.cli.close()
	}
	for _, p := range []*proc{l.cl.follower, l.cl.leader} {
		if p == nil {
			continue
		}
		wasAlive := p.alive()
		exited, how := p.terminate(90 * time.Second)
		lines, excerpt := p.crashLines()
		w := witness{Lane: l.id, Seed: l.r.Seed, Tier: l.r.Tier, Target: p.name, Method: "-", Request: "(SIGTERM at the end of the run)", Observed: how, N: 1 << 30, Recent: l.recent}
		if pebbleBoundsInvariant(lines) && !l.crashReported[p] {
			// see crashed(): a race-build-only assertion of pebble, not the product's behaviour
			l.crashReported[p] = true
			l.r.Count("race_build_only_pebble_invariant_terminations", 1)
			l.sh.setAvoidInverted()
			l.noteRaces(p)
			continue
		}
		switch {
		case !wasAlive && !l.crashReported[p]:
			l.crashReported[p] = true
			w.Detail = trunc(excerpt, 2500)
			l.sh.violation("crash-"+p.name+"-unattributed", fmt.Sprintf("the %s process was found dead at the end of the run: %s %v", p.name, how, lines), w)
		case !exited:
			l.r.Inconclusive(fmt.Sprintf("lane %d: %s did not exit within the watchdog after SIGTERM", l.id, p.name))
		case wasAlive && !p.exitedCleanly():
			w.Detail = trunc(p.logTail(2500), 2500)
			l.sh.violation("unclean-exit-after-sigterm-"+p.name, fmt.Sprintf("the %s process ended with '%s' on SIGTERM after the request stream", p.name, how), w)
		case wasAlive:
			l.r.Count("clean_exits_on_sigterm", 1)
		}
		if len(lines) > 0 && !l.crashReported[p] {
			w.Detail = trunc(excerpt, 2500)
			l.sh.violation("crash-output-"+p.name, fmt.Sprintf("the %s output shows %q", p.name, lines[0]), w)
		}
		l.noteRaces(p)
	}
	l.cl.stopAll()
}

// ---- dumps ---------------------------------------------------------------------------------------

type world1 struct {
	tables map[string]map[string][]byte
}

func (l *lane) dump() (world1, error) {
	t0 := time.Now()
	defer func() { l.tDump += time.Since(t0) }()
	ctx, cancel := context.WithTimeout(context.Background(), 20*time.Second)
	defer cancel()
	lst, err := l.cli.ltab.List(ctx, &pb.ListTablesRequest{})
	if err != nil {
		return world1{}, fmt.Errorf("Tables.List: %w", err)
	}
	w := world1{tables: map[string]map[string][]byte{}}
	type res struct {
		name string
		kvs  map[string][]byte
		err  error
	}
	ch := make(chan res, len(lst.Tables))
	for _, t := range lst.Tables {
		go func(name string) {
			kvs, err := dumpTable(l.cli.lkv, name)
			ch <- res{name, kvs, err}
		}(t.Name)
	}
	var first error
	for range lst.Tables {
		x := <-ch
		if x.err != nil && first == nil {
			first = fmt.Errorf("dump of table %q: %w", trunc(x.name, 40), x.err)
		}
		w.tables[x.name] = x.kvs
	}
	if first != nil {
		return world1{}, first
	}
	l.r.Count("dumps_compared", 1)
	return w, nil
}

// diffWorld compares a dump with the reference models ("" = identical).
func diffWorld(d world1, models map[string]*model.Table) string {
	var diffs []string
	var names []string
	for t := range d.tables {
		names = append(names, t)
	}
	for t := range models {
		if _, ok := d.tables[t]; !ok {
			names = append(names, t)
		}
	}
	sort.Strings(names)
	for _, t := range names {
		got, okG := d.tables[t]
		m, okM := models[t]
		switch {
		case !okG:
			diffs = append(diffs, fmt.Sprintf("table %q missing on the server", trunc(t, 40)))
			continue
		case !okM:
			diffs = append(diffs, fmt.Sprintf("unexpected table %q (%d records)", trunc(t, 40), len(got)))
			continue
		}
		var ks []string
		for k := range got {
			ks = append(ks, k)
		}
		for k := range m.M {
			if _, ok := got[k]; !ok {
				ks = append(ks, k)
			}
		}
		sort.Strings(ks)
		for _, k := range ks {
			gv, okG := got[k]
			mv, okM := m.M[k]
			switch {
			case !okG:
				diffs = append(diffs, fmt.Sprintf("%s[%s] missing on the server (model %s)", t, qb([]byte(k)), qb(mv)))
			case !okM:
				diffs = append(diffs, fmt.Sprintf("%s[%s]=%s on the server, absent in the model", t, qb([]byte(k)), qb(gv)))
			case string(gv) != string(mv):
				diffs = append(diffs, fmt.Sprintf("%s[%s]=%s on the server, model %s", t, qb([]byte(k)), qb(gv), qb(mv)))
			}
			if len(diffs) > 6 {
				break
			}
		}
	}
	if len(diffs) > 6 {
		diffs = append(diffs[:6], "…")
	}
	return strings.Join(diffs, "; ")
}
