package main

import (
	"context"
	"errors"
	"io"
	"time"

	pb "github.com/jamf/regatta/regattapb"
	"google.golang.org/grpc"
	"google.golang.org/grpc/codes"
	"google.golang.org/grpc/status"
)

type outcome struct {
	Code codes.Code
	Msg  string
}

type clients struct {
	lconn, fconn *grpc.ClientConn
	lkv, fkv     pb.KVClient
	ltab, ftab   pb.TablesClient
	onNudge      func()
}

func newClients(c *cluster) *clients {
	cl := &clients{lconn: c.lconn, fconn: c.fconn}
	cl.lkv, cl.ltab = pb.NewKVClient(c.lconn), pb.NewTablesClient(c.lconn)
	if c.fconn != nil {
		cl.fkv, cl.ftab = pb.NewKVClient(c.fconn), pb.NewTablesClient(c.fconn)
	}
	return cl
}

func (c *clients) close() {}

func toOutcome(err error) outcome {
	if err == nil {
		return outcome{Code: codes.OK}
	}
	if s, ok := status.FromError(err); ok {
		return outcome{Code: s.Code(), Msg: s.Message()}
	}
	if errors.Is(err, context.DeadlineExceeded) {
		return outcome{Code: codes.DeadlineExceeded, Msg: err.Error()}
	}
	return outcome{Code: codes.Unknown, Msg: err.Error()}
}

func (c *clients) timeout(q *request) time.Duration {
	if q.Follower {
		return 4 * time.Second
	}
	return 20 * time.Second
}

// nudgeKey is never stored by anybody: deleting it is a write without effect.
var nudgeKey = []byte("~c16-nudge-never-stored")

// followerWriteTable returns the table of a write that the follower forwards to the leader
// (nil for everything else).
func followerWriteTable(q *request) []byte {
	if !q.Follower || q.Msg == nil || !isWrite(q) {
		return nil
	}
	switch m := q.Msg.(type) {
	case *pb.PutRequest:
		return m.Table
	case *pb.DeleteRangeRequest:
		return m.Table
	case *pb.TxnRequest:
		return m.Table
	}
	return nil
}

// send performs one request and reduces the answer to its status.
//
// A write sent to the follower is forwarded to the leader and then waits until the follower has
// applied the leader's revision. When the follower applies it BEFORE the handler registers its
// waiter, the waiter is only released by the next write to that table (read-your-writes is C11's
// subject, not judged here). So while such a request is pending the client keeps sending, through
// the leader, a write without effect to the same table (deletion of a key nobody stores).
func (c *clients) send(q *request) outcome {
	tbl := followerWriteTable(q)
	if len(tbl) == 0 {
		return c.sendOnce(q)
	}
	done := make(chan outcome, 1)
	go func() { done <- c.sendOnce(q) }()
	t := time.NewTimer(250 * time.Millisecond)
	defer t.Stop()
	for {
		select {
		case o := <-done:
			return o
		case <-t.C:
			ctx, cancel := context.WithTimeout(context.Background(), 3*time.Second)
			_, _ = c.lkv.DeleteRange(ctx, &pb.DeleteRangeRequest{Table: tbl, Key: nudgeKey})
			cancel()
			if c.onNudge != nil {
				c.onNudge()
			}
			t.Reset(250 * time.Millisecond)
		}
	}
}

func (c *clients) sendOnce(q *request) outcome {
	ctx, cancel := context.WithTimeout(context.Background(), c.timeout(q))
	defer cancel()
	conn, kv, tab := c.lconn, c.lkv, c.ltab
	if q.Follower {
		conn, kv, tab = c.fconn, c.fkv, c.ftab
	}
	if q.IsRaw {
		return sendRaw(ctx, conn, q)
	}
	var err error
	switch m := q.Msg.(type) {
	case *pb.RangeRequest:
		if q.Method == mIterate {
			var st pb.KV_IterateRangeClient
			st, err = kv.IterateRange(ctx, m)
			for err == nil {
				_, err = st.Recv()
			}
			if err == io.EOF {
				err = nil
			}
		} else {
			_, err = kv.Range(ctx, m)
		}
	case *pb.PutRequest:
		_, err = kv.Put(ctx, m)
	case *pb.DeleteRangeRequest:
		_, err = kv.DeleteRange(ctx, m)
	case *pb.TxnRequest:
		_, err = kv.Txn(ctx, m)
	case *pb.CreateTableRequest:
		_, err = tab.Create(ctx, m)
	case *pb.DeleteTableRequest:
		_, err = tab.Delete(ctx, m)
	case *pb.ListTablesRequest:
		_, err = tab.List(ctx, m)
	default:
		return outcome{Code: codes.Unknown, Msg: "driver: unknown message type"}
	}
	return toOutcome(err)
}

func sendRaw(ctx context.Context, conn *grpc.ClientConn, q *request) outcome {
	method := fullMethod[q.Method]
	if q.Method == mIterate {
		st, err := conn.NewStream(ctx, &grpc.StreamDesc{ServerStreams: true}, method, grpc.ForceCodec(rawCodec{}))
		if err != nil {
			return toOutcome(err)
		}
		if err := st.SendMsg(q.Raw); err != nil && err != io.EOF {
			return toOutcome(err)
		}
		if err := st.CloseSend(); err != nil {
			return toOutcome(err)
		}
		for {
			var out []byte
			err := st.RecvMsg(&out)
			if err == io.EOF {
				return outcome{Code: codes.OK}
			}
			if err != nil {
				return toOutcome(err)
			}
		}
	}
	var out []byte
	return toOutcome(conn.Invoke(ctx, method, q.Raw, &out, grpc.ForceCodec(rawCodec{})))
}

// probe tells whether the addressed server answers an ordinary request right now.
func (c *clients) probe(follower bool) bool {
	tab := c.ltab
	if follower && c.ftab != nil {
		tab = c.ftab
	}
	for i := 0; i < 3; i++ {
		ctx, cancel := context.WithTimeout(context.Background(), 5*time.Second)
		_, err := tab.List(ctx, &pb.ListTablesRequest{})
		cancel()
		if err == nil {
			return true
		}
		time.Sleep(200 * time.Millisecond)
	}
	return false
}

// dumpTable reads a whole table through the API: one unary Range when the table fits into one
// answer, the streaming IterateRange otherwise.
func dumpTable(kv pb.KVClient, name string) (map[string][]byte, error) {
	ctx, cancel := context.WithTimeout(context.Background(), 20*time.Second)
	defer cancel()
	req := &pb.RangeRequest{Table: []byte(name), Key: []byte{0}, RangeEnd: []byte{0}}
	out := map[string][]byte{}
	if resp, err := kv.Range(ctx, req); err == nil && !resp.More {
		for _, kv := range resp.Kvs {
			out[string(kv.Key)] = append([]byte{}, kv.Value...)
		}
		return out, nil
	} else if err != nil {
		if c := status.Code(err); c != codes.ResourceExhausted {
			return nil, err
		}
	}
	st, err := kv.IterateRange(ctx, req)
	if err != nil {
		return nil, err
	}
	for {
		resp, err := st.Recv()
		if err == io.EOF {
			return out, nil
		}
		if err != nil {
			return nil, err
		}
		for _, kv := range resp.Kvs {
			out[string(kv.Key)] = append([]byte{}, kv.Value...)
		}
	}
}
