// C03 — replicas converge: state depends only on the log, not on how it is batched, nor on
// restarts or snapshot transfers in between.
//
// The same generated log is fed to a reference replica (one entry per apply call, never
// restarted) and to variants that cut it into random apply batches, close and reopen the state
// machine at cut points, and move to another replica through PrepareSnapshot/SaveSnapshot/
// RecoverFromSnapshot (both formats, both cross-format directions, fresh / lagging / foreign
// receiver). Per-entry results, final raw content hash, dump and both indices must be pairwise
// equal, and equal to the reference model.
package main

import (
	"bytes"
	"fmt"
	"os"

	pb "github.com/jamf/regatta/regattapb"
	"github.com/jamf/regatta/storage/table/fsm"
	sm "github.com/lni/dragonboat/v4/statemachine"

	"verifharness/internal/ev"
	"verifharness/internal/fsmx"
	"verifharness/internal/gen"
	"verifharness/internal/model"
)

type caseID struct {
	Seed int64 `json:"case_seed"`
}

type witness struct {
	Case    caseID   `json:"case"`
	Log     []string `json:"log"`
	Variant string   `json:"variant"`
	At      string   `json:"at"`
}

type entryRes struct {
	Value uint64
	Data  []byte
}

func main() {
	r := ev.Start("C03", "exploration")
	r.Rule("seeded logs of 5-80 entries (leader-style without leader index, follower-style SEQUENCE/PUT_BATCH with leader index, DUMMY reset with index 0, mixed; txns and range deletes) " +
		"replayed on a reference replica (1 entry per apply call) and 4-6 variants (random batch cuts, close+reopen at cut points, snapshot transfer at a cut point in all 4 format pairs into fresh/lagging/foreign receivers). " +
		"Non-trivial: log mixes entries with and without leader index, contains a txn or range delete, and the variant has >=2 batches of size >=2 plus a reopen or snapshot; distinct by hash(log, variant)")
	r.Assume("per-entry results compared as (value, result bytes): both replicas run the same deterministic encoder")
	if r.Replay != "" {
		var w witness
		if _, err := r.ReadReplay(&w); err != nil {
			fmt.Fprintln(os.Stderr, "replay:", err)
			os.Exit(2)
		}
		runCase(r, w.Case)
		r.Finish()
	}
	ev.Parallel(r.Pick(1000, 10000), 8, func(i int) {
		runCase(r, caseID{r.Seed*1_000_003 + int64(i)})
	})
	r.FloorNontrivial(int64(r.Pick(500, 5000)))
	r.FloorCount("variants", int64(r.Pick(4000, 40000)))
	r.FloorCount("reopens", int64(r.Pick(300, 6000)))
	r.FloorCount("snapshot_transfers", int64(r.Pick(300, 6000)))
	r.Finish()
}

func genLog(g *gen.G) ([]sm.Entry, bool, bool) {
	mode := g.R.Intn(3) // 0 leader-style, 1 follower-style, 2 mixed
	n := 5 + g.R.Intn(76)
	var (
		entries        []sm.Entry
		idx, li        uint64
		withLI, noLI   bool
		interesting    bool
	)
	for i := 0; i < n; i++ {
		idx += 1 + uint64(g.R.Intn(4))/3
		var c *pb.Command
		follower := mode == 1 || (mode == 2 && g.R.Intn(2) == 0)
		if follower {
			switch k := g.R.Intn(12); {
			case k < 8:
				c = &pb.Command{Table: []byte("t"), Type: pb.Command_SEQUENCE}
				for j, m := 0, 1+g.R.Intn(4); j < m; j++ {
					li++
					sc := g.Command(0)
					v := li
					sc.LeaderIndex = &v
					c.Sequence = append(c.Sequence, sc)
				}
				v := li
				c.LeaderIndex = &v
			case k < 9:
				c = &pb.Command{Table: []byte("t"), Type: pb.Command_PUT_BATCH}
				for j, m := 0, g.R.Intn(4); j < m; j++ {
					c.Batch = append(c.Batch, &pb.KeyValue{Key: g.Key(), Value: g.Value()})
				}
				li += 1 + uint64(g.R.Intn(50))
				v := li
				c.LeaderIndex = &v
			case k < 10:
				zero := uint64(0)
				c = &pb.Command{Table: []byte("t"), Type: pb.Command_DUMMY, LeaderIndex: &zero}
				li = 0
			case k < 11:
				c = &pb.Command{Table: []byte("t"), Type: pb.Command_DUMMY}
			default:
				c = g.Command(1)
				li++
				v := li
				c.LeaderIndex = &v
			}
		} else {
			c = g.Command(2)
		}
		if c.LeaderIndex != nil {
			withLI = true
		} else {
			noLI = true
		}
		if hasTxnOrRange(c) {
			interesting = true
		}
		entries = append(entries, fsmx.Entry(idx, c))
	}
	return entries, withLI && noLI, interesting
}

func hasTxnOrRange(c *pb.Command) bool {
	switch c.Type {
	case pb.Command_TXN:
		return true
	case pb.Command_DELETE:
		return c.RangeEnd != nil
	case pb.Command_SEQUENCE:
		for _, s := range c.Sequence {
			if hasTxnOrRange(s) {
				return true
			}
		}
	}
	return false
}

func applyAll(t *fsmx.T, entries []sm.Entry, cuts []int) ([]entryRes, error) {
	var res []entryRes
	pos := 0
	for _, c := range cuts {
		batch := make([]sm.Entry, c)
		copy(batch, entries[pos:pos+c])
		out, err := t.SM.Update(batch)
		if err != nil {
			return nil, err
		}
		for _, e := range out {
			res = append(res, entryRes{e.Result.Value, append([]byte{}, e.Result.Data...)})
		}
		pos += c
	}
	return res, nil
}

func ones(n int) []int {
	c := make([]int, n)
	for i := range c {
		c[i] = 1
	}
	return c
}

type final struct {
	hash uint64
	dump *model.Table
}

func finalOf(t *fsmx.T) (final, error) {
	h, err := t.Hash()
	if err != nil {
		return final{}, err
	}
	d, err := t.Dump()
	return final{h, d}, err
}

func runCase(r *ev.Run, id caseID) {
	g := gen.New(id.Seed)
	g.NewPool(5 + g.R.Intn(6))
	entries, mixed, interesting := genLog(g)
	w := witness{Case: id}
	for _, e := range entries {
		w.Log = append(w.Log, fmt.Sprintf("%d:%s", e.Index, gen.Describe(fsmx.Decoded(e))))
	}
	fail := func(sig, variant, at, what string) {
		w.Variant, w.At = variant, at
		r.Violation(sig, fmt.Sprintf("%s [variant %s] @ %s", what, variant, at), w)
	}

	// reference replica + model
	ref, err := fsmx.Fresh("t", fsm.RecoveryTypeSnapshot)
	if err != nil {
		r.Violation("fsm-open", err.Error(), w)
		return
	}
	defer ref.Close()
	refRes, err := applyAll(ref, entries, ones(len(entries)))
	if err != nil {
		fail("update-error", "reference", "apply", err.Error())
		return
	}
	m := model.NewTable()
	for _, e := range entries {
		m.Apply(e.Index, fsmx.Decoded(e))
	}
	refFinal, err := finalOf(ref)
	if err != nil {
		fail("dump-error", "reference", "final", err.Error())
		return
	}
	if why := fsmx.Diff(refFinal.dump, m); why != "" {
		fail("reference-vs-model", "reference (one entry per apply call)", "final", why)
		return
	}

	compare := func(variant string, t *fsmx.T, res []entryRes, from int) bool {
		for i, e := range res {
			x := refRes[from+i]
			if e.Value != x.Value || !bytes.Equal(e.Data, x.Data) {
				fail("entry-result-differs", variant, fmt.Sprintf("entry %d", entries[from+i].Index),
					fmt.Sprintf("result (%d,%x) differs from the reference replica's (%d,%x)", e.Value, trunc(e.Data), x.Value, trunc(x.Data)))
				return false
			}
		}
		f, err := finalOf(t)
		if err != nil {
			fail("dump-error", variant, "final", err.Error())
			return false
		}
		if why := fsmx.Diff(f.dump, refFinal.dump); why != "" {
			sig := "replica-state-differs"
			if f.dump.Leader != refFinal.dump.Leader && f.dump.Applied == refFinal.dump.Applied && fsmx.DiffContent(f.dump, refFinal.dump) == "" {
				sig = "leader-index-depends-on-batching"
			}
			fail(sig, variant, "final", why+" (vs reference replica)")
			return false
		}
		if f.hash != refFinal.hash {
			fail("raw-hash-differs", variant, "final", fmt.Sprintf("raw content hash %x vs reference %x although dumps agree", f.hash, refFinal.hash))
			return false
		}
		return true
	}

	nv := 4 + g.R.Intn(3)
	for v := 0; v < nv; v++ {
		cuts := g.Cut(len(entries), 1+g.R.Intn(10))
		big := 0
		for _, c := range cuts {
			if c >= 2 {
				big++
			}
		}
		kind := g.R.Intn(3)
		r.Count("variants", 1)
		switch kind {
		case 0: // batching only
			name := fmt.Sprintf("batches%v", cuts)
			t, err := fsmx.Fresh("t", fsm.SnapshotRecoveryType(g.R.Intn(2)))
			if err != nil {
				fail("fsm-open", name, "open", err.Error())
				return
			}
			res, err := applyAll(t, entries, cuts)
			if err != nil {
				t.Close()
				fail("update-error", name, "apply", err.Error())
				return
			}
			ok := compare(name, t, res, 0)
			t.Close()
			if !ok {
				return
			}
		case 1: // reopen at random cut points
			t, err := fsmx.Fresh("t", fsm.SnapshotRecoveryType(g.R.Intn(2)))
			if err != nil {
				fail("fsm-open", "reopen", "open", err.Error())
				return
			}
			var res []entryRes
			pos := 0
			name := fmt.Sprintf("batches%v+reopen", cuts)
			reopens := 0
			for _, c := range cuts {
				out, err := applyAll(t, entries[pos:pos+c], []int{c})
				if err != nil {
					t.Close()
					fail("update-error", name, "apply", err.Error())
					return
				}
				res = append(res, out...)
				pos += c
				if g.R.Intn(3) == 0 {
					last := entries[pos-1].Index
					if err := t.Close(); err != nil {
						fail("close-error", name, fmt.Sprintf("after %d", last), err.Error())
						return
					}
					nt, idx, err := t.Reopen()
					if err != nil {
						fail("reopen-error", name, fmt.Sprintf("after %d", last), err.Error())
						return
					}
					t = nt
					reopens++
					r.Count("reopens", 1)
					if idx != last {
						t.Close()
						fail("reopen-index", name, fmt.Sprintf("after %d", last), fmt.Sprintf("Open reported applied index %d after a clean close at %d", idx, last))
						return
					}
				}
			}
			ok := compare(name, t, res, 0)
			t.Close()
			if !ok {
				return
			}
			if mixed && interesting && big >= 2 && reopens > 0 {
				r.Nontrivial(fmt.Sprint(id.Seed, name))
			}
		case 2: // snapshot transfer at a cut point
			fa, fb := fsm.SnapshotRecoveryType(g.R.Intn(2)), fsm.SnapshotRecoveryType(g.R.Intn(2))
			cutAt := 0
			k := g.R.Intn(len(cuts))
			for i := 0; i <= k; i++ {
				cutAt += cuts[i]
			}
			recvKind := g.R.Intn(3) // 0 fresh, 1 lagging (prefix of the same log), 2 foreign content
			name := fmt.Sprintf("batches%v+snapshot(fmt %d->%d at %d, receiver %d)", cuts, fa, fb, cutAt, recvKind)
			a, err := fsmx.Fresh("t", fa)
			if err != nil {
				fail("fsm-open", name, "open", err.Error())
				return
			}
			var pre []int
			rem := cutAt
			for _, c := range cuts {
				if rem == 0 {
					break
				}
				pre = append(pre, c)
				rem -= c
			}
			if _, err := applyAll(a, entries[:cutAt], pre); err != nil {
				a.Close()
				fail("update-error", name, "apply on saver", err.Error())
				return
			}
			// the saver goes on applying (and syncing) between PrepareSnapshot and SaveSnapshot, as a
			// replica does while its snapshot is being streamed
			ahead := 0
			if g.R.Intn(2) == 0 {
				ahead = g.R.Intn(len(entries) - cutAt + 1)
			}
			sctx, err := a.SM.PrepareSnapshot()
			if err != nil {
				a.Close()
				fail("snapshot-save-error", name, "prepare", err.Error())
				return
			}
			if ahead > 0 {
				name += fmt.Sprintf("+saver applies %d more before save", ahead)
				if _, err := applyAll(a, entries[cutAt:cutAt+ahead], []int{ahead}); err != nil {
					a.Close()
					fail("update-error", name, "apply on saver between prepare and save", err.Error())
					return
				}
				if g.R.Intn(2) == 0 {
					if err := a.SM.Sync(); err != nil {
						a.Close()
						fail("update-error", name, "sync on saver between prepare and save", err.Error())
						return
					}
				}
				r.Count("snapshot_transfers_saver_ahead", 1)
			}
			var sbuf bytes.Buffer
			err = a.SM.SaveSnapshot(sctx, &sbuf, nil)
			snap := sbuf.Bytes()
			a.Close()
			if err != nil {
				fail("snapshot-save-error", name, "save", err.Error())
				return
			}
			b, err := fsmx.Fresh("t", fb)
			if err != nil {
				fail("fsm-open", name, "open receiver", err.Error())
				return
			}
			switch recvKind {
			case 1:
				p := g.R.Intn(cutAt + 1)
				if p > 0 {
					if _, err := applyAll(b, entries[:p], []int{p}); err != nil {
						b.Close()
						fail("update-error", name, "apply on lagging receiver", err.Error())
						return
					}
				}
			case 2:
				g2 := gen.New(id.Seed ^ 0x5eed)
				var junk []sm.Entry
				for j := 1; j <= 6; j++ {
					junk = append(junk, fsmx.Entry(uint64(j), &pb.Command{Table: []byte("t"), Type: pb.Command_PUT, Kv: &pb.KeyValue{Key: []byte(fmt.Sprintf("junk%d", j)), Value: g2.Value()}}))
				}
				if _, err := applyAll(b, junk, []int{len(junk)}); err != nil {
					b.Close()
					fail("update-error", name, "apply on foreign receiver", err.Error())
					return
				}
			}
			if err := b.Recover(snap); err != nil {
				b.Close()
				fail("snapshot-recover-error", name, "recover", err.Error())
				return
			}
			// the receiver now is a replica that has applied exactly the prefix up to the cut
			mc := model.NewTable()
			for _, e := range entries[:cutAt] {
				mc.Apply(e.Index, fsmx.Decoded(e))
			}
			if d, err := b.Dump(); err != nil {
				b.Close()
				fail("dump-error", name, "after recover", err.Error())
				return
			} else if why := fsmx.Diff(d, mc); why != "" {
				b.Close()
				fail("replica-state-differs", name, "right after recover", why+" (vs the state after the log prefix the snapshot stands for)")
				return
			}
			r.Count("snapshot_transfers", 1)
			r.Distinct("format_pairs", fmt.Sprintf("%d->%d/recv%d", fa, fb, recvKind))
			var post []int
			rem = cutAt
			for _, c := range cuts {
				if rem > 0 {
					rem -= c
					continue
				}
				post = append(post, c)
			}
			res, err := applyAll(b, entries[cutAt:], post)
			if err != nil {
				b.Close()
				fail("update-error", name, "apply after recover", err.Error())
				return
			}
			ok := compare(name, b, res, cutAt)
			b.Close()
			if !ok {
				return
			}
			if mixed && interesting && big >= 2 {
				r.Nontrivial(fmt.Sprint(id.Seed, name))
			}
		}
	}
	r.Eval(1)
	r.Sample(map[string]any{"log": head(w.Log, 6), "entries": len(entries), "variants": nv})
}

func trunc(b []byte) []byte {
	if len(b) > 48 {
		return b[:48]
	}
	return b
}

func head(s []string, n int) []string {
	if len(s) > n {
		return append(append([]string{}, s[:n]...), fmt.Sprintf("… %d more", len(s)-n))
	}
	return s
}
