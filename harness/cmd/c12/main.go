// C12 — key encoding is injective, order-preserving, and isolates bookkeeping keys.
//
// Pure functions (key.Encoder.Encode + key.DecodeBytes, the pair production code uses) observed
// on an exhaustive small-alphabet key space plus random and structured-extreme keys; the bounds
// clauses are observed through the real FSM (range reads / range deletes with extreme bounds
// followed by bookkeeping lookups and a full dump).
package main

import (
	"bytes"
	"fmt"
	"math/rand"
	"os"
	"sort"

	pb "github.com/jamf/regatta/regattapb"
	"github.com/jamf/regatta/storage/table/fsm"
	"github.com/jamf/regatta/storage/table/key"
	sm "github.com/lni/dragonboat/v4/statemachine"

	"verifharness/internal/ev"
	"verifharness/internal/fsmx"
	"verifharness/internal/model"
)

func enc(k []byte) ([]byte, error) {
	var buf bytes.Buffer
	_, err := key.NewEncoder(&buf).Encode(&key.Key{KeyType: key.TypeUser, Key: k})
	return buf.Bytes(), err
}

func encSys(k []byte) []byte {
	var buf bytes.Buffer
	_, _ = key.NewEncoder(&buf).Encode(&key.Key{KeyType: key.TypeSystem, Key: k})
	return buf.Bytes()
}

func sign(x int) int {
	switch {
	case x < 0:
		return -1
	case x > 0:
		return 1
	}
	return 0
}

type witness struct {
	A string `json:"a_hex"`
	B string `json:"b_hex,omitempty"`
	C string `json:"c_hex,omitempty"`
}

func hx(b []byte) string { return fmt.Sprintf("%x", b) }

func main() {
	r := ev.Start("C12", "exploration")
	r.Rule("all strings over {00,01,02,FE,FF} up to length 4 (780 keys, exhaustive: every key round-trips, every ordered pair is compared) plus seeded random keys up to 1024 B and structured extremes (1019/1020/1024 x FF/00, keys looking like headers or bookkeeping keys); " +
		"bounds clauses through the real FSM. Non-trivial pair: one key is a proper prefix of the other or they first differ at a 00/FF byte; distinct by the pair")
	r.Assume("accepted key length = 1..1024 bytes (what the API admits, storage/table/table.go)")
	if r.Replay != "" {
		var w witness
		if _, err := r.ReadReplay(&w); err != nil {
			fmt.Fprintln(os.Stderr, "replay:", err)
			os.Exit(2)
		}
		var a, b []byte
		fmt.Sscanf(w.A, "%x", &a)
		fmt.Sscanf(w.B, "%x", &b)
		checkKey(r, a)
		if w.B != "" {
			checkKey(r, b)
			checkPair(r, a, b)
		}
		r.Finish()
	}
	rng := rand.New(rand.NewSource(r.Seed))
	// exhaustive small space
	alpha := []byte{0x00, 0x01, 0x02, 0xFE, 0xFF}
	var small [][]byte
	var rec func(prefix []byte)
	rec = func(prefix []byte) {
		if len(prefix) > 0 {
			small = append(small, append([]byte{}, prefix...))
		}
		if len(prefix) == 4 {
			return
		}
		for _, c := range alpha {
			rec(append(prefix, c))
		}
	}
	rec(nil)
	seen := map[string]string{} // encoding -> key, for injectivity over everything encoded in this run
	inj := func(k []byte) bool {
		e, err := enc(k)
		if err != nil {
			r.Violation("encode-error", fmt.Sprintf("key %x: %v", k, err), witness{A: hx(k)})
			return false
		}
		if prev, ok := seen[string(e)]; ok && prev != string(k) {
			r.Violation("not-injective", fmt.Sprintf("keys %x and %x encode to the same stored key %x", prev, k, e), witness{A: hx([]byte(prev)), B: hx(k)})
			return false
		}
		seen[string(e)] = string(k)
		return true
	}
	for _, k := range small {
		if !checkKey(r, k) || !inj(k) {
			r.Finish()
		}
	}
	for i, a := range small {
		for _, b := range small[i+1:] {
			if !checkPair(r, a, b) {
				r.Finish()
			}
		}
	}
	r.Exhaustive(true)
	r.Extra("exhaustive_space", fmt.Sprintf("%d keys over {00,01,02,FE,FF}^1..4, all %d unordered pairs", len(small), len(small)*(len(small)-1)/2))
	// structured extremes
	var extremes [][]byte
	for _, ln := range []int{1, 2, 1018, 1019, 1020, 1021, 1023, 1024} {
		for _, c := range []byte{0x00, 0x01, 0x02, 0x7F, 0xFE, 0xFF} {
			k := bytes.Repeat([]byte{c}, ln)
			extremes = append(extremes, k)
			if ln > 1 {
				k2 := append([]byte{}, k...)
				k2[ln-1] ^= 0x01
				extremes = append(extremes, k2)
				k3 := append([]byte{}, k...)
				k3[0] ^= 0x01
				extremes = append(extremes, k3)
			}
		}
	}
	for _, s := range []string{"index", "leader_index", "\x02index", "\x02leader_index", "\x01index", "\x01\x00\x00\x00\x02index", "\x01\x00\x00\x00\x01a", "\x01\x00\x00\x00"} {
		extremes = append(extremes, []byte(s))
	}
	for _, k := range extremes {
		if !checkKey(r, k) || !inj(k) {
			r.Finish()
		}
	}
	for i, a := range extremes {
		for _, b := range extremes[i+1:] {
			if !bytes.Equal(a, b) && !checkPair(r, a, b) {
				r.Finish()
			}
		}
		for j := 0; j < 20; j++ {
			if !checkPair(r, a, small[rng.Intn(len(small))]) {
				r.Finish()
			}
		}
	}
	// random keys, pairs and sorted triples
	randKey := func() []byte {
		var ln int
		switch rng.Intn(4) {
		case 0:
			ln = 1 + rng.Intn(8)
		case 1:
			ln = 1 + rng.Intn(64)
		case 2:
			ln = 1000 + rng.Intn(25)
		default:
			ln = 1 + rng.Intn(1024)
		}
		k := make([]byte, ln)
		switch rng.Intn(3) {
		case 0:
			rng.Read(k)
		case 1:
			for i := range k {
				k[i] = alpha[rng.Intn(len(alpha))]
			}
		default:
			c := alpha[rng.Intn(len(alpha))]
			for i := range k {
				k[i] = c
			}
			k[rng.Intn(ln)] = byte(rng.Intn(256))
		}
		return k
	}
	for i, n := 0, r.Pick(150_000, 1_500_000); i < n; i++ {
		a := randKey()
		var b []byte
		switch rng.Intn(4) {
		case 0: // proper prefix / extension
			if len(a) > 1 {
				b = append([]byte{}, a[:1+rng.Intn(len(a)-1)]...)
			} else {
				b = append(append([]byte{}, a...), alpha[rng.Intn(len(alpha))])
			}
		case 1: // differ at one position by a nasty byte
			b = append([]byte{}, a...)
			b[rng.Intn(len(b))] = alpha[rng.Intn(len(alpha))]
		default:
			b = randKey()
		}
		if !checkKey(r, a) || !inj(a) || !inj(b) {
			r.Finish()
		}
		if !bytes.Equal(a, b) && !checkPair(r, a, b) {
			r.Finish()
		}
		if i%10 == 0 {
			c := randKey()
			tr := [][]byte{a, b, c}
			sort.Slice(tr, func(i, j int) bool { return bytes.Compare(tr[i], tr[j]) < 0 })
			e0, _ := enc(tr[0])
			e1, _ := enc(tr[1])
			e2, _ := enc(tr[2])
			r.Count("triples", 1)
			if bytes.Compare(e0, e1) > 0 || bytes.Compare(e1, e2) > 0 {
				r.Violation("order-not-preserved-triple", fmt.Sprintf("sorted user keys %x <= %x <= %x do not stay sorted when encoded", tr[0], tr[1], tr[2]), witness{A: hx(tr[0]), B: hx(tr[1]), C: hx(tr[2])})
				r.Finish()
			}
		}
	}
	r.Extra("distinct_encodings_seen", len(seen))
	fsmBounds(r, rng)
	fsmAddressing(r, rng)
	r.FloorCount("fsm_addressing_cases", int64(r.Pick(150, 1500)))
	r.FloorCount("fsm_same_call_range_reads", int64(r.Pick(600, 6000)))
	r.FloorCount("fsm_multi_predicate_txns", int64(r.Pick(1000, 10000)))
	r.FloorCount("fsm_streams_drained_after_other_requests", int64(r.Pick(1000, 10000)))
	r.FloorNontrivial(int64(r.Pick(100_000, 500_000)))
	r.FloorCount("pairs", int64(r.Pick(400_000, 1_500_000)))
	r.FloorCount("fsm_bound_cases", int64(r.Pick(100, 1000)))
	r.Finish()
}

func checkKey(r *ev.Run, k []byte) bool {
	r.Count("keys", 1)
	r.Eval(1)
	e, err := enc(k)
	if err != nil {
		r.Violation("encode-error", fmt.Sprintf("key %x: %v", k, err), witness{A: hx(k)})
		return false
	}
	d, err := key.DecodeBytes(e)
	if err != nil {
		r.Violation("decode-error", fmt.Sprintf("key %x: %v", k, err), witness{A: hx(k)})
		return false
	}
	if d.KeyType != key.TypeUser || !bytes.Equal(d.Key, k) {
		r.Violation("roundtrip", fmt.Sprintf("key %x decodes to type %d key %x", k, d.KeyType, d.Key), witness{A: hx(k)})
		return false
	}
	// the streaming decoder is not used by production code; its behaviour is recorded only
	var sk key.Key
	if err := key.NewDecoder(bytes.NewReader(e)).Decode(&sk); err != nil || !bytes.Equal(sk.Key, k) {
		r.Count("streaming_decoder_disagrees(not deciding)", 1)
	}
	// wildcard bounds: every user key lies inside ["\0", wildcard upper), bookkeeping keys outside
	up := wildcardUpper()
	if bytes.Compare(e, up) >= 0 {
		r.Violation("key-outside-wildcard", fmt.Sprintf("encoded key %x… is not below the wildcard upper bound", k[:min(8, len(k))]), witness{A: hx(k)})
		return false
	}
	lo, _ := enc([]byte{0})
	if bytes.Compare(e, lo) < 0 {
		r.Violation("key-below-lowest", fmt.Sprintf("encoded key %x sorts below the encoding of \\0", k), witness{A: hx(k)})
		return false
	}
	for _, s := range sysKeys {
		if bytes.Compare(s, e) <= 0 {
			r.Violation("bookkeeping-inside-user-range", fmt.Sprintf("bookkeeping key %x sorts at or below encoded user key %x…: a range ending there would cover it", s, k[:min(8, len(k))]), witness{A: hx(k)})
			return false
		}
	}
	return true
}

var sysKeys = [][]byte{encSys([]byte("index")), encSys([]byte("leader_index"))}

func wildcardUpper() []byte {
	e, _ := enc(key.LatestMaxKey)
	up := append([]byte{}, e...)
	for i := len(up) - 1; i >= 0; i-- {
		up[i]++
		if up[i] != 0 {
			break
		}
	}
	return up
}

func checkPair(r *ev.Run, a, b []byte) bool {
	r.Count("pairs", 1)
	r.Eval(1)
	ea, _ := enc(a)
	eb, _ := enc(b)
	if bytes.Equal(ea, eb) && !bytes.Equal(a, b) {
		r.Violation("not-injective", fmt.Sprintf("keys %x and %x encode to the same stored key", a, b), witness{A: hx(a), B: hx(b)})
		return false
	}
	if sign(bytes.Compare(ea, eb)) != sign(bytes.Compare(a, b)) {
		r.Violation("order-not-preserved", fmt.Sprintf("user keys %x vs %x compare %d, encoded %d", a, b, bytes.Compare(a, b), bytes.Compare(ea, eb)), witness{A: hx(a), B: hx(b)})
		return false
	}
	n := min(len(a), len(b))
	i := 0
	for i < n && a[i] == b[i] {
		i++
	}
	if i == n || a[i] == 0 || a[i] == 0xFF || b[i] == 0 || b[i] == 0xFF {
		if len(a)+len(b) <= 64 {
			r.Nontrivial(string(a) + "|" + string(b))
		} else {
			r.Nontrivial(fmt.Sprintf("%x|%x", a, b))
		}
	}
	return true
}

// fsmBounds observes the bounds through the real state machine.
func fsmBounds(r *ev.Run, rng *rand.Rand) {
	for c, n := 0, r.Pick(150, 1500); c < n; c++ {
		t, err := fsmx.Fresh("t", fsm.RecoveryTypeSnapshot)
		if err != nil {
			r.Violation("fsm-open", err.Error(), nil)
			return
		}
		m := model.NewTable()
		var entries []sm.Entry
		keys := [][]byte{{0}, {0xFF}, bytes.Repeat([]byte{0xFF}, 1019), bytes.Repeat([]byte{0xFF}, 1020), bytes.Repeat([]byte{0xFF}, 1024), bytes.Repeat([]byte{0}, 1024),
			[]byte("index"), []byte("leader_index"), []byte("\x02index"), []byte("\x02leader_index"), {0xFF, 0xFF}, {0, 0}, {1}, {2}}
		idx := uint64(0)
		li := uint64(7 + c)
		for _, k := range keys {
			if rng.Intn(4) > 0 {
				idx++
				e := fsmx.Entry(idx, &pb.Command{Type: pb.Command_PUT, Kv: &pb.KeyValue{Key: k, Value: []byte(fmt.Sprintf("v%d", idx))}, LeaderIndex: &li})
				entries = append(entries, e)
				m.Apply(idx, fsmx.Decoded(e))
			}
		}
		if len(entries) == 0 {
			t.Close()
			continue
		}
		if _, err := t.Update(entries); err != nil {
			r.Violation("update-error", err.Error(), nil)
			t.Close()
			return
		}
		fail := func(sig, what string) {
			r.Violation(sig, what, map[string]any{"case": c, "seed": r.Seed})
			t.Close()
		}
		// wildcard read returns exactly the user keys
		d, err := t.Dump()
		if err != nil {
			fail("dump-error", err.Error())
			return
		}
		if why := fsmx.Diff(d, m); why != "" {
			fail("wildcard-read", "full wildcard read: "+why)
			return
		}
		// extreme range deletes never touch bookkeeping
		type bnd struct{ lo, hi []byte }
		bounds := []bnd{{[]byte{0}, []byte{0}}, {[]byte{0xFF}, []byte{0}}, {bytes.Repeat([]byte{0xFF}, 1024), []byte{0}}, {[]byte{0}, bytes.Repeat([]byte{0xFF}, 1024)},
			{[]byte("\x02"), []byte{0}}, {[]byte("index"), []byte("leader_index\x00")}, {[]byte("\x02index"), []byte("\x02leader_index\x00")}, {[]byte{0}, bytes.Repeat([]byte{0xFF}, 1019)}}
		b := bounds[rng.Intn(len(bounds))]
		req := &pb.RequestOp_Range{Key: b.lo, RangeEnd: b.hi}
		got, err := t.Range(req)
		if err != nil {
			fail("read-error", err.Error())
			return
		}
		exp := m.Select(b.lo, b.hi)
		if len(got.Kvs) != len(exp) {
			fail("extreme-bounds-read", fmt.Sprintf("range [%x…,%x…) returned %d pairs, expected %d", b.lo[:min(4, len(b.lo))], b.hi[:min(4, len(b.hi))], len(got.Kvs), len(exp)))
			return
		}
		for i, kv := range got.Kvs {
			if string(kv.Key) != exp[i].K {
				fail("extreme-bounds-read", fmt.Sprintf("pair %d is %x, expected %x", i, kv.Key, exp[i].K))
				return
			}
		}
		idx++
		e := fsmx.Entry(idx, &pb.Command{Type: pb.Command_DELETE, Kv: &pb.KeyValue{Key: b.lo}, RangeEnd: b.hi, Count: true})
		if _, err := t.Update([]sm.Entry{e}); err != nil {
			fail("update-error", err.Error())
			return
		}
		m.Apply(idx, fsmx.Decoded(e))
		d, err = t.Dump()
		if err != nil {
			fail("dump-error", err.Error())
			return
		}
		if d.Applied != idx || d.Leader != li {
			fail("bookkeeping-altered-by-range-delete", fmt.Sprintf("after range delete [%x…,%x…): applied index %d (want %d), leader index %d (want %d)", b.lo[:min(4, len(b.lo))], b.hi[:min(4, len(b.hi))], d.Applied, idx, d.Leader, li))
			return
		}
		if why := fsmx.DiffContent(d, m); why != "" {
			fail("extreme-bounds-delete", why)
			return
		}
		// reopen: bookkeeping must still be readable (a shadowed index key would surface here)
		if err := t.Close(); err != nil {
			r.Violation("close-error", err.Error(), nil)
			return
		}
		nt, oidx, err := t.Reopen()
		if err != nil || oidx != idx {
			r.Violation("bookkeeping-altered-by-range-delete", fmt.Sprintf("reopen after extreme range delete reports index %d (err %v), want %d", oidx, err, idx), map[string]any{"case": c})
			return
		}
		nt.Close()
		r.Count("fsm_bound_cases", 1)
		r.Eval(1)
	}
	r.Sample(map[string]any{"fsm_bounds": "puts of extreme keys (\\0, FFx1019/1020/1024, 'index', '\\x02index', …) then range read + range delete with extreme bounds, bookkeeping lookups, reopen"})
}

// fsmAddressing: every way the state machine is given a user key or a pair of range bounds names
// the same pairs as in user-key space, whatever was encoded before it in the same request or by
// other requests in between. Tables hold keys from the small alphabet, their concatenation aliases
// (the user key whose stored key is enc(a)||enc(b), when there is one) and some long keys; judged
// against the reference table: transactions with 1-4 single-key / range predicates (read-only
// path and log path), and streamed range reads that are accepted, left alone while other requests
// encode other keys and bounds, and only then drained.
func fsmAddressing(r *ev.Run, rng *rand.Rand) {
	alpha := []byte{0x00, 0x01, 0x02, 0x61, 0xFE, 0xFF}
	rk := func() []byte {
		switch rng.Intn(10) {
		case 0:
			return bytes.Repeat([]byte{alpha[rng.Intn(len(alpha))]}, 100+rng.Intn(30)) // around the 123/124 byte mark
		case 1:
			return bytes.Repeat([]byte{0xFF}, 1019+rng.Intn(6))
		}
		k := make([]byte, 1+rng.Intn(4))
		for i := range k {
			k[i] = alpha[rng.Intn(len(alpha))]
		}
		return k
	}
	for c, n := 0, r.Pick(200, 2000); c < n; c++ {
		t, err := fsmx.Fresh("t", fsm.RecoveryTypeSnapshot)
		if err != nil {
			r.Violation("fsm-open", err.Error(), nil)
			return
		}
		m := model.NewTable()
		var pool [][]byte
		for i := 0; i < 10; i++ {
			pool = append(pool, rk())
		}
		// concatenation aliases
		for i := 0; i < 6; i++ {
			a, b := pool[rng.Intn(len(pool))], pool[rng.Intn(len(pool))]
			ea, err1 := enc(a)
			eb, err2 := enc(b)
			if err1 != nil || err2 != nil {
				continue
			}
			if k, err := key.DecodeBytes(append(append([]byte{}, ea...), eb...)); err == nil && k.KeyType == key.TypeUser && len(k.Key) > 0 && len(k.Key) <= 1024 {
				pool = append(pool, append([]byte{}, k.Key...))
				r.Count("fsm_concatenation_alias_keys", 1)
			}
		}
		var entries []sm.Entry
		idx := uint64(0)
		for _, k := range pool {
			if rng.Intn(3) > 0 {
				idx++
				e := fsmx.Entry(idx, &pb.Command{Type: pb.Command_PUT, Kv: &pb.KeyValue{Key: k, Value: []byte(fmt.Sprintf("v%d", rng.Intn(3)))}})
				entries = append(entries, e)
				m.Apply(idx, fsmx.Decoded(e))
			}
		}
		if len(entries) == 0 {
			t.Close()
			continue
		}
		if _, err := t.Update(entries); err != nil {
			r.Violation("update-error", err.Error(), nil)
			t.Close()
			return
		}
		fail := func(sig, what string) {
			var ks []string
			for _, k := range pool {
				ks = append(ks, hx(k[:min(len(k), 12)]))
			}
			r.Violation(sig, what, map[string]any{"case": c, "seed": r.Seed, "key_pool_hex_prefixes": ks})
			t.Close()
		}
		bound := func() []byte {
			if rng.Intn(5) == 0 {
				return []byte{0}
			}
			return pool[rng.Intn(len(pool))]
		}
		cmpOf := func() *pb.Compare {
			cp := &pb.Compare{Key: pool[rng.Intn(len(pool))]}
			if rng.Intn(4) == 0 {
				cp.RangeEnd = bound()
			}
			if rng.Intn(2) == 0 {
				cp.Result = pb.Compare_CompareResult(rng.Intn(4))
				cp.Target = pb.Compare_VALUE
				cp.TargetUnion = &pb.Compare_Value{Value: []byte(fmt.Sprintf("v%d", rng.Intn(3)))}
			}
			return cp
		}
		rangeOp := func() *pb.RequestOp {
			rq := &pb.RequestOp_Range{Key: pool[rng.Intn(len(pool))]}
			if rng.Intn(2) == 0 {
				rq.Key, rq.RangeEnd = bound(), bound()
			}
			return &pb.RequestOp{Request: &pb.RequestOp_RequestRange{RequestRange: rq}}
		}
		sameRange := func(got *pb.ResponseOp_Range, exp []model.KV) string {
			if len(got.GetKvs()) != len(exp) {
				return fmt.Sprintf("%d pairs, expected %d", len(got.GetKvs()), len(exp))
			}
			for i, kv := range got.GetKvs() {
				if string(kv.Key) != exp[i].K || !bytes.Equal(kv.Value, exp[i].V) {
					return fmt.Sprintf("pair %d is %x=%q, expected %x=%q", i, kv.Key[:min(len(kv.Key), 12)], kv.Value, exp[i].K[:min(len(exp[i].K), 12)], exp[i].V)
				}
			}
			return ""
		}
		descCmp := func(cs []*pb.Compare) string {
			var out []string
			for _, cp := range cs {
				d := fmt.Sprintf("%x", cp.Key[:min(len(cp.Key), 12)])
				if cp.RangeEnd != nil {
					d += fmt.Sprintf("..%x", cp.RangeEnd[:min(len(cp.RangeEnd), 12)])
				}
				if cp.TargetUnion != nil {
					d += fmt.Sprintf(" %v %q", cp.Result, cp.GetValue())
				} else {
					d += " exists"
				}
				out = append(out, d)
			}
			return fmt.Sprint(out)
		}
		// (0) one apply call: writes of keys of mixed lengths, then range reads of the same call
		// (the reads see the call's own uncommitted writes through the write batch's index)
		{
			var es []sm.Entry
			for j, nj := 0, 3+rng.Intn(6); j < nj; j++ {
				idx++
				k := rk()
				if rng.Intn(2) == 0 {
					k = pool[rng.Intn(len(pool))]
				} else {
					pool = append(pool, k)
				}
				var e sm.Entry
				if rng.Intn(5) == 0 {
					e = fsmx.Entry(idx, &pb.Command{Type: pb.Command_DELETE, Kv: &pb.KeyValue{Key: k}})
				} else {
					e = fsmx.Entry(idx, &pb.Command{Type: pb.Command_PUT, Kv: &pb.KeyValue{Key: k, Value: []byte(fmt.Sprintf("w%d", rng.Intn(3)))}})
				}
				es = append(es, e)
			}
			idx++
			tx := &pb.Txn{Success: []*pb.RequestOp{rangeOp(), rangeOp(), rangeOp()}}
			for j := range tx.Success {
				if rq := tx.Success[j].GetRequestRange(); rq.RangeEnd == nil {
					rq.Key, rq.RangeEnd = bound(), bound()
				}
			}
			if rng.Intn(2) == 0 {
				tx.Compare = []*pb.Compare{{Key: bound(), RangeEnd: bound()}}
				tx.Failure = tx.Success
			}
			es = append(es, fsmx.Entry(idx, &pb.Command{Type: pb.Command_TXN, Txn: tx}))
			idx++
			lo, hi := bound(), bound()
			es = append(es, fsmx.Entry(idx, &pb.Command{Type: pb.Command_DELETE, Kv: &pb.KeyValue{Key: lo}, RangeEnd: hi, Count: true}))
			res, err := t.Update(es)
			if err != nil {
				fail("update-error", err.Error())
				return
			}
			for j, e := range es {
				exp := m.Apply(e.Index, fsmx.Decoded(e))
				got := res[j].Result
				switch {
				case exp.IsTxn:
					if (res[j].Value == 1) != exp.TxnSucceeded {
						fail("range-bounds-differ-between-spaces", fmt.Sprintf("range predicate [%x,%x) evaluated in the apply call that wrote the keys: succeeded=%v, the reference says %v", tx.Compare[0].Key[:min(len(tx.Compare[0].Key), 12)], tx.Compare[0].RangeEnd[:min(len(tx.Compare[0].RangeEnd), 12)], res[j].Value == 1, exp.TxnSucceeded))
						return
					}
					for i2, er := range exp.Responses {
						if er.Range == nil || got == nil || i2 >= len(got.Responses) {
							continue
						}
						if why := sameRange(got.Responses[i2].GetResponseRange(), er.Range.Full); why != "" {
							rq := er.Range.Req
							fail("range-bounds-differ-between-spaces", fmt.Sprintf("range [%x,%x) read in the apply call that wrote keys of mixed lengths: %s", rq.Key[:min(len(rq.Key), 12)], rq.RangeEnd[:min(len(rq.RangeEnd), 12)], why))
							return
						}
					}
				case len(exp.Responses) == 1 && exp.Responses[0].Del != nil && fsmx.Decoded(e).RangeEnd != nil:
					if got != nil && len(got.Responses) == 1 {
						if g, x := got.Responses[0].GetResponseDeleteRange().GetDeleted(), int64(len(exp.Responses[0].Del.Prev)); g != x {
							fail("range-bounds-differ-between-spaces", fmt.Sprintf("range delete [%x,%x) with count in the apply call that wrote keys of mixed lengths: deleted=%d, the reference says %d", lo[:min(len(lo), 12)], hi[:min(len(hi), 12)], g, x))
							return
						}
					}
				}
			}
			r.Count("fsm_same_call_range_reads", 4)
		}
		// (1) transactions with several predicates, read-only path and log path
		for i := 0; i < 12; i++ {
			req := &pb.TxnRequest{}
			for j, nj := 0, 1+rng.Intn(4); j < nj; j++ {
				req.Compare = append(req.Compare, cmpOf())
			}
			req.Success = []*pb.RequestOp{rangeOp()}
			req.Failure = []*pb.RequestOp{rangeOp()}
			expOK, expResp := m.Txn(req.Compare, req.Success, req.Failure)
			got, err := t.Txn(req)
			if err != nil {
				fail("read-error", "read-only transaction: "+err.Error())
				return
			}
			if got.Succeeded != expOK {
				fail("predicate-addresses-other-key", fmt.Sprintf("read-only transaction with predicates %s: succeeded=%v, the reference says %v", descCmp(req.Compare), got.Succeeded, expOK))
				return
			}
			if why := sameRange(got.Responses[0].GetResponseRange(), expResp[0].Range.Full); why != "" {
				fail("range-bounds-differ-between-spaces", fmt.Sprintf("range in a read-only transaction: %s", why))
				return
			}
			// the same predicates through the log (the branch writes a marker the reference also writes)
			idx++
			mark := []byte(fmt.Sprintf("m%d", idx))
			tx := &pb.Txn{Compare: req.Compare,
				Success: []*pb.RequestOp{{Request: &pb.RequestOp_RequestPut{RequestPut: &pb.RequestOp_Put{Key: []byte("a-marker"), Value: append([]byte("s"), mark...)}}}},
				Failure: []*pb.RequestOp{{Request: &pb.RequestOp_RequestPut{RequestPut: &pb.RequestOp_Put{Key: []byte("a-marker"), Value: append([]byte("f"), mark...)}}}}}
			e := fsmx.Entry(idx, &pb.Command{Type: pb.Command_TXN, Txn: tx})
			res, err := t.Update([]sm.Entry{e})
			if err != nil {
				fail("update-error", err.Error())
				return
			}
			exp := m.Apply(idx, fsmx.Decoded(e))
			if gotOK := res[0].Value == 1; gotOK != exp.TxnSucceeded {
				fail("predicate-addresses-other-key", fmt.Sprintf("transaction in the log with predicates %s: succeeded=%v, the reference says %v", descCmp(req.Compare), gotOK, exp.TxnSucceeded))
				return
			}
			r.Count("fsm_multi_predicate_txns", 2)
		}
		// (2) streamed ranges accepted, then other requests, then drained
		for i := 0; i < 12; i++ {
			rq := rangeOp().GetRequestRange()
			if rq.RangeEnd == nil {
				rq.RangeEnd = bound()
			}
			var betweenErr string
			chunks, err := t.StreamDeferred(rq, func() {
				for j, nj := 0, 1+rng.Intn(4); j < nj; j++ {
					o := rangeOp().GetRequestRange()
					g, err := t.Range(o)
					if err != nil {
						betweenErr = err.Error()
						return
					}
					if why := sameRange(g, m.Select(o.Key, o.RangeEnd)); why != "" && betweenErr == "" {
						betweenErr = "unary range between: " + why
					}
				}
			})
			if err != nil {
				fail("read-error", "streamed range: "+err.Error())
				return
			}
			if betweenErr != "" {
				fail("range-bounds-differ-between-spaces", betweenErr)
				return
			}
			all := &pb.ResponseOp_Range{}
			for _, ch := range chunks {
				all.Kvs = append(all.Kvs, ch.Kvs...)
			}
			if why := sameRange(all, m.Select(rq.Key, rq.RangeEnd)); why != "" {
				fail("range-bounds-differ-between-spaces", fmt.Sprintf("streamed range [%x,%x) drained after other requests had been served: %s", rq.Key[:min(len(rq.Key), 12)], rq.RangeEnd[:min(len(rq.RangeEnd), 12)], why))
				return
			}
			r.Count("fsm_streams_drained_after_other_requests", 1)
		}
		d, err := t.Dump()
		if err != nil {
			fail("dump-error", err.Error())
			return
		}
		if why := fsmx.DiffContent(d, m); why != "" {
			fail("wildcard-read", "final content: "+why)
			return
		}
		t.Close()
		r.Count("fsm_addressing_cases", 1)
		r.Eval(1)
	}
	r.Sample(map[string]any{"fsm_addressing": "tables of small-alphabet keys, concatenation aliases and long keys; multi-predicate transactions on both paths; streamed ranges drained after other requests"})
}
