// C08 — in-cluster snapshots are faithful, point-in-time and installed atomically.
//
// (a) faithful + point-in-time: the saver keeps applying entries between PrepareSnapshot and
//     SaveSnapshot; the receiver (other format, dirty) must equal the saver at prepare time;
// (b) complete replacement: nothing of the receiver's previous content survives;
// (c) interruption: stop signal before / after n bytes of save and recover (n swept over the
//     stream): the call reports ErrSnapshotStopped and the receiver still shows its old state, and a
//     later complete recovery succeeds (a crash during recover is C04's crash enumeration);
// (e) install interrupted at every file-system operation by a process kill and by a power loss:
//     after the restart the replica opens and shows its complete old or the complete new state;
// (d) reads overlapping an install (single reads, read-only transactions, lazily consumed and
//     in-flight streamed reads, via callback and via util/iter.Pull as the gRPC server does):
//     old state, new state or an error — never a panic, fatal error, hang or a state that never
//     existed. Part (d) runs in child processes, because process death is one of the outcomes.
package main

import (
	"bytes"
	"errors"
	"flag"
	"fmt"
	"io"
	"os"
	"runtime/debug"
	"os/exec"
	"path/filepath"
	"strings"
	"sync"
	"sync/atomic"
	"time"

	pb "github.com/jamf/regatta/regattapb"
	"github.com/jamf/regatta/storage/table/fsm"
	"github.com/jamf/regatta/util/iter"
	sm "github.com/lni/dragonboat/v4/statemachine"

	"verifharness/internal/crashfs"
	"verifharness/internal/ev"
	"verifharness/internal/fsmx"
	"verifharness/internal/gen"
	"verifharness/internal/model"
	"verifharness/internal/racelog"
)

var (
	childMode = flag.String("child", "", "internal: run overlap schedules as a child process")
	childFrom = flag.Int("from", 0, "internal: first schedule number")
	childTo   = flag.Int("to", 0, "internal: last schedule number (exclusive)")
)

type caseID struct {
	Kind string `json:"kind"` // transfer | interrupt | overlap
	Seed int64  `json:"case_seed"`
	N    int    `json:"n,omitempty"`
}

type witness struct {
	Case   caseID   `json:"case"`
	Detail []string `json:"detail,omitempty"`
	Stderr string   `json:"stderr_tail,omitempty"`
}

func main() {
	r := ev.Start("C08", "exploration")
	if *childMode != "" {
		runChild(r.Seed, *childFrom, *childTo)
		return
	}
	r.Rule("transfer cases: seeded logs, PrepareSnapshot on the saver, 0-6 further entries applied before SaveSnapshot, recovery into a fresh / lagging / foreign-content receiver, all 4 format pairs; " +
		"interruption: stop signal before the call and after n bytes for n swept over the stream, on save and recover; overlap schedules (child processes): read kind x consumption style x moment of the install. " +
		"Non-trivial: transfer with writes between prepare and save and a dirty receiver; interruption that really cut the stream; overlap schedule whose read straddled the install; distinct by case id")
	r.Assume("a crash (as opposed to a stop signal) during save/recover is covered by C04's crash-point enumeration with the same old-or-new oracle",
		"dragonboat may call Lookup concurrently with RecoverFromSnapshot on an on-disk state machine, and consumes lazily returned iterators after Lookup returned")
	if r.Replay != "" {
		var w witness
		if _, err := r.ReadReplay(&w); err != nil {
			fmt.Fprintln(os.Stderr, "replay:", err)
			os.Exit(2)
		}
		switch w.Case.Kind {
		case "transfer":
			runTransfer(r, w.Case)
		case "interrupt":
			runInterrupt(r, w.Case)
		case "overlap":
			runOverlapRange(r, w.Case.N, w.Case.N+1)
		case "install-fault":
			runInstallFaults(r, w.Case)
		}
		r.Finish()
	}
	for i, n := 0, r.Pick(150, 4000); i < n; i++ {
		runTransfer(r, caseID{Kind: "transfer", Seed: r.Seed*1_000_003 + int64(i)})
	}
	for i, n := 0, r.Pick(24, 400); i < n; i++ {
		runInterrupt(r, caseID{Kind: "interrupt", Seed: r.Seed*2_000_003 + int64(i)})
	}
	ev.Parallel(r.Pick(8, 80), 8, func(i int) {
		runInstallFaults(r, caseID{Kind: "install-fault", Seed: r.Seed*4_000_003 + int64(i)})
	})
	runOverlapRange(r, 0, r.Pick(120, 2400))
	if rep := racelog.Scan(); rep != nil {
		// reads overlapping an install are exactly what this property is about: a race report with
		// regatta frames is deciding here
		for sig, n := range rep.Regatta {
			rest := strings.ReplaceAll(strings.TrimPrefix(sig, "race:"), "|", " ")
			onlyPull := true
			for _, fn := range strings.Fields(rest) {
				if !strings.HasPrefix(fn, "util/iter.Pull") {
					onlyPull = false
				}
			}
			switch {
			case onlyPull:
				// both sides are the two halves of regatta's hand-rolled coroutine (util/iter.Pull): they
				// hand control to each other through runtime.coroswitch, which the race detector does
				// not know as synchronisation; they never run concurrently. Counted, not judged.
				r.Count("race_reports_inside_iter.Pull_coroutine_handoff(not judged)", int64(n))
			case strings.Contains(sig, "RecoverFromSnapshot"):
				// the install closing / removing the previous DB under a reader that still uses it:
				// the same root cause as the read-on-closed-db findings, seen by the race detector
				r.Violation("race:install-closes-previous-db-under-reader@read-overlapping-install", fmt.Sprintf("data race report (x%d) between RecoverFromSnapshot and a reader of the previous DB [%s]: %s", n, sig, rep.Samples[sig]), nil)
			default:
				r.Violation(sig+"@read-overlapping-install", fmt.Sprintf("data race report with regatta frames (x%d) in the overlap children: %s", n, rep.Samples[sig]), nil)
			}
		}
		r.Extra("race_reports_third_party_only", rep.ThirdParty)
	}
	r.FloorNontrivial(int64(r.Pick(150, 3000)))
	r.FloorCount("transfers", int64(r.Pick(150, 4000)))
	r.FloorDistinct("transfer_format_pairs", 4)
	r.FloorCount("interruptions_that_cut_the_stream", int64(r.Pick(100, 1500)))
	r.FloorCount("overlap_schedules", int64(r.Pick(100, 2000)))
	r.FloorCount("install_faults_kill", int64(r.Pick(200, 2000)))
	r.FloorCount("install_faults_io-error", int64(r.Pick(150, 1500)))
	r.FloorCount("install_faults_power-loss", int64(r.Pick(200, 2000)))
	r.Finish()
}

func genEntries(g *gen.G, n int, start uint64) []sm.Entry {
	var out []sm.Entry
	idx := start
	var li uint64 = start * 3
	for i := 0; i < n; i++ {
		idx++
		c := g.Command(1)
		if g.R.Intn(3) == 0 {
			li += 1 + uint64(g.R.Intn(4))
			v := li
			c.LeaderIndex = &v
		}
		out = append(out, fsmx.Entry(idx, c))
	}
	return out
}

func applyModel(m *model.Table, es []sm.Entry) {
	for _, e := range es {
		m.Apply(e.Index, fsmx.Decoded(e))
	}
}

func junk(t *fsmx.T, seed int64) error {
	var es []sm.Entry
	for j := 1; j <= 5; j++ {
		es = append(es, fsmx.Entry(uint64(j), &pb.Command{Table: []byte("t"), Type: pb.Command_PUT, Kv: &pb.KeyValue{Key: []byte(fmt.Sprintf("old-receiver-key-%d-%d", seed, j)), Value: []byte("old")}}))
	}
	_, err := t.Update(es)
	return err
}

func runTransfer(r *ev.Run, id caseID) {
	g := gen.New(id.Seed)
	g.NewPool(5 + g.R.Intn(6))
	fa, fb := fsm.SnapshotRecoveryType(g.R.Intn(2)), fsm.SnapshotRecoveryType(g.R.Intn(2))
	w := witness{Case: id}
	fail := func(sig, what string) {
		r.Violation(sig, fmt.Sprintf("%s [formats %d->%d]", what, fa, fb), w)
	}
	a, err := fsmx.Fresh("t", fa)
	if err != nil {
		fail("fsm-open", err.Error())
		return
	}
	defer a.Close()
	pre := genEntries(g, 1+g.R.Intn(30), 0)
	if _, err := a.Update(pre); err != nil {
		fail("update-error", err.Error())
		return
	}
	m := model.NewTable()
	applyModel(m, pre)
	ctx, err := a.SM.PrepareSnapshot()
	if err != nil {
		fail("prepare-error", err.Error())
		return
	}
	between := genEntries(g, g.R.Intn(7), pre[len(pre)-1].Index)
	if len(between) > 0 {
		// writes applied while the snapshot is "being saved"; include a wide range delete sometimes
		if g.R.Intn(3) == 0 {
			between = append(between, fsmx.Entry(between[len(between)-1].Index+1, &pb.Command{Table: []byte("t"), Type: pb.Command_DELETE, Kv: &pb.KeyValue{Key: []byte{0}}, RangeEnd: []byte{0}}))
		}
		if _, err := a.Update(between); err != nil {
			fail("update-error", err.Error())
			return
		}
		if g.R.Intn(2) == 0 {
			_ = a.SM.Sync()
		}
	}
	var buf bytes.Buffer
	if err := a.SM.SaveSnapshot(ctx, &buf, nil); err != nil {
		fail("save-error", err.Error())
		return
	}
	b, err := fsmx.Fresh("t", fb)
	if err != nil {
		fail("fsm-open", err.Error())
		return
	}
	defer func() { b.Close() }()
	recv := g.R.Intn(3)
	switch recv {
	case 1:
		p := g.R.Intn(len(pre) + 1)
		if p > 0 {
			if _, err := b.Update(pre[:p]); err != nil {
				fail("update-error", err.Error())
				return
			}
		}
	case 2:
		if err := junk(b, id.Seed); err != nil {
			fail("update-error", err.Error())
			return
		}
	}
	if err := b.SM.RecoverFromSnapshot(bytes.NewReader(buf.Bytes()), nil); err != nil {
		fail("recover-error", err.Error())
		return
	}
	d, err := b.Dump()
	if err != nil {
		fail("dump-error", err.Error())
		return
	}
	if why := fsmx.Diff(d, m); why != "" {
		sig := "receiver-differs-from-saver-at-prepare"
		if len(between) > 0 {
			// is it the saver's state at SAVE time instead?
			ms := m.Clone()
			applyModel(ms, between)
			if fsmx.Diff(d, ms) == "" {
				sig = "snapshot-not-point-in-time"
			}
		}
		for k := range d.M {
			if strings.HasPrefix(k, "old-receiver-key-") {
				sig = "receiver-old-content-survives-install"
			}
		}
		fail(sig, why)
		return
	}
	// the receiver keeps working: apply the 'between' entries and compare with the saver
	if len(between) > 0 {
		if _, err := b.Update(between); err != nil {
			fail("update-after-recover-error", err.Error())
			return
		}
		applyModel(m, between)
		d, err := b.Dump()
		if err != nil || fsmx.Diff(d, m) != "" {
			fail("receiver-diverges-after-install", fmt.Sprintf("%v %s", err, fsmx.Diff(d, m)))
			return
		}
	}
	// the install survives a clean restart of the receiver (the directory switch-over was completed)
	if g.R.Intn(2) == 0 {
		if err := b.Close(); err != nil {
			fail("close-error", err.Error())
			return
		}
		nb, idx, err := b.Reopen()
		if err != nil {
			fail("reopen-after-install-fails", err.Error())
			return
		}
		b = nb
		d, err := b.Dump()
		if err != nil || idx != m.Applied || fsmx.Diff(d, m) != "" {
			fail("install-lost-by-restart", fmt.Sprintf("after install + clean restart: index %d (want %d) %v %s", idx, m.Applied, err, fsmx.Diff(d, m)))
			return
		}
		r.Count("transfers_followed_by_restart", 1)
	}
	r.Count("transfers", 1)
	r.Eval(1)
	r.Distinct("transfer_format_pairs", fmt.Sprintf("%d->%d", fa, fb))
	if len(between) > 0 && recv != 0 {
		r.Nontrivial(fmt.Sprint("transfer", id.Seed))
	}
	r.Sample(map[string]any{"kind": "transfer", "formats": fmt.Sprintf("%d->%d", fa, fb), "entries_before_prepare": len(pre), "entries_between_prepare_and_save": len(between), "receiver": []string{"fresh", "lagging", "foreign"}[recv], "stream_bytes": buf.Len()})
}

type stopAfter struct {
	r    io.Reader
	n    int
	stop chan struct{}
	once sync.Once
}

func (s *stopAfter) Read(p []byte) (int, error) {
	if s.n <= 0 {
		s.once.Do(func() { close(s.stop) })
	}
	if len(p) > 4096 {
		p = p[:4096]
	}
	n, err := s.r.Read(p)
	s.n -= n
	return n, err
}

type stopWriter struct {
	buf  bytes.Buffer
	n    int
	stop chan struct{}
	once sync.Once
}

func (s *stopWriter) Write(p []byte) (int, error) {
	s.n -= len(p)
	if s.n <= 0 {
		s.once.Do(func() { close(s.stop) })
	}
	return s.buf.Write(p)
}

func runInterrupt(r *ev.Run, id caseID) {
	g := gen.New(id.Seed)
	g.NewPool(8)
	g.Big = true
	g.BigP = 15
	fa, fb := fsm.SnapshotRecoveryType(g.R.Intn(2)), fsm.SnapshotRecoveryType(g.R.Intn(2))
	w := witness{Case: id}
	fail := func(sig, what string) {
		r.Violation(sig, fmt.Sprintf("%s [formats %d->%d]", what, fa, fb), w)
	}
	a, err := fsmx.Fresh("t", fa)
	if err != nil {
		fail("fsm-open", err.Error())
		return
	}
	defer a.Close()
	pre := genEntries(g, 3+g.R.Intn(20), 0)
	if _, err := a.Update(pre); err != nil {
		fail("update-error", err.Error())
		return
	}
	m := model.NewTable()
	applyModel(m, pre)
	full, err := a.Snapshot()
	if err != nil {
		fail("save-error", err.Error())
		return
	}
	// --- interrupted save: stop before the call / after n bytes written
	for _, frac := range []int{-1, 0, 1, 5, 9} {
		ctx, err := a.SM.PrepareSnapshot()
		if err != nil {
			fail("prepare-error", err.Error())
			return
		}
		stop := make(chan struct{})
		sw := &stopWriter{stop: stop, n: len(full) * frac / 10}
		if frac < 0 {
			close(stop)
			sw.once.Do(func() {})
		}
		err = a.SM.SaveSnapshot(ctx, sw, stop)
		r.Count("interrupted_saves", 1)
		switch {
		case errors.Is(err, sm.ErrSnapshotStopped):
			r.Count("interruptions_that_cut_the_stream", 1)
		case err == nil:
			// the stop came too late to matter: the stream must then be complete and correct
			c, err := fsmx.Fresh("t", fb)
			if err != nil {
				fail("fsm-open", err.Error())
				return
			}
			if err := c.Recover(sw.buf.Bytes()); err != nil {
				c.Close()
				fail("save-ignored-stop-and-produced-unusable-stream", err.Error())
				return
			}
			d, _ := c.Dump()
			c.Close()
			if d == nil || fsmx.Diff(d, m) != "" {
				fail("save-ignored-stop-and-produced-wrong-stream", "stream written despite stop signal does not restore the saver's state")
				return
			}
		default:
			fail("interrupted-save-error", fmt.Sprintf("SaveSnapshot with stop signal returned %v, want ErrSnapshotStopped", err))
			return
		}
	}
	// --- interrupted recover: sweep the stop position over the stream
	steps := 12
	for s := -1; s <= steps; s++ {
		b, err := fsmx.Fresh("t", fb)
		if err != nil {
			fail("fsm-open", err.Error())
			return
		}
		if err := junk(b, id.Seed); err != nil {
			b.Close()
			fail("update-error", err.Error())
			return
		}
		old, _ := b.Dump()
		stop := make(chan struct{})
		sr := &stopAfter{r: bytes.NewReader(full), stop: stop, n: len(full) * s / steps}
		if s < 0 {
			close(stop)
			sr.once.Do(func() {})
		}
		err = b.SM.RecoverFromSnapshot(sr, stop)
		r.Count("interrupted_recovers", 1)
		w.Detail = []string{fmt.Sprintf("stop after %d of %d stream bytes", len(full)*s/steps, len(full))}
		d, derr := b.Dump()
		switch {
		case errors.Is(err, sm.ErrSnapshotStopped):
			r.Count("interruptions_that_cut_the_stream", 1)
			r.Nontrivial(fmt.Sprint("interrupt", id.Seed, s))
			if derr != nil {
				b.Close()
				fail("receiver-unreadable-after-stopped-install", derr.Error())
				return
			}
			if why := fsmx.Diff(d, old); why != "" {
				b.Close()
				fail("stopped-install-changed-receiver", "after ErrSnapshotStopped the receiver no longer shows its old state: "+why)
				return
			}
			// a later complete recovery succeeds
			if err := b.Recover(full); err != nil {
				b.Close()
				fail("recovery-after-stopped-install-fails", err.Error())
				return
			}
			d, derr = b.Dump()
			if derr != nil || fsmx.Diff(d, m) != "" {
				b.Close()
				fail("recovery-after-stopped-install-wrong", fmt.Sprintf("%v %s", derr, fsmx.Diff(d, m)))
				return
			}
		case err == nil:
			if derr != nil || fsmx.Diff(d, m) != "" {
				b.Close()
				fail("install-completed-but-wrong", fmt.Sprintf("%v %s", derr, fsmx.Diff(d, m)))
				return
			}
		default:
			b.Close()
			fail("interrupted-recover-error", fmt.Sprintf("RecoverFromSnapshot with stop signal returned %v, want ErrSnapshotStopped or success", err))
			return
		}
		b.Close()
	}
	r.Eval(1)
	r.Sample(map[string]any{"kind": "interrupt", "formats": fmt.Sprintf("%d->%d", fa, fb), "stream_bytes": len(full)})
}

// ---------------------------------------------------------------- overlap (child processes)

var (
	readKinds = []string{"range", "single", "txn", "stream-callback", "stream-pull"}
	moments   = []string{"before-read-starts", "lookup-returned-not-consumed", "mid-consumption", "concurrent", "after-read-ends"}
)

type schedule struct {
	N      int
	Read   string
	Moment string
	Fmt    fsm.SnapshotRecoveryType
	Big    bool
}

func scheduleOf(seed int64, n int) schedule {
	s := schedule{N: n}
	s.Read = readKinds[n%len(readKinds)]
	s.Moment = moments[(n/len(readKinds))%len(moments)]
	s.Fmt = fsm.SnapshotRecoveryType((n / (len(readKinds) * len(moments))) % 2)
	s.Big = strings.HasPrefix(s.Read, "stream") // streams need several messages
	return s
}

func (s schedule) String() string {
	return fmt.Sprintf("%s/%s/fmt%d", s.Read, s.Moment, s.Fmt)
}

func (s schedule) straddles() bool {
	return s.Moment == "lookup-returned-not-consumed" || s.Moment == "mid-consumption" || s.Moment == "concurrent"
}

// runOverlapRange runs schedules [from,to) in child processes and classifies the outcomes.
func runOverlapRange(r *ev.Run, from, to int) {
	self := os.Getenv("VERIF_SELF")
	if self == "" {
		self, _ = os.Executable()
	}
	// the overlap schedules only put values (no range tombstones), so they can run under the race
	// detector without tripping pebble's own invariant checks, which -race builds switch on
	if rs := os.Getenv("VERIF_SELF_RACE"); rs != "" {
		self = rs
		r.Extra("overlap_children_built_with_race_detector", true)
	}
	scratch := os.Getenv("SCRATCH")
	if scratch == "" {
		scratch, _ = os.MkdirTemp("/var/tmp", "verif.c08.")
		defer os.RemoveAll(scratch)
	}
	type span struct{ from, to int }
	jobs := make(chan span, 1024)
	var wg sync.WaitGroup
	for wk := 0; wk < 8; wk++ {
		wg.Add(1)
		go func(wk int) {
			defer wg.Done()
			for sp := range jobs {
				next := sp.from
				for next < sp.to {
					next = runChildSpan(r, self, scratch, wk, next, sp.to)
				}
			}
		}(wk)
	}
	for f := from; f < to; f += 10 {
		t := f + 10
		if t > to {
			t = to
		}
		jobs <- span{f, t}
	}
	close(jobs)
	wg.Wait()
}

// runChildSpan runs [from,to) in one child; returns the number of the next schedule to run
// (the child may die at some schedule; the rest is continued in a fresh child).
func runChildSpan(r *ev.Run, self, scratch string, wk, from, to int) int {
	out := filepath.Join(scratch, fmt.Sprintf("c08-child-%d-%d.out", wk, from))
	errf := filepath.Join(scratch, fmt.Sprintf("c08-child-%d-%d.err", wk, from))
	fo, _ := os.Create(out)
	fe, _ := os.Create(errf)
	cmd := exec.Command("timeout", "-s", "QUIT", "60", self, "--child", "overlap", "--from", fmt.Sprint(from), "--to", fmt.Sprint(to), "--seed", fmt.Sprint(r.Seed), "--tier", r.Tier)
	cmd.Stdout, cmd.Stderr = fo, fe
	// race-built children write their reports to $SCRATCH/race.* and do not turn them into exit code 66
	cmd.Env = append(os.Environ(), "GOTRACEBACK=all", "GORACE=halt_on_error=0 exitcode=0 log_path="+filepath.Join(scratch, "race"))
	err := cmd.Run()
	fo.Close()
	fe.Close()
	ob, _ := os.ReadFile(out)
	eb, _ := os.ReadFile(errf)
	defer os.Remove(out)
	defer os.Remove(errf)
	// parse protocol lines
	last := -1
	done := map[int]bool{}
	for _, ln := range strings.Split(string(ob), "\n") {
		var n int
		var rest string
		if _, e := fmt.Sscanf(ln, "CASE %d", &n); e == nil {
			last = n
			continue
		}
		if strings.HasPrefix(ln, "OK ") {
			fmt.Sscanf(ln, "OK %d", &n)
			done[n] = true
			s := scheduleOf(r.Seed, n)
			r.Count("overlap_schedules", 1)
			r.Eval(1)
			r.Count("overlap_outcome_"+strings.TrimSpace(ln[strings.LastIndex(ln, " ")+1:]), 1)
			if s.straddles() {
				r.Nontrivial(fmt.Sprint("overlap", n))
			}
			continue
		}
		if strings.HasPrefix(ln, "BAD ") {
			fmt.Sscanf(ln, "BAD %d", &n)
			if i := strings.Index(ln, "|"); i >= 0 {
				rest = ln[i+1:]
			}
			done[n] = true
			s := scheduleOf(r.Seed, n)
			r.Count("overlap_schedules", 1)
			r.Eval(1)
			parts := strings.SplitN(rest, "|", 2)
			sig, what := parts[0], ""
			if len(parts) > 1 {
				what = parts[1]
			}
			r.Violation(sig+"@"+s.Read+"/"+s.Moment, fmt.Sprintf("schedule %s: %s", s, what), witness{Case: caseID{Kind: "overlap", Seed: r.Seed, N: n}})
		}
	}
	if err == nil {
		return to
	}
	// the child died or hung at schedule `last`
	if last < 0 || done[last] {
		r.Inconclusive(fmt.Sprintf("overlap child for [%d,%d) failed outside a schedule: %v", from, to, err))
		return to
	}
	s := scheduleOf(r.Seed, last)
	es := string(eb)
	class := "process-died"
	exitCode := -1
	if ee, ok := err.(*exec.ExitError); ok {
		exitCode = ee.ExitCode()
	}
	switch {
	case strings.Contains(es, "coroswitch on exited coro"):
		class = "fatal:coroswitch-on-exited-coro"
	case strings.Contains(es, "iter.Pull: next called again before yield"):
		class = "panic:iter.Pull-next-called-again"
	case strings.Contains(es, "pebble: closed"), strings.Contains(es, "panic: pebble: "),
		// use-after-free of pebble's manually managed memtable arena / block cache after Close
		(strings.Contains(es, "fatal error: fault") || strings.Contains(es, "unexpected fault address")) && strings.Contains(headOf(es, 6000), "cockroachdb/pebble"),
		strings.Contains(es, "nil pointer dereference") && strings.Contains(es, "cockroachdb/pebble") && strings.Contains(es, "jamf/regatta/storage/table/fsm"),
		// the previous DB's table files were removed under the reader: pebble's table cache ends the
		// process through Logger.Fatalf ("<n>.sst: orig err: open …: file does not exist")
		strings.Contains(es, ".sst:") && strings.Contains(es, "orig err: open") && strings.Contains(es, "file does not exist"):
		// the read went on using the previous DB after the install had closed it
		class = "panic:read-on-closed-db"
	case strings.Contains(es, "WARNING: DATA RACE") && strings.Contains(es, "github.com/jamf/regatta/"):
		class = "data-race"
	case exitCode == 124 || strings.Contains(es, "SIGQUIT"):
		class = "hang"
		if !strings.Contains(es, "github.com/jamf/regatta/") {
			class = "hang-outside-regatta"
		}
	case (strings.Contains(es, "panic:") || strings.Contains(es, "fatal error:") || strings.Contains(es, "\tFATAL\t")) && strings.Contains(headOf(es, 8000), "cockroachdb/pebble"):
		// any other way pebble ends the process while the read still uses the DB the install closed
		// (and whose files it removed): one root cause, many symptoms depending on where the reader is
		class = "panic:read-on-closed-db"
	case strings.Contains(es, "panic:"):
		class = "panic:other"
	case strings.Contains(es, "fatal error:"):
		class = "fatal:other"
	}
	r.Count("overlap_schedules", 1)
	r.Eval(1)
	r.Nontrivial(fmt.Sprint("overlap", last))
	r.Count("overlap_outcome_process_death", 1)
	tail := es
	if len(tail) > 1500 {
		tail = tail[:1500]
	}
	if class == "hang-outside-regatta" {
		r.Inconclusive(fmt.Sprintf("schedule %s: child hung without a regatta frame in the dump", s))
	} else {
		family := "eager-read-racing-install"
		if strings.HasPrefix(s.Read, "stream") {
			family = "streamed-read-overlapping-install"
		}
		r.Distinct("process_deaths_by_schedule", class+"@"+s.String())
		r.Violation(class+"@"+family, fmt.Sprintf("schedule %s brought the process down (%s, exit %d)", s, class, exitCode), witness{Case: caseID{Kind: "overlap", Seed: r.Seed, N: last}, Detail: []string{s.String()}, Stderr: tail})
	}
	return last + 1
}

// ---- child side

func mapOf(t *model.Table) map[string]string {
	m := make(map[string]string, len(t.M))
	for k, v := range t.M {
		m[k] = string(v[:min(len(v), 24)])
	}
	return m
}

func same(a, b map[string]string) bool {
	if len(a) != len(b) {
		return false
	}
	for k, v := range a {
		if b[k] != v {
			return false
		}
	}
	return true
}

func runChild(seed int64, from, to int) {
	for n := from; n < to; n++ {
		s := scheduleOf(seed, n)
		fmt.Printf("CASE %d %s\n", n, s)
		os.Stdout.Sync()
		sig, what, outcome := runSchedule(seed, s)
		if sig != "" {
			fmt.Printf("BAD %d |%s|%s\n", n, sig, strings.ReplaceAll(what, "\n", " "))
		} else {
			fmt.Printf("OK %d %s\n", n, outcome)
		}
		os.Stdout.Sync()
	}
}

// runSchedule executes one overlap schedule; returns a violation (sig, what) or the outcome class.
func runSchedule(seed int64, s schedule) (string, string, string) {
	g := gen.New(seed*31 + int64(s.N))
	// receiver with OLD content, saver with NEW content; disjoint tags so that a mix is visible
	mk := func(tag string, n int, big bool) (*fsmx.T, *model.Table, error) {
		t, err := fsmx.Fresh("t", s.Fmt)
		if err != nil {
			return nil, nil, err
		}
		m := model.NewTable()
		var es []sm.Entry
		for i := 0; i < n; i++ {
			sz := 10
			if big {
				sz = 900*1024 + g.R.Intn(200*1024)
			}
			v := make([]byte, sz)
			copy(v, fmt.Sprintf("%s-%04d", tag, i))
			es = append(es, fsmx.Entry(uint64(i+1), &pb.Command{Table: []byte("t"), Type: pb.Command_PUT, Kv: &pb.KeyValue{Key: []byte(fmt.Sprintf("k%04d", i)), Value: v}}))
		}
		if _, err := t.Update(es); err != nil {
			return nil, nil, err
		}
		applyModel(m, es)
		return t, m, nil
	}
	nOld, nNew := 12, 9
	if s.Big {
		nOld, nNew = 11, 7 // ~10 MiB: 3 messages
	}
	recv, oldM, err := mk("old", nOld, s.Big)
	if err != nil {
		return "setup", err.Error(), ""
	}
	saver, newM, err := mk("new", nNew, s.Big)
	if err != nil {
		return "setup", err.Error(), ""
	}
	snap, err := saver.Snapshot()
	saver.Close()
	if err != nil {
		return "setup", err.Error(), ""
	}
	oldS, newS := mapOf(oldM), mapOf(newM)
	install := func() error { return recv.SM.RecoverFromSnapshot(bytes.NewReader(snap), nil) }

	got := map[string]string{}
	var prevKey string
	dupOrder := ""
	take := func(kvs []*pb.KeyValue) {
		for _, kv := range kvs {
			if prevKey != "" && string(kv.Key) <= prevKey {
				dupOrder = fmt.Sprintf("key %q delivered after %q (repeated / out of order)", kv.Key, prevKey)
			}
			prevKey = string(kv.Key)
			got[string(kv.Key)] = string(kv.Value[:min(len(kv.Value), 24)])
		}
	}
	var readErr error
	var (
		once       sync.Once
		installErr error
	)
	var installDone atomic.Bool
	doInstall := func() {
		once.Do(func() {
			if err := install(); err != nil {
				installErr = fmt.Errorf("install failed: %w", err)
			}
			installDone.Store(true)
		})
	}
	if s.Moment == "before-read-starts" {
		doInstall()
	}
	var wg sync.WaitGroup
	delay := time.Duration(g.R.Intn(300)) * time.Microsecond
	if s.Moment == "concurrent" {
		wg.Add(1)
		go func() {
			defer wg.Done()
			time.Sleep(delay)
			doInstall()
		}()
	}
	switch s.Read {
	case "range", "single", "txn":
		reps := 1
		if s.Moment == "concurrent" {
			reps = 50000 // keep reading until the concurrent install has finished
		}
		for i := 0; i < reps && readErr == nil && (i < 3 || !installDone.Load()); i++ {
			got, prevKey = map[string]string{}, ""
			switch s.Read {
			case "range":
				resp, err := recv.Range(fsmx.All())
				if err != nil {
					readErr = err
					break
				}
				take(resp.Kvs)
			case "single":
				resp, err := recv.Range(&pb.RequestOp_Range{Key: []byte("k0003")})
				if err != nil {
					readErr = err
					break
				}
				take(resp.Kvs)
				if len(resp.Kvs) == 1 {
					v := got["k0003"]
					if v != oldS["k0003"] && v != newS["k0003"] {
						return "read-shows-state-that-never-existed", fmt.Sprintf("single read returned %q", v), ""
					}
				}
				continue
			case "txn":
				resp, err := recv.Txn(&pb.TxnRequest{Success: []*pb.RequestOp{
					{Request: &pb.RequestOp_RequestRange{RequestRange: &pb.RequestOp_Range{Key: []byte{0}, RangeEnd: []byte("k0004")}}},
					{Request: &pb.RequestOp_RequestRange{RequestRange: &pb.RequestOp_Range{Key: []byte("k0004"), RangeEnd: []byte{0}}}},
				}})
				if err != nil {
					readErr = err
					break
				}
				for _, ro := range resp.Responses {
					take(ro.GetResponseRange().GetKvs())
				}
			}
			if readErr == nil && !same(got, oldS) && !same(got, newS) {
				return "read-shows-state-that-never-existed", fmt.Sprintf("%s read during install returned %d pairs that are neither the old (%d) nor the new (%d) content", s.Read, len(got), len(oldS), len(newS)), ""
			}
		}
		if s.Moment == "lookup-returned-not-consumed" || s.Moment == "mid-consumption" {
			doInstall() // not meaningful for eager reads: install afterwards, then read again
			got, prevKey = map[string]string{}, ""
			resp, err := recv.Range(fsmx.All())
			if err != nil {
				readErr = err
			} else {
				take(resp.Kvs)
				if !same(got, newS) {
					return "read-after-install-not-new-state", "read after a completed install does not show the installed content", ""
				}
			}
		}
	case "stream-callback", "stream-pull":
		v, err := recv.SM.Lookup(fsm.IteratorRequest{RangeOp: fsmx.All()})
		if err != nil {
			readErr = err
			break
		}
		seq := v.(iter.Seq[*pb.ResponseOp_Range])
		if s.Moment == "lookup-returned-not-consumed" {
			doInstall()
		}
		msgs := 0
		if s.Read == "stream-callback" {
			func() {
				defer func() {
					if p := recover(); p != nil {
						// production consumes on a goroutine without recovery: a panic here is process death
						panic(p)
					}
				}()
				seq(func(c *pb.ResponseOp_Range) bool {
					msgs++
					take(c.Kvs)
					if msgs == 1 && s.Moment == "mid-consumption" {
						doInstall()
					}
					return true
				})
			}()
		} else {
			next, stop := iter.Pull(seq)
			func() {
				defer stop()
				for {
					c, ok := next()
					if !ok {
						return
					}
					msgs++
					take(c.Kvs)
					if msgs == 1 && s.Moment == "mid-consumption" {
						doInstall()
					}
				}
			}()
		}
		if dupOrder != "" {
			return "stream-shows-state-that-never-existed", dupOrder, ""
		}
		if !same(got, oldS) && !same(got, newS) {
			return "stream-shows-state-that-never-existed", fmt.Sprintf("stream overlapping an install delivered %d pairs in %d messages: neither the old (%d) nor the new (%d) content", len(got), msgs, len(oldS), len(newS)), ""
		}
	}
	wg.Wait()
	if s.Moment == "after-read-ends" {
		doInstall()
	}
	doInstall()
	if installErr != nil {
		return "install-fails-with-overlapping-read", installErr.Error(), ""
	}
	// after everything: the receiver shows the new state
	d, err := recv.Dump()
	if err != nil {
		return "receiver-unreadable-after-install", err.Error(), ""
	}
	if why := fsmx.DiffContent(d, newM); why != "" {
		return "receiver-wrong-after-install", why, ""
	}
	recv.Close()
	outcome := "value"
	if readErr != nil {
		outcome = "clean-error"
	}
	return "", "", outcome
}

func headOf(s string, n int) string {
	if len(s) > n {
		return s[:n]
	}
	return s
}

func safeClose(t *fsmx.T) (err error) {
	defer func() {
		if p := recover(); p != nil {
			err = fmt.Errorf("panic in Close: %v", p)
		}
	}()
	return t.Close()
}

// runInstallFaults: the install is interrupted at every file-system operation boundary, once by a
// process kill (everything done so far stays, nothing more happens) and once by a power loss
// (everything not yet durable is lost). After the restart the replica must open and show either
// its complete previous state or the complete installed state.
func runInstallFaults(r *ev.Run, id caseID) {
	g := gen.New(id.Seed)
	g.NewPool(6)
	fa, fb := fsm.SnapshotRecoveryType(g.R.Intn(2)), fsm.SnapshotRecoveryType(g.R.Intn(2))
	w := witness{Case: id}
	saver, err := fsmx.Fresh("t", fa)
	if err != nil {
		r.Violation("fsm-open", err.Error(), w)
		return
	}
	newEntries := genEntries(g, 4+g.R.Intn(10), 20)
	if _, err := saver.Update(newEntries); err != nil {
		saver.Close()
		r.Violation("update-error", err.Error(), w)
		return
	}
	newM := model.NewTable()
	applyModel(newM, newEntries)
	snap, err := saver.Snapshot()
	saver.Close()
	if err != nil {
		r.Violation("save-error", err.Error(), w)
		return
	}
	var oldEntries []sm.Entry
	for j := 1; j <= 5; j++ {
		li := uint64(j)
		oldEntries = append(oldEntries, fsmx.Entry(uint64(j), &pb.Command{Table: []byte("t"), Type: pb.Command_PUT, LeaderIndex: &li, Kv: &pb.KeyValue{Key: []byte(fmt.Sprintf("old-receiver-key-%d", j)), Value: []byte("old")}}))
	}
	oldM := model.NewTable()
	applyModel(oldM, oldEntries)
	// prepare(fs) brings a receiver with durable old content onto fs and returns it
	prepare := func(fs *crashfs.FS) (*fsmx.T, error) {
		t := fsmx.New(fs, "t", 10001, 1, fb, nil)
		if _, err := t.SM.Open(nil); err != nil {
			return nil, err
		}
		if _, err := t.Update(oldEntries); err != nil {
			return nil, err
		}
		return t, t.SM.Sync()
	}
	fs0 := crashfs.New(fsmx.BaseDir)
	t0, err := prepare(fs0)
	if err != nil {
		r.Violation("receiver-setup", err.Error(), w)
		return
	}
	before := fs0.Ops()
	if err := t0.Recover(snap); err != nil {
		t0.Close()
		r.Violation("recover-error", err.Error(), w)
		return
	}
	n := fs0.Ops() - before
	t0.Close()
	for k := before + 1; k <= before+n+1; k++ {
		// third fault: operation k fails with an I/O error and the process goes on. The replica
		// must keep serving (no read may bring the process down), showing its complete previous
		// state or the complete installed state, live and after a clean restart.
		func() {
			fs := crashfs.New(fsmx.BaseDir)
			t, err := prepare(fs)
			if err != nil {
				r.Violation("receiver-setup", err.Error(), w)
				return
			}
			fs.SetPhase("install")
			fs.FailAt(k)
			var recErr error
			exited := false
			func() {
				defer func() {
					if p := recover(); p != nil {
						if strings.Contains(string(debug.Stack()), "go.uber.org/zap") || strings.HasPrefix(fmt.Sprint(p), "fatal: ") || strings.Contains(fmt.Sprint(p), crashfs.ErrInjected.Error()) {
							// the storage engine logged a fatal error (in production: an orderly
							// process exit at this very operation) - the same as a process kill
							// here, which the kill mode below covers
							exited = true
							return
						}
						panic(p)
					}
				}()
				recErr = t.Recover(snap)
			}()
			if exited {
				r.Count("install_io_errors_answered_by_a_logged_fatal_exit(covered by the kill mode)", 1)
				return
			}
			if !fs.Failed() {
				_ = t.Close()
				return
			}
			op := fs.FailOp()
			at := fmt.Sprintf("I/O error at %s (formats %d->%d, install returned %v)", op, fa, fb, recErr)
			w.Detail = []string{at}
			var d *model.Table
			var derr error
			func() {
				defer func() {
					if p := recover(); p != nil {
						derr = fmt.Errorf("panic: %v", p)
					}
				}()
				d, derr = t.Dump()
			}()
			if derr != nil {
				_ = safeClose(t)
				r.Violation("read-fails-after-install-hit-by-io-error", fmt.Sprintf("after the install was hit by an I/O error a read of the live replica fails: %v [%s]", derr, at), w)
				return
			}
			if fsmx.Diff(d, oldM) != "" && fsmx.Diff(d, newM) != "" {
				_ = safeClose(t)
				r.Violation("interrupted-install-leaves-neither-old-nor-new-state:io-error", fmt.Sprintf("the live replica shows neither its previous state (%s) nor the installed state (%s) [%s]", fsmx.Diff(d, oldM), fsmx.Diff(d, newM), at), w)
				return
			}
			if recErr == nil && fsmx.Diff(d, newM) != "" {
				_ = safeClose(t)
				r.Violation("install-reported-success-but-old-state-kept", fmt.Sprintf("RecoverFromSnapshot returned nil, the live replica still shows its previous state [%s]", at), w)
				return
			}
			live := "new"
			if fsmx.Diff(d, oldM) == "" {
				live = "old"
			}
			if err := safeClose(t); err != nil {
				r.Violation("close-fails-after-install-hit-by-io-error", fmt.Sprintf("%v [%s]", err, at), w)
				return
			}
			fs.FailAt(0)
			fs.SetPhase("reopen")
			t2 := fsmx.New(fs, "t", 10001, 1, fb, nil)
			if _, err := t2.SM.Open(nil); err != nil {
				r.Violation("reopen-fails-after-interrupted-install:io-error", fmt.Sprintf("Open fails after a clean close of a replica whose install was hit by an I/O error (live state was the %s one): %v [%s]", live, err, at), w)
				return
			}
			d2, err := t2.Dump()
			t2.Close()
			if err != nil {
				r.Violation("dump-error-after-interrupted-install", err.Error()+" ["+at+"]", w)
				return
			}
			if fsmx.Diff(d2, oldM) != "" && fsmx.Diff(d2, newM) != "" {
				r.Violation("interrupted-install-leaves-neither-old-nor-new-state:io-error", fmt.Sprintf("after a clean restart the replica shows neither its previous state (%s) nor the installed state (%s) [%s]", fsmx.Diff(d2, oldM), fsmx.Diff(d2, newM), at), w)
				return
			}
			r.Count("install_faults_io-error", 1)
			r.Distinct("install_fault_sites", "io-error|"+op.Kind+"|"+op.Class)
			r.Nontrivial(fmt.Sprint("install-fault", id.Seed, k, "io-error"))
		}()
		for _, mode := range []string{"kill", "power-loss"} {
			fs := crashfs.New(fsmx.BaseDir)
			t, err := prepare(fs)
			if err != nil {
				r.Violation("receiver-setup", err.Error(), w)
				return
			}
			fs.SetPhase("install")
			if mode == "kill" {
				fs.KillAt(k)
			} else {
				fs.CrashAt(k)
			}
			recErr := t.Recover(snap)
			_ = t.Close()
			op := fs.CrashOp()
			if mode == "kill" {
				op = fs.KillOp()
				fs.RestartAfterKill()
			} else {
				fs.Restart()
			}
			at := fmt.Sprintf("%s before %s (formats %d->%d, install returned %v)", mode, op, fa, fb, recErr)
			w.Detail = []string{at}
			t2 := fsmx.New(fs, "t", 10001, 1, fb, nil)
			if _, err := t2.SM.Open(nil); err != nil {
				r.Violation("reopen-fails-after-interrupted-install:"+mode, fmt.Sprintf("Open fails after the install was interrupted: %v [%s]", err, at), w)
				return
			}
			d, err := t2.Dump()
			t2.Close()
			if err != nil {
				r.Violation("dump-error-after-interrupted-install", err.Error()+" ["+at+"]", w)
				return
			}
			if fsmx.Diff(d, oldM) != "" && fsmx.Diff(d, newM) != "" {
				sig := "interrupted-install-leaves-neither-old-nor-new-state:" + mode
				r.Violation(sig, fmt.Sprintf("after the restart the replica shows neither its previous state (%s) nor the installed state (%s) [%s]", fsmx.Diff(d, oldM), fsmx.Diff(d, newM), at), w)
				return
			}
			r.Count("install_faults_"+mode, 1)
			r.Distinct("install_fault_sites", mode+"|"+op.Kind+"|"+op.Class)
			if fsmx.Diff(d, oldM) == "" {
				r.Count("install_faults_old_state_kept", 1)
			} else {
				r.Count("install_faults_new_state_installed", 1)
			}
			r.Nontrivial(fmt.Sprint("install-fault", id.Seed, k, mode))
		}
	}
	r.Eval(1)
	r.Sample(map[string]any{"kind": "install-fault", "formats": fmt.Sprintf("%d->%d", fa, fb), "fs_operations_of_the_install": n})
}
