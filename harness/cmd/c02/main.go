// C02 — transactions are atomic if/then/else: one branch, in order, all or nothing.
//
// (a,b) generated transactions embedded at random positions of apply batches of the real FSM:
//
//	succeeded flag, n-th response and post-state equal the reference model's;
//
// (c)   read-only equivalence: Lookup(TxnRequest) == the same txn proposed through Update == model;
// (d)   atomic visibility: a concurrent reader (one range read = one view) only ever sees the
//
//	model state after a whole number of apply calls, never part of a transaction;
//
// (e)   the same through a real single-node engine (proposal path and SyncRead path).
package main

import (
	"context"
	"fmt"
	"os"
	"sync"
	"sync/atomic"
	"time"

	pb "github.com/jamf/regatta/regattapb"
	"github.com/jamf/regatta/storage/table/fsm"
	sm "github.com/lni/dragonboat/v4/statemachine"

	"verifharness/internal/cluster"
	"verifharness/internal/ev"
	"verifharness/internal/fsmx"
	"verifharness/internal/gen"
	"verifharness/internal/judge"
	"verifharness/internal/model"
)

type caseID struct {
	Kind string `json:"kind"` // fsm | visibility | engine
	Seed int64  `json:"case_seed"`
}

type witness struct {
	Case     caseID   `json:"case"`
	Commands []string `json:"commands"`
	At       string   `json:"at"`
}

func main() {
	r := ev.Start("C02", "exploration")
	r.Supervise() // a real engine runs in-process: its death is an outcome, observed by a supervising parent
	r.Rule("seeded transactions (0-3 predicates incl. ranges/existence-only/targets derived from stored values; 0-4 ops per branch mixing range, put, (range) delete on a small key pool) " +
		"embedded after 0-5 other commands in one apply batch of the real FSM; read-only ones additionally through Lookup; concurrent-reader visibility runs; engine runs. " +
		"Non-trivial: txn with a range predicate or >=2 predicates whose executed branch has >=2 ops touching a common key and which is preceded by >=1 command in the same apply batch; distinct by rendered txn+prefix")
	r.Assume("keys non-empty; keys_only and count_only never both set", "crash atomicity of a transaction is covered by C04's crash histories, which contain transactions")
	if r.Replay != "" {
		var w witness
		if _, err := r.ReadReplay(&w); err != nil {
			fmt.Fprintln(os.Stderr, "replay:", err)
			os.Exit(2)
		}
		run(r, w.Case)
		r.Finish()
	}
	ev.Parallel(r.Pick(3000, 60000), 8, func(i int) {
		run(r, caseID{"fsm", r.Seed*1_000_003 + int64(i)})
	})
	for i, n := 0, r.Pick(8, 60); i < n; i++ {
		run(r, caseID{"visibility", r.Seed*2_000_003 + int64(i)})
	}
	for i, n := 0, r.Pick(2, 12); i < n; i++ {
		run(r, caseID{"visibility-big", r.Seed*4_000_003 + int64(i)})
	}
	for i, n := 0, r.Pick(4, 30); i < n; i++ {
		run(r, caseID{"visibility-predicate", r.Seed*5_000_003 + int64(i)})
	}
	for i, n := 0, r.Pick(3, 20); i < n; i++ {
		run(r, caseID{"big-range-predicate", r.Seed*6_000_003 + int64(i)})
	}
	for i, n := 0, r.Pick(1, 8); i < n; i++ {
		run(r, caseID{"engine", r.Seed*3_000_003 + int64(i)})
	}
	r.FloorNontrivial(int64(r.Pick(1000, 20000)))
	r.FloorCount("txns", int64(r.Pick(10000, 200000)))
	r.FloorCount("readonly_equivalence_checks", int64(r.Pick(100, 4000)))
	r.FloorCount("reader_views", int64(r.Pick(2000, 20000)))
	r.FloorCount("reader_views_overlapping_apply", int64(r.Pick(200, 2000)))
	r.FloorCount("big_txn_reader_views_overlapping_apply", int64(r.Pick(50, 300)))
	r.FloorCount("predicate_reader_views_overlapping_apply", int64(r.Pick(150, 1500)))
	r.FloorCount("range_predicates_over_more_than_4MiB", int64(r.Pick(30, 200)))
	r.FloorCount("engine_slow_commits", int64(r.Pick(4, 50)))
	r.FloorCount("engine_txns", int64(r.Pick(100, 1000)))
	r.Finish()
}

func run(r *ev.Run, id caseID) {
	switch id.Kind {
	case "fsm":
		runFSM(r, id)
	case "visibility":
		runVisibility(r, id)
	case "visibility-big":
		runVisibilityBig(r, id)
	case "visibility-predicate":
		runVisibilityPredicate(r, id)
	case "big-range-predicate":
		runBigRangePredicate(r, id)
	case "engine":
		runEngine(r, id)
	}
}

func txnCmd(t *pb.Txn) *pb.Command {
	return &pb.Command{Table: []byte("t"), Type: pb.Command_TXN, Txn: t}
}

func nontrivial(t *pb.Txn, branch []*pb.RequestOp, prefix int) bool {
	if prefix < 1 || len(branch) < 2 {
		return false
	}
	rangeCmp := false
	for _, c := range t.Compare {
		if c.RangeEnd != nil {
			rangeCmp = true
		}
	}
	if !rangeCmp && len(t.Compare) < 2 {
		return false
	}
	seen := map[string]int{}
	for _, op := range branch {
		switch o := op.Request.(type) {
		case *pb.RequestOp_RequestRange:
			seen[string(o.RequestRange.Key)]++
		case *pb.RequestOp_RequestPut:
			seen[string(o.RequestPut.Key)]++
		case *pb.RequestOp_RequestDeleteRange:
			seen[string(o.RequestDeleteRange.Key)]++
		}
	}
	for _, n := range seen {
		if n >= 2 {
			return true
		}
	}
	return false
}

// runFSM: several apply batches, each containing transactions at random positions.
func runFSM(r *ev.Run, id caseID) {
	g := gen.New(id.Seed)
	g.NewPool(4 + g.R.Intn(5))
	t, err := fsmx.Fresh("t", fsm.RecoveryTypeSnapshot)
	if err != nil {
		r.Violation("fsm-open", err.Error(), id)
		return
	}
	defer t.Close()
	m := model.NewTable()
	g.Peek = func(k []byte) ([]byte, bool) { v, ok := m.M[string(k)]; return v, ok }
	w := witness{Case: id}
	fail := func(sig, at, what string) {
		w.At = at
		r.Violation(sig, what+" @ "+at, w)
	}
	var idx uint64
	// peek model used by the generator while building a batch: it runs ahead of the real FSM
	for b, nb := 0, 2+g.R.Intn(4); b < nb; b++ {
		pre := g.R.Intn(6)
		var entries []sm.Entry
		ahead := m.Clone()
		g.Peek = func(k []byte) ([]byte, bool) { v, ok := ahead.M[string(k)]; return v, ok }
		type meta struct {
			txn    *pb.Txn
			prefix int
		}
		metas := map[uint64]meta{}
		n := pre + 1 + g.R.Intn(3)
		for j := 0; j < n; j++ {
			idx++
			var c *pb.Command
			if j >= pre || g.R.Intn(3) == 0 {
				c = txnCmd(g.Txn(g.R.Intn(5) == 0))
			} else {
				c = g.Command(1)
			}
			e := fsmx.Entry(idx, c)
			entries = append(entries, e)
			dec := fsmx.Decoded(e)
			if dec.Type == pb.Command_TXN {
				metas[idx] = meta{dec.Txn, j}
			}
			ahead.Apply(idx, dec)
			w.Commands = append(w.Commands, fmt.Sprintf("%d:%s", idx, gen.Describe(c)))
		}
		outs, err := t.Update(entries)
		if err != nil {
			fail("update-error", fmt.Sprintf("batch ending at %d", idx), err.Error())
			return
		}
		for j, e := range entries {
			dec := fsmx.Decoded(e)
			pre := m.Clone()
			exp := m.Apply(e.Index, dec)
			if outs[j].Value != exp.Value {
				fail("succeeded-flag", fmt.Sprintf("entry %d", e.Index), fmt.Sprintf("result value %d, model %d (txn succeeded=%v)", outs[j].Value, exp.Value, exp.TxnSucceeded))
				return
			}
			var got []*pb.ResponseOp
			if outs[j].Result != nil {
				got = outs[j].Result.Responses
			}
			if mm := judge.Responses(exp.Responses, got, exp.IsTxn); mm != nil {
				fail("txn-response-"+mm.Class, fmt.Sprintf("entry %d response %d", e.Index, mm.Index), mm.Why)
				return
			}
			if mt, ok := metas[e.Index]; ok {
				r.Count("txns", 1)
				if exp.TxnSucceeded {
					r.Count("txns_succeeded", 1)
				}
				branch := mt.txn.Failure
				if exp.TxnSucceeded {
					branch = mt.txn.Success
				}
				if len(branch) == 0 {
					r.Count("txns_empty_branch", 1)
				}
				if nontrivial(mt.txn, branch, mt.prefix) {
					r.Nontrivial(gen.DescribeTxn(mt.txn) + fmt.Sprint(pre.Sorted()))
				}
			}
		}
		d, err := t.Dump()
		if err != nil {
			fail("dump-error", fmt.Sprintf("after %d", idx), err.Error())
			return
		}
		if why := fsmx.Diff(d, m); why != "" {
			fail("post-state", fmt.Sprintf("after batch ending at %d", idx), why)
			return
		}
		// (c) read-only equivalence on the state just reached
		for k := 0; k < 2; k++ {
			ro := g.Txn(true)
			req := &pb.TxnRequest{Table: []byte("t"), Compare: ro.Compare, Success: ro.Success, Failure: ro.Failure}
			// the lookup path receives the request as decoded from the wire
			b, _ := req.MarshalVT()
			req = &pb.TxnRequest{}
			_ = req.UnmarshalVT(b)
			d := "RO:" + gen.DescribeTxn(&pb.Txn{Compare: req.Compare, Success: req.Success, Failure: req.Failure})
			lr, err := t.Txn(req)
			if err != nil {
				fail("readonly-lookup-error", d, err.Error())
				return
			}
			mc := m.Clone()
			ok, exp := mc.Txn(req.Compare, req.Success, req.Failure)
			if lr.Succeeded != ok {
				fail("readonly-lookup-succeeded", d, fmt.Sprintf("lookup path succeeded=%v, model %v", lr.Succeeded, ok))
				return
			}
			if mm := judge.Responses(exp, lr.Responses, true); mm != nil {
				fail("readonly-lookup-response", d, mm.Why)
				return
			}
			// the same transaction through the write path on the same state
			idx++
			e := fsmx.Entry(idx, txnCmd(&pb.Txn{Compare: req.Compare, Success: req.Success, Failure: req.Failure}))
			w.Commands = append(w.Commands, fmt.Sprintf("%d:%s", idx, d))
			outs, err := t.Update([]sm.Entry{e})
			if err != nil {
				fail("update-error", d, err.Error())
				return
			}
			m.Apply(idx, fsmx.Decoded(e))
			if (outs[0].Value == 1) != lr.Succeeded {
				fail("readonly-paths-disagree", d, fmt.Sprintf("write path value=%d, lookup path succeeded=%v", outs[0].Value, lr.Succeeded))
				return
			}
			var got []*pb.ResponseOp
			if outs[0].Result != nil {
				got = outs[0].Result.Responses
			}
			if mm := judge.Responses(exp, got, true); mm != nil {
				fail("readonly-write-path-response", d, mm.Why)
				return
			}
			if len(got) != len(lr.Responses) {
				fail("readonly-paths-disagree", d, fmt.Sprintf("%d responses on the write path, %d on the lookup path", len(got), len(lr.Responses)))
				return
			}
			r.Count("readonly_equivalence_checks", 1)
		}
	}
	r.Eval(1)
	r.Sample(map[string]any{"kind": "fsm", "commands": head(w.Commands, 6)})
}

func head(s []string, n int) []string {
	if len(s) > n {
		return append(append([]string{}, s[:n]...), fmt.Sprintf("… %d more", len(s)-n))
	}
	return s
}

// runVisibility: writer applies batches; readers take single-iterator views concurrently.
func runVisibility(r *ev.Run, id caseID) {
	g := gen.New(id.Seed)
	g.NewPool(6)
	t, err := fsmx.Fresh("t", fsm.RecoveryTypeSnapshot)
	if err != nil {
		r.Violation("fsm-open", err.Error(), id)
		return
	}
	defer t.Close()
	m := model.NewTable()
	var (
		mu        sync.Mutex
		states    = []map[string]string{{}} // states[j] = content after j transactions
		started   atomic.Int64
		completed atomic.Int64
		stop      atomic.Bool
		wg        sync.WaitGroup
		bad       atomic.Value
	)
	snapshotOf := func(mt *model.Table) map[string]string {
		s := make(map[string]string, len(mt.M))
		for k, v := range mt.M {
			s[k] = string(v)
		}
		return s
	}
	for rd := 0; rd < 3; rd++ {
		wg.Add(1)
		go func(rd int) {
			defer wg.Done()
			for !stop.Load() {
				lo := completed.Load()
				var got map[string]string
				if rd == 0 {
					// read-only transaction with two range reads: both must come from one view
					resp, err := t.Txn(&pb.TxnRequest{Success: []*pb.RequestOp{
						{Request: &pb.RequestOp_RequestRange{RequestRange: &pb.RequestOp_Range{Key: []byte{0}, RangeEnd: []byte{0x62}}}},
						{Request: &pb.RequestOp_RequestRange{RequestRange: &pb.RequestOp_Range{Key: []byte{0x62}, RangeEnd: []byte{0}}}},
					}})
					if err != nil {
						bad.Store("reader txn error: " + err.Error())
						return
					}
					got = map[string]string{}
					for _, ro := range resp.Responses {
						for _, kv := range ro.GetResponseRange().GetKvs() {
							got[string(kv.Key)] = string(kv.Value)
						}
					}
				} else {
					resp, err := t.Range(fsmx.All())
					if err != nil {
						bad.Store("reader error: " + err.Error())
						return
					}
					got = make(map[string]string, len(resp.Kvs))
					for _, kv := range resp.Kvs {
						got[string(kv.Key)] = string(kv.Value)
					}
				}
				hi := started.Load()
				mu.Lock()
				match := false
				for j := lo; j <= hi && j < int64(len(states)); j++ {
					if sameMap(states[j], got) {
						match = true
						break
					}
				}
				mu.Unlock()
				r.Count("reader_views", 1)
				if !match {
					bad.Store(fmt.Sprintf("reader %d saw a content that is not the state after any whole number of transactions in [%d,%d]: %v", rd, lo, hi, got))
					return
				}
				if hi > lo {
					r.Count("reader_views_overlapping_apply", 1)
				}
			}
		}(rd)
	}
	var idx uint64
	var cmds []string
	for b, nb := 0, 150; b < nb && bad.Load() == nil; b++ {
		var entries []sm.Entry
		for j, n := 0, 1+g.R.Intn(3); j < n; j++ {
			idx++
			// a transaction that writes several keys with one tag (small values only)
			tx := &pb.Txn{}
			tag := []byte(fmt.Sprintf("tag%d", idx))
			for k, nk := 0, 2+g.R.Intn(4); k < nk; k++ {
				key := g.Pool[g.R.Intn(len(g.Pool))]
				if g.R.Intn(4) == 0 {
					tx.Success = append(tx.Success, &pb.RequestOp{Request: &pb.RequestOp_RequestDeleteRange{RequestDeleteRange: &pb.RequestOp_DeleteRange{Key: key}}})
				} else {
					tx.Success = append(tx.Success, &pb.RequestOp{Request: &pb.RequestOp_RequestPut{RequestPut: &pb.RequestOp_Put{Key: key, Value: tag}}})
				}
			}
			c := txnCmd(tx)
			cmds = append(cmds, fmt.Sprintf("%d:%s", idx, gen.Describe(c)))
			entries = append(entries, fsmx.Entry(idx, c))
		}
		// states are recorded per transaction (entry), not per apply call: the property promises
		// atomic visibility of each transaction, it does not promise that an apply batch is atomic
		mu.Lock()
		for _, e := range entries {
			m.Apply(e.Index, fsmx.Decoded(e))
			states = append(states, snapshotOf(m))
		}
		mu.Unlock()
		started.Add(int64(len(entries)))
		if _, err := t.Update(entries); err != nil {
			bad.Store("update error: " + err.Error())
			break
		}
		completed.Add(int64(len(entries)))
		if b%10 == 0 {
			time.Sleep(time.Millisecond)
		}
	}
	stop.Store(true)
	wg.Wait()
	if v := bad.Load(); v != nil {
		r.Violation("partial-transaction-visible", v.(string), witness{Case: id, Commands: head(cmds, 40)})
		return
	}
	r.Eval(1)
	r.Sample(map[string]any{"kind": "visibility", "apply_calls": 150, "commands": head(cmds, 3)})
}

// runVisibilityBig: atomic visibility of transactions whose apply call carries more than the
// state machine's 16 MiB in-memory batch bound, either the transaction itself (marker, nine ~2 MiB
// puts, marker) or the plain writes in front of it in the same apply call (the bound is crossed
// inside the transaction). Readers take small views only: the two markers through one read-only
// transaction (always equal) and the count of the whole table (always a whole number of
// transactions' worth).
func runVisibilityBig(r *ev.Run, id caseID) {
	g := gen.New(id.Seed)
	t, err := fsmx.Fresh("t", fsm.RecoveryTypeSnapshot)
	if err != nil {
		r.Violation("fsm-open", err.Error(), id)
		return
	}
	defer t.Close()
	var (
		stop      atomic.Bool
		wg        sync.WaitGroup
		bad       atomic.Value
		applying  atomic.Bool
		countsMu  sync.Mutex
		stable    = []int64{0}            // stable[j] = table size after j apply calls
		extra     = []map[int64]bool{nil} // extra[j] = sizes legal only while call j runs
		started   atomic.Int64
		completed atomic.Int64
		overlapOK atomic.Int64
	)
	one := func(k string) *pb.RequestOp {
		return &pb.RequestOp{Request: &pb.RequestOp_RequestRange{RequestRange: &pb.RequestOp_Range{Key: []byte(k)}}}
	}
	for rd := 0; rd < 2; rd++ {
		wg.Add(1)
		go func(rd int) {
			defer wg.Done()
			for !stop.Load() {
				during := applying.Load()
				lo := completed.Load()
				if rd == 0 {
					resp, err := t.Txn(&pb.TxnRequest{Success: []*pb.RequestOp{one("a"), one("z")}})
					if err != nil {
						bad.Store("reader txn error: " + err.Error())
						return
					}
					var a, z string
					if kv := resp.Responses[0].GetResponseRange().GetKvs(); len(kv) > 0 {
						a = string(kv[0].Value)
					}
					if kv := resp.Responses[1].GetResponseRange().GetKvs(); len(kv) > 0 {
						z = string(kv[0].Value)
					}
					if a != z {
						if len(a) > 24 {
							a = a[:24] + "…"
						}
						if len(z) > 24 {
							z = z[:24] + "…"
						}
						bad.Store(fmt.Sprintf("one read-only transaction saw marker a=%q and marker z=%q, which one transaction always writes together", a, z))
						return
					}
				} else {
					resp, err := t.Range(&pb.RequestOp_Range{Key: []byte{0}, RangeEnd: []byte{0}, CountOnly: true})
					if err != nil {
						bad.Store("reader error: " + err.Error())
						return
					}
					hi := started.Load()
					countsMu.Lock()
					ok := false
					for j := lo; j <= hi && int(j) < len(stable); j++ {
						if stable[j] == resp.Count || (j > lo && extra[j][resp.Count]) || (j > lo && stable[j-1] == resp.Count) {
							ok = true
						}
					}
					countsMu.Unlock()
					if !ok {
						bad.Store(fmt.Sprintf("a count-only read of the whole table saw %d pairs, which is not the size after any whole number of transactions", resp.Count))
						return
					}
				}
				r.Count("big_txn_reader_views", 1)
				if during && applying.Load() {
					overlapOK.Add(1)
				}
			}
		}(rd)
	}
	put := func(k string, v []byte) *pb.RequestOp {
		return &pb.RequestOp{Request: &pb.RequestOp_RequestPut{RequestPut: &pb.RequestOp_Put{Key: []byte(k), Value: v}}}
	}
	var idx uint64
	var cmds []string
	apply := func(entries []sm.Entry, after int64, also map[int64]bool) bool {
		countsMu.Lock()
		stable = append(stable, after)
		extra = append(extra, also)
		countsMu.Unlock()
		started.Add(1)
		applying.Store(true)
		_, err := t.Update(entries)
		applying.Store(false)
		if err != nil {
			bad.Store("update error: " + err.Error())
			return false
		}
		completed.Add(1)
		time.Sleep(2 * time.Millisecond)
		return true
	}
	present := map[string]bool{}
	for c, nc := 0, 6; c < nc && bad.Load() == nil; c++ {
		tag := []byte(fmt.Sprintf("cycle%d", c))
		switch c % 3 {
		case 0, 1:
			// the transaction itself is bigger than the bound
			tx := &pb.Txn{Success: []*pb.RequestOp{put("a", tag)}}
			for k := 0; k < 9; k++ {
				tx.Success = append(tx.Success, put(fmt.Sprintf("big%d", k), bigVal(g, string(tag), (2<<20)-64-g.R.Intn(4096))))
			}
			tx.Success = append(tx.Success, put("z", tag))
			for _, o := range tx.Success {
				present[string(o.GetRequestPut().Key)] = true
			}
			idx++
			cmds = append(cmds, fmt.Sprintf("%d:TXN{put a=%s; 9 x put big<k> (~2 MiB each); put z=%s}", idx, tag, tag))
			r.Count("txns", 1)
			if !apply([]sm.Entry{fsmx.Entry(idx, txnCmd(tx))}, int64(len(present)), nil) {
				break
			}
		case 2:
			// everything is deleted by one transaction, then plain writes fill the apply call up to
			// just below the bound and a small transaction crosses it with its first write
			idx++
			del := &pb.Txn{Success: []*pb.RequestOp{{Request: &pb.RequestOp_RequestDeleteRange{RequestDeleteRange: &pb.RequestOp_DeleteRange{Key: []byte{0}, RangeEnd: []byte{0}}}}}}
			cmds = append(cmds, fmt.Sprintf("%d:TXN{delete everything}", idx))
			if !apply([]sm.Entry{fsmx.Entry(idx, txnCmd(del))}, 0, nil) {
				break
			}
			present = map[string]bool{}
			var entries []sm.Entry
			for k := 0; k < 8; k++ {
				idx++
				size := (2 << 20) - 64
				if k == 7 {
					size -= 96 << 10
				}
				entries = append(entries, fsmx.Entry(idx, &pb.Command{Table: []byte("t"), Type: pb.Command_PUT, Kv: &pb.KeyValue{Key: []byte(fmt.Sprintf("big%d", k)), Value: bigVal(g, string(tag), size)}}))
			}
			idx++
			tx := &pb.Txn{Success: []*pb.RequestOp{put("a", padded(tag, 256<<10)), put("m", tag), put("z", padded(tag, 256<<10))}}
			entries = append(entries, fsmx.Entry(idx, txnCmd(tx)))
			cmds = append(cmds, fmt.Sprintf("%d..%d: 8 plain puts big<k> (16 MiB - 160 KiB together) then TXN{put a (256 KiB); put m; put z (256 KiB)} in ONE apply call", idx-8, idx))
			r.Count("txns", 2)
			// the plain writes of the call may become visible one by one (an apply call is not
			// atomic), the transaction's three only together: sizes 0..8 and 11 are legal, 9 and 10 never
			also := map[int64]bool{}
			for k := int64(0); k <= 8; k++ {
				also[k] = true
			}
			for k := 0; k < 8; k++ {
				present[fmt.Sprintf("big%d", k)] = true
			}
			present["a"], present["m"], present["z"] = true, true, true
			if !apply(entries, int64(len(present)), also) {
				break
			}
		}
	}
	stop.Store(true)
	wg.Wait()
	r.Count("big_txn_reader_views_overlapping_apply", overlapOK.Load())
	if v := bad.Load(); v != nil {
		r.Violation("partial-transaction-visible", "[apply call above the 16 MiB batch bound] "+v.(string), witness{Case: id, Commands: head(cmds, 40)})
		return
	}
	r.Eval(1)
	r.Nontrivial(fmt.Sprint("visibility-big", id.Seed))
	r.Sample(map[string]any{"kind": "visibility-big", "commands": head(cmds, 4)})
}

// runVisibilityPredicate: the predicates and the executed branch of ONE read-only transaction see
// one state. The key "state" is flipped between two values by a tight apply loop; readers run
// read-only transactions of every shape (0-2 operations per branch, the predicate on "state"
// before / after / between slow range predicates over static keys) whose response tells which
// value each of its reads saw.
func runVisibilityPredicate(r *ev.Run, id caseID) {
	g := gen.New(id.Seed)
	t, err := fsmx.Fresh("t", fsm.RecoveryTypeSnapshot)
	if err != nil {
		r.Violation("fsm-open", err.Error(), id)
		return
	}
	defer t.Close()
	var idx uint64
	var entries []sm.Entry
	nStatic := 200 + g.R.Intn(1500)
	for i := 0; i < nStatic; i++ {
		idx++
		entries = append(entries, fsmx.Entry(idx, &pb.Command{Table: []byte("t"), Type: pb.Command_PUT, Kv: &pb.KeyValue{Key: []byte(fmt.Sprintf("cfg/%05d", i)), Value: []byte("x")}}))
	}
	idx++
	entries = append(entries, fsmx.Entry(idx, &pb.Command{Table: []byte("t"), Type: pb.Command_PUT, Kv: &pb.KeyValue{Key: []byte("state"), Value: []byte("a")}}))
	if _, err := t.Update(entries); err != nil {
		r.Violation("update-error", err.Error(), id)
		return
	}
	var (
		stop     atomic.Bool
		wg       sync.WaitGroup
		bad      atomic.Value
		applying atomic.Bool
		overlap  atomic.Int64
	)
	stateIs := func(v string) *pb.Compare {
		return &pb.Compare{Key: []byte("state"), Result: pb.Compare_EQUAL, Target: pb.Compare_VALUE, TargetUnion: &pb.Compare_Value{Value: []byte(v)}}
	}
	slow := func() *pb.Compare {
		return &pb.Compare{Key: []byte("cfg/"), RangeEnd: []byte("cfg0"), Result: pb.Compare_EQUAL, Target: pb.Compare_VALUE, TargetUnion: &pb.Compare_Value{Value: []byte("x")}}
	}
	readState := func() *pb.RequestOp {
		return &pb.RequestOp{Request: &pb.RequestOp_RequestRange{RequestRange: &pb.RequestOp_Range{Key: []byte("state")}}}
	}
	for rd := 0; rd < 3; rd++ {
		wg.Add(1)
		go func(rd int) {
			defer wg.Done()
			rg := gen.New(id.Seed*31 + int64(rd))
			for n := 0; !stop.Load(); n++ {
				during := applying.Load()
				req := &pb.TxnRequest{}
				shape := rg.R.Intn(4)
				switch shape {
				case 0:
					req.Compare = []*pb.Compare{stateIs("a"), slow()}
				case 1:
					req.Compare = []*pb.Compare{slow(), stateIs("a")}
				case 2:
					req.Compare = []*pb.Compare{stateIs("a"), slow(), stateIs("a")}
				default:
					req.Compare = []*pb.Compare{stateIs("a")}
				}
				ns, nf := 1+rg.R.Intn(2), 1+rg.R.Intn(2)
				for i := 0; i < ns; i++ {
					req.Success = append(req.Success, readState())
				}
				for i := 0; i < nf; i++ {
					req.Failure = append(req.Failure, readState())
				}
				resp, err := t.Txn(req)
				if err != nil {
					bad.Store("reader txn error: " + err.Error())
					return
				}
				r.Count("predicate_reader_views", 1)
				if during && applying.Load() {
					overlap.Add(1)
				}
				for i, ro := range resp.Responses {
					kv := ro.GetResponseRange().GetKvs()
					if len(kv) != 1 {
						bad.Store(fmt.Sprintf("read %d of the executed branch returned %d pairs for the key \"state\", which always exists", i, len(kv)))
						return
					}
					if got := string(kv[0].Value); (got == "a") != resp.Succeeded {
						bad.Store(fmt.Sprintf("read-only transaction {if %d predicates incl. value(state)==\"a\" then %d x range(state) else %d x range(state)}: succeeded=%v, yet read %d of its executed branch returned state=%q", len(req.Compare), ns, nf, resp.Succeeded, i, got))
						return
					}
				}
			}
		}(rd)
	}
	for b, nb := 0, 4000; b < nb && bad.Load() == nil; b++ {
		idx++
		v := "a"
		if b%2 == 0 {
			v = "b"
		}
		e := []sm.Entry{fsmx.Entry(idx, &pb.Command{Table: []byte("t"), Type: pb.Command_PUT, Kv: &pb.KeyValue{Key: []byte("state"), Value: []byte(v)}})}
		applying.Store(true)
		_, err := t.Update(e)
		if b%64 == 63 {
			applying.Store(false)
			time.Sleep(200 * time.Microsecond)
		}
		if err != nil {
			bad.Store("update error: " + err.Error())
			break
		}
	}
	applying.Store(false)
	stop.Store(true)
	wg.Wait()
	r.Count("predicate_reader_views_overlapping_apply", overlap.Load())
	if v := bad.Load(); v != nil {
		r.Violation("readonly-transaction-reads-several-states", v.(string), witness{Case: id, Commands: []string{fmt.Sprintf("%d static pairs cfg/<n>=x, then 4000 apply calls flipping state between a and b", nStatic)}})
		return
	}
	r.Eval(1)
	r.Nontrivial(fmt.Sprint("visibility-predicate", id.Seed))
	r.Sample(map[string]any{"kind": "visibility-predicate", "static_pairs": nStatic, "apply_calls": 4000})
}

// runBigRangePredicate: a range predicate holds only if EVERY pair of the range satisfies it, also
// when the range holds more than the 4 MiB a single read message carries: documents of 1 MiB /
// 128 B (5-7 MiB together), the one that violates the predicate at every position incl. the last.
func runBigRangePredicate(r *ev.Run, id caseID) {
	g := gen.New(id.Seed)
	t, err := fsmx.Fresh("t", fsm.RecoveryTypeSnapshot)
	if err != nil {
		r.Violation("fsm-open", err.Error(), id)
		return
	}
	defer t.Close()
	m := model.NewTable()
	var idx uint64
	n, size := 5+g.R.Intn(3), 1<<20
	if id.Seed%2 == 1 {
		n, size = 45000, 128
	}
	mk := func(i int, first byte) *pb.Command {
		v := make([]byte, size)
		for j := range v {
			v[j] = 'a'
		}
		v[0] = first
		return &pb.Command{Table: []byte("t"), Type: pb.Command_PUT, Kv: &pb.KeyValue{Key: []byte(fmt.Sprintf("doc/%06d", i)), Value: v}}
	}
	var es []sm.Entry
	for i := 0; i < n; i++ {
		idx++
		e := fsmx.Entry(idx, mk(i, 'M'))
		es = append(es, e)
		m.Apply(idx, fsmx.Decoded(e))
		if len(es) == 2000 || i == n-1 {
			if _, err := t.Update(es); err != nil {
				r.Violation("update-error", err.Error(), id)
				return
			}
			es = nil
		}
	}
	positions := []int{n - 1, n - 2, n / 2, 0, n - 1}
	for round, pos := range positions {
		// document pos violates "value < S"; in the last round nothing does
		if round < len(positions)-1 {
			idx++
			e := fsmx.Entry(idx, mk(pos, 'Z'))
			if _, err := t.Update([]sm.Entry{e}); err != nil {
				r.Violation("update-error", err.Error(), id)
				return
			}
			m.Apply(idx, fsmx.Decoded(e))
		}
		cmp := []*pb.Compare{{Key: []byte("doc/"), RangeEnd: []byte("doc0"), Result: pb.Compare_LESS, Target: pb.Compare_VALUE, TargetUnion: &pb.Compare_Value{Value: []byte("S")}}}
		marker := []byte(fmt.Sprintf("round%d", round))
		succ := []*pb.RequestOp{{Request: &pb.RequestOp_RequestPut{RequestPut: &pb.RequestOp_Put{Key: []byte("branch"), Value: append([]byte("success-"), marker...)}}}}
		fail := []*pb.RequestOp{{Request: &pb.RequestOp_RequestPut{RequestPut: &pb.RequestOp_Put{Key: []byte("branch"), Value: append([]byte("failure-"), marker...)}}}}
		what := fmt.Sprintf("%d documents of %d B (%.1f MiB) under doc/, document %d of them holds a value > \"S\" (round %d: %v), predicate [doc/, doc0) < \"S\"", n, size, float64(n*size)/(1<<20), pos, round, round < len(positions)-1)
		// read-only path
		ro, err := t.Txn(&pb.TxnRequest{Compare: cmp, Success: []*pb.RequestOp{{Request: &pb.RequestOp_RequestRange{RequestRange: &pb.RequestOp_Range{Key: []byte("branch")}}}}})
		if err != nil {
			r.Violation("read-error", err.Error(), id)
			return
		}
		exp := m.EvalCompare(cmp)
		if ro.Succeeded != exp {
			r.Violation("readonly-lookup-succeeded", fmt.Sprintf("read-only transaction: succeeded=%v, the reference says %v; %s", ro.Succeeded, exp, what), witness{Case: id, Commands: []string{what}})
			return
		}
		// log path
		idx++
		e := fsmx.Entry(idx, &pb.Command{Table: []byte("t"), Type: pb.Command_TXN, Txn: &pb.Txn{Compare: cmp, Success: succ, Failure: fail}})
		out, err := t.Update([]sm.Entry{e})
		if err != nil {
			r.Violation("update-error", err.Error(), id)
			return
		}
		res := m.Apply(idx, fsmx.Decoded(e))
		if (out[0].Value == 1) != res.TxnSucceeded {
			r.Violation("succeeded-flag", fmt.Sprintf("transaction in the log: succeeded=%v, the reference says %v; %s", out[0].Value == 1, res.TxnSucceeded, what), witness{Case: id, Commands: []string{what}})
			return
		}
		got, err := t.Range(&pb.RequestOp_Range{Key: []byte("branch")})
		if err != nil || len(got.Kvs) != 1 || string(got.Kvs[0].Value) != string(m.M["branch"]) {
			r.Violation("txn-post-state", fmt.Sprintf("after the transaction the key branch holds %q, the reference says %q; %s", valueOfKvs(got), m.M["branch"], what), witness{Case: id, Commands: []string{what}})
			return
		}
		// restore the document
		idx++
		e = fsmx.Entry(idx, mk(pos, 'M'))
		if _, err := t.Update([]sm.Entry{e}); err != nil {
			r.Violation("update-error", err.Error(), id)
			return
		}
		m.Apply(idx, fsmx.Decoded(e))
		r.Count("range_predicates_over_more_than_4MiB", 2)
		r.Count("txns", 2)
	}
	r.Eval(1)
	r.Nontrivial(fmt.Sprint("big-range-predicate", id.Seed))
	r.Sample(map[string]any{"kind": "big-range-predicate", "documents": n, "document_size": size})
}

func valueOfKvs(rr *pb.ResponseOp_Range) string {
	if rr == nil || len(rr.Kvs) != 1 {
		return "<absent>"
	}
	return string(rr.Kvs[0].Value)
}

func padded(tag []byte, size int) []byte {
	b := make([]byte, size)
	copy(b, tag)
	return b
}

func bigVal(g *gen.G, tag string, size int) []byte {
	b := make([]byte, size)
	for i := 0; i < len(b); i += 4096 {
		b[i] = byte(g.R.Intn(256))
	}
	copy(b, tag)
	return b
}

func sameMap(a, b map[string]string) bool {
	if len(a) != len(b) {
		return false
	}
	for k, v := range a {
		if w, ok := b[k]; !ok || w != v {
			return false
		}
	}
	return true
}

func runEngine(r *ev.Run, id caseID) {
	g := gen.New(id.Seed)
	g.NewPool(6)
	var stall atomic.Int64 // ms every apply call of the table is held back (a slow commit)
	c, err := cluster.Start(cluster.Opts{Nodes: 1, Listener: func(node uint64, table string, rev uint64) {
		if ms := stall.Swap(0); ms > 0 && table == "t" { // one apply call is slow, the following ones are not
			time.Sleep(time.Duration(ms) * time.Millisecond)
		} else if ms > 0 {
			stall.Store(ms)
		}
	}})
	if err != nil {
		r.Inconclusive("engine start: " + err.Error())
		return
	}
	defer c.Close()
	if _, err := c.CreateTable("t"); err != nil {
		r.Inconclusive("create table: " + err.Error())
		return
	}
	e := c.Nodes[0].Engine
	m := model.NewTable()
	g.Peek = func(k []byte) ([]byte, bool) { v, ok := m.M[string(k)]; return v, ok }
	w := witness{Case: id}
	// slow commits: the transaction is applied (and answered) only after a good part of the caller's
	// deadline has passed. Each is a toggle (if the key exists delete it, else create it) - executed
	// once it flips the key, whatever the caller is told; a call that ends in an error is ambiguous
	// and only re-synchronises the reference.
	for i, n := 0, r.Pick(6, 20); i < n; i++ {
		k := []byte(fmt.Sprintf("toggle%d", i%2))
		req := &pb.TxnRequest{Table: []byte("t"),
			Compare: []*pb.Compare{{Key: k}},
			Success: []*pb.RequestOp{{Request: &pb.RequestOp_RequestDeleteRange{RequestDeleteRange: &pb.RequestOp_DeleteRange{Key: k}}}},
			Failure: []*pb.RequestOp{{Request: &pb.RequestOp_RequestPut{RequestPut: &pb.RequestOp_Put{Key: k, Value: []byte(fmt.Sprintf("v%d", i))}}}}}
		d := fmt.Sprintf("slow commit (applied after 250 ms, caller's deadline 650 ms): if exists(%s) then delete else put", k)
		w.Commands = append(w.Commands, d)
		stall.Store(250)
		ctx, cancel := context.WithTimeout(context.Background(), 650*time.Millisecond)
		resp, err := e.Txn(ctx, req)
		cancel()
		stall.Store(0)
		time.Sleep(600 * time.Millisecond) // whatever was proposed has been applied by now
		rr, rerr := e.Range(context.Background(), &pb.RangeRequest{Table: []byte("t"), Key: k, Linearizable: true})
		if rerr != nil {
			r.Inconclusive("read after a slow commit: " + rerr.Error())
			return
		}
		if err != nil {
			// ambiguous for the caller; the reference follows what the table shows
			r.Count("engine_slow_commits_answered_with_an_error", 1)
			if len(rr.Kvs) == 1 {
				m.M[string(k)] = rr.Kvs[0].Value
			} else {
				delete(m.M, string(k))
			}
			continue
		}
		ok, exp := m.Txn(req.Compare, req.Success, req.Failure)
		if resp.Succeeded != ok {
			w.At = d
			r.Violation("engine-txn-succeeded", fmt.Sprintf("succeeded=%v, model %v @ %s", resp.Succeeded, ok, d), w)
			return
		}
		_ = exp
		_, present := m.M[string(k)]
		if present != (len(rr.Kvs) == 1) {
			w.At = d
			r.Violation("transaction-executed-more-than-once", fmt.Sprintf("the caller was told succeeded=%v (one toggle of %s: key present afterwards = %v), the table shows present = %v: both branches took effect @ %s", resp.Succeeded, k, present, len(rr.Kvs) == 1, d), w)
			return
		}
		r.Count("engine_slow_commits", 1)
		r.Count("engine_txns", 1)
	}
	for i, n := 0, r.Pick(150, 300); i < n; i++ {
		t := g.Txn(g.R.Intn(3) == 0)
		in := &pb.TxnRequest{Table: []byte("t"), Compare: t.Compare, Success: t.Success, Failure: t.Failure}
		b, _ := in.MarshalVT()
		req := &pb.TxnRequest{}
		_ = req.UnmarshalVT(b)
		d := gen.DescribeTxn(&pb.Txn{Compare: req.Compare, Success: req.Success, Failure: req.Failure})
		w.Commands = append(w.Commands, d)
		ctx, cancel := context.WithTimeout(context.Background(), 10*time.Second)
		resp, err := e.Txn(ctx, req)
		cancel()
		if err != nil {
			if oversize(req) {
				// a key / range end above the documented limit is refused (C16's subject)
				r.Count("engine_txns_refused_for_oversize_key", 1)
				continue
			}
			w.At = d
			r.Violation("engine-txn-error", err.Error()+" @ "+d, w)
			return
		}
		ok, exp := m.Txn(req.Compare, req.Success, req.Failure)
		if resp.Succeeded != ok {
			w.At = d
			r.Violation("engine-txn-succeeded", fmt.Sprintf("succeeded=%v, model %v @ %s", resp.Succeeded, ok, d), w)
			return
		}
		if mm := judge.Responses(exp, resp.Responses, true); mm != nil {
			w.At = d
			r.Violation("engine-txn-response-"+mm.Class, mm.Why+" @ "+d, w)
			return
		}
		r.Count("engine_txns", 1)
		if req.IsReadonly() {
			r.Count("engine_txns_readonly_path", 1)
		}
	}
	resp, err := e.Range(context.Background(), &pb.RangeRequest{Table: []byte("t"), Key: []byte{0}, RangeEnd: []byte{0}, Linearizable: true})
	if err != nil {
		r.Violation("engine-range-error", err.Error(), w)
		return
	}
	got := model.NewTable()
	for _, kv := range resp.Kvs {
		got.M[string(kv.Key)] = kv.Value
	}
	if why := fsmx.DiffContent(got, m); why != "" {
		r.Violation("engine-post-state", why, w)
		return
	}
	r.Eval(1)
	r.Sample(map[string]any{"kind": "engine", "txns": head(w.Commands, 4)})
}

// oversize tells whether any key or range end of the transaction exceeds the accepted key length.
func oversize(req *pb.TxnRequest) bool {
	big := func(b ...[]byte) bool {
		for _, x := range b {
			if len(x) > 1024 {
				return true
			}
		}
		return false
	}
	for _, c := range req.Compare {
		if big(c.Key, c.RangeEnd) {
			return true
		}
	}
	for _, ops := range [][]*pb.RequestOp{req.Success, req.Failure} {
		for _, op := range ops {
			switch o := op.Request.(type) {
			case *pb.RequestOp_RequestRange:
				if big(o.RequestRange.Key, o.RequestRange.RangeEnd) {
					return true
				}
			case *pb.RequestOp_RequestPut:
				if big(o.RequestPut.Key) {
					return true
				}
			case *pb.RequestOp_RequestDeleteRange:
				if big(o.RequestDeleteRange.Key, o.RequestDeleteRange.RangeEnd) {
					return true
				}
			}
		}
	}
	return false
}
