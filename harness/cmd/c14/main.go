// C14 — table catalogue: unique names, never-reused ids, empty when (re)created.
//
// A real engine (1 node; thorough also 3 nodes) is driven with seeded histories of
// create / delete / restore / list / lookup over a small set of names, interleaved with data
// operations, and judged against a catalogue model: create succeeds iff absent, ids strictly
// grow (also across delete/recreate and restore), delete succeeds iff present, list/lookup equal
// the model, a (re)created table reads empty, every operation on one table leaves every other
// table's content untouched, and after a reconciliation pass the running user shards are exactly
// the catalogued ones. Racing creations of one name: at most one succeeds. diffTables is
// additionally observed as a pure function on random (catalogue, running) sets.
package main

import (
	"context"
	"errors"
	"fmt"
	"math/rand"
	"os"
	"sort"
	"strings"
	"sync"
	"sync/atomic"
	"time"

	pb "github.com/jamf/regatta/regattapb"
	"github.com/jamf/regatta/storage"
	serrors "github.com/jamf/regatta/storage/errors"
	"github.com/jamf/regatta/storage/kv"
	"github.com/jamf/regatta/storage/table"
	"github.com/lni/dragonboat/v4"

	"verifharness/internal/cluster"
	"verifharness/internal/ev"
	"verifharness/internal/fsmx"
	"verifharness/internal/model"
	"verifharness/internal/racelog"
)

type caseID struct {
	Kind  string `json:"kind"` // history | race | diff
	Seed  int64  `json:"case_seed"`
	Nodes int    `json:"nodes"`
}

type witness struct {
	Case caseID   `json:"case"`
	Ops  []string `json:"ops"`
	What string   `json:"what"`
}

// isTimeout: the catalogue shard did not answer or was not ready (no leader known, request lost on
// its way to a leader that went away): availability, which C14 does not judge.
func isTimeout(err error) bool {
	return errors.Is(err, dragonboat.ErrTimeout) || errors.Is(err, context.DeadlineExceeded) || errors.Is(err, dragonboat.ErrShardNotReady) ||
		errors.Is(err, dragonboat.ErrSystemBusy) || strings.Contains(err.Error(), "timeout") || strings.Contains(err.Error(), "not ready")
}

// breakingReader fails after `left` bytes.
type breakingReader struct {
	r    interface{ Read([]byte) (int, error) }
	left int
}

func (b *breakingReader) Read(p []byte) (int, error) {
	if b.left <= 0 {
		return 0, errors.New("stream broken (injected)")
	}
	if len(p) > b.left {
		p = p[:b.left]
	}
	n, err := b.r.Read(p)
	b.left -= n
	return n, err
}

type mtable struct {
	id      uint64
	recover uint64 // recovery shard id left in the catalogue record by a restore that broke off
	content *model.Table
}

func main() {
	r := ev.Start("C14", "exploration")
	r.Supervise() // the engine runs in-process: its death is an outcome, observed by a supervising parent
	r.Rule("seeded histories of create/delete/restore/list/lookup over 3 names interleaved with puts, deletes and range deletes on the tables, each followed by dumps of all tables and (periodically) a reconciliation pass; " +
		"racing creations of one name from 2-8 goroutines (thorough: from different nodes); random (catalogue, running shards) sets for the pure diff. " +
		"Non-trivial cases: every re-creation of a name whose previous incarnation held data, every restore, every whole history containing both plus data operations interleaved on two tables, every racing round with a winner and >=2 racers; distinct by (history seed, operation number)")
	r.Assume("user-table shard ids are > 10000 (system shards 1000/2000 are neither started nor stopped by reconciliation)",
		"a create/delete racing with other catalogue changes may fail (the statement promises success only absent concurrent changes); only 'at most one success per name' and id uniqueness are judged there")
	if r.Replay != "" {
		var w witness
		if _, err := r.ReadReplay(&w); err != nil {
			fmt.Fprintln(os.Stderr, "replay:", err)
			os.Exit(2)
		}
		run(r, w.Case)
		r.Finish()
	}
	for i, n := 0, r.Pick(1, 4); i < n; i++ {
		run(r, caseID{"cluster", r.Seed*6_000_003 + int64(i), 3})
	}
	for i, n := 0, r.Pick(1, 10); i < n; i++ {
		nodes := 1
		if r.Thorough() && i%3 == 2 {
			nodes = 3
		}
		run(r, caseID{"history", r.Seed*1_000_003 + int64(i), nodes})
	}
	for i, n := 0, r.Pick(1, 6); i < n; i++ {
		nodes := 1
		if r.Thorough() && i%2 == 1 {
			nodes = 3
		}
		run(r, caseID{"race", r.Seed*2_000_003 + int64(i), nodes})
	}
	run(r, caseID{"diff", r.Seed, 0})
	run(r, caseID{"interleave", r.Seed*5_000_003 + 1, 1})
	run(r, caseID{"reconcile-race", r.Seed*7_000_003 + 1, 1})
	if rep := racelog.Scan(); rep != nil {
		for sig, n := range rep.Regatta {
			r.Violation(sig, fmt.Sprintf("data race report with regatta frames (x%d): %s", n, rep.Samples[sig]), nil)
		}
		r.Extra("race_reports_third_party", rep.ThirdParty)
	}
	r.FloorNontrivial(int64(r.Pick(20, 150)))
	r.FloorCount("catalogue_ops", int64(r.Pick(80, 800)))
	r.FloorCount("creates_ok", int64(r.Pick(8, 80)))
	r.FloorCount("deletes_ok", int64(r.Pick(5, 50)))
	r.FloorCount("restores_ok", int64(r.Pick(2, 20)))
	r.FloorCount("catalogue_internal_name_probes", int64(r.Pick(3, 30)))
	r.FloorCount("restores_broken_off", int64(r.Pick(1, 10)))
	r.FloorCount("recreated_tables_read_empty", int64(r.Pick(2, 20)))
	r.FloorCount("cross_table_isolation_dumps", int64(r.Pick(150, 1500)))
	r.FloorCount("reconcile_checks", int64(r.Pick(5, 50)))
	r.FloorCount("create_races", int64(r.Pick(15, 100)))
	r.FloorCount("diff_cases", int64(r.Pick(2000, 50000)))
	r.FloorCount("reconcile_passes_overlapping_a_create_or_delete", int64(r.Pick(350, 1300)))
	r.FloorCount("cluster_create_rounds_with_a_winner", int64(r.Pick(8, 40)))
	r.FloorCount("cluster_restores_on_three_nodes", int64(r.Pick(1, 4)))
	r.FloorCount("cluster_catalogue_replicas_caught_up_by_snapshot", int64(r.Pick(1, 4)))
	r.FloorCount("id_allocations_interleaved_at_the_sequence", int64(r.Pick(6, 20)))
	r.Finish()
}

func run(r *ev.Run, id caseID) {
	switch id.Kind {
	case "history":
		runHistory(r, id)
	case "race":
		runRace(r, id)
	case "diff":
		runDiff(r, id)
	case "interleave":
		runInterleave(r, id)
	case "cluster":
		runCluster(r, id)
	case "reconcile-race":
		runReconcileRace(r, id)
	}
}

func ctx10() (context.Context, context.CancelFunc) {
	return context.WithTimeout(context.Background(), 10*time.Second)
}

// dump reads a whole table linearizably, waiting (bounded) for the shard to become ready.
func dump(e *storage.Engine, name string) (*model.Table, error) {
	deadline := time.Now().Add(20 * time.Second)
	for {
		ctx, cancel := ctx10()
		seq, err := e.IterateRange(ctx, &pb.RangeRequest{Table: []byte(name), Key: []byte{0}, RangeEnd: []byte{0}, Linearizable: true})
		if err == nil {
			m := model.NewTable()
			seq(func(rr *pb.RangeResponse) bool {
				for _, kv := range rr.Kvs {
					m.M[string(kv.Key)] = kv.Value
				}
				return true
			})
			cancel()
			return m, nil
		}
		cancel()
		if errors.Is(err, serrors.ErrTableNotFound) || time.Now().After(deadline) {
			return nil, err
		}
		time.Sleep(20 * time.Millisecond)
	}
}

func runningUserShards(e *storage.Engine) []uint64 {
	var ids []uint64
	nhi := e.GetNodeHostInfo(dragonboat.DefaultNodeHostInfoOption)
	for _, s := range nhi.ShardInfoList {
		if s.ShardID > 10000 {
			ids = append(ids, s.ShardID)
		}
	}
	sort.Slice(ids, func(i, j int) bool { return ids[i] < ids[j] })
	return ids
}

func runHistory(r *ev.Run, id caseID) {
	g := rand.New(rand.NewSource(id.Seed))
	c, err := cluster.Start(cluster.Opts{Nodes: id.Nodes})
	if err != nil {
		r.Inconclusive("engine start: " + err.Error())
		return
	}
	defer c.Close()
	names := []string{"alpha", "beta", "gamma"}
	cat := map[string]*mtable{}
	var maxID uint64
	w := witness{Case: id}
	fail := func(sig, what string) {
		w.What = what
		r.Violation(sig, what, w)
	}
	var valCtr int
	hadDataDeleted := map[string]bool{}
	var sawRecreate, sawRestore bool
	dataTables := map[string]bool{}
	eng := func() *storage.Engine { return c.Nodes[g.Intn(len(c.Nodes))].Engine }
	isolation := func(except string) bool {
		for n, t := range cat {
			if n == except {
				continue
			}
			d, err := dump(c.Nodes[0].Engine, n)
			if err != nil {
				r.Inconclusive("dump of " + n + ": " + err.Error())
				return false
			}
			r.Count("cross_table_isolation_dumps", 1)
			if why := fsmx.DiffContent(d, t.content); why != "" {
				fail("operation-changed-another-table", fmt.Sprintf("after %s table %q changed: %s", w.Ops[len(w.Ops)-1], n, why))
				return false
			}
		}
		return true
	}
	nops := r.Pick(500, 800)
	for i := 0; i < nops; i++ {
		name := names[g.Intn(len(names))]
		e := eng()
		t, exists := cat[name]
		switch k := g.Intn(100); {
		case k < 14: // create
			w.Ops = append(w.Ops, fmt.Sprintf("create(%s)", name))
			tb, err := e.CreateTable(name)
			r.Count("catalogue_ops", 1)
			if exists {
				if err == nil {
					fail("create-succeeded-for-existing-name", fmt.Sprintf("create(%s) succeeded although the table exists (id %d), new id %d", name, t.id, tb.ClusterID))
					return
				}
				if !errors.Is(err, serrors.ErrTableExists) {
					r.Count("create_existing_failed_with_other_error", 1)
				}
				continue
			}
			if err != nil {
				fail("create-failed-for-absent-name", fmt.Sprintf("create(%s) failed without any concurrent catalogue change: %v", name, err))
				return
			}
			if tb.ClusterID <= maxID {
				fail("table-id-reused", fmt.Sprintf("create(%s) got id %d, but id %d had been assigned before", name, tb.ClusterID, maxID))
				return
			}
			maxID = tb.ClusterID
			cat[name] = &mtable{id: tb.ClusterID, content: model.NewTable()}
			r.Count("creates_ok", 1)
			c.ReconcileAll()
			d, err := dump(e, name)
			if err != nil {
				r.Inconclusive("dump after create: " + err.Error())
				return
			}
			if len(d.M) != 0 {
				fail("new-table-not-empty", fmt.Sprintf("freshly created table %q (id %d) holds %d pairs", name, tb.ClusterID, len(d.M)))
				return
			}
			if hadDataDeleted[name] {
				r.Count("recreated_tables_read_empty", 1)
				sawRecreate = true
				r.Nontrivial(fmt.Sprint("recreate", id.Seed, i))
			}
		case k < 22: // delete
			w.Ops = append(w.Ops, fmt.Sprintf("delete(%s)", name))
			err := e.DeleteTable(name)
			r.Count("catalogue_ops", 1)
			if !exists {
				if err == nil {
					fail("delete-succeeded-for-absent-name", fmt.Sprintf("delete(%s) succeeded although no such table exists", name))
					return
				}
				continue
			}
			if err != nil {
				fail("delete-failed-for-existing-name", fmt.Sprintf("delete(%s) failed: %v", name, err))
				return
			}
			if len(t.content.M) > 0 {
				hadDataDeleted[name] = true
			}
			delete(cat, name)
			r.Count("deletes_ok", 1)
		case k < 27 && exists && g.Intn(3) == 0: // a restore of an existing table that breaks off in mid-stream
			var kvs []model.KV
			for j := 0; j < 40; j++ {
				valCtr++
				kvs = append(kvs, model.KV{K: fmt.Sprintf("broken%02d", j), V: append([]byte(fmt.Sprintf("from-broken-stream-%d|", valCtr)), make([]byte, 2000)...)})
			}
			rd, cleanup, err := cluster.SnapshotStream(name, kvs, nil)
			if err != nil {
				r.Inconclusive("snapshot stream: " + err.Error())
				return
			}
			w.Ops = append(w.Ops, fmt.Sprintf("restore(%s) whose stream breaks off", name))
			err = e.Restore(name, &breakingReader{r: rd, left: 3000 + g.Intn(60000)})
			cleanup()
			r.Count("catalogue_ops", 1)
			if err == nil {
				fail("restore-succeeded-on-broken-stream", fmt.Sprintf("restore(%s) reported success although its stream ended with an error", name))
				return
			}
			// whatever id the attempt consumed is an id "assigned before" for everything that follows;
			// the table itself is still there with its id and content
			nt, gerr := e.GetTable(name)
			if gerr != nil || nt.ClusterID != t.id {
				fail("failed-restore-changed-the-catalogue", fmt.Sprintf("after the failed restore(%s) lookup gives id %d err %v, before it was id %d", name, nt.ClusterID, gerr, t.id))
				return
			}
			if nt.RecoverID != 0 {
				if nt.RecoverID <= maxID {
					fail("table-id-reused", fmt.Sprintf("the restore(%s) that broke off was given recovery shard id %d, but id %d had been assigned before", name, nt.RecoverID, maxID))
					return
				}
				maxID = nt.RecoverID
				t.recover = nt.RecoverID
			}
			c.ReconcileAll()
			d, derr := dump(e, name)
			if derr != nil {
				r.Inconclusive("dump after failed restore: " + derr.Error())
				return
			}
			if why := fsmx.DiffContent(d, t.content); why != "" {
				fail("failed-restore-changed-the-table", fmt.Sprintf("failed restore(%s): %s", name, why))
				return
			}
			r.Count("restores_broken_off", 1)
		case k < 27: // restore
			var kvs []model.KV
			for j, n := 0, g.Intn(8); j < n; j++ {
				valCtr++
				kvs = append(kvs, model.KV{K: fmt.Sprintf("r%d", g.Intn(10)), V: []byte(fmt.Sprintf("restored-%d", valCtr))})
			}
			exp := model.NewTable()
			for _, kv := range kvs {
				exp.M[kv.K] = kv.V
			}
			w.Ops = append(w.Ops, fmt.Sprintf("restore(%s, %d pairs)", name, len(exp.M)))
			rd, cleanup, err := cluster.SnapshotStream(name, kvs, nil)
			if err != nil {
				r.Inconclusive("snapshot stream: " + err.Error())
				return
			}
			err = e.Restore(name, rd)
			cleanup()
			r.Count("catalogue_ops", 1)
			if err != nil {
				fail("restore-failed", fmt.Sprintf("restore(%s) failed: %v", name, err))
				return
			}
			nt, err := e.GetTable(name)
			if err != nil {
				fail("restored-table-not-in-catalogue", err.Error())
				return
			}
			if nt.ClusterID <= maxID {
				fail("table-id-reused", fmt.Sprintf("restore(%s) gave the table id %d, but id %d had been assigned before", name, nt.ClusterID, maxID))
				return
			}
			maxID = nt.ClusterID
			cat[name] = &mtable{id: nt.ClusterID, content: exp}
			c.ReconcileAll()
			d, err := dump(e, name)
			if err != nil {
				r.Inconclusive("dump after restore: " + err.Error())
				return
			}
			if why := fsmx.DiffContent(d, exp); why != "" {
				fail("restored-content-differs", fmt.Sprintf("restore(%s): %s", name, why))
				return
			}
			r.Count("restores_ok", 1)
			sawRestore = true
			r.Nontrivial(fmt.Sprint("restore", id.Seed, i))
		case k < 29: // names that are not tables but look into the catalogue
			probes := []string{"sys/idseq", "sys", name + "/", "../tables/" + name, name + "/..", "sys/idseq/"}
			n := probes[g.Intn(len(probes))]
			if _, isTable := cat[n]; isTable {
				continue
			}
			w.Ops = append(w.Ops, fmt.Sprintf("delete(%q), lookup(%q), restore(%q)", n, n, n))
			if err := e.DeleteTable(n); err == nil {
				fail("delete-succeeded-for-unknown-name", fmt.Sprintf("delete(%q) succeeded although no table of that name exists", n))
				return
			}
			if _, err := e.GetTable(n); err == nil {
				fail("lookup-differs-from-catalogue", fmt.Sprintf("lookup(%q) found a table although none of that name was created", n))
				return
			}
			if strings.Contains(n, "/") {
				rd, cleanup, err := cluster.SnapshotStream(n, []model.KV{{K: "k", V: []byte("v")}}, nil)
				if err != nil {
					r.Inconclusive("snapshot stream: " + err.Error())
					return
				}
				rerr := e.Restore(n, rd)
				cleanup()
				if rerr == nil {
					// whatever a restore into such a name does, the catalogue must stay what the model says;
					// the next creations and listings judge that. A success is recorded.
					r.Count("restores_into_catalogue_internal_names_answered_ok", 1)
				}
			}
			r.Count("catalogue_ops", 3)
			r.Count("catalogue_internal_name_probes", 1)
		case k < 34: // list + lookups
			w.Ops = append(w.Ops, "list")
			ts, err := e.GetTables()
			r.Count("catalogue_ops", 1)
			if err != nil {
				fail("list-failed", err.Error())
				return
			}
			got := map[string]uint64{}
			for _, t := range ts {
				got[t.Name] = t.ClusterID
			}
			if len(got) != len(cat) {
				fail("list-differs-from-catalogue", fmt.Sprintf("list returned %v, model has %d tables", got, len(cat)))
				return
			}
			for n, t := range cat {
				if got[n] != t.id {
					fail("list-differs-from-catalogue", fmt.Sprintf("list says %s has id %d, model %d", n, got[n], t.id))
					return
				}
			}
			for _, n := range names {
				at, err := e.GetTable(n)
				if mt, ok := cat[n]; ok {
					if err != nil || at.ClusterID != mt.id {
						fail("lookup-differs-from-catalogue", fmt.Sprintf("lookup(%s) = id %d err %v, model id %d", n, at.ClusterID, err, mt.id))
						return
					}
				} else if !errors.Is(err, serrors.ErrTableNotFound) {
					fail("lookup-differs-from-catalogue", fmt.Sprintf("lookup(%s) of a non-existing table: err %v", n, err))
					return
				}
			}
			continue
		case k < 40: // reconcile + running shards
			w.Ops = append(w.Ops, "reconcile")
			c.ReconcileAll()
			var want []uint64
			for _, t := range cat {
				want = append(want, t.id)
				if t.recover != 0 {
					want = append(want, t.recover) // still catalogued (recover_id of the record)
				}
			}
			sort.Slice(want, func(i, j int) bool { return want[i] < want[j] })
			for _, n := range c.Nodes {
				got := runningUserShards(n.Engine)
				if fmt.Sprint(got) != fmt.Sprint(want) {
					// starting a replica is asynchronous inside dragonboat only w.r.t. leadership, not w.r.t. the shard list
					fail("running-shards-differ-from-catalogue-after-reconcile", fmt.Sprintf("node %d runs user shards %v, catalogue has %v", n.ID, got, want))
					return
				}
			}
			r.Count("reconcile_checks", 1)
			continue
		default: // data operation
			if !exists {
				continue
			}
			ctx, cancel := ctx10()
			valCtr++
			key := []byte(fmt.Sprintf("k%d", g.Intn(6)))
			var err error
			switch g.Intn(4) {
			case 0, 1:
				val := []byte(fmt.Sprintf("%s-%d", name, valCtr))
				w.Ops = append(w.Ops, fmt.Sprintf("put(%s,%s)", name, key))
				_, err = retry(func() error { _, e := e.Put(ctx, &pb.PutRequest{Table: []byte(name), Key: key, Value: val}); return e })
				if err == nil {
					t.content.M[string(key)] = val
				}
			case 2:
				w.Ops = append(w.Ops, fmt.Sprintf("del(%s,%s)", name, key))
				_, err = retry(func() error { _, e := e.Delete(ctx, &pb.DeleteRangeRequest{Table: []byte(name), Key: key}); return e })
				if err == nil {
					delete(t.content.M, string(key))
				}
			case 3:
				w.Ops = append(w.Ops, fmt.Sprintf("delrange(%s,all)", name))
				_, err = retry(func() error {
					_, e := e.Delete(ctx, &pb.DeleteRangeRequest{Table: []byte(name), Key: []byte{0}, RangeEnd: []byte{0}})
					return e
				})
				if err == nil {
					t.content = model.NewTable()
				}
			}
			cancel()
			if err != nil {
				r.Inconclusive("data operation failed: " + err.Error())
				return
			}
			dataTables[name] = true
			r.Count("data_ops", 1)
			d, err := dump(e, name)
			if err != nil || fsmx.DiffContent(d, t.content) != "" {
				fail("table-content-differs", fmt.Sprintf("%s after %s: %v %s", name, w.Ops[len(w.Ops)-1], err, fsmx.DiffContent(d, t.content)))
				return
			}
		}
		if !isolation("") {
			return
		}
		// multi-node clusters: catalogue reads are served by each node's local replica, which may lag
		// the node that made the change by a few milliseconds. Before the next operation (possibly
		// on another node) every node's listing must have caught up with the model — bounded; a
		// replica that never catches up is a violation, the lag itself is not.
		if len(c.Nodes) > 1 {
			deadline := time.Now().Add(10 * time.Second)
			for {
				lag := ""
				for _, n := range c.Nodes {
					ts, err := n.Engine.GetTables()
					if err != nil {
						lag = err.Error()
						break
					}
					got := map[string]uint64{}
					for _, t := range ts {
						got[t.Name] = t.ClusterID
					}
					if len(got) != len(cat) {
						lag = fmt.Sprintf("node %d lists %v", n.ID, got)
						break
					}
					for name, t := range cat {
						if got[name] != t.id {
							lag = fmt.Sprintf("node %d lists %v", n.ID, got)
						}
					}
				}
				if lag == "" {
					break
				}
				if time.Now().After(deadline) {
					fail("catalogue-replica-does-not-catch-up", fmt.Sprintf("10 s after %s: %s, model has %d tables", w.Ops[len(w.Ops)-1], lag, len(cat)))
					return
				}
				time.Sleep(5 * time.Millisecond)
			}
		}
	}
	r.Eval(1)
	if sawRecreate && sawRestore && len(dataTables) >= 2 {
		r.Nontrivial(fmt.Sprint(id.Seed))
	}
	r.Sample(map[string]any{"kind": "history", "nodes": id.Nodes, "ops": head(w.Ops, 14), "ids_assigned_up_to": maxID})
}

func retry(f func() error) (int, error) {
	var err error
	for i := 0; i < 100; i++ {
		if err = f(); err == nil || !(serrors.IsSafeToRetry(err) || errors.Is(err, dragonboat.ErrShardNotFound) || errors.Is(err, dragonboat.ErrShardNotReady)) {
			return i, err
		}
		time.Sleep(20 * time.Millisecond)
	}
	return 100, err
}

func head(s []string, n int) []string {
	if len(s) > n {
		return append(append([]string{}, s[:n]...), fmt.Sprintf("… %d more", len(s)-n))
	}
	return s
}

func runRace(r *ev.Run, id caseID) {
	g := rand.New(rand.NewSource(id.Seed))
	c, err := cluster.Start(cluster.Opts{Nodes: id.Nodes})
	if err != nil {
		r.Inconclusive("engine start: " + err.Error())
		return
	}
	defer c.Close()
	allIDs := map[uint64]string{}
	for round, n := 0, r.Pick(36, 80); round < n; round++ {
		k := 2 + g.Intn(7)
		sameName := g.Intn(3) == 0
		if !sameName {
			k = 2 + g.Intn(3) // few racers: a create is then likely to overlap a restore's id allocation
		}
		var wg sync.WaitGroup
		type res struct {
			name string
			t    table.Table
			err  error
		}
		out := make([]res, k)
		start := make(chan struct{})
		for i := 0; i < k; i++ {
			name := fmt.Sprintf("race-%d", round)
			if !sameName {
				name = fmt.Sprintf("race-%d-%d", round, i%3)
			}
			out[i].name = name
			e := c.Nodes[i%len(c.Nodes)].Engine
			// id allocations also race through Restore (which does not take the manager's lock):
			// in rounds with distinct names every third racer restores an empty stream instead
			restore := !sameName && i%2 == 1
			if restore {
				out[i].name = fmt.Sprintf("race-%d-restored-%d", round, i)
			}
			wg.Add(1)
			go func(i int) {
				defer wg.Done()
				<-start
				if restore {
					rd, cleanup, err := cluster.SnapshotStream(out[i].name, nil, nil)
					if err != nil {
						out[i].err = err
						return
					}
					out[i].err = e.Restore(out[i].name, rd)
					cleanup()
					if out[i].err == nil {
						at, err := e.GetTable(out[i].name)
						out[i].t, out[i].err = at.Table, err
					}
					return
				}
				out[i].t, out[i].err = e.CreateTable(out[i].name)
			}(i)
			if restore {
				r.Count("race_restores", 1)
			}
		}
		close(start)
		wg.Wait()
		succ := map[string]int{}
		var desc []string
		for _, o := range out {
			desc = append(desc, fmt.Sprintf("%s:%v", o.name, o.err))
			if o.err != nil {
				r.Distinct("race_error_kinds", fmt.Sprint(o.err))
				if strings.Contains(o.err.Error(), "version mismatch") {
					r.Count("race_allocations_that_lost_the_id_sequence_cas", 1)
				}
			}
			if o.err == nil {
				succ[o.name]++
				if prev, dup := allIDs[o.t.ClusterID]; dup {
					r.Violation("table-id-assigned-twice", fmt.Sprintf("racing creations: id %d given to %q and to %q", o.t.ClusterID, prev, o.name), witness{Case: id, Ops: desc})
					return
				}
				allIDs[o.t.ClusterID] = o.name
			}
		}
		for n, s := range succ {
			if s > 1 {
				r.Violation("racing-creations-of-one-name-both-succeed", fmt.Sprintf("%d racing creations of %q succeeded", s, n), witness{Case: id, Ops: desc})
				return
			}
		}
		// the catalogue lists each name at most once and exactly the successful ones
		ts, err := c.Nodes[0].Engine.GetTables()
		if err != nil {
			r.Inconclusive("list: " + err.Error())
			return
		}
		seen := map[string]int{}
		byID := map[uint64]string{}
		for _, t := range ts {
			seen[t.Name]++
			for _, idv := range []uint64{t.ClusterID, t.RecoverID} {
				if idv == 0 {
					continue
				}
				if prev, dup := byID[idv]; dup && prev != t.Name {
					r.Violation("two-catalogue-entries-share-a-shard-id", fmt.Sprintf("after racing creations/restores the catalogue lists %q and %q under the same shard id %d", prev, t.Name, idv), witness{Case: id, Ops: desc})
					return
				}
				byID[idv] = t.Name
			}
		}
		for n := range succ {
			if seen[n] != 1 {
				r.Violation("created-table-missing-from-list", fmt.Sprintf("%q was created successfully but is listed %d times", n, seen[n]), witness{Case: id, Ops: desc})
				return
			}
		}
		if os.Getenv("C14_DEBUG") != "" {
			fmt.Fprintln(os.Stderr, "RACE", desc)
			for _, t := range ts {
				fmt.Fprintf(os.Stderr, "   LISTED %s cluster=%d recover=%d\n", t.Name, t.ClusterID, t.RecoverID)
			}
		}
		r.Count("create_races", 1)
		if len(succ) > 0 && k >= 2 {
			r.Nontrivial(fmt.Sprint("race", id.Seed, round))
		}
		if len(succ) > 0 {
			r.Count("create_races_with_a_winner", 1)
		}
	}
	r.Eval(1)
	r.Sample(map[string]any{"kind": "race", "nodes": id.Nodes, "ids_assigned": len(allIDs)})
}

// runDiff observes the pure catalogue-vs-running diff through the export shim.
func runDiff(r *ev.Run, id caseID) {
	g := rand.New(rand.NewSource(id.Seed))
	for i, n := 0, r.Pick(3000, 60000); i < n; i++ {
		tabs := map[string]table.Table{}
		want := map[uint64]bool{}
		for j, m := 0, g.Intn(6); j < m; j++ {
			t := table.Table{Name: fmt.Sprintf("t%d", j), ClusterID: 10001 + uint64(g.Intn(12))}
			if g.Intn(4) == 0 {
				t.RecoverID = 10001 + uint64(g.Intn(12))
			}
			if g.Intn(10) == 0 {
				t.ClusterID = 0 // table being restored for the first time: only a recover id
				t.RecoverID = 10001 + uint64(g.Intn(12))
			}
			tabs[t.Name] = t
			if t.ClusterID != 0 {
				want[t.ClusterID] = true
			}
			if t.RecoverID != 0 {
				want[t.RecoverID] = true
			}
		}
		running := map[uint64]bool{1000: true}
		if g.Intn(2) == 0 {
			running[2000] = true
		}
		var info []dragonboat.ShardInfo
		for j, m := 0, g.Intn(8); j < m; j++ {
			running[10001+uint64(g.Intn(12))] = true
		}
		for idv := range running {
			info = append(info, dragonboat.ShardInfo{ShardID: idv})
		}
		start, stop := table.VerifDiffTables(tabs, info)
		for idv := range want {
			_, st := start[idv]
			if st == running[idv] {
				r.Violation("diff-start-set-wrong", fmt.Sprintf("catalogue ids %v running %v: id %d start=%v", keys(want), keys(running), idv, st), nil)
				return
			}
		}
		for idv := range start {
			if !want[idv] || running[idv] {
				r.Violation("diff-start-set-wrong", fmt.Sprintf("catalogue ids %v running %v: id %d must not be started", keys(want), keys(running), idv), nil)
				return
			}
		}
		stopSet := map[uint64]bool{}
		for _, s := range stop {
			stopSet[s] = true
		}
		for idv := range running {
			should := idv > 10000 && !want[idv]
			if stopSet[idv] != should {
				r.Violation("diff-stop-set-wrong", fmt.Sprintf("catalogue ids %v running %v: id %d stop=%v, want %v", keys(want), keys(running), idv, stopSet[idv], should), nil)
				return
			}
		}
		if len(stopSet) != len(stop) {
			r.Violation("diff-stop-set-wrong", "duplicate ids in the stop list", nil)
			return
		}
		r.Count("diff_cases", 1)
	}
	r.Eval(1)
}

func keys(m map[uint64]bool) []uint64 {
	var out []uint64
	for k := range m {
		out = append(out, k)
	}
	sort.Slice(out, func(i, j int) bool { return out[i] < out[j] })
	return out
}

// gateStore wraps the real Raft-backed catalogue store; when armed it parks the caller right
// after it has READ the id sequence, so that another allocation can be placed exactly between the
// read and the write of the sequence (the window a distributed race has to hit).
type gateStore struct {
	inner  *kv.RaftStore
	armed  atomic.Bool
	parked chan struct{}
	resume chan struct{}
}

func (g *gateStore) Exists(key string) (bool, error)                    { return g.inner.Exists(key) }
func (g *gateStore) Set(key, value string, ver uint64) (kv.Pair, error) { return g.inner.Set(key, value, ver) }
func (g *gateStore) Delete(key string, ver uint64) error                { return g.inner.Delete(key, ver) }
func (g *gateStore) GetAll(pattern string) ([]kv.Pair, error)           { return g.inner.GetAll(pattern) }
func (g *gateStore) Get(key string) (kv.Pair, error) {
	p, err := g.inner.Get(key)
	if key == "/tables/sys/idseq" && g.armed.CompareAndSwap(true, false) {
		g.parked <- struct{}{}
		<-g.resume
	}
	return p, err
}

// runInterleave places a second id allocation exactly between the read and the write of the id
// sequence of a first one (create vs create, restore vs create, create vs restore), through a second
// real table.Manager on the same NodeHost whose catalogue store is gated.
func runInterleave(r *ev.Run, id caseID) {
	g := rand.New(rand.NewSource(id.Seed))
	c, err := cluster.Start(cluster.Opts{Nodes: 1})
	if err != nil {
		r.Inconclusive("engine start: " + err.Error())
		return
	}
	defer c.Close()
	e := c.Nodes[0].Engine
	gs := &gateStore{inner: &kv.RaftStore{NodeHost: e.NodeHost, ClusterID: 1000}, parked: make(chan struct{}), resume: make(chan struct{})}
	cfg := c.Nodes[0].Cfg
	m2 := table.NewManager(e.NodeHost, cfg.InitialMembers, gs, table.Config{NodeID: cfg.NodeID, Table: table.TableConfig(cfg.Table), Meta: table.MetaConfig(cfg.Meta)})
	var assigned []uint64
	for round, n := 0, r.Pick(9, 30); round < n; round++ {
		kind := []string{"create-vs-create", "restore-vs-create", "create-vs-restore"}[round%3]
		a, b := fmt.Sprintf("il-%d-a", round), fmt.Sprintf("il-%d-b", round)
		w := witness{Case: id, Ops: []string{kind, "first allocation (gated manager) reads the id sequence", "second allocation runs to completion", "first allocation writes the id sequence"}}
		type res struct {
			id  uint64
			err error
		}
		first := make(chan res, 1)
		gs.armed.Store(true)
		go func() {
			if kind == "restore-vs-create" {
				rd, cleanup, err := cluster.SnapshotStream(a, nil, nil)
				if err != nil {
					first <- res{0, err}
					return
				}
				err = m2.Restore(a, rd)
				cleanup()
				first <- res{0, err}
				return
			}
			t, err := m2.CreateTable(a)
			first <- res{t.ClusterID, err}
		}()
		select {
		case <-gs.parked:
		case rr := <-first:
			gs.armed.Store(false)
			r.Inconclusive(fmt.Sprintf("%s: the first allocation finished without reading the id sequence (%v)", kind, rr.err))
			continue
		case <-time.After(30 * time.Second):
			r.Inconclusive("gated allocation never reached the id sequence")
			return
		}
		var second res
		if kind == "create-vs-restore" {
			rd, cleanup, err := cluster.SnapshotStream(b, nil, nil)
			if err == nil {
				err = e.Restore(b, rd)
				cleanup()
			}
			second.err = err
		} else {
			t, err := e.CreateTable(b)
			second = res{t.ClusterID, err}
		}
		gs.resume <- struct{}{}
		var fr res
		select {
		case fr = <-first:
		case <-time.After(90 * time.Second):
			r.Inconclusive("gated allocation did not finish")
			return
		}
		_ = g
		// judge through the catalogue: no two entries share a shard id, ids only grow
		ts, err := e.GetTables()
		if err != nil {
			r.Inconclusive("list: " + err.Error())
			return
		}
		byID := map[uint64]string{}
		for _, t := range ts {
			for _, idv := range []uint64{t.ClusterID, t.RecoverID} {
				if idv == 0 {
					continue
				}
				if prev, dup := byID[idv]; dup && prev != t.Name {
					w.What = fmt.Sprintf("%s: the catalogue lists %q and %q under the same shard id %d (first: err %v, second: err %v)", kind, prev, t.Name, idv, fr.err, second.err)
					r.Violation("two-catalogue-entries-share-a-shard-id", w.What, w)
					return
				}
				byID[idv] = t.Name
			}
		}
		for _, t := range ts {
			if t.Name == a || t.Name == b {
				for _, old := range assigned {
					if t.ClusterID == old {
						w.What = fmt.Sprintf("%s: table %q got shard id %d which had been assigned before", kind, t.Name, old)
						r.Violation("table-id-reused", w.What, w)
						return
					}
				}
			}
		}
		for _, t := range ts {
			if t.Name == a || t.Name == b {
				assigned = append(assigned, t.ClusterID)
			}
		}
		r.Count("id_allocations_interleaved_at_the_sequence", 1)
		r.Distinct("interleave_outcomes", fmt.Sprintf("%s first-err=%v second-err=%v", kind, fr.err != nil, second.err != nil))
	}
	r.Eval(1)
	r.Sample(map[string]any{"kind": "interleave", "rounds": r.Pick(9, 30), "ids_assigned": len(assigned)})
}

// runCluster: a three-node cluster whose nodes reconcile continuously (every 100 ms instead of
// every 30 s). (1) a table is restored through one node while the other nodes only learn about
// the recovery shard from the catalogue; (2) one node is down while a table is deleted and the
// catalogue shard takes snapshots and compacts its log, then comes back and catches up: on every
// node listing, lookup and the running shards must be those of the created-and-not-deleted tables.
func runCluster(r *ev.Run, id caseID) {
	g := rand.New(rand.NewSource(id.Seed))
	c, err := cluster.Start(cluster.Opts{Nodes: 3, RTT: 10, ElectionRTT: 20, MetaSnapshotEntries: 10, MetaCompactionOverhead: 8})
	if err != nil {
		r.Inconclusive("engine start: " + err.Error())
		return
	}
	defer c.Close()
	w := witness{Case: id}
	fail := func(sig, what string) {
		w.What = what
		r.Violation(sig, what, w)
	}
	var live [3]atomic.Bool
	for i := range live {
		live[i].Store(true)
	}
	var stopRec atomic.Bool
	var rwg sync.WaitGroup
	rwg.Add(1)
	go func() {
		defer rwg.Done()
		for !stopRec.Load() {
			for i := range c.Nodes {
				if live[i].Load() {
					func() {
						defer func() { _ = recover() }()
						_ = c.Nodes[i].Engine.Manager.VerifReconcile()
					}()
				}
			}
			time.Sleep(100 * time.Millisecond)
		}
	}()
	defer func() { stopRec.Store(true); rwg.Wait() }()
	e0 := c.Nodes[0].Engine
	var maxID uint64
	content := map[string]*model.Table{}
	create := func(e *storage.Engine, name string) bool {
		w.Ops = append(w.Ops, "create("+name+")")
		tb, err := e.CreateTable(name)
		for a := 0; a < 3 && err != nil && isTimeout(err); a++ {
			// the catalogue shard did not answer in time (elections, snapshot catch-up of a replica):
			// an availability hiccup, not what is judged here. The attempt may have taken effect.
			r.Count("catalogue_timeouts_retried", 1)
			if at, gerr := e.GetTable(name); gerr == nil && at.ClusterID > maxID {
				tb, err = at.Table, nil
				break
			}
			time.Sleep(200 * time.Millisecond)
			tb, err = e.CreateTable(name)
		}
		r.Count("catalogue_ops", 1)
		if err != nil && isTimeout(err) {
			r.Inconclusive("create(" + name + ") kept timing out: " + err.Error())
			return false
		}
		if err != nil {
			fail("create-failed-for-free-name", fmt.Sprintf("create(%s) failed: %v", name, err))
			return false
		}
		if tb.ClusterID <= maxID {
			fail("table-id-reused", fmt.Sprintf("create(%s) gave id %d, but id %d had been assigned before", name, tb.ClusterID, maxID))
			return false
		}
		maxID = tb.ClusterID
		content[name] = model.NewTable()
		return true
	}
	put := func(name, k, v string) bool {
		var err error
		for a := 0; a < 100; a++ {
			ctx, cancel := ctx10()
			_, err = e0.Put(ctx, &pb.PutRequest{Table: []byte(name), Key: []byte(k), Value: []byte(v)})
			cancel()
			if err == nil {
				content[name].M[k] = []byte(v)
				return true
			}
			time.Sleep(50 * time.Millisecond)
		}
		r.Inconclusive("put into " + name + ": " + err.Error())
		return false
	}
	for _, n := range []string{"keep", "gone"} {
		if !create(e0, n) {
			return
		}
		for j := 0; j < 4; j++ {
			if !put(n, fmt.Sprintf("k%d", j), fmt.Sprintf("%s-%d", n, g.Intn(1000))) {
				return
			}
		}
	}
	// (1) restore through node 2; nodes 1 and 3 start the recovery shard when they reconcile
	{
		var kvs []model.KV
		exp := model.NewTable()
		for j := 0; j < 6; j++ {
			kv := model.KV{K: fmt.Sprintf("r%d", j), V: []byte(fmt.Sprintf("restored-%d", g.Intn(1000)))}
			kvs = append(kvs, kv)
			exp.M[kv.K] = kv.V
		}
		rd, cleanup, err := cluster.SnapshotStream("keep", kvs, nil)
		if err != nil {
			r.Inconclusive("snapshot stream: " + err.Error())
			return
		}
		w.Ops = append(w.Ops, "restore(keep) through node 2 of 3")
		err = c.Nodes[1].Engine.Restore("keep", rd)
		cleanup()
		r.Count("catalogue_ops", 1)
		if err != nil {
			// which half failed: reconciliation (the catalogued recovery shard never started on the
			// other nodes: judged) or the availability of a started shard (not judged)?
			rec, _ := c.Nodes[1].Engine.GetTable("keep")
			missing := ""
			if rec.RecoverID != 0 {
				for i, n := range c.Nodes {
					runs := false
					for a := 0; a < 30 && !runs; a++ {
						for _, sid := range runningUserShards(n.Engine) {
							runs = runs || sid == rec.RecoverID
						}
						if !runs {
							time.Sleep(100 * time.Millisecond)
						}
					}
					if !runs {
						missing += fmt.Sprintf(" node %d runs %v;", i+1, runningUserShards(n.Engine))
					}
				}
			}
			if missing != "" {
				fail("restore-failed", fmt.Sprintf("restore(keep) through node 2 of a three-node cluster whose nodes reconcile every 100 ms failed (%v): the catalogue record carries recovery shard %d, which is not running on:%s", err, rec.RecoverID, missing))
				return
			}
			if isTimeout(err) {
				r.Inconclusive("restore(keep) on three nodes: " + err.Error() + " although every node runs the recovery shard")
				return
			}
			fail("restore-failed", fmt.Sprintf("restore(keep) through node 2 of a three-node cluster failed: %v", err))
			return
		}
		nt, err := c.Nodes[1].Engine.GetTable("keep")
		if err != nil {
			fail("restored-table-not-in-catalogue", err.Error())
			return
		}
		if nt.ClusterID <= maxID {
			fail("table-id-reused", fmt.Sprintf("restore(keep) gave the table id %d, but id %d had been assigned before", nt.ClusterID, maxID))
			return
		}
		maxID = nt.ClusterID
		content["keep"] = exp
		for i, n := range c.Nodes {
			var d *model.Table
			var err error
			for a := 0; a < 100; a++ { // the node's own catalogue view may lag (stale reads): bounded wait
				if at, gerr := n.Engine.GetTable("keep"); gerr == nil && at.ClusterID == nt.ClusterID {
					d, err = dump(n.Engine, "keep")
					if err == nil {
						break
					}
				}
				time.Sleep(100 * time.Millisecond)
			}
			if d == nil {
				r.Inconclusive(fmt.Sprintf("node %d never served the restored table: %v", i+1, err))
				return
			}
			if why := fsmx.DiffContent(d, exp); why != "" {
				fail("restored-content-differs", fmt.Sprintf("restore(keep) read through node %d: %s", i+1, why))
				return
			}
		}
		r.Count("cluster_restores_on_three_nodes", 1)
		r.Count("restores_ok", 1)
		r.Nontrivial(fmt.Sprint("cluster-restore", id.Seed))
	}
	// (1b) creations issued through all three nodes at the same instant (their catalogue writes can
	// be committed and applied together): of one name at most one succeeds; whatever succeeds gets
	// an id of its own, greater than every id assigned before the round
	for round, nr := 0, r.Pick(12, 60); round < nr; round++ {
		same := round%2 == 0
		type res struct {
			name string
			id   uint64
			err  error
		}
		out := make([]res, 3)
		var wg sync.WaitGroup
		start := make(chan struct{})
		for i := range c.Nodes {
			out[i].name = fmt.Sprintf("race%d", round)
			if !same {
				out[i].name = fmt.Sprintf("race%d-n%d", round, i+1)
			}
			wg.Add(1)
			go func(i int) {
				defer wg.Done()
				<-start
				tb, err := c.Nodes[i].Engine.CreateTable(out[i].name)
				out[i].id, out[i].err = tb.ClusterID, err
			}(i)
		}
		close(start)
		wg.Wait()
		w.Ops = append(w.Ops, fmt.Sprintf("round %d: create(%s), create(%s), create(%s) through nodes 1, 2, 3 at once", round, out[0].name, out[1].name, out[2].name))
		r.Count("catalogue_ops", 3)
		okN := 0
		ids := map[uint64]string{}
		roundMax := maxID
		for i, o := range out {
			if o.err != nil {
				continue
			}
			okN++
			if prev, dup := ids[o.id]; dup {
				fail("table-id-reused", fmt.Sprintf("creations through different nodes at once: %s and %s (node %d) were both given shard id %d", prev, o.name, i+1, o.id))
				return
			}
			ids[o.id] = o.name
			if o.id <= maxID {
				fail("table-id-reused", fmt.Sprintf("create(%s) through node %d gave id %d, but id %d had been assigned before the round", o.name, i+1, o.id, maxID))
				return
			}
			if o.id > roundMax {
				roundMax = o.id
			}
		}
		maxID = roundMax
		if same && okN > 1 {
			fail("racing-creations-both-succeed", fmt.Sprintf("create(%s) issued through three nodes at once succeeded %d times (ids %v)", out[0].name, okN, ids))
			return
		}
		r.Count("cluster_create_rounds_across_nodes", 1)
		if okN > 0 {
			r.Count("cluster_create_rounds_with_a_winner", 1)
		}
		// tidy up. Catalogue reads are served from the local replica of the node asked, which may
		// lag behind a write acknowledged through another node: wait (bounded) until the three
		// listings agree, then delete whatever the round left (also creations answered with an
		// error: the record may exist although the call failed later on) through node 1.
		for _, o := range out {
			if o.err != nil {
				r.Count("cluster_racing_creates_answered_with_an_error", 1)
			}
		}
		for a := 0; a < 100; a++ {
			var ls [3]string
			for i, n := range c.Nodes {
				ts, _ := n.Engine.GetTables()
				var names []string
				for _, t := range ts {
					names = append(names, t.Name)
				}
				sort.Strings(names)
				ls[i] = fmt.Sprint(names)
			}
			if ls[0] == ls[1] && ls[1] == ls[2] {
				break
			}
			time.Sleep(50 * time.Millisecond)
		}
		for a := 0; a < 40; a++ {
			ts, err := e0.GetTables()
			left := 0
			for _, t := range ts {
				if strings.HasPrefix(t.Name, "race") {
					left++
					_ = e0.DeleteTable(t.Name)
				}
			}
			if err == nil && left == 0 {
				break
			}
			time.Sleep(50 * time.Millisecond)
		}
	}
	// (2) node 3 down; delete + catalogue churn (snapshots, log compaction); node 3 back
	live[2].Store(false)
	time.Sleep(150 * time.Millisecond)
	c.StopNode(2)
	// wait (bounded) until the two remaining nodes agree on a live leader of the catalogue shard: a
	// request forwarded to the leader that just went away is lost and only ends after 30 s
	for a := 0; a < 100; a++ {
		l1, _, ok1, _ := c.Nodes[0].Engine.GetLeaderID(1000)
		l2, _, ok2, _ := c.Nodes[1].Engine.GetLeaderID(1000)
		if ok1 && ok2 && l1 == l2 && (l1 == 1 || l1 == 2) {
			break
		}
		time.Sleep(50 * time.Millisecond)
	}
	w.Ops = append(w.Ops, "node 3 stopped", "delete(gone)")
	del := func(name string) bool {
		err := e0.DeleteTable(name)
		for a := 0; a < 3 && err != nil && isTimeout(err); a++ {
			r.Count("catalogue_timeouts_retried", 1)
			err = e0.DeleteTable(name)
			if errors.Is(err, serrors.ErrTableNotFound) {
				err = nil // the attempt that timed out had taken effect
			}
		}
		if err != nil && isTimeout(err) {
			r.Inconclusive("delete(" + name + ") kept timing out: " + err.Error())
			return false
		}
		if err != nil {
			fail("delete-failed-for-existing-name", fmt.Sprintf("delete(%s) failed: %v", name, err))
			return false
		}
		return true
	}
	if !del("gone") {
		return
	}
	delete(content, "gone")
	r.Count("catalogue_ops", 1)
	r.Count("deletes_ok", 1)
	for j := 0; j < 8; j++ {
		n := fmt.Sprintf("tmp%d", j)
		if !create(e0, n) {
			return
		}
		w.Ops = append(w.Ops, "delete("+n+")")
		if !del(n) {
			return
		}
		delete(content, n)
		r.Count("catalogue_ops", 1)
	}
	if !create(e0, "late") {
		return
	}
	w.Ops = append(w.Ops, "node 3 started")
	if err := c.StartNode(2); err != nil {
		r.Inconclusive("node 3 restart: " + err.Error())
		return
	}
	live[2].Store(true)
	// barrier: node 3's catalogue replica has caught up when it lists the table created last
	caught := false
	for a := 0; a < 600 && !caught; a++ {
		if _, err := c.Nodes[2].Engine.GetTable("late"); err == nil {
			caught = true
			break
		}
		time.Sleep(100 * time.Millisecond)
	}
	if !caught {
		r.Inconclusive("node 3 did not catch up with the catalogue within 60 s")
		return
	}
	r.Count("cluster_catalogue_replicas_caught_up_by_snapshot", 1)
	time.Sleep(300 * time.Millisecond) // a few reconciliation passes
	var want []uint64
	for i, n := range c.Nodes {
		ts, err := n.Engine.GetTables()
		if err != nil {
			r.Inconclusive(fmt.Sprintf("list on node %d: %v", i+1, err))
			return
		}
		var got []string
		ids := []uint64{}
		for _, t := range ts {
			got = append(got, t.Name)
			ids = append(ids, t.ClusterID)
		}
		sort.Strings(got)
		sort.Slice(ids, func(a, b int) bool { return ids[a] < ids[b] })
		if fmt.Sprint(got) != "[keep late]" {
			fail("list-differs-from-catalogue", fmt.Sprintf("node %d lists %v; created and not deleted: [keep late] (node 3 was down while 'gone' and tmp0..7 were deleted and caught up afterwards)", i+1, got))
			return
		}
		if _, err := n.Engine.GetTable("gone"); !errors.Is(err, serrors.ErrTableNotFound) {
			fail("lookup-differs-from-catalogue", fmt.Sprintf("lookup(gone) on node %d: err %v, the table was deleted", i+1, err))
			return
		}
		if i == 0 {
			want = ids
		}
	}
	// running shards = catalogued shards on every node (bounded wait for node 3's start-up)
	for i, n := range c.Nodes {
		ok := false
		var got []uint64
		for a := 0; a < 100 && !ok; a++ {
			got = runningUserShards(n.Engine)
			ok = fmt.Sprint(got) == fmt.Sprint(want)
			if !ok {
				time.Sleep(100 * time.Millisecond)
			}
		}
		if !ok {
			fail("running-shards-differ-from-catalogue-after-reconcile", fmt.Sprintf("node %d runs user shards %v 10 s after the catalogue settled, catalogue has %v", i+1, got, want))
			return
		}
		r.Count("reconcile_checks", 1)
	}
	// the deleted name is free again, also through the node that was away
	if !create(c.Nodes[2].Engine, "gone") {
		return
	}
	d, err := dump(c.Nodes[2].Engine, "gone")
	if err == nil && len(d.M) != 0 {
		fail("recreated-table-not-empty", fmt.Sprintf("table 'gone' recreated through node 3 holds %d pairs", len(d.M)))
		return
	}
	r.Count("recreated_tables_read_empty", 1)
	r.Eval(1)
	r.Nontrivial(fmt.Sprint("cluster-catch-up", id.Seed))
	r.Sample(map[string]any{"kind": "cluster", "ops": head(w.Ops, 30)})
}

// runReconcileRace: reconciliation passes that overlap a create or a delete on the same node. Each
// round starts two passes and one catalogue change at the same instant and waits for all three;
// nothing else runs afterwards, so whatever a pass wrongly stopped (or left running) stays that
// way and is seen by the comparison of the running user shards with the catalogue.
func runReconcileRace(r *ev.Run, id caseID) {
	g := rand.New(rand.NewSource(id.Seed))
	c, err := cluster.Start(cluster.Opts{Nodes: 1})
	if err != nil {
		r.Inconclusive("engine start: " + err.Error())
		return
	}
	defer c.Close()
	e := c.Nodes[0].Engine
	w := witness{Case: id}
	cat := map[string]uint64{}
	for round, nr := 0, r.Pick(400, 1500); round < nr; round++ {
		name := fmt.Sprintf("rr%d", round)
		del := ""
		if len(cat) > 3 && g.Intn(3) == 0 {
			for n := range cat {
				del = n
				break
			}
		}
		var wg sync.WaitGroup
		start := make(chan struct{})
		// one pass per round: a second pass could put right what the first did wrong
		delays := []time.Duration{time.Duration(g.Intn(400)) * time.Microsecond}
		for p := 0; p < 1; p++ {
			wg.Add(1)
			go func(p int) {
				defer wg.Done()
				<-start
				time.Sleep(delays[p])
				_ = e.Manager.VerifReconcile()
			}(p)
		}
		var cerr error
		var tb table.Table
		wg.Add(1)
		lead := time.Duration(g.Intn(2500)) * time.Microsecond // the pass may be under way when the change starts
		go func() {
			defer wg.Done()
			<-start
			time.Sleep(lead)
			if del != "" {
				cerr = e.DeleteTable(del)
			} else {
				tb, cerr = e.CreateTable(name)
			}
		}()
		close(start)
		wg.Wait()
		r.Count("reconcile_passes_overlapping_a_create_or_delete", 1)
		if del != "" {
			w.Ops = append(w.Ops, fmt.Sprintf("delete(%s) || reconcile", del))
			if cerr != nil {
				w.What = cerr.Error()
				r.Violation("delete-failed-for-existing-name", fmt.Sprintf("delete(%s) racing with reconciliation failed: %v", del, cerr), w)
				return
			}
			delete(cat, del)
			// the pass that stops the shard is the next one: run it alone (a pass that ends with an
			// error has not reconciled: repeated, bounded)
			var rerr error
			for a := 0; a < 20; a++ {
				if rerr = e.Manager.VerifReconcile(); rerr == nil {
					break
				}
				r.Count("reconcile_passes_ended_with_an_error: "+rerr.Error(), 1)
				time.Sleep(50 * time.Millisecond)
			}
			if rerr != nil {
				r.Inconclusive("reconciliation keeps failing: " + rerr.Error())
				return
			}
		} else {
			w.Ops = append(w.Ops, fmt.Sprintf("create(%s) || reconcile", name))
			if cerr != nil {
				w.What = cerr.Error()
				r.Violation("create-failed-for-free-name", fmt.Sprintf("create(%s) racing with reconciliation failed: %v", name, cerr), w)
				return
			}
			cat[name] = tb.ClusterID
		}
		var want []uint64
		for _, v := range cat {
			want = append(want, v)
		}
		sort.Slice(want, func(i, j int) bool { return want[i] < want[j] })
		if got := runningUserShards(e); fmt.Sprint(got) != fmt.Sprint(want) {
			w.What = fmt.Sprintf("after %s: node runs user shards %v, catalogue has %v", w.Ops[len(w.Ops)-1], got, want)
			r.Violation("running-shards-differ-from-catalogue-after-reconcile", w.What, w)
			return
		}
		if del == "" && round%4 == 0 {
			// the table just created serves a write
			var perr error
			for a := 0; a < 100; a++ {
				ctx, cancel := ctx10()
				_, perr = e.Put(ctx, &pb.PutRequest{Table: []byte(name), Key: []byte("k"), Value: []byte("v")})
				cancel()
				if perr == nil {
					break
				}
				time.Sleep(30 * time.Millisecond)
			}
			if perr != nil {
				w.What = perr.Error()
				r.Violation("created-table-does-not-serve", fmt.Sprintf("table %s created while reconciliation passes ran does not accept a write 3 s later: %v", name, perr), w)
				return
			}
		}
		r.Count("reconcile_checks", 1)
	}
	r.Eval(1)
	r.Nontrivial(fmt.Sprint("reconcile-race", id.Seed))
	r.Sample(map[string]any{"kind": "reconcile-race", "ops": head(w.Ops, 10)})
}
