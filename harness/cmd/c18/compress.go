package main

// Part 2 — the registered compressors under concurrent use of their pooled writers/readers.

import (
	"bytes"
	"compress/flate"
	"fmt"
	"io"
	"math/rand"
	"sync"

	"google.golang.org/grpc/encoding"

	"verifharness/internal/ev"
)

var compNames = []string{"gzip", "snappy", "zstd"}

type compBatch struct {
	Part       string `json:"part"` // "compress"
	Batch      int    `json:"batch"`
	Big        bool   `json:"big"`
	Goroutines int    `json:"goroutines"`
	Trips      int    `json:"trips_per_goroutine"`
}

type tripSpec struct {
	Seed      int64  `json:"trip_seed"`
	Comp      string `json:"compressor"`
	Kind      string `json:"payload_kind"`
	Size      int    `json:"payload_bytes"`
	WriteMode string `json:"write_mode"`
	ReadBuf   int    `json:"read_buffer"` // 0 = io.ReadAll
}

type compWitness struct {
	Batch    compBatch `json:"case"`
	Trip     tripSpec  `json:"trip"`
	Producer int       `json:"compressing_goroutine"`
	Consumer int       `json:"decompressing_goroutine"`
	Stage    string    `json:"stage"`
	Detail   string    `json:"detail"`
}

var words = []string{"regatta", "table", "key", "value", "leader", "follower", "snapshot", "raft", "index", "0000000000", "\n", " ", "{\"a\":1}", "replication", "€", "the", "of"}

func makePayload(r *rand.Rand, kind string, n int) []byte {
	b := make([]byte, n)
	switch kind {
	case "random":
		fillRandom(r, b)
	case "zeros":
	case "repeat":
		p := make([]byte, 1+r.Intn(300))
		r.Read(p)
		fillPattern(b, p)
	case "text":
		// a few KiB of random words, then long-distance repetition with fresh words in between
		i := 0
		for i < n && i < 8192 {
			i += copy(b[i:], words[r.Intn(len(words))])
		}
		for i < n {
			if r.Intn(4) == 0 {
				i += copy(b[i:], words[r.Intn(len(words))])
				continue
			}
			off := r.Intn(i)
			l := 1 + r.Intn(4096)
			if off+l > i {
				l = i - off
			}
			i += copy(b[i:], b[off:off+l])
		}
	case "compressed":
		// the output of a (reference, unpooled) deflate stream over text: high entropy with structure
		var out bytes.Buffer
		w, _ := flate.NewWriter(&out, flate.BestSpeed)
		for out.Len() < n {
			t := makePayload(r, "text", 4096+n/4)
			// vary the text so that the stream does not collapse into back references
			for k := 0; k < len(t); k += 1 + r.Intn(64) {
				t[k] = byte(r.Intn(256))
			}
			w.Write(t)
			w.Flush()
		}
		copy(b, out.Bytes())
	case "mixed":
		i := 0
		for i < n {
			l := 1 + r.Intn(70000)
			if l > n-i {
				l = n - i
			}
			if r.Intn(2) == 0 {
				fillRandom(r, b[i:i+l])
			} else {
				fillByte(b[i:i+l], byte(r.Intn(256)))
			}
			i += l
		}
	}
	return b
}

var payloadKinds = []string{"random", "zeros", "repeat", "text", "compressed", "mixed"}
var bigSizes = []int{1 << 20, 1<<20 + 1, 2<<20 - 1, 3 << 20, 4<<20 + 1}

func pickSize(r *rand.Rand) int {
	x := r.Intn(100)
	switch {
	case x < 3:
		return 0
	case x < 10:
		return 1 + r.Intn(16)
	case x < 30:
		return 1<<uint(5+r.Intn(14)) - 1 + r.Intn(3) // 2^k-1 … 2^k+1, k=5..18 (block sizes 32K/64K/128K included)
	case x < 85:
		return 17 + r.Intn(65536)
	default:
		return 65536 + r.Intn(512*1024-65536)
	}
}

func specFor(runSeed int64, b compBatch, g, j int) tripSpec {
	seed := runSeed*2_000_003 + int64(b.Batch)*100_003 + int64(g)*1_009 + int64(j)
	if b.Big {
		seed += 500_000_000_000
	}
	r := caseRand(seed)
	s := tripSpec{Seed: seed}
	if b.Big {
		k := g*b.Trips + j // enumerate compressor × kind × size
		s.Comp = compNames[k%3]
		s.Kind = []string{"random", "repeat", "compressed", "mixed", "text", "zeros"}[(k/3)%6]
		s.Size = bigSizes[(k/18+k/3+b.Batch)%len(bigSizes)]
		if k%12 == b.Batch%12 {
			s.Size = 8 << 20
		}
	} else {
		s.Comp = compNames[r.Intn(3)]
		s.Kind = payloadKinds[r.Intn(len(payloadKinds))]
		s.Size = pickSize(r)
	}
	s.WriteMode = "single"
	if r.Intn(10) < 3 {
		s.WriteMode = "multi"
	}
	if r.Intn(10) < 4 {
		bufs := []int{512, 4096, 32 * 1024, 65536, 1 << 20}
		if s.Size <= 4096 {
			bufs = append(bufs, 1, 7)
		}
		s.ReadBuf = bufs[r.Intn(len(bufs))]
	}
	return s
}

type compItem struct {
	spec     tripSpec
	producer int
	payload  []byte
	packed   []byte
	failed   bool
}

func compressOne(c encoding.Compressor, spec tripSpec, payload []byte, r *rand.Rand) (out []byte, stage string, err error) {
	var buf bytes.Buffer
	w, err := c.Compress(&buf)
	if err != nil {
		return nil, "Compress", err
	}
	if spec.WriteMode == "single" {
		if _, err := w.Write(payload); err != nil {
			return nil, "Write", err
		}
	} else {
		for i := 0; i < len(payload); {
			l := r.Intn(1 + len(payload)/3 + 16)
			if l > len(payload)-i {
				l = len(payload) - i
			}
			n, err := w.Write(payload[i : i+l])
			if err != nil {
				return nil, "Write", err
			}
			if n != l {
				return nil, "Write", fmt.Errorf("short write %d of %d without error", n, l)
			}
			i += l
		}
	}
	if err := w.Close(); err != nil {
		return nil, "Close", err
	}
	return buf.Bytes(), "", nil
}

func decompressOne(c encoding.Compressor, spec tripSpec, packed []byte) (out []byte, stage string, err error) {
	rd, err := c.Decompress(bytes.NewReader(packed))
	if err != nil {
		return nil, "Decompress", err
	}
	if spec.ReadBuf == 0 {
		out, err = io.ReadAll(rd) // what grpc does (stops at the first io.EOF)
		if err != nil {
			return out, "Read", err
		}
		return out, "", nil
	}
	buf := make([]byte, spec.ReadBuf)
	for {
		n, err := rd.Read(buf)
		out = append(out, buf[:n]...)
		if err == io.EOF {
			return out, "", nil
		}
		if err != nil {
			return out, "Read", err
		}
	}
}

func firstDiff(a, b []byte) int {
	n := len(a)
	if len(b) < n {
		n = len(b)
	}
	for i := 0; i < n; i++ {
		if a[i] != b[i] {
			return i
		}
	}
	if len(a) != len(b) {
		return n
	}
	return -1
}

// runCompBatch: G goroutines behind a barrier; goroutine g compresses its j-th payload with a
// pooled writer, hands the result to goroutine g+1 and decompresses what goroutine g-1 produced
// with a pooled reader (sender and receiver of an RPC are different goroutines, too).
func runCompBatch(r *ev.Run, b compBatch) {
	G, T := b.Goroutines, b.Trips
	ring := make([]chan *compItem, G)
	for i := range ring {
		ring[i] = make(chan *compItem, T)
	}
	var wg sync.WaitGroup
	start := make(chan struct{})
	for g := 0; g < G; g++ {
		wg.Add(1)
		go func(g int) {
			defer wg.Done()
			<-start
			for j := 0; j < T; j++ {
				spec := specFor(r.Seed, b, g, j)
				rnd := caseRand(spec.Seed ^ 0x5bd1e995)
				it := &compItem{spec: spec, producer: g}
				c := encoding.GetCompressor(spec.Comp)
				it.payload = makePayload(rnd, spec.Kind, spec.Size)
				keep := append([]byte{}, it.payload...)
				packed, stage, err := compressOne(c, spec, it.payload, rnd)
				if err != nil {
					it.failed = true
					violationOnce(r, "compressor-error:"+spec.Comp+":"+stage, fmt.Sprintf("%s %s failed on %d B %s payload: %v", spec.Comp, stage, spec.Size, spec.Kind, err),
						compWitness{Batch: b, Trip: spec, Producer: g, Consumer: -1, Stage: stage, Detail: err.Error()})
				} else if !bytes.Equal(keep, it.payload) {
					it.failed = true
					violationOnce(r, "compressor-modifies-input:"+spec.Comp, fmt.Sprintf("%s changed the caller's %d B payload while compressing", spec.Comp, spec.Size),
						compWitness{Batch: b, Trip: spec, Producer: g, Consumer: -1, Stage: "Write"})
				}
				it.packed = packed
				ring[(g+1)%G] <- it
				in := <-ring[g]
				if in.failed {
					continue
				}
				cc := encoding.GetCompressor(in.spec.Comp)
				got, stage, err := decompressOne(cc, in.spec, in.packed)
				r.Count("compressor_round_trips", 1)
				r.Count("compressor_round_trips_"+in.spec.Comp, 1)
				r.Count("compressor_payload_bytes", int64(len(in.payload)))
				if in.spec.Size >= 1<<20 {
					r.Count("compressor_round_trips_ge_1MiB", 1)
				}
				if in.spec.Size == 0 {
					r.Count("compressor_round_trips_empty_payload", 1)
				}
				r.Distinct("compressor_case_kinds", in.spec.Comp+"/"+in.spec.Kind+"/"+sizeClass(in.spec.Size)+"/"+in.spec.WriteMode+"/"+readMode(in.spec.ReadBuf))
				w := compWitness{Batch: b, Trip: in.spec, Producer: in.producer, Consumer: g}
				switch {
				case err != nil:
					w.Stage, w.Detail = stage, err.Error()
					violationOnce(r, "compressor-error:"+in.spec.Comp+":"+stage, fmt.Sprintf("%s %s failed on its own output for a %d B %s payload (%d B compressed): %v", in.spec.Comp, stage, in.spec.Size, in.spec.Kind, len(in.packed), err), w)
				case !bytes.Equal(got, in.payload):
					w.Stage = "compare"
					w.Detail = fmt.Sprintf("payload %d B, round trip returned %d B, first difference at offset %d", len(in.payload), len(got), firstDiff(in.payload, got))
					violationOnce(r, "compressor-roundtrip-differs:"+in.spec.Comp, fmt.Sprintf("%s round trip of a %d B %s payload (write %s, read buffer %d) differs: %s", in.spec.Comp, in.spec.Size, in.spec.Kind, in.spec.WriteMode, in.spec.ReadBuf, w.Detail), w)
				default:
					r.Eval(1)
					if g == 0 && j == 0 {
						r.Sample(map[string]any{"part": "compress", "batch": b.Batch, "goroutines": G, "compressor": in.spec.Comp, "payload_kind": in.spec.Kind, "payload_bytes": in.spec.Size,
							"compressed_bytes": len(in.packed), "write_mode": in.spec.WriteMode, "read_buffer": in.spec.ReadBuf, "result": "equal"})
					}
				}
			}
		}(g)
	}
	close(start)
	wg.Wait()
	r.Count("compressor_batches", 1)
	r.Distinct("compressor_goroutine_counts", fmt.Sprint(G))
}

func sizeClass(n int) string {
	switch {
	case n == 0:
		return "0"
	case n <= 16:
		return "<=16"
	case n < 32*1024:
		return "<32K"
	case n < 128*1024+2:
		return "<=128K"
	case n < 1<<20:
		return "<1M"
	default:
		return ">=1M"
	}
}

func readMode(n int) string {
	if n == 0 {
		return "readall"
	}
	if n < 512 {
		return "tinybuf"
	}
	return "buf"
}

func compPlan(r *ev.Run) []compBatch {
	var out []compBatch
	gs := []int{16, 32, 64}
	nb := r.Pick(6, 60)
	for i := 0; i < nb; i++ {
		g := gs[i%3]
		t := r.Pick(128, 128) / g
		if t < 1 {
			t = 1
		}
		out = append(out, compBatch{Part: "compress", Batch: i, Goroutines: g, Trips: t})
	}
	// few dozen (quick) / few hundred (thorough) MiB-size trips: the race build is ~30x slower there
	nbig := r.Pick(1, 10)
	for i := 0; i < nbig; i++ {
		out = append(out, compBatch{Part: "compress", Batch: 1000 + i, Big: true, Goroutines: 18, Trips: 2})
	}
	return out
}
