package main

// Fast deterministic byte material. Under the race detector every byte written in a Go loop costs
// an instrumented access, so large payloads are cut out of one pre-computed incompressible pool
// (position chosen by the case's PRNG) and buffers are overwritten with copy().

import (
	"encoding/binary"
	"math/rand"
	"sync"
)

const noisePoolSize = 24 << 20

var (
	noiseOnce sync.Once
	noisePool []byte
	junkBlock = func() []byte {
		b := make([]byte, 64*1024)
		for i := range b {
			b[i] = 0xA5
		}
		return b
	}()
)

func noise() []byte {
	noiseOnce.Do(func() {
		noisePool = make([]byte, noisePoolSize)
		src := rand.New(rand.NewSource(0x6331385f6e6f6973)) // fixed: the pool is the same in every run
		for i := 0; i+8 <= len(noisePool); i += 8 {
			binary.LittleEndian.PutUint64(noisePool[i:], src.Uint64())
		}
	})
	return noisePool
}

// fillRandom fills b with incompressible bytes chosen by r.
func fillRandom(r *rand.Rand, b []byte) {
	if len(b) <= 32 {
		r.Read(b)
		return
	}
	p := noise()
	for len(b) > 0 {
		off := r.Intn(len(p) - 1)
		n := copy(b, p[off:])
		b = b[n:]
	}
}

func randBytes(r *rand.Rand, n int) []byte {
	b := make([]byte, n)
	fillRandom(r, b)
	return b
}

// fillByte sets every byte of b to c.
func fillByte(b []byte, c byte) {
	if len(b) == 0 {
		return
	}
	b[0] = c
	for i := 1; i < len(b); i *= 2 {
		copy(b[i:], b[:i])
	}
}

// fillPattern repeats p over b.
func fillPattern(b, p []byte) {
	n := copy(b, p)
	for n < len(b) {
		n += copy(b[n:], b[:n])
	}
}

// scribble overwrites a buffer that is dead from the point of view of the code under test.
func scribble(b []byte) {
	for len(b) > 0 {
		n := copy(b, junkBlock)
		b = b[n:]
	}
}
