package main

// Part 5 — the commands of the leader log as the real log replication server ships them.
//
// A real single-node engine with its replication endpoint (Metadata/Snapshot/KV/Log registered as
// cmd/leader.go does), a seeded history written through the engine (range deletes with and without
// count/prev_kv, single-key deletes, puts incl. empty and nil values, transactions), and a follower
// stand-in that polls pb.LogClient.Replicate from several start indices, with and without gzip, so
// that whatever the server recycles between batches and calls is reused. Every received
// ReplicateCommand.Command is judged against the command the harness proposed for that leader index
// (built from the acknowledged request the way storage/table builds it — independent of the
// server's decode path); Raft-internal entries must arrive as bare DUMMY commands.

import (
	"context"
	"errors"
	"fmt"
	"io"
	"math/rand"
	"sort"
	"time"

	pb "github.com/jamf/regatta/regattapb"
	"google.golang.org/grpc"
	"google.golang.org/grpc/codes"
	"google.golang.org/grpc/status"
	"google.golang.org/protobuf/proto"

	"verifharness/internal/cluster"
	"verifharness/internal/ev"
)

type replCase struct {
	Part   string `json:"part"` // "replicate"
	Idx    int    `json:"index"`
	Seed   int64  `json:"case_seed"`
	MaxMsg uint64 `json:"leader_max_message_bytes"`
	Writes int    `json:"writes"`
}

type replWitness struct {
	Case     replCase `json:"case"`
	Poll     string   `json:"poll"`
	Index    uint64   `json:"leader_index"`
	Proposed string   `json:"proposed_command"`
	Received string   `json:"received_command"`
	Diffs    []fdiff  `json:"differences"`
	Before   []string `json:"commands_before_it_in_the_log"`
	Affected int      `json:"commands_differing_in_this_case"`
	Judged   int      `json:"commands_judged_in_this_case"`
	Detail   string   `json:"detail,omitempty"`
}

var replKeys = []string{"a", "a1", "b", "b\x00", "c", "c/1", "d", "k\xff", "m", "z"}

func rk(r *rand.Rand) []byte { return []byte(replKeys[r.Intn(len(replKeys))]) }

func rval(r *rand.Rand) []byte {
	switch r.Intn(8) {
	case 0:
		return nil
	case 1:
		return []byte{}
	case 2:
		return randBytes(r, 200+r.Intn(1500))
	default:
		return randBytes(r, 1+r.Intn(40))
	}
}

func rangeEndFor(r *rand.Rand, key []byte) []byte {
	switch r.Intn(4) {
	case 0:
		return []byte{0} // everything from key on
	case 1:
		return append(append([]byte{}, key...), 0xff) // the keys prefixed by key
	default:
		return rk(r)
	}
}

func replTxn(r *rand.Rand, table []byte) *pb.TxnRequest {
	t := &pb.TxnRequest{Table: table}
	if r.Intn(3) > 0 {
		c := &pb.Compare{Key: rk(r), Result: pb.Compare_CompareResult(r.Intn(4)), Target: pb.Compare_VALUE, TargetUnion: &pb.Compare_Value{Value: rval(r)}}
		if r.Intn(4) == 0 {
			c.RangeEnd = rangeEndFor(r, c.Key)
		}
		t.Compare = append(t.Compare, c)
	}
	op := func() *pb.RequestOp {
		switch r.Intn(4) {
		case 0:
			return &pb.RequestOp{Request: &pb.RequestOp_RequestPut{RequestPut: &pb.RequestOp_Put{Key: rk(r), Value: rval(r), PrevKv: r.Intn(2) == 0}}}
		case 1:
			k := rk(r)
			return &pb.RequestOp{Request: &pb.RequestOp_RequestDeleteRange{RequestDeleteRange: &pb.RequestOp_DeleteRange{Key: k, RangeEnd: rangeEndFor(r, k), PrevKv: r.Intn(2) == 0, Count: r.Intn(2) == 0}}}
		case 2:
			return &pb.RequestOp{Request: &pb.RequestOp_RequestDeleteRange{RequestDeleteRange: &pb.RequestOp_DeleteRange{Key: rk(r), Count: r.Intn(2) == 0}}}
		default:
			return &pb.RequestOp{Request: &pb.RequestOp_RequestRange{RequestRange: &pb.RequestOp_Range{Key: rk(r)}}}
		}
	}
	// at least one writing operation, otherwise the transaction is not proposed through the log
	t.Success = append(t.Success, &pb.RequestOp{Request: &pb.RequestOp_RequestPut{RequestPut: &pb.RequestOp_Put{Key: rk(r), Value: rval(r)}}})
	for i := r.Intn(3); i > 0; i-- {
		t.Success = append(t.Success, op())
	}
	for i := r.Intn(3); i > 0; i-- {
		t.Failure = append(t.Failure, op())
	}
	return t
}

type replKV interface {
	Put(context.Context, *pb.PutRequest) (*pb.PutResponse, error)
	Delete(context.Context, *pb.DeleteRangeRequest) (*pb.DeleteRangeResponse, error)
	Txn(context.Context, *pb.TxnRequest) (*pb.TxnResponse, error)
}

// writeOne issues one seeded write through the engine and returns (leader index, the command regatta
// builds for it — see storage/table/table.go Put/Delete/Txn).
func writeOne(r *rand.Rand, e replKV, table []byte) (uint64, *pb.Command, error) {
	ctx, cancel := context.WithTimeout(context.Background(), 20*time.Second)
	defer cancel()
	x := r.Intn(20)
	switch {
	case x < 7:
		req := &pb.PutRequest{Table: table, Key: rk(r), Value: rval(r), PrevKv: r.Intn(3) == 0}
		resp, err := e.Put(ctx, req)
		if err != nil {
			return 0, nil, err
		}
		return resp.Header.Revision, &pb.Command{Type: pb.Command_PUT, Table: table, Kv: &pb.KeyValue{Key: req.Key, Value: req.Value}, PrevKvs: req.PrevKv}, nil
	case x < 11:
		k := rk(r)
		req := &pb.DeleteRangeRequest{Table: table, Key: k, RangeEnd: rangeEndFor(r, k), PrevKv: r.Intn(2) == 0, Count: r.Intn(2) == 0}
		resp, err := e.Delete(ctx, req)
		if err != nil {
			return 0, nil, err
		}
		return resp.Header.Revision, &pb.Command{Type: pb.Command_DELETE, Table: table, Kv: &pb.KeyValue{Key: req.Key}, RangeEnd: req.RangeEnd, PrevKvs: req.PrevKv, Count: req.Count}, nil
	case x < 16:
		req := &pb.DeleteRangeRequest{Table: table, Key: rk(r), PrevKv: r.Intn(3) == 0, Count: r.Intn(3) == 0}
		resp, err := e.Delete(ctx, req)
		if err != nil {
			return 0, nil, err
		}
		return resp.Header.Revision, &pb.Command{Type: pb.Command_DELETE, Table: table, Kv: &pb.KeyValue{Key: req.Key}, PrevKvs: req.PrevKv, Count: req.Count}, nil
	default:
		req := replTxn(r, table)
		resp, err := e.Txn(ctx, req)
		if err != nil {
			return 0, nil, err
		}
		return resp.Header.Revision, &pb.Command{Type: pb.Command_TXN, Table: table, Txn: &pb.Txn{Compare: req.Compare, Success: req.Success, Failure: req.Failure}}, nil
	}
}

// poll runs one Replicate call from index `from` to its end and returns the commands received.
func poll(cl pb.LogClient, table []byte, from uint64, gzip bool) (cmds []*pb.ReplicateCommand, note string, err error) {
	ctx, cancel := context.WithTimeout(context.Background(), 60*time.Second)
	defer cancel()
	var opts []grpc.CallOption
	if gzip {
		opts = append(opts, grpc.UseCompressor("gzip")) // what the follower's replication client does
	}
	st, err := cl.Replicate(ctx, &pb.ReplicateRequest{Table: table, LeaderIndex: from}, opts...)
	if err != nil {
		return nil, "", err
	}
	for {
		m, err := st.Recv()
		if errors.Is(err, io.EOF) {
			return cmds, note, nil
		}
		if err != nil {
			return cmds, note, err
		}
		switch v := m.Response.(type) {
		case *pb.ReplicateResponse_CommandsResponse:
			cmds = append(cmds, v.CommandsResponse.GetCommands()...)
		case *pb.ReplicateResponse_ErrorResponse:
			note = v.ErrorResponse.Error.String()
		}
	}
}

func runReplCase(r *ev.Run, c replCase) {
	broken := func(why string) { r.Inconclusive(fmt.Sprintf("replicate case %d: %s", c.Idx, why)) }
	rnd := caseRand(c.Seed)
	l, err := cluster.StartLeader(cluster.Opts{Nodes: 1}, c.MaxMsg)
	if err != nil {
		broken("leader start: " + err.Error())
		return
	}
	defer l.Close()
	table := []byte("t")
	if _, err := l.CreateTable("t"); err != nil {
		broken("create table: " + err.Error())
		return
	}
	conn, err := cluster.Dial(l.ReplAddr)
	if err != nil {
		broken("dial: " + err.Error())
		return
	}
	defer conn.Close()
	cl := pb.NewLogClient(conn)
	eng := l.Nodes[0].Engine

	ref := map[uint64]*pb.Command{}
	var last uint64
	ambiguous := false
	judged, bad := 0, 0
	var first *replWitness
	firstSig, firstWhat := "", ""

	judge := func(pollDesc string, cmds []*pb.ReplicateCommand) {
		for _, rc := range cmds {
			got := rc.GetCommand()
			if got == nil {
				got = &pb.Command{}
			}
			exp, known := ref[rc.LeaderIndex]
			if !known {
				if got.Type != pb.Command_DUMMY && (ambiguous || rc.LeaderIndex > last) {
					continue // a write whose acknowledgement was lost, or newer than the bookkeeping: not judged
				}
				exp = &pb.Command{Type: pb.Command_DUMMY} // Raft-internal entry
				r.Count("replicated_raft_internal_entries_judged", 1)
			}
			e2 := proto.Clone(exp).(*pb.Command)
			e2.LeaderIndex = got.LeaderIndex // the label the server adds is not part of the proposed command
			diffs, equal, disagree := compare(e2, got)
			judged++
			r.Count("replicated_commands_judged", 1)
			if disagree {
				r.Count("oracle_disagreements", 1)
				r.Inconclusive(fmt.Sprintf("proto.Equal and the presence-aware comparer disagree on replicated command at index %d", rc.LeaderIndex))
				continue
			}
			if equal {
				r.Eval(1)
				if known && exp.Type == pb.Command_DELETE && exp.RangeEnd == nil {
					r.Count("replicated_single_key_deletes_judged", 1)
				}
				continue
			}
			bad++
			if first != nil {
				continue
			}
			sig := "replicated-command-differs-from-proposed:" + firstField(diffs)
			what := fmt.Sprintf("leader index %d: proposed %s, the follower received %s (%s)", rc.LeaderIndex, shortSummary(exp), shortSummary(got), diffs[0].Path+": "+diffs[0].Detail)
			if onlyEmptyRangeEndPresence(diffs) {
				sig = "replicated-command-gains-empty-range_end"
				if exp.Type == pb.Command_DELETE && exp.RangeEnd == nil {
					what += "; a single-key delete reaches the follower as a range delete with an empty end"
				}
			}
			var before []string
			for i := rc.LeaderIndex - 1; i > 0 && len(before) < 6; i-- {
				if p, ok := ref[i]; ok {
					before = append(before, fmt.Sprintf("%d: %s", i, shortSummary(p)))
				}
			}
			first = &replWitness{Case: c, Poll: pollDesc, Index: rc.LeaderIndex, Proposed: shortSummary(exp), Received: shortSummary(got), Diffs: diffs, Before: before}
			firstSig, firstWhat = sig, what
		}
	}

	var tail uint64 = 1 // next index of the tailing follower
	polls := 0
	doPolls := func() {
		// a tailing follower, a follower that is a bit behind, and one that starts over
		starts := []uint64{tail}
		if last > 8 {
			starts = append(starts, last-uint64(rnd.Intn(8)), 1+uint64(rnd.Intn(int(last))))
		}
		if rnd.Intn(4) == 0 {
			starts = append(starts, 1)
		}
		for i, from := range starts {
			gz := rnd.Intn(2) == 0
			cmds, note, err := poll(cl, table, from, gz)
			polls++
			r.Count("replicate_polls", 1)
			if gz {
				r.Count("replicate_polls_gzip", 1)
			}
			if err != nil {
				if st, _ := status.FromError(err); st != nil && (st.Code() == codes.DeadlineExceeded || st.Code() == codes.Unavailable) {
					broken("poll: " + err.Error())
					continue
				}
				if first == nil {
					first = &replWitness{Case: c, Poll: fmt.Sprintf("from %d gzip=%v", from, gz), Detail: err.Error()}
					firstSig, firstWhat = "replicate-stream-error", fmt.Sprintf("Replicate from index %d failed: %v", from, err)
					bad++
				}
				continue
			}
			if note != "" {
				r.Count("replicate_polls_answered_"+note, 1)
			}
			judge(fmt.Sprintf("Replicate from index %d, gzip=%v, %d commands", from, gz, len(cmds)), cmds)
			if i == 0 && len(cmds) > 0 {
				tail = cmds[len(cmds)-1].LeaderIndex + 1
			}
		}
	}

	for w := 0; w < c.Writes; w++ {
		rev, cmd, err := writeOne(rnd, eng, table)
		if err != nil {
			ambiguous = true
			r.Count("replicate_leader_writes_failed", 1)
			continue
		}
		ref[rev] = cmd
		if rev > last {
			last = rev
		}
		r.Count("replicate_leader_writes", 1)
		if rnd.Intn(4) == 0 || w == c.Writes-1 {
			doPolls()
		}
	}
	if first != nil {
		first.Affected, first.Judged = bad, judged
		violationOnce(r, firstSig, fmt.Sprintf("%s [leader message limit %d B; %d of %d replicated commands of the case differ]", firstWhat, c.MaxMsg, bad, judged), *first)
	}
	r.Count("replicate_cases", 1)
	r.Distinct("replicate_leader_message_limits", fmt.Sprint(c.MaxMsg))
	if first == nil && c.Idx == 0 {
		idx := make([]uint64, 0, len(ref))
		for i := range ref {
			idx = append(idx, i)
		}
		sort.Slice(idx, func(a, b int) bool { return idx[a] < idx[b] })
		var head []string
		for _, i := range idx {
			if len(head) < 5 {
				head = append(head, fmt.Sprintf("%d: %s", i, shortSummary(ref[i])))
			}
		}
		r.Sample(map[string]any{"part": "replicate", "leader_max_message_bytes": c.MaxMsg, "writes": len(ref), "polls": polls, "commands_judged": judged,
			"first_proposed_commands": head, "result": "every replicated command equals the proposed one"})
	}
}

func replPlan(r *ev.Run) []replCase {
	var out []replCase
	n := r.Pick(2, 12)
	for i := 0; i < n; i++ {
		m := uint64(1024)
		if i%2 == 1 {
			m = 0 // regattaserver.DefaultMaxGRPCSize
		}
		out = append(out, replCase{Part: "replicate", Idx: i, Seed: r.Seed*5_000_011 + int64(i)*30_011, MaxMsg: m, Writes: r.Pick(100, 260)})
	}
	return out
}
