// C18 — wire codecs, compressors and stream framing are lossless for every message and chunking.
//
// Part 1 (codec.go): every message type of the regattapb API, generated reflectively, through the
// codec registered with grpc (encoding.GetCodec("proto")) into fresh receivers and — for the
// pool-enabled types — into receivers recycled the way snapshot.Reader recycles its chunks;
// cross-checked against google.golang.org/protobuf.
// Part 2 (compress.go): gzip/snappy/zstd as registered with grpc under 16–64 goroutines sharing the
// pooled writers/readers. The driver is built with -race; race reports are deciding.
// Part 3 (framing.go): command sequences -> snapshot file -> chunk stream with boundaries
// everywhere -> snapshot.Reader / BackupServer.Restore -> read back message-wise.
// Part 4 (server.go): concurrent uncompressed self-describing requests against a server built by
// regattaserver.NewServer (regatta's default server options) with the real KVServer; judged at the
// handler and in the store.
// Part 5 (repl.go): a seeded history on a real single-node engine, polled through the real log
// replication server; every replicated command judged against the proposed one.
// Part 6 (follow.go): leader + follower engines with the real replication worker; a history of
// alternating large and small values replicated in one go; follower table == leader table.
// rawchunk.go: raw payloads of k MiB (± 1) through snapshot.Writer/Reader alone.
package main

import (
	"encoding/json"
	"fmt"
	"os"
	"path/filepath"
	"reflect"
	"regexp"
	"runtime"
	"runtime/debug"
	"runtime/pprof"
	"sort"
	"strconv"
	"strings"
	"sync"
	"time"

	_ "github.com/jamf/regatta/regattaserver/encoding/gzip"
	_ "github.com/jamf/regatta/regattaserver/encoding/proto"
	_ "github.com/jamf/regatta/regattaserver/encoding/snappy"
	_ "github.com/jamf/regatta/regattaserver/encoding/zstd"
	"google.golang.org/grpc/encoding"

	"verifharness/internal/ev"
)

type anyCase struct {
	Part string `json:"part"`
}

type replayDoc struct {
	Case json.RawMessage `json:"case"`
}

type raceWitness struct {
	Case   anyCase `json:"case"`
	Report string  `json:"race_report"`
	Note   string  `json:"note"`
}

func main() {
	// the race build multiplies every heap page by its shadow memory: keep the heap small (the
	// machine is shared with other checks; a 400% setting made this driver a 15 GB process)
	debug.SetMemoryLimit(3 << 30)
	gcp := 100
	if v, err := strconv.Atoi(os.Getenv("C18_GOGC")); err == nil { // development aid
		gcp = v
	}
	debug.SetGCPercent(gcp)
	if p := os.Getenv("C18_CPUPROFILE"); p != "" { // development aid
		if f, err := os.Create(p); err == nil {
			_ = pprof.StartCPUProfile(f)
			stopProfile = func() { pprof.StopCPUProfile(); f.Close() }
		}
	}
	// ev.Supervise re-executes the driver and turns a death of the workload process (a pooled writer
	// used after Close, a fatal error …) into a verdict. The supervising parent must not run ev's
	// progress watchdog itself: it observes nothing while it waits (the child keeps its own).
	supervised := os.Getenv("VERIF_SUPERVISED") != ""
	replaying := false
	for _, a := range os.Args[1:] {
		if strings.HasPrefix(a, "--replay") || strings.HasPrefix(a, "-replay") {
			replaying = true
		}
	}
	if !supervised && !replaying && os.Getenv("VERIF_NO_SUPERVISE") == "" {
		os.Setenv("C18_WATCHDOG_S", os.Getenv("VERIF_WATCHDOG_S"))
		os.Setenv("VERIF_WATCHDOG_S", "0")
	} else if supervised {
		if v, ok := os.LookupEnv("C18_WATCHDOG_S"); ok {
			if v == "" {
				os.Unsetenv("VERIF_WATCHDOG_S")
			} else {
				os.Setenv("VERIF_WATCHDOG_S", v)
			}
		}
	}
	r := ev.Start("C18", "exploration")
	r.Supervise() // returns only in the supervised child (and in replay mode)
	r.Rule("codec: seeded reflective values of every regattapb message type (all oneof arms incl. none, optional fields unset/zero/value, nil/empty/nasty/large bytes, nested sequences), " +
		"decoded by the registered codec into a fresh object and, for Command and SnapshotChunk, into objects recycled with ResetVT / ReturnToVTPool after holding a different larger message; " +
		"compressors: seeded payloads 0 B–8 MiB of six kinds, 16/32/64 goroutines exchanging compressed payloads; streams: seeded command sequences (0–2000 commands, values 0 B–2 MiB) " +
		"written to a snapshot file and streamed with planned short reads; server: 8/12/16 concurrent uncompressed clients with self-describing put/range/delete/txn requests (<256 B … 1 MiB) " +
		"against regattaserver.NewServer + KVServer, judged at the handler and in the store; replicate: seeded histories (range/single-key deletes, puts, txns) on a real engine polled through LogServer.Replicate " +
		"from several start indices with/without gzip at message limits 1024 B and default, every command judged against the proposed one. Non-trivial = (a) a Command with ≥1 oneof arm and ≥1 optional field set decoded into a recycled object that decodes equal, " +
		"distinct by encoding, or (b) a stream with a chunk boundary strictly inside an 8-byte length prefix, distinct by seed and chunk lengths")
	r.Assume("generated strings are valid UTF-8 and generated messages carry no unknown fields",
		"nil and empty are the same value for bytes fields without presence (they are the same on the wire)",
		"a message with an empty encoding is not written to a snapshot file (snapshotFile.Write treats an empty write as a no-op like any io.Writer; every command regatta writes carries its table name)",
		"compressed streams are read until the first io.EOF and not beyond, writers are closed once (what grpc does)",
		"a decoded message may alias the buffer it was decoded from (vtproto unsafe variant) for as long as the transport keeps that buffer alive; the stream part checks the life cycle through real grpc and through a stand-in that overwrites a receive buffer when the next receive starts")

	codec := encoding.GetCodec("proto")
	if codec == nil || !strings.Contains(reflect.TypeOf(codec).PkgPath(), "github.com/jamf/regatta/") {
		fmt.Printf("check broken: the codec registered as \"proto\" is %T, not regatta's\n", codec)
		os.Exit(2)
	}
	for _, n := range compNames {
		c := encoding.GetCompressor(n)
		if c == nil || !strings.Contains(reflect.TypeOf(c).Elem().PkgPath(), "github.com/jamf/regatta/") {
			fmt.Printf("check broken: the compressor registered as %q is %T, not regatta's\n", n, c)
			os.Exit(2)
		}
	}

	ce := newCodecEnv(r)
	// pool-enabled types the driver does not know about would go unchecked: refuse to pass
	for _, mt := range ce.types {
		if _, ok := mt.New().Interface().(pooledMsg); ok {
			if poolGetters[mt.Descriptor().FullName()] == nil {
				r.Inconclusive("pool-enabled message type without a recycling check: " + string(mt.Descriptor().FullName()))
				r.FloorCount("recycling_check_for_every_pooled_type", 1)
			}
		}
	}
	r.Extra("api_message_types", len(ce.types))

	g, err := newGrpcEnv()
	if err != nil {
		fmt.Println("check broken: cannot start the in-memory grpc server:", err)
		os.Exit(2)
	}
	se := &streamEnv{r: r, ce: ce, g: g, tables: &fakeTables{got: map[string]readResult{}}}

	if r.Replay != "" {
		var doc replayDoc
		if _, err := r.ReadReplay(&doc); err != nil {
			fmt.Fprintln(os.Stderr, "replay:", err)
			os.Exit(2)
		}
		var ac anyCase
		_ = json.Unmarshal(doc.Case, &ac)
		switch ac.Part {
		case "codec":
			var c codecCase
			_ = json.Unmarshal(doc.Case, &c)
			ce.runCodecCase(c)
		case "compress":
			var b compBatch
			_ = json.Unmarshal(doc.Case, &b)
			for i := 0; i < 20 && r.Violations() == 0; i++ {
				runCompBatch(r, b)
			}
			raceVerdicts(r)
		case "stream":
			var c streamCase
			_ = json.Unmarshal(doc.Case, &c)
			runStreamCase(se, c)
		case "rawchunk":
			var c rawCase
			_ = json.Unmarshal(doc.Case, &c)
			runRawCase(se, c)
		case "follower":
			var c followCase
			_ = json.Unmarshal(doc.Case, &c)
			runFollowCase(r, c)
		case "replicate":
			// which pooled object serves which entry is schedule dependent: up to 3 attempts
			var c replCase
			_ = json.Unmarshal(doc.Case, &c)
			for i := 0; i < 3 && r.Violations() == 0; i++ {
				runReplCase(r, c)
			}
			raceVerdicts(r)
		case "server":
			// schedule dependent: the round is repeated until it fails again (at most 5 times)
			var c serverCase
			_ = json.Unmarshal(doc.Case, &c)
			for i := 0; i < 5 && r.Violations() == 0; i++ {
				runServerRound(r, g, c)
			}
			raceVerdicts(r)
		case "race", "crash", "":
			// (an ev.Supervise "process-died" witness carries no case)
			// schedule dependent: re-run the whole workload of this seed/tier and see whether a race is reported again
			runAll(r, ce, se)
			raceVerdicts(r)
		default:
			fmt.Fprintln(os.Stderr, "replay: unknown case part", ac.Part)
			os.Exit(2)
		}
		g.close()
		r.Finish()
	}

	observeEmptyMessage(r)
	runAll(r, ce, se)
	stopProfile()
	g.close()
	raceVerdicts(r)

	// evidence: which generator features were really sampled
	oneofs, opts := expectedFeatures(ce.types)
	ce.mu.Lock()
	missing := []string{}
	for _, f := range oneofs {
		if _, ok := ce.feats["oneof "+f]; ok {
			r.Distinct("oneof_states_sampled", f)
		} else {
			missing = append(missing, "oneof "+f)
		}
	}
	for _, f := range opts {
		if _, ok := ce.feats["opt "+f]; ok {
			r.Distinct("optional_field_states_sampled", f)
		} else {
			missing = append(missing, "opt "+f)
		}
	}
	other := []string{}
	for f := range ce.feats {
		if !strings.HasPrefix(f, "oneof ") && !strings.HasPrefix(f, "opt ") {
			other = append(other, f)
		}
	}
	ce.mu.Unlock()
	sort.Strings(other)
	r.Extra("generator_features_sampled", other)
	r.Extra("oneof_states_in_api", len(oneofs))
	r.Extra("optional_field_states_in_api", len(opts))
	if len(missing) > 0 {
		r.Extra("api_features_not_sampled", missing)
	}
	seenSigMu.Lock()
	if len(seenSig) > 0 {
		r.Extra("violation_signatures_seen", seenSig)
	}
	seenSigMu.Unlock()

	r.FloorDistinct("oneof_states_sampled", int64(len(oneofs)))
	r.FloorDistinct("optional_field_states_sampled", int64(len(opts)))
	r.FloorCount("codec_round_trips", int64(r.Pick(12000, 150000)))
	r.FloorCount("recycled_decodes", int64(r.Pick(5000, 60000)))
	r.FloorCount("pool_returned_same_object", int64(r.Pick(500, 6000)))
	r.FloorCount("compressor_round_trips", int64(r.Pick(600, 6000)))
	r.FloorCount("compressor_round_trips_ge_1MiB", int64(r.Pick(30, 300)))
	r.FloorDistinct("compressor_goroutine_counts", 3)
	r.FloorCount("streams", int64(r.Pick(140, 1700)))
	r.FloorCount("streams_with_boundary_inside_length_prefix", int64(r.Pick(40, 450)))
	r.FloorDistinct("stream_variants", int64(r.Pick(20, 30)))
	r.FloorCount("raw_chunk_streams", int64(r.Pick(10, 20)))
	r.FloorCount("raw_chunk_streams_exact_multiple_of_chunk_size", int64(r.Pick(3, 8)))
	r.FloorCount("streams_with_file_length_exact_multiple_of_chunk_size", int64(r.Pick(4, 16)))
	r.FloorCount("follower_cases_converged_equal", int64(r.Pick(1, 6)))
	r.FloorCount("follower_leader_writes_100KiB_or_more", int64(r.Pick(10, 80)))
	r.FloorCount("replicated_commands_judged", int64(r.Pick(1200, 15000)))
	r.FloorCount("replicated_single_key_deletes_judged", int64(r.Pick(150, 2000)))
	r.FloorCount("replicate_polls", int64(r.Pick(80, 800)))
	r.FloorDistinct("replicate_leader_message_limits", 2)
	r.FloorCount("server_requests", int64(r.Pick(2400, 40000)))
	r.FloorCount("server_requests_held_while_another_was_received", int64(r.Pick(1200, 20000)))
	r.FloorDistinct("server_request_size_classes", 4)
	r.FloorNontrivial(int64(r.Pick(300, 12000)))
	r.FloorCount("oracles_agree", 1)
	if r.Get("oracle_disagreements") == 0 {
		r.Count("oracles_agree", 1)
	}
	r.Finish()
}

var stopProfile = func() {}

func scratchDir() string {
	if d := os.Getenv("SCRATCH"); d != "" {
		return d
	}
	return os.TempDir()
}

type job struct {
	codec  *codecCase
	stream *streamCase
	raw    *rawCase
}

func runAll(r *ev.Run, ce *codecEnv, se *streamEnv) {
	// codec cases and stream cases share one worker pool, so pooled SnapshotChunk/Command objects
	// migrate between goroutines and uses
	cc := ce.plan()
	sc := streamPlanCases(r)
	// hand-written recycling pairs first and alone: a failure there gets the minimal witness
	for len(cc) > 0 && cc[0].Probe > 0 {
		ce.runCodecCase(cc[0])
		cc = cc[1:]
	}
	parts := os.Getenv("C18_PARTS") // development aid: run only some parts (coverage floors will then fail)
	if parts != "" && !strings.Contains(parts, "codec") {
		cc = nil
	}
	if parts != "" && !strings.Contains(parts, "stream") {
		sc = nil
	}
	var jobs []job
	step := len(cc)/(len(sc)+1) + 1
	si := 0
	for i := range cc {
		if i%step == 0 && si < len(sc) {
			jobs = append(jobs, job{stream: &sc[si]})
			si++
		}
		jobs = append(jobs, job{codec: &cc[i]})
	}
	for ; si < len(sc); si++ {
		jobs = append(jobs, job{stream: &sc[si]})
	}
	if parts == "" || strings.Contains(parts, "stream") {
		raws := rawPlan(r.Seed, r.Thorough())
		for i := range raws {
			// spread over the run, so the pooled chunks they use have a history
			at := (i + 1) * len(jobs) / (len(raws) + 1)
			jobs = append(jobs[:at], append([]job{{raw: &raws[i]}}, jobs[at:]...)...)
		}
	}
	ch := make(chan job, 64)
	var wg sync.WaitGroup
	nw := runtime.GOMAXPROCS(0)
	if nw < 4 {
		nw = 4
	}
	for w := 0; w < nw; w++ {
		wg.Add(1)
		go func() {
			defer wg.Done()
			for j := range ch {
				t0 := time.Now()
				if j.raw != nil {
					runRawCase(se, *j.raw)
				} else if j.codec != nil {
					ce.runCodecCase(*j.codec)
					r.Count("worker_ms_codec_cases", time.Since(t0).Milliseconds())
					if d := time.Since(t0); d > 30*time.Second {
						r.Note(fmt.Sprintf("slow codec case %s seed %d: %.1fs", j.codec.Type, j.codec.Seed, d.Seconds()))
					}
				} else {
					runStreamCase(se, *j.stream)
					r.Count("worker_ms_stream_cases", time.Since(t0).Milliseconds())
					if d := time.Since(t0); d > 30*time.Second {
						r.Note(fmt.Sprintf("slow stream case %d: %.1fs", j.stream.Idx, d.Seconds()))
					}
				}
			}
		}()
	}
	// compressor batches run in two lanes (MiB-size payloads / the rest) beside the worker pool: more
	// interleaving on the shared pools, and the long MiB-size trips do not serialise the run
	var lanes sync.WaitGroup
	if parts == "" || strings.Contains(parts, "compress") {
		var big, small []compBatch
		for _, b := range compPlan(r) {
			if b.Big {
				big = append(big, b)
			} else {
				small = append(small, b)
			}
		}
		for _, lane := range [][]compBatch{big, small} {
			lanes.Add(1)
			go func(lane []compBatch) {
				defer lanes.Done()
				t0 := time.Now()
				for _, b := range lane {
					runCompBatch(r, b)
				}
				if len(lane) > 0 {
					r.Extra(fmt.Sprintf("wall_s_compressor_lane_big=%v", lane[0].Big), time.Since(t0).Seconds())
				}
			}(lane)
		}
	}
	if parts == "" || strings.Contains(parts, "follower") {
		lanes.Add(1)
		go func() {
			defer lanes.Done()
			t0 := time.Now()
			for _, fc := range followPlan(r) {
				runFollowCase(r, fc)
			}
			r.Extra("wall_s_follower_lane", time.Since(t0).Seconds())
		}()
	}
	if parts == "" || strings.Contains(parts, "replicate") {
		lanes.Add(1)
		go func() {
			defer lanes.Done()
			t0 := time.Now()
			for _, rc := range replPlan(r) {
				runReplCase(r, rc)
			}
			r.Extra("wall_s_replicate_lane", time.Since(t0).Seconds())
		}()
	}
	if parts == "" || strings.Contains(parts, "server") {
		lanes.Add(1)
		go func() {
			defer lanes.Done()
			t0 := time.Now()
			for _, sc := range serverPlan(r) {
				runServerRound(r, se.g, sc)
			}
			r.Extra("wall_s_server_lane", time.Since(t0).Seconds())
		}()
	}
	t0 := time.Now()
	for _, j := range jobs {
		ch <- j
	}
	close(ch)
	wg.Wait()
	r.Extra("wall_s_codec_and_stream_cases", time.Since(t0).Seconds())
	lanes.Wait()
}

// ---------------------------------------------------------------------------------------------
// race reports (GORACE log_path=$SCRATCH/race): deciding when a regatta frame is involved

func raceLogPrefix() string {
	for _, f := range strings.Fields(os.Getenv("GORACE")) {
		if strings.HasPrefix(f, "log_path=") {
			return strings.TrimPrefix(f, "log_path=")
		}
	}
	return ""
}

const regattaPkg = "github.com/jamf/regatta/"

// generated service handlers: one signature per service, not per method
var reGenHandler = regexp.MustCompile(`^regattapb\._([A-Za-z]+)_[A-Za-z]+_Handler$`)

// stackFuncs returns the function names of one stack section of a race report, innermost first.
func stackFuncs(section string) []string {
	var out []string
	for _, ln := range strings.Split(section, "\n")[1:] {
		if strings.HasPrefix(ln, "  ") && !strings.HasPrefix(ln, "   ") {
			fn := strings.TrimSpace(ln)
			if i := strings.LastIndex(fn, "("); i > 0 && strings.HasSuffix(fn, ")") {
				fn = fn[:i]
			}
			out = append(out, fn)
		}
	}
	return out
}

// classifyStack names the outermost frame that belongs to the code under test: a regatta frame,
// or — when the driver's compressOne/decompressOne call straight into the compression library
// through the promoted methods of regatta's pooled writer/reader (which have no frame of their
// own) — the outermost frame of that library.
func classifyStack(fns []string) (string, bool) {
	outer := ""
	for _, f := range fns { // innermost first; keep overwriting -> outermost
		if strings.HasPrefix(f, regattaPkg) {
			outer = reGenHandler.ReplaceAllString(strings.TrimPrefix(f, regattaPkg), "regattapb._${1}_*_Handler")
		}
	}
	if outer != "" {
		return outer, true
	}
	for i, f := range fns {
		if (strings.HasSuffix(f, "main.compressOne") || strings.HasSuffix(f, "main.decompressOne") || strings.Contains(f, "io.ReadAll")) && i > 0 {
			for k := i - 1; k >= 0; k-- {
				if strings.HasPrefix(fns[k], "github.com/klauspost/compress/") {
					return "registered-compressor→" + strings.TrimPrefix(fns[k], "github.com/klauspost/compress/"), true
				}
			}
		}
	}
	if len(fns) > 0 {
		return fns[len(fns)-1], false
	}
	return "?", false
}

// thirdPartyEngineRace: both access stacks run through dragonboat / pebble / memberlist code and no
// frame of the driver's own packages is involved.
func thirdPartyEngineRace(blk string) bool {
	sections := strings.Split(strings.TrimSpace(blk), "\n\n")
	if len(sections) < 2 {
		return false
	}
	for _, s := range sections[:2] {
		tp := false
		for _, f := range stackFuncs(s) {
			if strings.HasPrefix(f, "main.") || strings.HasPrefix(f, "verifharness/") {
				return false
			}
			if strings.HasPrefix(f, "github.com/lni/") || strings.HasPrefix(f, "github.com/cockroachdb/") || strings.HasPrefix(f, "github.com/hashicorp/memberlist") {
				tp = true
			}
		}
		if !tp {
			return false
		}
	}
	return true
}

func raceVerdicts(r *ev.Run) {
	prefix := raceLogPrefix()
	if prefix == "" {
		r.Extra("race_log", "GORACE log_path not set: race reports (if any) went to stderr and were not counted")
		return
	}
	files, _ := filepath.Glob(prefix + ".*")
	total, regatta, other, third := 0, 0, 0, 0
	for _, f := range files {
		b, err := os.ReadFile(f)
		if err != nil {
			continue
		}
		for _, blk := range strings.Split(string(b), "==================") {
			if !strings.Contains(blk, "WARNING: DATA RACE") {
				continue
			}
			total++
			sections := strings.Split(strings.TrimSpace(blk), "\n\n")
			var names []string
			isRegatta := false
			for i, s := range sections {
				if i >= 2 {
					break
				}
				n, ok := classifyStack(stackFuncs(s))
				names = append(names, n)
				isRegatta = isRegatta || ok
			}
			sort.Strings(names)
			rep := strings.TrimSpace(blk)
			if len(rep) > 6000 {
				rep = rep[:6000] + "\n…"
			}
			if isRegatta {
				regatta++
				violationOnce(r, "race:"+strings.Join(names, "|"), "data race reported on state of the code under test: "+strings.Join(names, " vs "),
					raceWitness{Case: anyCase{Part: "race"}, Report: rep, Note: "schedule dependent; --replay re-runs the workload of this seed and tier"})
			} else if thirdPartyEngineRace(blk) {
				// inside the embedded engine's own dependencies (dragonboat, pebble, memberlist): listed, not deciding
				third++
				if third <= 3 {
					r.Note("race report entirely inside third-party engine code: " + strings.Join(names, " vs "))
				}
			} else {
				other++
				if other <= 3 {
					r.Note("race report without a regatta frame (harness or third party): " + strings.Join(names, " vs "))
					fmt.Printf("NOTE race report without a regatta frame: %s\n", strings.Join(names, " vs "))
				}
			}
		}
	}
	r.Extra("race_reports", map[string]int{"total": total, "with_regatta_frame": regatta, "third_party_engine_only": third, "without_regatta_frame": other})
	if other > 0 {
		// cannot be told apart from a defect of the driver: do not pass silently
		r.Inconclusive(fmt.Sprintf("%d race report(s) without a regatta frame", other))
		r.FloorCount("no_unattributed_race_reports", 1)
	}
}
