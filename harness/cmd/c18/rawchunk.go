package main

// Raw byte payloads whose length is aimed at the chunk size of the snapshot stream (k MiB, k MiB ± 1,
// 0, 1) through snapshot.Writer and snapshot.Reader alone: whatever the sender does at the end of
// its input (a last short chunk, an empty chunk, nothing) and whatever the receiver's recycled chunk
// still holds, the bytes received must be the bytes sent. Messages go through the registered codec
// (in-memory stand-in) or through real grpc, which uses the registered codec as every regatta binary.

import (
	"bytes"
	"context"
	"errors"
	"fmt"
	"io"
	"os"
	"time"

	pb "github.com/jamf/regatta/regattapb"
	"github.com/jamf/regatta/replication/snapshot"
)

type rawCase struct {
	Part      string `json:"part"` // "rawchunk"
	Idx       int    `json:"index"`
	Seed      int64  `json:"case_seed"`
	Size      int    `json:"payload_bytes"`
	Transport string `json:"transport"`
	Send      string `json:"send"`
	Cuts      string `json:"cut_plan"`
}

type rawWitness struct {
	Case     rawCase `json:"case"`
	Sent     int     `json:"bytes_sent"`
	Received int     `json:"bytes_received"`
	Chunks   []int   `json:"chunk_lengths"`
	Detail   string  `json:"detail"`
}

func rawPlan(seed int64, thorough bool) []rawCase {
	const m = snapshot.DefaultSnapshotChunkSize
	sizes := []int{m, 2 * m, 3 * m, m - 1, m + 1, 2*m - 1, 2*m + 1, 0, 1, m / 2}
	if thorough {
		sizes = append(sizes, 4*m, 5*m, 3*m-1, 3*m+1, 4*m+1, 7, m+m/2, 2*m, m, 3*m)
	}
	sends := []string{"Writer.ReadFrom(short reads)", "production: io.Copy(&snapshot.Writer, bufio 1MiB over the file)"}
	var out []rawCase
	for i, sz := range sizes {
		c := rawCase{Part: "rawchunk", Idx: i, Seed: seed*9_000_011 + int64(i)*13, Size: sz, Transport: []string{"fake", "grpc"}[(i/2+i)%2], Send: sends[(i/3+i)%2], Cuts: []string{"full", "random"}[(i/5+i)%2]}
		out = append(out, c)
	}
	return out
}

func runRawCase(se *streamEnv, c rawCase) {
	r := se.r
	rnd := caseRand(c.Seed)
	broken := func(why string) { r.Inconclusive(fmt.Sprintf("raw chunk case %d: %s", c.Idx, why)) }
	payload := randBytes(rnd, c.Size)
	f, err := os.CreateTemp("", "c18-raw-*.bin")
	if err != nil {
		broken(err.Error())
		return
	}
	defer func() { f.Close(); os.Remove(f.Name()) }()
	if _, err := f.Write(payload); err != nil {
		broken(err.Error())
		return
	}
	if _, err := f.Seek(0, io.SeekStart); err != nil {
		broken(err.Error())
		return
	}
	plan := streamPlan{Transport: c.Transport, Dir: "snapshot", Send: c.Send, Cuts: c.Cuts, CopyBuf: 1 << 20, Poison: c.Transport == "fake"}
	job := &sendJob{path: f.Name(), plan: plan, size: int64(c.Size), seed: c.Seed}
	if c.Cuts == "random" {
		for pos := int64(0); pos < int64(c.Size); {
			pos += 1 + int64(rnd.Intn(400*1024))
			job.cuts = append(job.cuts, pos)
		}
	}
	ctx, cancel := context.WithTimeout(context.Background(), 3*time.Minute)
	defer cancel()

	var stream pb.Snapshot_StreamClient
	var q *pipeRecv
	var sendErr error
	sendDone := make(chan struct{})
	if c.Transport == "fake" {
		p := newPipe(se.ce.codec, true)
		q = &pipeRecv{p: p}
		stream = &fakeSnapClientStream{q: q}
		go func() {
			defer close(sendDone)
			defer close(p.frames)
			sendErr = sendSnapshot(f, job, &fakeSnapServerStream{p: p})
		}()
		defer func() { p.leave(); <-sendDone }()
	} else {
		close(sendDone)
		name := fmt.Sprintf("raw%d-%d", c.Idx, c.Seed)
		se.g.jobs.Store(name, job)
		defer se.g.jobs.Delete(name)
		s, err := pb.NewSnapshotClient(se.g.conn).Stream(ctx, &pb.SnapshotRequest{Table: []byte(name)})
		if err != nil {
			broken("grpc Stream: " + err.Error())
			return
		}
		stream = s
	}
	var got bytes.Buffer
	_, rerr := io.Copy(&got, &snapshot.Reader{Stream: stream}) // Reader.WriteTo with its pooled chunk
	if q != nil {
		q.finish()
		q.p.leave()
		<-sendDone
	}
	if errors.Is(ctx.Err(), context.DeadlineExceeded) {
		broken("watchdog")
		return
	}
	w := rawWitness{Case: c, Sent: c.Size, Received: got.Len(), Chunks: job.lens}
	if len(w.Chunks) > 12 {
		w.Chunks = w.Chunks[:12]
	}
	switch {
	case rerr != nil:
		w.Detail = rerr.Error()
		violationOnce(r, "chunk-stream-receive-error", fmt.Sprintf("raw stream of %d bytes (%s, %s transport): receive failed: %v", c.Size, c.Send, c.Transport, rerr), w)
		return
	case sendErr != nil || job.err != nil:
		w.Detail = fmt.Sprintf("%v / %v", sendErr, job.err)
		violationOnce(r, "chunk-stream-send-error", fmt.Sprintf("raw stream of %d bytes (%s, %s transport): send failed: %s", c.Size, c.Send, c.Transport, w.Detail), w)
		return
	case !bytes.Equal(got.Bytes(), payload):
		w.Detail = fmt.Sprintf("sent %d bytes in %d chunks %v, received %d bytes, first difference at offset %d", c.Size, len(job.lens), w.Chunks, got.Len(), firstDiff(payload, got.Bytes()))
		violationOnce(r, "chunk-stream-bytes-differ", fmt.Sprintf("raw stream through snapshot.Writer/Reader (%s, %s transport): %s", c.Send, c.Transport, w.Detail), w)
		return
	}
	r.Eval(1)
	r.Count("raw_chunk_streams", 1)
	if c.Size > 0 && c.Size%snapshot.DefaultSnapshotChunkSize == 0 {
		r.Count("raw_chunk_streams_exact_multiple_of_chunk_size", 1)
	}
	for _, l := range job.lens {
		if l == 0 {
			r.Count("empty_chunks_sent", 1)
		}
	}
}
