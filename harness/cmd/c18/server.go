package main

// Part 4 — requests through a server built by regattaserver.NewServer (so its default server options
// apply) under concurrent, uncompressed load.
//
// The registered codec decodes with the vtproto unsafe variant: table/key/value/range_end/chunk data of
// a decoded request are views of the buffer the message was received into. Whether that buffer stays
// untouched for as long as the handler uses the request is decided by the server's options, not by
// the codec — so the observation point is the handler: the real regattaserver.KVServer in front of a
// recording KV service that looks at the request only after other requests have been received, keeps
// a deep copy of what it sees, and applies that to a map. Every request is self-describing (client,
// sequence number, field, length, checksum in table, key and value) and is identified out of band by
// a metadata header, so "what the handler saw" and "what is stored" can be judged against what that
// client sent.

import (
	"context"
	"errors"
	"fmt"
	"hash/crc32"
	"regexp"
	"runtime"
	"sort"
	"sync"
	"sync/atomic"
	"time"

	pb "github.com/jamf/regatta/regattapb"
	"github.com/jamf/regatta/regattaserver"
	"github.com/jamf/regatta/util/iter"
	"google.golang.org/grpc"
	"google.golang.org/grpc/codes"
	"google.golang.org/grpc/metadata"
	"google.golang.org/grpc/status"
	"google.golang.org/protobuf/proto"

	"verifharness/internal/ev"
)

type serverCase struct {
	Part    string `json:"part"` // "server"
	Round   int    `json:"round"`
	Clients int    `json:"clients"`
	PerCli  int    `json:"requests_per_client"`
}

type serverWitness struct {
	Case     serverCase `json:"case"`
	Request  string     `json:"request_id"`
	Method   string     `json:"method"`
	Bytes    int        `json:"request_bytes"`
	Sent     string     `json:"sent"`
	Seen     string     `json:"handler_saw"`
	Diffs    []fdiff    `json:"differences"`
	Foreign  string     `json:"bytes_seen_describe_themselves_as,omitempty"`
	Affected int        `json:"requests_affected_in_this_round"`
	Of       int        `json:"requests_in_this_round"`
	Detail   string     `json:"detail,omitempty"`
}

// ---------------------------------------------------------------------------------------------
// the recording KV service behind the real KVServer

type recKV struct {
	entered atomic.Int64
	mu      sync.Mutex
	seen    map[string]proto.Message // request id -> deep copy of the request as the handler saw it
	overlap map[string]bool          // another request was received while the handler held this one
	store   map[string][]byte        // table \x00 key -> value, as applied by the handlers
	rev     uint64
}

func newRecKV() *recKV {
	return &recKV{seen: map[string]proto.Message{}, overlap: map[string]bool{}, store: map[string][]byte{}}
}

func reqID(ctx context.Context) string {
	if md, ok := metadata.FromIncomingContext(ctx); ok {
		if v := md.Get("c18-id"); len(v) > 0 {
			return v[0]
		}
	}
	return ""
}

// hold keeps the request for a moment, like a handler waiting for storage: until two more requests
// have entered a handler (their messages have been received by then) or ~2 ms have passed. The
// delay only provokes overlap; nothing is decided by time.
func (k *recKV) hold() bool {
	e := k.entered.Add(1)
	for i := 0; i < 40; i++ {
		if k.entered.Load() >= e+2 {
			return true
		}
		runtime.Gosched()
		time.Sleep(50 * time.Microsecond)
	}
	return k.entered.Load() > e
}

func (k *recKV) observe(ctx context.Context, req proto.Message) (proto.Message, uint64) {
	id := reqID(ctx)
	ov := k.hold()
	c := proto.Clone(req) // what the handler sees now
	k.mu.Lock()
	k.seen[id] = c
	k.overlap[id] = ov
	k.rev++
	rev := k.rev
	k.mu.Unlock()
	return c, rev
}

func skey(table, key []byte) string { return string(table) + "\x00" + string(key) }

func (k *recKV) Put(ctx context.Context, req *pb.PutRequest) (*pb.PutResponse, error) {
	c, rev := k.observe(ctx, req)
	p := c.(*pb.PutRequest)
	k.mu.Lock()
	k.store[skey(p.Table, p.Key)] = p.Value
	k.mu.Unlock()
	return &pb.PutResponse{Header: &pb.ResponseHeader{Revision: rev}}, nil
}

func (k *recKV) Delete(ctx context.Context, req *pb.DeleteRangeRequest) (*pb.DeleteRangeResponse, error) {
	c, rev := k.observe(ctx, req)
	d := c.(*pb.DeleteRangeRequest)
	k.mu.Lock()
	n := int64(0)
	if _, ok := k.store[skey(d.Table, d.Key)]; ok && d.RangeEnd == nil {
		delete(k.store, skey(d.Table, d.Key))
		n = 1
	}
	k.mu.Unlock()
	return &pb.DeleteRangeResponse{Header: &pb.ResponseHeader{Revision: rev}, Deleted: n}, nil
}

func (k *recKV) Range(ctx context.Context, req *pb.RangeRequest) (*pb.RangeResponse, error) {
	c, rev := k.observe(ctx, req)
	q := c.(*pb.RangeRequest)
	k.mu.Lock()
	v, ok := k.store[skey(q.Table, q.Key)]
	k.mu.Unlock()
	resp := &pb.RangeResponse{Header: &pb.ResponseHeader{Revision: rev}}
	if ok {
		resp.Kvs = []*pb.KeyValue{{Key: q.Key, Value: v}}
		resp.Count = 1
	}
	return resp, nil
}

func (k *recKV) Txn(ctx context.Context, req *pb.TxnRequest) (*pb.TxnResponse, error) {
	c, rev := k.observe(ctx, req)
	t := c.(*pb.TxnRequest)
	resp := &pb.TxnResponse{Header: &pb.ResponseHeader{Revision: rev}, Succeeded: true}
	k.mu.Lock()
	for _, op := range t.Success {
		switch o := op.Request.(type) {
		case *pb.RequestOp_RequestPut:
			k.store[skey(t.Table, o.RequestPut.Key)] = o.RequestPut.Value
			resp.Responses = append(resp.Responses, &pb.ResponseOp{Response: &pb.ResponseOp_ResponsePut{ResponsePut: &pb.ResponseOp_Put{}}})
		case *pb.RequestOp_RequestDeleteRange:
			delete(k.store, skey(t.Table, o.RequestDeleteRange.Key))
			resp.Responses = append(resp.Responses, &pb.ResponseOp{Response: &pb.ResponseOp_ResponseDeleteRange{ResponseDeleteRange: &pb.ResponseOp_DeleteRange{}}})
		}
	}
	k.mu.Unlock()
	return resp, nil
}

func (k *recKV) IterateRange(context.Context, *pb.RangeRequest) (iter.Seq[*pb.RangeResponse], error) {
	return nil, errors.New("c18: not used")
}

var _ regattaserver.KVService = (*recKV)(nil)

// ---------------------------------------------------------------------------------------------
// self-describing content

// selfDescribing returns n bytes (at least the header) of the form
// "<r1 c03 s00017 value len=900>" + filler of the client's letter + 8 hex digits of crc32.
func selfDescribing(round, client, seq int, field string, n int) []byte {
	h := fmt.Sprintf("<r%d c%02d s%05d %s len=%d>", round, client, seq, field, n)
	if n < len(h)+8 {
		n = len(h) + 8
		h = fmt.Sprintf("<r%d c%02d s%05d %s len=%d>", round, client, seq, field, n)
		if n < len(h)+8 {
			n = len(h) + 8
		}
	}
	b := make([]byte, n)
	copy(b, h)
	if n-8 > len(h) {
		fillByte(b[len(h):n-8], byte('A'+client%26))
	}
	copy(b[n-8:], fmt.Sprintf("%08x", crc32.ChecksumIEEE(b[:n-8])))
	return b
}

var reSelf = regexp.MustCompile(`<r(\d+) c(\d+) s(\d+) (\w+) len=(\d+)>`)

// whoseBytes names the request the given bytes claim to belong to.
func whoseBytes(b []byte) string {
	if len(b) > 4096 {
		b = b[:4096]
	}
	if m := reSelf.Find(b); m != nil {
		return string(m)
	}
	return ""
}

// message sizes spread over the size classes of grpc's shared buffer pool (<=256 B, <=4 KiB, <=64 KiB, <=1 MiB)
var valueSizes = []int{0, 40, 120, 700, 1000, 3000, 3900, 4200, 9000, 16000, 30000, 60000, 70000}

type sentReq struct {
	id     string
	method string
	msg    proto.Message
	err    error
}

// clientOps derives the request list of one client: puts of all sizes, reads and deletes of own
// earlier keys, transactions with nested puts; and the content its table must end with.
func clientOps(seed int64, sc serverCase, client int) ([]*sentReq, map[string][]byte) {
	rnd := caseRand(seed + int64(sc.Round)*1_000_003 + int64(client)*7919)
	table := selfDescribing(sc.Round, client, 0, "table", 0)
	exp := map[string][]byte{}
	var keys [][]byte
	var out []*sentReq
	mib := map[int]bool{sc.PerCli / 3: true, 2 * sc.PerCli / 3: true}
	for s := 1; s <= sc.PerCli; s++ {
		id := fmt.Sprintf("r%d-c%02d-s%05d", sc.Round, client, s)
		klen := 0
		if rnd.Intn(8) == 0 {
			klen = 200 + rnd.Intn(700)
		}
		key := selfDescribing(sc.Round, client, s, "key", klen)
		vlen := valueSizes[rnd.Intn(len(valueSizes))] + rnd.Intn(64)
		if mib[s] {
			vlen = 900*1024 + rnd.Intn(100*1024)
		}
		x := rnd.Intn(10)
		switch {
		case x < 6 || len(keys) == 0 || mib[s]:
			v := selfDescribing(sc.Round, client, s, "value", vlen)
			out = append(out, &sentReq{id: id, method: "Put", msg: &pb.PutRequest{Table: table, Key: key, Value: v}})
			exp[skey(table, key)] = v
			keys = append(keys, key)
		case x < 7:
			k := keys[rnd.Intn(len(keys))]
			out = append(out, &sentReq{id: id, method: "Range", msg: &pb.RangeRequest{Table: table, Key: k}})
		case x < 8:
			k := keys[rnd.Intn(len(keys))]
			out = append(out, &sentReq{id: id, method: "DeleteRange", msg: &pb.DeleteRangeRequest{Table: table, Key: k}})
			delete(exp, skey(table, k))
		default:
			k2 := selfDescribing(sc.Round, client, s, "key2", 0)
			v1 := selfDescribing(sc.Round, client, s, "value", vlen/2)
			v2 := selfDescribing(sc.Round, client, s, "value2", vlen/2)
			cmpKey := keys[rnd.Intn(len(keys))]
			t := &pb.TxnRequest{Table: table,
				Compare: []*pb.Compare{{Key: cmpKey, Result: pb.Compare_GREATER, Target: pb.Compare_VALUE, TargetUnion: &pb.Compare_Value{Value: selfDescribing(sc.Round, client, s, "cmp", 0)}}},
				Success: []*pb.RequestOp{
					{Request: &pb.RequestOp_RequestPut{RequestPut: &pb.RequestOp_Put{Key: key, Value: v1}}},
					{Request: &pb.RequestOp_RequestPut{RequestPut: &pb.RequestOp_Put{Key: k2, Value: v2}}},
				}}
			out = append(out, &sentReq{id: id, method: "Txn", msg: t})
			exp[skey(table, key)] = v1
			exp[skey(table, k2)] = v2
			keys = append(keys, key, k2)
		}
	}
	return out, exp
}

// ---------------------------------------------------------------------------------------------

func runServerRound(r *ev.Run, g *grpcEnv, sc serverCase) {
	kv := g.kv
	// a round owns the recorder's per-request maps; the store only grows by per-round tables
	conns := make([]*grpc.ClientConn, 0, 3)
	for i := 0; i < 3; i++ {
		c, err := g.dial()
		if err != nil {
			r.Inconclusive("server round: dial: " + err.Error())
			return
		}
		defer c.Close()
		conns = append(conns, c)
	}
	type cres struct {
		reqs []*sentReq
		exp  map[string][]byte
	}
	res := make([]cres, sc.Clients)
	var wg sync.WaitGroup
	start := make(chan struct{})
	for c := 0; c < sc.Clients; c++ {
		reqs, exp := clientOps(r.Seed, sc, c)
		res[c] = cres{reqs, exp}
		wg.Add(1)
		go func(c int) {
			defer wg.Done()
			cl := pb.NewKVClient(conns[c%len(conns)])
			<-start
			for _, q := range res[c].reqs {
				ctx, cancel := context.WithTimeout(metadata.AppendToOutgoingContext(context.Background(), "c18-id", q.id), 2*time.Minute)
				switch m := q.msg.(type) { // no compressor: plain API clients do not compress
				case *pb.PutRequest:
					_, q.err = cl.Put(ctx, m)
				case *pb.RangeRequest:
					_, q.err = cl.Range(ctx, m)
				case *pb.DeleteRangeRequest:
					_, q.err = cl.DeleteRange(ctx, m)
				case *pb.TxnRequest:
					_, q.err = cl.Txn(ctx, m)
				}
				cancel()
			}
		}(c)
	}
	close(start)
	wg.Wait()

	// --- judge: what each handler saw vs what that client sent
	total, bad, overlapped := 0, 0, 0
	tainted := map[int]bool{}
	var first *serverWitness
	firstSig, firstWhat := "", ""
	kv.mu.Lock()
	defer kv.mu.Unlock()
	for c := range res {
		for _, q := range res[c].reqs {
			total++
			r.Count("server_requests", 1)
			r.Count("server_requests_"+q.method, 1)
			size := proto.Size(q.msg)
			r.Distinct("server_request_size_classes", poolClass(size))
			if kv.overlap[q.id] {
				overlapped++
			}
			seen := kv.seen[q.id]
			delete(kv.seen, q.id)
			delete(kv.overlap, q.id)
			if q.err != nil {
				if st, _ := status.FromError(q.err); st != nil && (st.Code() == codes.DeadlineExceeded || st.Code() == codes.Canceled) {
					r.Inconclusive("server request " + q.id + ": " + q.err.Error())
					tainted[c] = true // unknown whether it was applied: this client's table is not judged
					continue
				}
			}
			var w *serverWitness
			sig, what := "", ""
			switch {
			case seen == nil && q.err != nil:
				// the real KVServer turned a valid request away before it reached the service
				w = &serverWitness{Case: sc, Request: q.id, Method: q.method, Bytes: size, Sent: shortSummary(q.msg), Detail: q.err.Error()}
				sig = "server-rejects-valid-request"
				what = fmt.Sprintf("valid %s request %s (%d B) was answered with %v", q.method, q.id, size, q.err)
			case seen == nil:
				w = &serverWitness{Case: sc, Request: q.id, Method: q.method, Bytes: size, Sent: shortSummary(q.msg), Detail: "answered OK but the request never reached the service under its id"}
				sig = "server-request-lost"
				what = fmt.Sprintf("%s request %s was answered OK but no handler saw it", q.method, q.id)
			default:
				diffs, equal, disagree := compare(q.msg, seen)
				if disagree {
					r.Count("oracle_disagreements", 1)
					r.Inconclusive("proto.Equal and the presence-aware comparer disagree on server request " + q.id)
					continue
				}
				if !equal {
					foreign := ""
					switch m := seen.(type) {
					case *pb.PutRequest:
						foreign = firstForeign(q.id, m.Table, m.Key, m.Value)
					case *pb.RangeRequest:
						foreign = firstForeign(q.id, m.Table, m.Key)
					case *pb.DeleteRangeRequest:
						foreign = firstForeign(q.id, m.Table, m.Key)
					case *pb.TxnRequest:
						fs := [][]byte{m.Table}
						for _, op := range m.Success {
							if p := op.GetRequestPut(); p != nil {
								fs = append(fs, p.Key, p.Value)
							}
						}
						foreign = firstForeign(q.id, fs...)
					}
					w = &serverWitness{Case: sc, Request: q.id, Method: q.method, Bytes: size, Sent: shortSummary(q.msg), Seen: shortSummary(seen), Diffs: diffs, Foreign: foreign}
					sig = "server-handler-sees-request-changed-after-decode"
					what = fmt.Sprintf("%s request %s (%d B, uncompressed, %d clients in parallel): the handler saw %s", q.method, q.id, size, sc.Clients, diffs[0].Path+": "+diffs[0].Detail)
					if foreign != "" {
						sig = "server-handler-sees-other-requests-bytes"
						what += "; the bytes it saw describe themselves as " + foreign
					}
				}
			}
			if w != nil {
				bad++
				if first == nil {
					first, firstSig, firstWhat = w, sig, what
				}
			} else {
				r.Eval(1)
			}
		}
	}
	r.Count("server_requests_held_while_another_was_received", int64(overlapped))
	if first != nil {
		first.Affected, first.Of = bad, total
		violationOnce(r, firstSig, fmt.Sprintf("%s (%d of %d requests of the round affected)", firstWhat, bad, total), *first)
	}

	// --- judge: what is stored vs what the clients sent (tables are per client and per round)
	wrong, missing := 0, 0
	detail := ""
	expKeys := 0
	for c := range res {
		for k, v := range res[c].exp {
			if tainted[c] {
				delete(kv.store, k)
				continue
			}
			expKeys++
			got, ok := kv.store[k]
			switch {
			case !ok:
				missing++
				if detail == "" {
					detail = fmt.Sprintf("key %q of client %d is not stored", trunc80(k), c)
				}
			case string(got) != string(v):
				wrong++
				if detail == "" {
					detail = fmt.Sprintf("key %q of client %d holds %d B describing themselves as %q, the client stored %d B %q", trunc80(k), c, len(got), whoseBytes(got), len(v), whoseBytes(v))
				}
			}
			delete(kv.store, k)
		}
	}
	// whatever is left under this round's tables was never sent by anybody
	prefix := fmt.Sprintf("<r%d ", sc.Round)
	extra := 0
	var extras []string
	for k := range kv.store {
		if len(k) >= len(prefix) && k[:len(prefix)] == prefix {
			extra++
			extras = append(extras, trunc80(k))
			delete(kv.store, k)
		}
	}
	sort.Strings(extras)
	r.Count("server_stored_pairs_checked", int64(expKeys))
	if wrong+missing+extra > 0 && first == nil {
		if detail == "" && len(extras) > 0 {
			detail = fmt.Sprintf("stored key %q was never sent", extras[0])
		}
		violationOnce(r, "server-stored-differs-from-sent", fmt.Sprintf("after %d clients × %d requests: %d pairs wrong, %d missing, %d never sent; %s", sc.Clients, sc.PerCli, wrong, missing, extra, detail),
			serverWitness{Case: sc, Detail: detail, Affected: wrong + missing + extra, Of: expKeys})
	} else if wrong+missing+extra > 0 {
		r.Count("server_stored_pairs_differing", int64(wrong+missing+extra))
	}
	r.Count("server_rounds", 1)
	r.Distinct("server_client_counts", fmt.Sprint(sc.Clients))
	if first == nil && sc.Round == 0 {
		r.Sample(map[string]any{"part": "server", "built_by": "regattaserver.NewServer + regattaserver.KVServer", "clients": sc.Clients, "requests": total,
			"held_while_another_request_was_received": overlapped, "stored_pairs_checked": expKeys, "result": "every handler saw what its client sent; store equals what the clients sent"})
	}
}

func trunc80(s string) string {
	if len(s) > 80 {
		return s[:80] + "…"
	}
	return s
}

// firstForeign: the first field whose bytes describe themselves as belonging to another request.
func firstForeign(id string, fields ...[]byte) string {
	var r, c, s int
	fmt.Sscanf(id, "r%d-c%d-s%d", &r, &c, &s)
	own := fmt.Sprintf("<r%d c%02d ", r, c)
	for _, f := range fields {
		if w := whoseBytes(f); w != "" && (len(w) < len(own) || w[:len(own)] != own) {
			return w
		}
	}
	return ""
}

func poolClass(n int) string {
	switch {
	case n <= 16:
		return "<=16B"
	case n <= 256:
		return "<=256B"
	case n <= 4096:
		return "<=4KiB"
	case n <= 65536:
		return "<=64KiB"
	case n <= 1<<20:
		return "<=1MiB"
	}
	return ">1MiB"
}

func serverPlan(r *ev.Run) []serverCase {
	var out []serverCase
	n := r.Pick(3, 24)
	for i := 0; i < n; i++ {
		out = append(out, serverCase{Part: "server", Round: i, Clients: []int{8, 12, 16}[i%3], PerCli: r.Pick(70, 150)})
	}
	return out
}
