package main

// Part 1 — the registered codec, fresh and recycled receivers, cross-check against the reference
// implementation (google.golang.org/protobuf).

import (
	"fmt"
	"hash/fnv"
	"math/rand"
	"reflect"
	"strings"
	"sync"
	"sync/atomic"

	pb "github.com/jamf/regatta/regattapb"
	"google.golang.org/grpc/encoding"
	"google.golang.org/protobuf/proto"
	"google.golang.org/protobuf/reflect/protoreflect"

	"verifharness/internal/ev"
)

// pooledMsg is what the vtproto pool feature generates for a pool-enabled message.
type pooledMsg interface {
	proto.Message
	ResetVT()
	ReturnToVTPool()
}

var poolGetters = map[protoreflect.FullName]func() pooledMsg{
	"mvcc.v1.Command":              func() pooledMsg { return pb.CommandFromVTPool() },
	"replication.v1.SnapshotChunk": func() pooledMsg { return pb.SnapshotChunkFromVTPool() },
}

type codecCase struct {
	Part  string `json:"part"` // "codec"
	Type  string `json:"type"`
	Seed  int64  `json:"case_seed"`
	Probe int    `json:"probe,omitempty"` // >0: hand-written pair number Probe-1 instead of a generated one
}

// probe pairs: small hand-written (A held first, B decoded into the recycled receiver) shapes, run
// before the generated cases so that a failure of one of them is reported with a minimal witness.
type probePair struct {
	name string
	a, b proto.Message
}

func u64(v uint64) *uint64 { return &v }

func probePairs() []probePair {
	del := func(key string, end []byte) *pb.Command {
		return &pb.Command{Table: []byte("t"), Type: pb.Command_DELETE, Kv: &pb.KeyValue{Key: []byte(key)}, RangeEnd: end}
	}
	put := &pb.Command{Table: []byte("t"), Type: pb.Command_PUT, Kv: &pb.KeyValue{Key: []byte("k"), Value: []byte("v")}}
	txn := &pb.Txn{Compare: []*pb.Compare{{Key: []byte("k"), Result: pb.Compare_EQUAL, Target: pb.Compare_VALUE, TargetUnion: &pb.Compare_Value{Value: []byte("v")}}},
		Success: []*pb.RequestOp{{Request: &pb.RequestOp_RequestPut{RequestPut: &pb.RequestOp_Put{Key: []byte("k"), Value: []byte("w")}}}}}
	return []probePair{
		{"range delete [a,b), then single-key delete a (no range_end)", del("a", []byte("b")), del("a", nil)},
		{"range delete with empty range_end, then range delete [a,b)", del("a", []byte{}), del("a", []byte("b"))},
		{"single-key delete, then range delete with present-but-empty range_end", del("a", nil), del("a", []byte{})},
		{"command with leader_index, then without", &pb.Command{Table: []byte("t"), Type: pb.Command_DUMMY, LeaderIndex: u64(5)}, &pb.Command{Table: []byte("t"), Type: pb.Command_DUMMY}},
		{"command with leader_index 5, then leader_index 0 (present)", &pb.Command{Type: pb.Command_DUMMY, LeaderIndex: u64(5)}, &pb.Command{Type: pb.Command_DUMMY, LeaderIndex: u64(0)}},
		{"txn command, then put", &pb.Command{Table: []byte("t"), Type: pb.Command_TXN, Txn: txn}, put},
		{"txn command, then command with empty txn", &pb.Command{Table: []byte("t"), Type: pb.Command_TXN, Txn: txn}, &pb.Command{Type: pb.Command_TXN, Txn: &pb.Txn{}}},
		{"put, then command without kv", put, &pb.Command{Table: []byte("longer-table-name"), Type: pb.Command_DUMMY}},
		{"batch of 3 full pairs, then batch of 1 key-only pair", &pb.Command{Type: pb.Command_PUT_BATCH, Batch: []*pb.KeyValue{{Key: []byte("a"), Value: []byte("1"), ModRevision: 3}, {Key: []byte("b"), Value: []byte("2")}, {Key: []byte("c"), Value: []byte("3")}}},
			&pb.Command{Type: pb.Command_DELETE_BATCH, Batch: []*pb.KeyValue{{Key: []byte("z")}}}},
		{"sequence [range delete, txn], then sequence [single-key delete]", &pb.Command{Type: pb.Command_SEQUENCE, Sequence: []*pb.Command{del("a", []byte("b")), {Type: pb.Command_TXN, Txn: txn, LeaderIndex: u64(9)}}},
			&pb.Command{Type: pb.Command_SEQUENCE, Sequence: []*pb.Command{del("a", nil)}}},
		{"full command, then the all-default command (empty encoding)", &pb.Command{Table: []byte("t"), Type: pb.Command_DELETE, Kv: &pb.KeyValue{Key: []byte("a")}, RangeEnd: []byte("b"), LeaderIndex: u64(1), PrevKvs: true, Count: true, Txn: txn}, &pb.Command{}},
		{"chunk of 1000 bytes, then the empty chunk", &pb.SnapshotChunk{Data: bytes1000(), Len: 1000, Index: 7}, &pb.SnapshotChunk{}},
		{"chunk of 1000 bytes, then chunk of 3 bytes", &pb.SnapshotChunk{Data: bytes1000(), Len: 1000, Index: 7}, &pb.SnapshotChunk{Data: []byte("abc"), Len: 3}},
	}
}

func bytes1000() []byte {
	b := make([]byte, 1000)
	fillByte(b, 'x')
	return b
}

type codecWitness struct {
	Case     codecCase `json:"case"`
	Step     string    `json:"step"`
	Receiver string    `json:"receiver"`
	Original string    `json:"original"`
	Decoded  string    `json:"decoded"`
	Diffs    []fdiff   `json:"differences"`
	Previous string    `json:"receiver_previously_held,omitempty"`
	Note     string    `json:"note,omitempty"`
}

type codecEnv struct {
	r      *ev.Run
	codec  encoding.Codec
	types  []protoreflect.MessageType
	byName map[string]protoreflect.MessageType
	bigMax int

	staleNoted atomic.Bool

	mu    sync.Mutex
	feats map[string]struct{}
	// what a pooled object held when it was last returned (pointer -> rendering); lets a witness
	// name the previous content of a recycled receiver.
	held sync.Map
}

func newCodecEnv(r *ev.Run) *codecEnv {
	e := &codecEnv{r: r, codec: encoding.GetCodec("proto"), types: apiMessageTypes(), byName: map[string]protoreflect.MessageType{}, feats: map[string]struct{}{}}
	for _, mt := range e.types {
		e.byName[string(mt.Descriptor().FullName())] = mt
	}
	e.bigMax = r.Pick(1<<20, 8<<20)
	return e
}

func caseRand(seed int64) *rand.Rand { return rand.New(rand.NewSource(seed)) }

func typeSeed(runSeed int64, name string, i int) int64 {
	h := fnv.New64a()
	h.Write([]byte(name))
	return int64(h.Sum64()&0x7fffffffffff) ^ (runSeed * 1_000_003) ^ int64(i)*7_919
}

// marshal returns a private copy of the codec's encoding (so it can be overwritten later
// without touching anything the codec may have kept).
func (e *codecEnv) marshal(m proto.Message) ([]byte, error) {
	b, err := e.codec.Marshal(m)
	if err != nil {
		return nil, err
	}
	return append(make([]byte, 0, len(b)+1), b...), nil
}

// runCodecCase executes one case: message B of the given type (plus, for pool-enabled types, a
// different larger message A of the same type that the receiver holds first).
func (e *codecEnv) runCodecCase(c codecCase) {
	r := e.r
	mt := e.byName[c.Type]
	if mt == nil {
		r.Inconclusive("replay names unknown message type " + c.Type)
		return
	}
	rnd := caseRand(c.Seed)
	gb := newMG(rnd, false, e.bigMax)
	var B proto.Message
	var probe *probePair
	if c.Probe > 0 {
		pp := probePairs()
		if c.Probe > len(pp) {
			r.Inconclusive("replay names unknown probe")
			return
		}
		probe = &pp[c.Probe-1]
		B = probe.b
	} else {
		B = gb.gen(mt)
	}
	e.mu.Lock()
	for f := range gb.feat {
		e.feats[f] = struct{}{}
	}
	e.mu.Unlock()

	var A proto.Message // the larger message a recycled receiver holds first (pool-enabled types)
	const prevIsA = "\x00A"
	fail := func(sig, step, recv string, orig, got proto.Message, diffs []fdiff, prev, note string) {
		if seenBefore(r, sig) {
			return
		}
		if prev == prevIsA {
			prev = "message A of this case: " + shortSummary(A)
		}
		w := codecWitness{Case: c, Step: step, Receiver: recv, Original: summarize(orig), Diffs: diffs, Previous: prev, Note: note}
		if probe != nil {
			w.Note = strings.TrimSpace("hand-written pair: " + probe.name + ". " + note)
		}
		if got != nil {
			w.Decoded = summarize(got)
		}
		what := fmt.Sprintf("%s, %s receiver, step %s: ", c.Type, recv, step)
		if len(diffs) > 0 {
			what += diffs[0].Path + ": " + diffs[0].Detail
			if len(diffs) > 1 {
				what += fmt.Sprintf(" (+%d more differences)", len(diffs)-1)
			}
		} else {
			what += note
		}
		violationOnce(r, sig, what, w)
	}
	// judge compares and reports; returns true when the decoded message equals the original.
	judge := func(step, recv string, orig, got proto.Message, prev string) bool {
		cmp := compare
		if orig != B {
			cmp = compareFast // the large first message of a recycling chain
		}
		diffs, equal, disagree := cmp(orig, got)
		r.Count("codec_round_trips", 1)
		if disagree {
			r.Count("oracle_disagreements", 1)
			r.Inconclusive(fmt.Sprintf("proto.Equal and the presence-aware comparer disagree on %s case %d step %s (proto.Equal=%v, diffs=%v)", c.Type, c.Seed, step, proto.Equal(orig, got), diffs))
			return false
		}
		if equal {
			return true
		}
		sig := fmt.Sprintf("codec-%s-mismatch:%s", recv, firstField(diffs))
		if recv != "fresh" && c.Type == "mvcc.v1.Command" && onlyEmptyRangeEndPresence(diffs) {
			sig = "pooled-command-decode-keeps-empty-range_end"
		}
		fail(sig, step, recv, orig, got, diffs, prev, "")
		if sig == "pooled-command-decode-keeps-empty-range_end" {
			// reported; undo exactly this difference so that the rest of the case (other fields,
			// stale aliasing) is still judged instead of being masked by it
			dropEmptyRangeEnd(orig.(*pb.Command), got.(*pb.Command))
			if d2, eq2, _ := compare(orig, got); !eq2 {
				fail(fmt.Sprintf("codec-%s-mismatch:%s", recv, firstField(d2)), step, recv, orig, got, d2, prev, "")
				return false
			}
			return true
		}
		return false
	}

	encB, err := e.marshal(B)
	if err != nil {
		fail("codec-marshal-error:"+shortType(c.Type), "marshal", "-", B, nil, nil, "", err.Error())
		return
	}
	r.Count("codec_bytes", int64(len(encB)))

	// 1. fresh receiver
	fresh := mt.New().Interface()
	src := append([]byte{}, encB...)
	if err := e.codec.Unmarshal(src, fresh); err != nil {
		fail("codec-unmarshal-error:"+shortType(c.Type), "decode", "fresh", B, nil, nil, "", err.Error())
		return
	}
	ok := judge("decode", "fresh", B, fresh, "")
	if ok {
		// observation only: the unsafe vtproto variant aliases the source buffer by design; how
		// long that buffer stays untouched is the transport's business (checked in the stream part)
		scribble(src)
		if !proto.Equal(B, fresh) {
			r.Count("observed_decoded_message_aliases_source_buffer", 1)
		} else {
			r.Count("observed_decoded_message_independent_of_source_buffer", 1)
		}
	}

	// 2. cross-check with the reference implementation
	std := mt.New().Interface()
	if err := proto.Unmarshal(encB, std); err != nil {
		fail("codec-crosscheck-reference-rejects-vt-encoding:"+shortType(c.Type), "vt-marshal→std-unmarshal", "fresh", B, nil, nil, "", err.Error())
	} else {
		diffs, equal, _ := compareFast(B, std)
		r.Count("crosscheck_trips", 1)
		if !equal {
			fail("codec-crosscheck-vt-marshal-std-unmarshal:"+firstField(diffs), "vt-marshal→std-unmarshal", "fresh", B, std, diffs, "", "")
		}
	}
	if encStd, err := proto.Marshal(B); err != nil {
		r.Inconclusive("reference implementation cannot marshal generated " + c.Type + ": " + err.Error())
	} else {
		vt := mt.New().Interface()
		if err := e.codec.Unmarshal(append([]byte{}, encStd...), vt); err != nil {
			fail("codec-crosscheck-vt-rejects-reference-encoding:"+shortType(c.Type), "std-marshal→vt-unmarshal", "fresh", B, nil, nil, "", err.Error())
		} else {
			diffs, equal, _ := compareFast(B, vt)
			r.Count("crosscheck_trips", 1)
			if !equal {
				fail("codec-crosscheck-std-marshal-vt-unmarshal:"+firstField(diffs), "std-marshal→vt-unmarshal", "fresh", B, vt, diffs, "", "")
			}
		}
	}
	r.Eval(1)

	// 3. recycled receivers (pool-enabled types)
	get := poolGetters[mt.Descriptor().FullName()]
	if get == nil {
		return
	}
	if probe != nil {
		A = probe.a
		r.Count("recycling_probe_pairs", 1)
	} else {
		A = newMG(rnd, true, e.bigMax).gen(mt) // a different, larger message
	}
	encA, err := e.marshal(A)
	if err != nil {
		fail("codec-marshal-error:"+shortType(c.Type), "marshal", "-", A, nil, nil, "", err.Error())
		return
	}
	nontrivial := gb.oneofsSet > 0 && gb.optSet > 0
	prevOf := func(o pooledMsg) string {
		if v, ok := e.held.Load(reflect.ValueOf(o).Pointer()); ok {
			return v.(string)
		}
		return "(new object)"
	}
	remember := func(o pooledMsg, which string) {
		e.held.Store(reflect.ValueOf(o).Pointer(), fmt.Sprintf("message %s of case_seed %d", which, c.Seed))
	}

	// pattern "loop": one pooled object, ResetVT before each receive (snapshot.Reader.WriteTo)
	{
		o := e.fromPool(get)
		prev := prevOf(o)
		bufA := append([]byte{}, encA...)
		o.ResetVT()
		if err := e.codec.Unmarshal(bufA, o); err != nil {
			fail("codec-unmarshal-error:"+shortType(c.Type), "decode A", "recycled(ResetVT loop)", A, nil, nil, prev, err.Error())
		} else {
			judge("decode larger message A into object taken from the pool", "recycled", A, o, prev)
		}
		o.ResetVT()
		bufB := append([]byte{}, encB...)
		if err := e.codec.Unmarshal(bufB, o); err != nil {
			fail("codec-unmarshal-error:"+shortType(c.Type), "decode B", "recycled(ResetVT loop)", B, nil, nil, prevIsA, err.Error())
		} else if judge("ResetVT, then decode B into the object that held A", "recycled", B, o, prevIsA) {
			r.Count("recycled_decodes_equal", 1)
			// the buffer of the PREVIOUS message is dead by now; a recycled receiver must not still point into it
			scribble(bufA)
			if diffs, equal, _ := compareFast(B, o); !equal {
				fail("codec-recycled-receiver-aliases-previous-buffer:"+firstField(diffs), "overwrite buffer of previous message A", "recycled", B, o, diffs, prevIsA, "")
			}
			if nontrivial {
				r.Nontrivial("codec-loop|" + string(encB))
			}
		}
		r.Count("recycled_decodes", 2)
		remember(o, "B")
		o.ReturnToVTPool()
	}
	// pattern "per call": FromVTPool, receive, ReturnToVTPool (snapshot.Reader.Read)
	{
		o := e.fromPool(get)
		prev := prevOf(o)
		bufA := append([]byte{}, encA...)
		if err := e.codec.Unmarshal(bufA, o); err != nil {
			fail("codec-unmarshal-error:"+shortType(c.Type), "decode A", "recycled(pool per call)", A, nil, nil, prev, err.Error())
		} else {
			judge("decode larger message A into object taken from the pool (no explicit reset)", "recycled", A, o, prev)
		}
		p1 := reflect.ValueOf(o).Pointer()
		remember(o, "A")
		o.ReturnToVTPool()
		o2 := e.fromPool(get)
		prev2 := prevOf(o2)
		same := reflect.ValueOf(o2).Pointer() == p1
		bufB := append([]byte{}, encB...)
		if err := e.codec.Unmarshal(bufB, o2); err != nil {
			fail("codec-unmarshal-error:"+shortType(c.Type), "decode B", "recycled(pool per call)", B, nil, nil, prev2, err.Error())
		} else if judge("ReturnToVTPool, FromVTPool, decode B", "recycled", B, o2, prev2) {
			r.Count("recycled_decodes_equal", 1)
			if same {
				scribble(bufA)
				if diffs, equal, _ := compareFast(B, o2); !equal {
					fail("codec-recycled-receiver-aliases-previous-buffer:"+firstField(diffs), "overwrite buffer of previous message A", "recycled", B, o2, diffs, prev2, "")
				}
				if nontrivial {
					r.Nontrivial("codec-pool|" + string(encB))
				}
			}
		}
		r.Count("recycled_decodes", 2)
		if same {
			r.Count("pool_returned_same_object", 1)
		} else {
			r.Count("pool_returned_other_object", 1)
		}
		remember(o2, "B")
		o2.ReturnToVTPool()
	}
	r.Eval(1)
	if rnd.Intn(400) == 0 {
		r.Sample(map[string]any{"part": "codec", "type": c.Type, "case_seed": c.Seed, "encoded_bytes": len(encB), "message": shortSummary(B),
			"receiver_first_held": shortSummary(A), "oneof_arms_set": gb.oneofsSet, "optional_fields_set": gb.optSet})
	}
}

// dropEmptyRangeEnd resets a present-but-empty range_end in the decoded tree wherever the
// original has none.
func dropEmptyRangeEnd(orig, got *pb.Command) {
	if orig.RangeEnd == nil && got.RangeEnd != nil && len(got.RangeEnd) == 0 {
		got.RangeEnd = nil
	}
	for i := range orig.Sequence {
		if i < len(got.Sequence) && orig.Sequence[i] != nil && got.Sequence[i] != nil {
			dropEmptyRangeEnd(orig.Sequence[i], got.Sequence[i])
		}
	}
}

// fromPool takes an object from the vtproto pool and looks at the state it arrives in. Every object
// this driver returns went through ReturnToVTPool with its full content, so all elements of its
// Sequence backing array are reset. Other users of the same pool in this process (the replication
// worker's proposeBatch truncates seq.Sequence to [:0] BEFORE ReturnToVTPool, so ResetVT never
// sees the commands it appended) can hand back an object whose backing array still references live,
// non-reset commands; a later decode would merge into them. No regatta code decodes into pooled
// Commands, which object the pool hands to whom is schedule dependent, and the contamination is
// not an act of the codec: it is recorded as an observation (evidence counter + note), the stale
// slots are dropped, and the case goes on deterministically.
func (e *codecEnv) fromPool(get func() pooledMsg) pooledMsg {
	o := get()
	c, ok := o.(*pb.Command)
	if !ok {
		return o
	}
	full := c.Sequence[:cap(c.Sequence)]
	stale := 0
	for i, el := range full {
		if el != nil && !commandIsReset(el) {
			full[i] = nil
			stale++
		}
	}
	if stale > 0 {
		e.r.Count("observed_not_judged_pooled_commands_arriving_with_live_sequence_elements", 1)
		if e.staleNoted.CompareAndSwap(false, true) {
			e.r.Note(fmt.Sprintf("observed, not judged: a Command taken from the vtproto pool arrived with %d live (non-reset) commands in the backing array of its sequence field, "+
				"left there by another user of the pool in this process (replication worker proposeBatch: seq.Sequence = seq.Sequence[:0] before ReturnToVTPool); decoding a sequence into it would merge into them", stale))
		}
	}
	return o
}

func commandIsReset(c *pb.Command) bool {
	return len(c.Table) == 0 && c.Type == 0 && c.Kv == nil && c.LeaderIndex == nil && len(c.Batch) == 0 && c.Txn == nil &&
		len(c.RangeEnd) == 0 && !c.PrevKvs && len(c.Sequence) == 0 && !c.Count
}

func shortSummary(m proto.Message) string {
	s := fmt.Sprintf("%v", m)
	if len(s) > 240 {
		s = s[:240] + fmt.Sprintf("… (%d chars)", len(s))
	}
	return s
}

func shortType(full string) string {
	if i := strings.Index(full, ".v1."); i >= 0 {
		return full[i+4:]
	}
	return full
}

// firstField names the field (Message.field) at which the first difference lies, plus the kind of
// difference: the same for every message type that embeds the failing one.
func firstField(d []fdiff) string {
	if len(d) == 0 {
		return "-"
	}
	parts := strings.Split(d[0].Field, ".")
	if len(parts) > 2 {
		parts = parts[len(parts)-2:]
	}
	return strings.Join(parts, ".") + "/" + d[0].Kind
}

// violationOnce emits the first violation of a signature through ev (which prints it and writes
// the replay file) and only counts repetitions.
var (
	seenSigMu sync.Mutex
	seenSig   = map[string]int{}
)

// seenBefore counts a repetition of an already reported signature (and spares building a witness).
func seenBefore(r *ev.Run, sig string) bool {
	seenSigMu.Lock()
	defer seenSigMu.Unlock()
	if seenSig[sig] > 0 {
		seenSig[sig]++
		r.Count("repeated_violations_of_reported_signatures", 1)
		return true
	}
	return false
}

func violationOnce(r *ev.Run, sig, what string, witness any) {
	seenSigMu.Lock()
	seenSig[sig]++
	n := seenSig[sig]
	seenSigMu.Unlock()
	if n == 1 {
		r.Violation(sig, what, witness)
		return
	}
	r.Count("repeated_violations_of_reported_signatures", 1)
}

func (e *codecEnv) plan() []codecCase {
	r := e.r
	var cases []codecCase
	for i, p := range probePairs() {
		cases = append(cases, codecCase{Part: "codec", Type: string(p.b.ProtoReflect().Descriptor().FullName()), Seed: int64(i), Probe: i + 1})
	}
	per := r.Pick(70, 900)
	for _, mt := range e.types {
		name := string(mt.Descriptor().FullName())
		n := per
		switch name {
		case "mvcc.v1.Command":
			n = r.Pick(1500, 24000)
		case "replication.v1.SnapshotChunk":
			n = r.Pick(600, 6000)
		case "mvcc.v1.Txn", "mvcc.v1.RequestOp", "mvcc.v1.ResponseOp", "mvcc.v1.Compare", "mvcc.v1.CommandResult",
			"regatta.v1.TxnRequest", "regatta.v1.TxnResponse", "replication.v1.ReplicateResponse", "maintenance.v1.RestoreMessage",
			"regatta.v1.RangeRequest", "regatta.v1.RangeResponse", "regatta.v1.StatusResponse":
			n = per * 3
		}
		if mt.Descriptor().Fields().Len() == 0 {
			n = 2 // empty messages have exactly one value
		}
		for i := 0; i < n; i++ {
			cases = append(cases, codecCase{Part: "codec", Type: name, Seed: typeSeed(r.Seed, name, i)})
		}
	}
	return cases
}
