package main

// Process boundary: the workload runs in a child process (same binary, --c18-child). A panic or
// fatal error inside the code under test (a pooled writer used after Close, a slice bound derived
// from a corrupt length …) kills the child; the parent reports it as the violation it is instead
// of dying without a verdict.

import (
	"encoding/json"
	"flag"
	"fmt"
	"os"
	"os/exec"
	"path/filepath"
	"regexp"
	"strings"
	"syscall"
	"time"

	"verifharness/internal/ev"
)

var childFlag = flag.Bool("c18-child", false, "internal: run the workload (the parent process classifies crashes)")

func doneMarker() string { return filepath.Join(scratchDir(), "c18-child.done") }

// finish is what the child calls instead of r.Finish(): leaves a marker that it got to a verdict.
func finish(r *ev.Run) {
	_ = os.WriteFile(doneMarker(), []byte("done\n"), 0o644)
	r.Finish()
}

type crashWitness struct {
	Case   anyCase `json:"case"`
	Exit   string  `json:"child_exit"`
	Stderr string  `json:"child_stderr_head"`
	Note   string  `json:"note"`
}

var (
	reAddr  = regexp.MustCompile(`0x[0-9a-f]+`)
	reNum   = regexp.MustCompile(`[0-9]{3,}`)
	reFrame = regexp.MustCompile(`^([A-Za-z0-9_./\-]+\.[A-Za-z0-9_.()*\[\]]+)\(`)
)

// crashSignature: the panic / fatal line (numbers stripped) and the package of the innermost frame
// that is not Go runtime / standard library plumbing.
func crashSignature(stderr string) (sig, headline string, ok bool) {
	lines := strings.Split(stderr, "\n")
	idx := -1
	for i, l := range lines {
		if strings.HasPrefix(l, "panic: ") || strings.HasPrefix(l, "fatal error: ") || strings.HasPrefix(l, "unexpected fault address") {
			idx = i
			break
		}
	}
	if idx < 0 {
		return "", "", false
	}
	headline = lines[idx]
	msg := reNum.ReplaceAllString(reAddr.ReplaceAllString(headline, "N"), "N")
	if len(msg) > 90 {
		msg = msg[:90]
	}
	frame := ""
	inRunning := false
	for _, l := range lines[idx:] {
		if strings.HasPrefix(l, "goroutine ") {
			if inRunning {
				break
			}
			inRunning = true
			continue
		}
		if !inRunning {
			continue
		}
		if m := reFrame.FindStringSubmatch(l); m != nil {
			fn := m[1]
			if strings.HasPrefix(fn, "runtime.") || strings.HasPrefix(fn, "panic") || !strings.Contains(fn, "/") && !strings.HasPrefix(fn, "main.") {
				continue
			}
			// the package is stable across runs, the exact function inside a racing library is not
			if i := strings.LastIndex(fn, "/"); i >= 0 {
				if j := strings.Index(fn[i:], "."); j >= 0 {
					fn = fn[:i+j]
				}
			} else if j := strings.Index(fn, "."); j >= 0 {
				fn = fn[:j]
			}
			frame = strings.TrimPrefix(fn, regattaPkg)
			break
		}
	}
	return "crash:" + msg + " @ " + frame, headline, true
}

// reportCrash writes the verdict of a died child. It does not go through ev.Run.Violation because
// the child has already numbered its own replay files from 1 in the same directory.
func reportCrash(r *ev.Run, sig, what string, w crashWitness) {
	out := os.Getenv("VERIF_OUT")
	if out == "" {
		out = os.Getenv("VERIF_DIR")
	}
	if out == "" {
		out = "/verif"
	}
	vdir := os.Getenv("VERIF_DIR")
	if vdir == "" {
		vdir = "/verif"
	}
	known := false
	if b, err := os.ReadFile(filepath.Join(vdir, "known_findings.json")); err == nil {
		var all []ev.Finding
		if json.Unmarshal(b, &all) == nil {
			for _, f := range all {
				if f.Property == "C18" && f.Status == "known" && f.Signature == sig {
					known = true
					fmt.Printf("KNOWN-FINDING: property=C18 %s [%s]\n", f.What, sig)
				}
			}
		}
	}
	code := 0
	if !known {
		code = 1
		_ = os.MkdirAll(filepath.Join(out, "replays"), 0o755)
		path := filepath.Join(out, "replays", fmt.Sprintf("C18-%d-crash.json", r.Seed))
		doc, _ := json.MarshalIndent(map[string]any{"property": "C18", "signature": sig, "what": what, "tier": r.Tier, "seed": r.Seed, "witness": w}, "", " ")
		_ = os.WriteFile(path, doc, 0o644)
		fmt.Printf("VIOLATION property=C18 replay=%s\n  signature=%s: %s\n", path, sig, what)
	}
	if r.Replay == "" {
		_ = os.MkdirAll(filepath.Join(out, "evidence"), 0o755)
		evd, _ := json.MarshalIndent(map[string]any{
			"property_id": "C18", "tier": r.Tier, "seed": r.Seed, "level": "exploration", "violations": code,
			"coverage": map[string]any{"evaluations": 0, "distinct_nontrivial": 0, "inconclusive": 0,
				"rule":    "the workload process died before it could write its own evidence; counts of that run are lost, the crash is the observation",
				"samples": []any{map[string]any{"child_exit": w.Exit, "signature": sig, "stderr_head": truncateStr(w.Stderr, 1500)}}},
			"assumptions": []string{"held on the executions produced by this run only; nothing is claimed about executions the workload did not produce"},
		}, "", " ")
		_ = os.WriteFile(filepath.Join(out, "evidence", "C18.json"), evd, 0o644)
	}
	fmt.Printf("C18 %s seed=%d: workload process died, violations=%d\n", r.Tier, r.Seed, code)
	os.Exit(code)
}

func truncateStr(s string, n int) string {
	if len(s) > n {
		return s[:n] + "…"
	}
	return s
}

func runParent(r *ev.Run) {
	self := os.Getenv("VERIF_SELF")
	if self == "" {
		self, _ = os.Executable()
	}
	_ = os.Remove(doneMarker())
	errPath := filepath.Join(scratchDir(), "c18-child.stderr")
	ef, err := os.Create(errPath)
	if err != nil {
		fmt.Println("check broken: cannot create", errPath, err)
		os.Exit(2)
	}
	cmd := exec.Command(self, append(append([]string{}, os.Args[1:]...), "--c18-child")...)
	cmd.Stdout = os.Stdout
	cmd.Stderr = ef
	if err := cmd.Start(); err != nil {
		fmt.Println("check broken: cannot start child:", err)
		os.Exit(2)
	}
	waitErr := make(chan error, 1)
	go func() { waitErr <- cmd.Wait() }()
	limit := time.Duration(r.Pick(8, 50)) * time.Minute // the child has its own, shorter watchdog
	timedOut := false
	select {
	case err = <-waitErr:
	case <-time.After(limit):
		timedOut = true
		_ = cmd.Process.Signal(syscall.SIGQUIT)
		select {
		case err = <-waitErr:
		case <-time.After(20 * time.Second):
			_ = cmd.Process.Kill()
			err = <-waitErr
		}
	}
	ef.Close()
	code := 0
	exitDesc := "exit 0"
	if err != nil {
		code = 2
		exitDesc = err.Error()
		if ee, ok := err.(*exec.ExitError); ok && ee.ExitCode() >= 0 {
			code = ee.ExitCode()
		}
	}
	if _, serr := os.Stat(doneMarker()); serr == nil && !timedOut {
		if code != 0 && code != 1 && code != 2 {
			code = 2
		}
		os.Exit(code) // the child reached its verdict (and wrote the evidence)
	}
	b, _ := os.ReadFile(errPath)
	stderr := string(b)
	if timedOut {
		fmt.Printf("INCONCLUSIVE property=C18 watchdog: child did not finish within %v (goroutine dump in %s)\n", limit, errPath)
		os.Exit(2)
	}
	if sig, headline, ok := crashSignature(stderr); ok {
		head := stderr
		if len(head) > 5000 {
			head = head[:5000] + "\n…"
		}
		reportCrash(r, sig, fmt.Sprintf("the process running codec/compressor/stream round trips died (%s): %s", exitDesc, headline),
			crashWitness{Case: anyCase{Part: "crash"}, Exit: exitDesc, Stderr: head, Note: "--replay re-runs the workload of this seed and tier"})
	}
	// no verdict and no crash trace: check broken (the child printed why) or killed from outside
	tail := stderr
	if len(tail) > 3000 {
		tail = tail[len(tail)-3000:]
	}
	fmt.Fprintf(os.Stderr, "c18: child ended without a verdict (%s)\n%s\n", exitDesc, tail)
	os.Exit(2)
}
