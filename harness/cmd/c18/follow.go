package main

// Part 6 — the replication worker's re-encoding of replicated commands into the follower's log.
//
// A real leader engine with its replication endpoint and a real follower engine with the real
// replication manager/worker. The follower's manager is started only after the leader has written
// a history whose entries alternate large (100–300 KiB) and small values, so one ReplicateResponse
// is far larger than the worker's 256 KiB proposal target and is cut into several proposals of
// different sizes. Oracle: the follower's recorded leader index reaches the leader's and the
// follower's table equals the leader's; a stall is inconclusive, a difference is a violation, a
// death of the process is reported by ev.Supervise.

import (
	"bytes"
	"context"
	"fmt"
	"sort"
	"time"

	pb "github.com/jamf/regatta/regattapb"
	"github.com/jamf/regatta/replication"
	"github.com/jamf/regatta/storage"

	"verifharness/internal/cluster"
	"verifharness/internal/ev"
)

type followCase struct {
	Part   string `json:"part"` // "follower"
	Idx    int    `json:"index"`
	Seed   int64  `json:"case_seed"`
	Writes int    `json:"writes"`
}

type followWitness struct {
	Case        followCase `json:"case"`
	History     []string   `json:"leader_history"`
	LeaderIndex uint64     `json:"leader_last_index"`
	FollowerLI  uint64     `json:"follower_recorded_leader_index"`
	Detail      string     `json:"detail"`
}

func dumpTable(e *storage.Engine, table string) (map[string][]byte, error) {
	ctx, cancel := context.WithTimeout(context.Background(), 60*time.Second)
	defer cancel()
	seq, err := e.IterateRange(ctx, &pb.RangeRequest{Table: []byte(table), Key: []byte{0}, RangeEnd: []byte{0}, Linearizable: true})
	if err != nil {
		return nil, err
	}
	out := map[string][]byte{}
	seq(func(resp *pb.RangeResponse) bool {
		for _, kv := range resp.Kvs {
			out[string(kv.Key)] = append([]byte{}, kv.Value...)
		}
		return true
	})
	return out, nil
}

func tableLeaderIndex(e *storage.Engine, table string) (uint64, error) {
	t, err := e.GetTable(table)
	if err != nil {
		return 0, err
	}
	ctx, cancel := context.WithTimeout(context.Background(), 5*time.Second)
	defer cancel()
	res, err := t.LeaderIndex(ctx, true)
	if err != nil {
		return 0, err
	}
	return res.Index, nil
}

func diffTables(leader, follower map[string][]byte) string {
	var keys []string
	for k := range leader {
		keys = append(keys, k)
	}
	for k := range follower {
		if _, ok := leader[k]; !ok {
			keys = append(keys, k)
		}
	}
	sort.Strings(keys)
	n := 0
	first := ""
	for _, k := range keys {
		lv, lok := leader[k]
		fv, fok := follower[k]
		var d string
		switch {
		case lok && !fok:
			d = fmt.Sprintf("key %q (%d B on the leader) is missing on the follower", k, len(lv))
		case !lok && fok:
			d = fmt.Sprintf("key %q (%d B) exists only on the follower", k, len(fv))
		case !bytes.Equal(lv, fv):
			d = fmt.Sprintf("key %q holds %d B on the leader and %d B on the follower (first difference at %d)", k, len(lv), len(fv), firstDiff(lv, fv))
		default:
			continue
		}
		n++
		if first == "" {
			first = d
		}
	}
	if n == 0 {
		return ""
	}
	return fmt.Sprintf("%d of %d keys differ; %s", n, len(keys), first)
}

func runFollowCase(r *ev.Run, c followCase) {
	broken := func(why string) { r.Inconclusive(fmt.Sprintf("follower case %d: %s", c.Idx, why)) }
	rnd := caseRand(c.Seed)
	l, err := cluster.StartLeader(cluster.Opts{Nodes: 1}, 0) // default replication message limit (4 MiB)
	if err != nil {
		broken("leader start: " + err.Error())
		return
	}
	defer l.Close()
	if _, err := l.CreateTable("t"); err != nil {
		broken("create table: " + err.Error())
		return
	}
	// a generous log RPC timeout: one poll carries megabytes (gzip, race build, shared machine); with
	// the helper's 5 s default a loaded machine can starve every attempt and nothing is ever applied
	f, err := cluster.StartFollower(l.ReplAddr, cluster.FollowerOpts{Opts: cluster.Opts{Nodes: 1}, NoManager: true,
		Repl: replication.Config{Workers: replication.WorkerConfig{LogRPCTimeout: 90 * time.Second}}})
	if err != nil {
		broken("follower start: " + err.Error())
		return
	}
	defer f.Close()
	le, fe := l.Nodes[0].Engine, f.Nodes[0].Engine

	// the leader's history, written while the follower does not replicate
	table := []byte("t")
	var hist []string
	var last uint64
	large := 0
	for i := 0; i < c.Writes; i++ {
		ctx, cancel := context.WithTimeout(context.Background(), 20*time.Second)
		var rev uint64
		var err error
		switch {
		case i%3 == 1:
			k := []byte(fmt.Sprintf("big-%d", rnd.Intn(5)))
			v := randBytes(rnd, 100*1024+rnd.Intn(200*1024))
			var resp *pb.PutResponse
			if resp, err = le.Put(ctx, &pb.PutRequest{Table: table, Key: k, Value: v}); err == nil {
				rev = resp.Header.Revision
				hist = append(hist, fmt.Sprintf("%d: put %s = %d B", rev, k, len(v)))
				large++
			}
		case rnd.Intn(6) == 0:
			k := []byte(fmt.Sprintf("small-%02d", rnd.Intn(12)))
			var resp *pb.DeleteRangeResponse
			if resp, err = le.Delete(ctx, &pb.DeleteRangeRequest{Table: table, Key: k}); err == nil {
				rev = resp.Header.Revision
				hist = append(hist, fmt.Sprintf("%d: delete %s", rev, k))
			}
		default:
			k := []byte(fmt.Sprintf("small-%02d", rnd.Intn(12)))
			v := randBytes(rnd, rnd.Intn(300))
			var resp *pb.PutResponse
			if resp, err = le.Put(ctx, &pb.PutRequest{Table: table, Key: k, Value: v}); err == nil {
				rev = resp.Header.Revision
				hist = append(hist, fmt.Sprintf("%d: put %s = %d B", rev, k, len(v)))
			}
		}
		cancel()
		if err != nil {
			broken("leader write: " + err.Error())
			return
		}
		last = rev
	}
	r.Count("follower_leader_writes", int64(c.Writes))
	r.Count("follower_leader_writes_100KiB_or_more", int64(large))

	if err := f.StartManager(0); err != nil {
		broken("replication manager: " + err.Error())
		return
	}
	// bounded wait for the follower's recorded leader index (logical condition; the bound is a watchdog)
	deadline := time.Now().Add(180 * time.Second)
	var fli uint64
	for {
		if li, err := tableLeaderIndex(fe, "t"); err == nil {
			fli = li
			if li >= last {
				break
			}
		}
		if time.Now().After(deadline) {
			broken(fmt.Sprintf("follower did not reach leader index %d within the watchdog (recorded %d)", last, fli))
			return
		}
		time.Sleep(25 * time.Millisecond)
	}
	ld, err := dumpTable(le, "t")
	if err != nil {
		broken("leader dump: " + err.Error())
		return
	}
	fd, err := dumpTable(fe, "t")
	if err != nil {
		broken("follower dump: " + err.Error())
		return
	}
	st := l.Stats
	r.Count("follower_replicate_command_messages", st.CommandMessages.Load())
	if d := diffTables(ld, fd); d != "" {
		h := hist
		if len(h) > 40 {
			h = append(append([]string{}, h[:40]...), fmt.Sprintf("… %d more", len(hist)-40))
		}
		violationOnce(r, "follower-table-differs-from-leader-after-log-replication",
			fmt.Sprintf("leader wrote %d commands (%d of 100–300 KiB) while the follower was not replicating; the follower then recorded leader index %d (leader %d) but its table differs: %s", c.Writes, large, fli, last, d),
			followWitness{Case: c, History: h, LeaderIndex: last, FollowerLI: fli, Detail: d})
		return
	}
	r.Eval(1)
	r.Count("follower_cases_converged_equal", 1)
	r.Count("follower_keys_compared", int64(len(ld)))
	if c.Idx == 0 {
		r.Sample(map[string]any{"part": "follower", "leader_writes": c.Writes, "writes_of_100KiB_or_more": large, "leader_last_index": last, "follower_recorded_leader_index": fli,
			"replicate_command_messages": st.CommandMessages.Load(), "keys_compared": len(ld), "result": "follower table equals leader table"})
	}
}

func followPlan(r *ev.Run) []followCase {
	var out []followCase
	for i := 0; i < r.Pick(1, 6); i++ {
		out = append(out, followCase{Part: "follower", Idx: i, Seed: r.Seed*6_000_101 + int64(i)*977, Writes: r.Pick(36, 48)})
	}
	return out
}
