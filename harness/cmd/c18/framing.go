package main

// Part 3 — snapshot file framing and chunk streams.
//
// commands -> snapshot file (8-byte LE length prefix per command inside a snappy stream) -> raw
// file bytes cut into chunks at arbitrary places -> SnapshotChunk / RestoreMessage stream through
// the registered codec -> receiving side (snapshot.Reader with pooled chunks, or
// regattaserver.BackupServer.Restore = backupReader) -> second snapshot file -> read message-wise.

import (
	"bufio"
	"bytes"
	"context"
	"errors"
	"fmt"
	"io"
	"math/rand"
	"net"
	"os"
	"sort"
	"strings"
	"sync"
	"time"

	pb "github.com/jamf/regatta/regattapb"
	"github.com/jamf/regatta/regattaserver"
	"github.com/jamf/regatta/replication/backup"
	"github.com/jamf/regatta/replication/snapshot"
	"github.com/jamf/regatta/storage/table"
	"github.com/klauspost/compress/snappy"
	"go.uber.org/zap"
	"golang.org/x/time/rate"
	"google.golang.org/grpc"
	"google.golang.org/grpc/credentials/insecure"
	"google.golang.org/grpc/encoding"
	"google.golang.org/grpc/test/bufconn"
	"google.golang.org/protobuf/proto"

	"verifharness/internal/ev"
)

type streamCase struct {
	Part string `json:"part"` // "stream"
	Idx  int    `json:"index"`
	Seed int64  `json:"case_seed"`
}

type streamPlan struct {
	Profile     string `json:"command_profile"`
	Transport   string `json:"transport"` // fake | grpc
	Dir         string `json:"direction"` // snapshot | restore
	Send        string `json:"send"`
	Recv        string `json:"receive"`
	Cuts        string `json:"cut_plan"`
	Compressor  string `json:"grpc_compressor,omitempty"`
	Limiter     bool   `json:"limiter"`
	EOFWithData bool   `json:"reader_returns_eof_with_last_bytes"`
	ZeroReads   bool   `json:"reader_returns_zero_reads"`
	CopyBuf     int    `json:"copy_buffer,omitempty"`
	Poison      bool   `json:"receive_buffer_overwritten_at_next_receive"`
	// chunk-aligned cases: the snapshot FILE is AlignK MiB + AlignDelta bytes long
	Aligned    bool `json:"file_length_aimed_at_chunk_size,omitempty"`
	AlignK     int  `json:"file_length_mib,omitempty"`
	AlignDelta int  `json:"file_length_delta,omitempty"`
}

type streamWitness struct {
	Case      streamCase `json:"case"`
	Plan      streamPlan `json:"plan"`
	Commands  int        `json:"commands"`
	FileBytes int        `json:"snapshot_file_bytes"`
	Chunks    int        `json:"chunks"`
	ChunkHead []int      `json:"first_chunk_lengths"`
	Stage     string     `json:"stage"`
	Detail    string     `json:"detail"`
	FirstCmds []string   `json:"first_commands"`
}

// ---------------------------------------------------------------------------------------------
// command sequences

func putCmd(r *rand.Rand, vlen int, compressible bool) *pb.Command {
	k := randBytes(r, 1+r.Intn(24))
	var v []byte
	if compressible {
		v = makePayload(r, []string{"zeros", "repeat", "text"}[r.Intn(3)], vlen)
	} else {
		v = randBytes(r, vlen)
	}
	return &pb.Command{Table: []byte("tbl"), Type: pb.Command_PUT, Kv: &pb.KeyValue{Key: k, Value: v}}
}

func genCommands(r *rand.Rand, profile string, env *codecEnv) []*pb.Command {
	var out []*pb.Command
	cmdType := env.byName["mvcc.v1.Command"]
	api := func() *pb.Command {
		g := newMG(r, false, 256*1024)
		c := g.gen(cmdType).(*pb.Command)
		for c.SizeVT() > 3<<20 { // production reads messages into a 4 MiB buffer; a table snapshot holds single pairs (values <= 2 MiB)
			c = newMG(r, false, 64*1024).gen(cmdType).(*pb.Command)
		}
		if c.SizeVT() == 0 {
			c.Type = pb.Command_DUMMY // a message with an empty encoding is no message for a byte framing
		}
		return c
	}
	switch profile {
	case "empty":
	case "one":
		out = append(out, putCmd(r, r.Intn(400), r.Intn(2) == 0))
	case "small":
		n := 1 + r.Intn(200)
		comp := r.Intn(3) == 0
		for i := 0; i < n; i++ {
			vl := r.Intn(300)
			if r.Intn(6) == 0 {
				vl = 0
			}
			out = append(out, putCmd(r, vl, comp))
		}
	case "chunk-aligned":
		// a few ordinary pairs, then one pair with a filler value that fitFileLength tunes
		n := 10 + r.Intn(40)
		for i := 0; i < n; i++ {
			out = append(out, putCmd(r, r.Intn(4096), r.Intn(4) == 0))
		}
		out = append(out, &pb.Command{Table: []byte("tbl"), Type: pb.Command_PUT, Kv: &pb.KeyValue{Key: []byte("filler"), Value: nil}})
		li := r.Uint64() >> 20
		return append(out, &pb.Command{Table: []byte("tbl"), Type: pb.Command_DUMMY, LeaderIndex: &li})
	case "medium":
		// incompressible values of a few KiB: snappy stores such blocks literally, so the position of
		// every length prefix in the raw file is known and chunk boundaries can be aimed at them
		n := 20 + r.Intn(280)
		for i := 0; i < n; i++ {
			out = append(out, putCmd(r, 1024+r.Intn(7168), false))
		}
	case "many":
		n := 500 + r.Intn(1501)
		for i := 0; i < n; i++ {
			out = append(out, putCmd(r, r.Intn(120), r.Intn(4) == 0))
		}
	case "large":
		n := 3 + r.Intn(6)
		for i := 0; i < n; i++ {
			switch r.Intn(5) {
			case 4:
				out = append(out, putCmd(r, 3000+r.Intn(30000), false))
			case 0:
				out = append(out, putCmd(r, r.Intn(200), false))
			case 1:
				out = append(out, putCmd(r, 1<<20+r.Intn(1<<20+1), false)) // 1–2 MiB
			case 2:
				out = append(out, putCmd(r, 60000+r.Intn(12000), false)) // around the 64 KiB snappy block
			default:
				out = append(out, putCmd(r, 256*1024+r.Intn(768*1024), r.Intn(3) == 0))
			}
		}
	case "api":
		n := 5 + r.Intn(56)
		for i := 0; i < n; i++ {
			if r.Intn(3) == 0 {
				out = append(out, putCmd(r, r.Intn(2000), false))
			} else {
				out = append(out, api())
			}
		}
	}
	if profile != "empty" && r.Intn(10) < 7 {
		li := r.Uint64() >> uint(r.Intn(64))
		out = append(out, &pb.Command{Table: []byte("tbl"), Type: pb.Command_DUMMY, LeaderIndex: &li}) // what a table snapshot ends with
	}
	return out
}

// ---------------------------------------------------------------------------------------------
// where do chunk boundaries fall? (snappy framing format of the file)

type sframe struct {
	rawStart, rawData, rawEnd int64
	typ                       byte
	uOff, uLen                int64
}

func parseSnappy(raw []byte) ([]sframe, error) {
	var fr []sframe
	var u int64
	for i := 0; i < len(raw); {
		if i+4 > len(raw) {
			return fr, fmt.Errorf("truncated chunk header at %d", i)
		}
		typ := raw[i]
		l := int(raw[i+1]) | int(raw[i+2])<<8 | int(raw[i+3])<<16
		if i+4+l > len(raw) {
			return fr, fmt.Errorf("truncated chunk at %d", i)
		}
		body := raw[i+4 : i+4+l]
		switch typ {
		case 0x00:
			if l < 4 {
				return fr, fmt.Errorf("short compressed chunk at %d", i)
			}
			n, err := snappy.DecodedLen(body[4:])
			if err != nil {
				return fr, err
			}
			fr = append(fr, sframe{rawStart: int64(i), rawData: int64(i + 8), rawEnd: int64(i + 4 + l), typ: typ, uOff: u, uLen: int64(n)})
			u += int64(n)
		case 0x01:
			if l < 4 {
				return fr, fmt.Errorf("short literal chunk at %d", i)
			}
			fr = append(fr, sframe{rawStart: int64(i), rawData: int64(i + 8), rawEnd: int64(i + 4 + l), typ: typ, uOff: u, uLen: int64(l - 4)})
			u += int64(l - 4)
		default:
			fr = append(fr, sframe{rawStart: int64(i), rawData: int64(i + 4), rawEnd: int64(i + 4 + l), typ: typ, uOff: u})
		}
		i += 4 + l
	}
	return fr, nil
}

type layout struct {
	frames []sframe
	pOff   []int64 // uncompressed offset of the length prefix of message i
	rawLen int64
}

func newLayout(raw []byte, encs [][]byte) (*layout, error) {
	fr, err := parseSnappy(raw)
	if err != nil {
		return nil, err
	}
	l := &layout{frames: fr, rawLen: int64(len(raw))}
	var u int64
	for _, e := range encs {
		l.pOff = append(l.pOff, u)
		u += 8 + int64(len(e))
	}
	var tot int64
	for _, f := range fr {
		tot += f.uLen
	}
	if tot != u {
		return nil, fmt.Errorf("snappy frames describe %d uncompressed bytes, the messages need %d", tot, u)
	}
	return l, nil
}

// classify tells where raw offset b (a chunk boundary) falls.
func (l *layout) classify(b int64) string {
	i := sort.Search(len(l.frames), func(i int) bool { return l.frames[i].rawEnd > b })
	if i >= len(l.frames) {
		return "end"
	}
	f := l.frames[i]
	if b == f.rawStart {
		return "between-snappy-chunks"
	}
	if b < f.rawStart+4 {
		return "inside-snappy-chunk-header"
	}
	if f.typ == 0x01 && b >= f.rawData {
		u := f.uOff + (b - f.rawData)
		j := sort.Search(len(l.pOff), func(j int) bool { return l.pOff[j] > u }) - 1
		if j >= 0 {
			switch {
			case u == l.pOff[j]:
				return "at-message-start"
			case u < l.pOff[j]+8:
				return "inside-length-prefix"
			case u == l.pOff[j]+8:
				return "between-prefix-and-body"
			}
		}
		return "inside-message-body"
	}
	if f.typ == 0x00 {
		return "inside-compressed-block"
	}
	return "other"
}

// rawOffsetOf maps an uncompressed offset to a raw file offset when it lies in a literal chunk.
func (l *layout) rawOffsetOf(u int64) (int64, bool) {
	i := sort.Search(len(l.frames), func(i int) bool { f := l.frames[i]; return f.uLen > 0 && f.uOff+f.uLen > u })
	if i >= len(l.frames) {
		return 0, false
	}
	f := l.frames[i]
	if f.typ != 0x01 || u < f.uOff {
		return 0, false
	}
	return f.rawData + (u - f.uOff), true
}

func cutPlan(r *rand.Rand, mode string, l *layout, maxCuts int) []int64 {
	var cuts []int64
	n := l.rawLen
	randomCuts := func(maxCuts int) {
		for pos := int64(0); pos < n && len(cuts) < maxCuts; {
			var step int64
			switch r.Intn(10) {
			case 0:
				step = 1
			case 1, 2:
				step = 1 + int64(r.Intn(16))
			case 3, 4, 5:
				step = 1 + int64(r.Intn(4096))
			case 6, 7, 8:
				step = 1 + int64(r.Intn(128*1024))
			default:
				step = 1 + int64(r.Intn(1<<20+4096))
			}
			pos += step
			cuts = append(cuts, pos)
		}
	}
	switch mode {
	case "full":
	case "tiny":
		for pos := int64(0); pos < n; {
			pos += 1 + int64(r.Intn(12))
			cuts = append(cuts, pos)
		}
	case "random":
		randomCuts(maxCuts)
		for t := 0; t < 4 && len(l.pOff) > 0; t++ {
			if raw, ok := l.rawOffsetOf(l.pOff[r.Intn(len(l.pOff))] + 1 + int64(r.Intn(7))); ok {
				cuts = append(cuts, raw)
			}
		}
	case "targeted":
		// boundaries strictly inside length prefixes and inside snappy chunk headers
		k := len(l.pOff)
		picks := 60
		for t := 0; t < picks && k > 0; t++ {
			j := r.Intn(k)
			if t == 0 {
				j = 0
			} else if t == 1 {
				j = k - 1
			}
			if raw, ok := l.rawOffsetOf(l.pOff[j] + 1 + int64(r.Intn(7))); ok {
				cuts = append(cuts, raw)
				if r.Intn(3) == 0 { // one-byte chunk inside the prefix
					cuts = append(cuts, raw+1)
				}
			}
		}
		for t := 0; t < 6 && len(l.frames) > 0; t++ {
			f := l.frames[r.Intn(len(l.frames))]
			cuts = append(cuts, f.rawStart+1+int64(r.Intn(3)))
		}
		randomCuts(maxCuts / 10)
	}
	sort.Slice(cuts, func(i, j int) bool { return cuts[i] < cuts[j] })
	return cuts
}

// shortReader returns arbitrary short reads: every read ends at the next planned cut.
type shortReader struct {
	src         io.Reader
	cuts        []int64
	pos, total  int64
	ci          int
	rnd         *rand.Rand
	eofWithData bool
	zeroReads   bool
}

func (s *shortReader) Read(p []byte) (int, error) {
	if len(p) == 0 {
		return 0, nil
	}
	if s.pos >= s.total {
		return 0, io.EOF
	}
	if s.zeroReads && s.rnd.Intn(40) == 0 {
		return 0, nil
	}
	for s.ci < len(s.cuts) && s.cuts[s.ci] <= s.pos {
		s.ci++
	}
	n := int64(len(p))
	if s.ci < len(s.cuts) && s.cuts[s.ci]-s.pos < n {
		n = s.cuts[s.ci] - s.pos
	}
	if s.total-s.pos < n {
		n = s.total - s.pos
	}
	m, err := io.ReadFull(s.src, p[:n])
	s.pos += int64(m)
	if err != nil {
		return m, err
	}
	if s.eofWithData && s.pos == s.total {
		return m, io.EOF
	}
	return m, nil
}

type onlyWriter struct{ io.Writer }
type onlyReader struct{ io.Reader }

// ---------------------------------------------------------------------------------------------
// in-memory stand-ins for the gRPC streams (the messages go through the registered codec)

type pipe struct {
	codec    encoding.Codec
	frames   chan []byte
	gone     chan struct{} // receiver has left
	goneOnce sync.Once
	poison   bool
	ctx      context.Context
}

func (p *pipe) leave() { p.goneOnce.Do(func() { close(p.gone) }) }

func newPipe(codec encoding.Codec, poison bool) *pipe {
	return &pipe{codec: codec, frames: make(chan []byte, 4), gone: make(chan struct{}), poison: poison, ctx: context.Background()}
}

func (p *pipe) send(m any) error {
	b, err := p.codec.Marshal(m) // like grpc: the message is encoded before Send returns
	if err != nil {
		return err
	}
	select {
	case p.frames <- b:
		return nil
	case <-p.gone:
		return errors.New("c18: receiver left the stream")
	}
}

type pipeRecv struct {
	p    *pipe
	prev []byte
}

func (q *pipeRecv) recvMsg(m any) error {
	if q.prev != nil && q.p.poison {
		scribble(q.prev) // the previous receive buffer is dead once the next receive starts
		q.prev = nil
	}
	b, ok := <-q.p.frames
	if !ok {
		return io.EOF
	}
	q.prev = b
	return q.p.codec.Unmarshal(b, m)
}

func (q *pipeRecv) finish() {
	if q.prev != nil && q.p.poison {
		scribble(q.prev)
		q.prev = nil
	}
}

type fakeSnapServerStream struct {
	grpc.ServerStream
	p *pipe
}

func (f *fakeSnapServerStream) Send(c *pb.SnapshotChunk) error { return f.p.send(c) }
func (f *fakeSnapServerStream) Context() context.Context       { return f.p.ctx }

type fakeSnapClientStream struct {
	grpc.ClientStream
	q *pipeRecv
}

func (f *fakeSnapClientStream) RecvMsg(m any) error { return f.q.recvMsg(m) }
func (f *fakeSnapClientStream) Recv() (*pb.SnapshotChunk, error) {
	m := new(pb.SnapshotChunk)
	if err := f.q.recvMsg(m); err != nil {
		return nil, err
	}
	return m, nil
}
func (f *fakeSnapClientStream) Context() context.Context { return f.q.p.ctx }

// recSnapSender records the chunk boundaries really produced by the sending side.
type recSnapSender struct {
	pb.Snapshot_StreamServer
	lens *[]int
}

func (s recSnapSender) Send(c *pb.SnapshotChunk) error {
	*s.lens = append(*s.lens, len(c.Data))
	return s.Snapshot_StreamServer.Send(c)
}

type fakeRestoreClient struct {
	grpc.ClientStream
	p        *pipe
	done     chan struct{}
	srvErr   *error
	resp     **pb.RestoreResponse
	closeOne sync.Once
}

func (c *fakeRestoreClient) Send(m *pb.RestoreMessage) error { return c.p.send(m) }
func (c *fakeRestoreClient) closeSend()                      { c.closeOne.Do(func() { close(c.p.frames) }) }
func (c *fakeRestoreClient) CloseAndRecv() (*pb.RestoreResponse, error) {
	c.closeSend()
	<-c.done
	if *c.srvErr != nil {
		return nil, *c.srvErr
	}
	return *c.resp, nil
}

type fakeRestoreServer struct {
	grpc.ServerStream
	q    *pipeRecv
	resp **pb.RestoreResponse
}

func (s *fakeRestoreServer) Recv() (*pb.RestoreMessage, error) {
	m := new(pb.RestoreMessage) // what the generated Recv does
	if err := s.q.recvMsg(m); err != nil {
		return nil, err
	}
	return m, nil
}
func (s *fakeRestoreServer) SendAndClose(m *pb.RestoreResponse) error { *s.resp = m; return nil }
func (s *fakeRestoreServer) Context() context.Context                 { return s.q.p.ctx }

type recRestoreClient struct {
	pb.Maintenance_RestoreClient
	lens *[]int
}

func (s recRestoreClient) Send(m *pb.RestoreMessage) error {
	if c := m.GetChunk(); c != nil {
		*s.lens = append(*s.lens, len(c.Data))
	}
	return s.Maintenance_RestoreClient.Send(m)
}

// fakeTables is the TableService behind regattaserver.BackupServer: Restore reads the received
// snapshot file message-wise exactly like table.Manager.readIntoTable (4 MiB buffer, Read until
// io.EOF) and keeps the messages.
type fakeTables struct {
	mu  sync.Mutex
	got map[string]readResult
}

type readResult struct {
	msgs  [][]byte
	err   error
	panic string
}

func (f *fakeTables) GetTables() ([]table.Table, error) { return nil, nil }
func (f *fakeTables) GetTable(string) (table.ActiveTable, error) {
	return table.ActiveTable{}, errors.New("c18: no tables")
}
func (f *fakeTables) CreateTable(string) (table.Table, error) {
	return table.Table{}, errors.New("c18: no tables")
}
func (f *fakeTables) DeleteTable(string) error { return errors.New("c18: no tables") }
func (f *fakeTables) Restore(name string, reader io.Reader) error {
	res := readMessages(reader)
	f.mu.Lock()
	f.got[name] = res
	f.mu.Unlock()
	return nil
}
func (f *fakeTables) take(name string) (readResult, bool) {
	f.mu.Lock()
	defer f.mu.Unlock()
	r, ok := f.got[name]
	delete(f.got, name)
	return r, ok
}

var readBufs = sync.Pool{New: func() any { b := make([]byte, 4*1024*1024); return &b }}

// readMessages reads a snapshot file message-wise the way production does.
func readMessages(reader io.Reader) (res readResult) {
	defer func() {
		if p := recover(); p != nil {
			res.panic = fmt.Sprint(p)
		}
	}()
	bp := readBufs.Get().(*[]byte)
	defer readBufs.Put(bp)
	buf := *bp
	for {
		n, err := reader.Read(buf)
		if err == io.EOF {
			return
		}
		if err != nil {
			res.err = err
			return
		}
		res.msgs = append(res.msgs, append([]byte{}, buf[:n]...))
		if len(res.msgs) > 100000 {
			res.err = errors.New("c18: more than 100000 messages read back")
			return
		}
	}
}

// ---------------------------------------------------------------------------------------------
// real gRPC (in-memory listener): the transport's own buffer life cycle and the registered
// compressors are part of the path

type grpcEnv struct {
	lis    *bufconn.Listener
	srv    *regattaserver.RegattaServer // built by regattaserver.NewServer: regatta's default server options apply
	kv     *recKV
	conn   *grpc.ClientConn
	jobs   sync.Map // table name -> *sendJob
	tables *fakeTables
}

type sendJob struct {
	path string
	plan streamPlan
	cuts []int64
	size int64
	seed int64
	lens []int
	err  error
}

type snapService struct {
	pb.UnimplementedSnapshotServer
	env *grpcEnv
}

func (s *snapService) Stream(req *pb.SnapshotRequest, srv pb.Snapshot_StreamServer) error {
	v, ok := s.env.jobs.Load(string(req.Table))
	if !ok {
		return errors.New("c18: unknown job")
	}
	job := v.(*sendJob)
	f, err := os.Open(job.path)
	if err != nil {
		return err
	}
	defer f.Close()
	job.err = sendSnapshot(f, job, srv)
	return job.err
}

// sendSnapshot streams the raw file through snapshot.Writer in the planned way.
func sendSnapshot(f *os.File, job *sendJob, sender pb.Snapshot_StreamServer) error {
	w := &snapshot.Writer{Sender: recSnapSender{sender, &job.lens}}
	rnd := caseRand(job.seed ^ 0x7f4a7c15)
	sr := &shortReader{src: f, cuts: job.cuts, total: job.size, rnd: rnd, eofWithData: job.plan.EOFWithData, zeroReads: job.plan.ZeroReads}
	var err error
	switch job.plan.Send {
	case "Writer.ReadFrom(short reads)":
		_, err = w.ReadFrom(sr)
	case "production: io.Copy(&snapshot.Writer, bufio 1MiB over the file)":
		_, err = io.Copy(w, bufio.NewReaderSize(f, snapshot.DefaultSnapshotChunkSize))
	case "Writer.Write(short reads)":
		_, err = io.CopyBuffer(onlyWriter{w}, onlyReader{sr}, make([]byte, job.plan.CopyBuf))
	default:
		err = errors.New("c18: unknown send variant " + job.plan.Send)
	}
	return err
}

func sendRestore(f *os.File, job *sendJob, name string, client pb.Maintenance_RestoreClient) error {
	if err := client.Send(&pb.RestoreMessage{Data: &pb.RestoreMessage_Info{Info: &pb.RestoreInfo{Table: []byte(name)}}}); err != nil {
		return err
	}
	rc := recRestoreClient{client, &job.lens}
	rnd := caseRand(job.seed ^ 0x7f4a7c15)
	sr := &shortReader{src: f, cuts: job.cuts, total: job.size, rnd: rnd, eofWithData: job.plan.EOFWithData, zeroReads: job.plan.ZeroReads}
	var err error
	switch job.plan.Send {
	case "production: io.Copy(&backup.Writer, bufio 2MiB over the file)":
		_, err = io.Copy(&backup.Writer{Sender: rc}, bufio.NewReaderSize(f, 2*1024*1024))
	case "backup.Writer.Write(short reads)":
		_, err = io.CopyBuffer(&backup.Writer{Sender: rc}, onlyReader{sr}, make([]byte, job.plan.CopyBuf))
	default:
		err = errors.New("c18: unknown send variant " + job.plan.Send)
	}
	return err
}

func newGrpcEnv() (*grpcEnv, error) {
	e := &grpcEnv{lis: bufconn.Listen(4 << 20), tables: &fakeTables{got: map[string]readResult{}}, kv: newRecKV()}
	e.srv = regattaserver.NewServer(e.lis, zap.NewNop().Sugar())
	pb.RegisterSnapshotServer(e.srv, &snapService{env: e})
	pb.RegisterMaintenanceServer(e.srv, &regattaserver.BackupServer{Tables: e.tables, AuthFunc: func(ctx context.Context) (context.Context, error) { return ctx, nil }})
	pb.RegisterKVServer(e.srv, &regattaserver.KVServer{Storage: e.kv})
	go func() { _ = e.srv.Serve() }()
	conn, err := e.dial()
	if err != nil {
		return nil, err
	}
	e.conn = conn
	return e, nil
}

func (e *grpcEnv) dial() (*grpc.ClientConn, error) {
	return grpc.NewClient("passthrough:///c18",
		grpc.WithContextDialer(func(ctx context.Context, _ string) (net.Conn, error) { return e.lis.DialContext(ctx) }),
		grpc.WithTransportCredentials(insecure.NewCredentials()))
}

func (e *grpcEnv) close() {
	if e.conn != nil {
		e.conn.Close()
	}
	e.srv.Server.Stop()
	e.lis.Close()
}

// ---------------------------------------------------------------------------------------------

type streamEnv struct {
	r      *ev.Run
	ce     *codecEnv
	g      *grpcEnv
	tables *fakeTables // behind the in-memory BackupServer of the fake transport
}

// alignedPlans: snapshot files whose length is aimed at the 1 MiB chunk size of the stream
// (exact multiples and the neighbours as controls), shipped through Writer.ReadFrom / the
// production expression and received by Reader.WriteTo into its recycled chunk.
var alignedPlans = []struct {
	k, delta  int
	transport string
	prod      bool
}{
	{1, 0, "fake", false}, {2, 0, "grpc", false}, {3, 0, "fake", true}, {1, 0, "grpc", true},
	{1, -1, "fake", false}, {1, 1, "grpc", false}, {2, -1, "fake", true}, {2, 1, "fake", false},
}

const alignedBase = 100000

func planFor(r *rand.Rand, c streamCase) streamPlan {
	if c.Idx >= alignedBase {
		a := alignedPlans[(c.Idx-alignedBase)%len(alignedPlans)]
		p := streamPlan{Transport: a.transport, Poison: a.transport == "fake", Profile: "chunk-aligned", Dir: "snapshot",
			Send: "Writer.ReadFrom(short reads)", Recv: "io.Copy(file, &snapshot.Reader) = Reader.WriteTo", Aligned: true, AlignK: a.k, AlignDelta: a.delta, CopyBuf: 1 << 20}
		if a.prod {
			p.Send = "production: io.Copy(&snapshot.Writer, bufio 1MiB over the file)"
		}
		p.Cuts = []string{"full", "random", "targeted"}[r.Intn(3)]
		p.EOFWithData = r.Intn(3) == 0
		return p
	}
	p := streamPlan{Transport: "fake", Poison: true}
	if c.Idx%7 == 6 {
		p.Transport = "grpc"
		p.Poison = false
		k := c.Idx / 7
		p.Compressor = []string{"", "gzip", "snappy", "zstd"}[(k+k/8)%4] // decorrelated from the variant (idx%8)
	}
	prof := []string{"small", "medium", "api", "many", "large", "one", "empty", "small", "api", "medium", "api", "medium"}
	p.Profile = prof[r.Intn(len(prof))]
	switch c.Idx % 8 {
	case 0, 6:
		p.Dir, p.Send, p.Recv = "snapshot", "Writer.ReadFrom(short reads)", "io.Copy(file, &snapshot.Reader) = Reader.WriteTo"
	case 1:
		p.Dir, p.Send, p.Recv = "snapshot", "Writer.ReadFrom(short reads)", "snapshot.Reader.Read"
	case 2:
		p.Dir, p.Send, p.Recv = "snapshot", "Writer.Write(short reads)", "io.Copy(file, &snapshot.Reader) = Reader.WriteTo"
	case 3:
		p.Dir, p.Send, p.Recv = "snapshot", "production: io.Copy(&snapshot.Writer, bufio 1MiB over the file)", "io.Copy(file, &snapshot.Reader) = Reader.WriteTo"
	case 4:
		p.Dir, p.Send, p.Recv = "restore", "backup.Writer.Write(short reads)", "regattaserver.BackupServer.Restore (backupReader)"
	case 5:
		p.Dir, p.Send, p.Recv = "restore", "production: io.Copy(&backup.Writer, bufio 2MiB over the file)", "regattaserver.BackupServer.Restore (backupReader)"
	case 7:
		p.Dir, p.Send, p.Recv = "snapshot", "Writer.Write(short reads)", "snapshot.Reader.Read"
	}
	p.Cuts = []string{"targeted", "random", "targeted", "tiny", "full", "targeted", "random"}[r.Intn(7)]
	p.Limiter = p.Dir == "snapshot" && r.Intn(4) == 0
	p.EOFWithData = r.Intn(3) == 0
	p.ZeroReads = r.Intn(5) == 0
	if p.Dir == "restore" {
		// BackupServer.Restore keeps the first message (info) across later receives, which grpc allows:
		// every received message owns its buffer there. Overwriting is only meaningful for the pooled receivers.
		p.Poison = false
	}
	p.CopyBuf = []int{1, 7, 4096, 32 * 1024, 1 << 20, 1<<20 + 13, 3 << 20}[r.Intn(7)]
	return p
}

func describeCmds(cmds []*pb.Command, n int) []string {
	var out []string
	for i, c := range cmds {
		if i >= n {
			out = append(out, fmt.Sprintf("… %d more", len(cmds)-n))
			break
		}
		out = append(out, fmt.Sprintf("%s %d B", c.Type, c.SizeVT()))
	}
	return out
}

func compareSeq(exp, got [][]byte) (class, detail string) {
	if len(exp) == len(got) {
		same := true
		for i := range exp {
			if !bytes.Equal(exp[i], got[i]) {
				same = false
				class = "content"
				detail = fmt.Sprintf("message %d of %d: written %d B, read back %d B, first difference at byte %d", i, len(exp), len(exp[i]), len(got[i]), firstDiff(exp[i], got[i]))
				break
			}
		}
		if same {
			return "", ""
		}
	}
	if bytes.Equal(bytes.Join(exp, nil), bytes.Join(got, nil)) {
		return "boundaries", fmt.Sprintf("same bytes but %d messages written and %d read back", len(exp), len(got))
	}
	if len(exp) != len(got) {
		return "count", fmt.Sprintf("%d messages written, %d read back", len(exp), len(got))
	}
	return class, detail
}

type pendingViolation struct {
	sig, what string
	witness   streamWitness
	poisoned  bool
}

// runStreamCase runs one stream case. A case that fails while the stand-in transport overwrites
// each receive buffer at the next receive is re-run with grpc's default buffer life cycle (every
// message owns its buffer); if it only fails in the stricter model it is not a verdict.
func runStreamCase(se *streamEnv, c streamCase) {
	v := runStreamCaseOnce(se, c, false)
	if v != nil && v.poisoned {
		v2 := runStreamCaseOnce(se, c, true)
		if v2 == nil {
			se.r.Count("streams_failing_only_with_overwritten_receive_buffer", 1)
			se.r.Inconclusive(fmt.Sprintf("stream case %d fails only when a receive buffer is overwritten at the next receive (not grpc's default life cycle): %s: %s", c.Idx, v.sig, v.what))
			return
		}
		v = v2
	}
	if v != nil {
		violationOnce(se.r, v.sig, v.what, v.witness)
	}
}

func runStreamCaseOnce(se *streamEnv, c streamCase, noPoison bool) (pv *pendingViolation) {
	r := se.r
	rnd := caseRand(c.Seed)
	plan := planFor(rnd, c)
	if noPoison {
		plan.Poison = false
	}
	cmds := genCommands(rnd, plan.Profile, se.ce)
	if plan.Aligned {
		if err := fitFileLength(rnd, cmds, plan.AlignK<<20+plan.AlignDelta); err != nil {
			r.Inconclusive(fmt.Sprintf("stream case %d: %v", c.Idx, err))
			return nil
		}
	}
	w := streamWitness{Case: c, Plan: plan, Commands: len(cmds), FirstCmds: describeCmds(cmds, 6)}
	fail := func(sig, stage, detail string) {
		w.Stage, w.Detail = stage, detail
		pv = &pendingViolation{sig: sig, witness: w, poisoned: plan.Poison,
			what: fmt.Sprintf("%s stream (%s → %s, %s cuts, %s transport), %d commands: %s: %s", plan.Dir, plan.Send, plan.Recv, plan.Cuts, plan.Transport, len(cmds), stage, detail)}
	}
	broken := func(why string) { r.Inconclusive(fmt.Sprintf("stream case %d: %s", c.Idx, why)) }

	// --- file 1: written message-wise, reusing (and then overwriting) the marshal buffer
	sf1, err := snapshot.NewTemp()
	if err != nil {
		broken("snapshot.NewTemp: " + err.Error())
		return
	}
	defer func() { _ = sf1.Close(); _ = os.Remove(sf1.Path()) }()
	var encs [][]byte
	var buf []byte
	for i, cmd := range cmds {
		size := cmd.SizeVT()
		if cap(buf) < size {
			buf = make([]byte, size*2)
		}
		n, err := cmd.MarshalToSizedBufferVT(buf[:size])
		if err != nil {
			broken("marshal: " + err.Error())
			return
		}
		encs = append(encs, append([]byte{}, buf[:n]...))
		if wn, err := sf1.Write(buf[:n]); err != nil || wn != n {
			fail("snapshot-file-write-error", "write", fmt.Sprintf("Write of message %d (%d B) returned %d, %v", i, n, wn, err))
			return
		}
		scribble(buf[:n])
	}
	if err := sf1.Sync(); err != nil {
		fail("snapshot-file-write-error", "sync", err.Error())
		return
	}
	raw1, err := os.ReadFile(sf1.Path())
	if err != nil {
		broken(err.Error())
		return
	}
	w.FileBytes = len(raw1)
	if plan.Aligned && len(raw1) != plan.AlignK<<20+plan.AlignDelta {
		broken(fmt.Sprintf("snapshot file is %d bytes, aimed at %d", len(raw1), plan.AlignK<<20+plan.AlignDelta))
		return
	}
	r.Count("stream_commands", int64(len(cmds)))
	r.Count("stream_file_bytes", int64(len(raw1)))

	// --- the file layer alone (independent handle)
	if f, err := snapshot.OpenFile(sf1.Path()); err != nil {
		broken(err.Error())
		return
	} else {
		res := readMessages(f)
		_ = f.File.Close()
		if !judgeRead(fail, "snapshot-file", "read back the written file", encs, cmds, res) {
			return
		}
	}
	lay, err := newLayout(raw1, encs)
	if err != nil {
		broken("cannot parse the snappy framing of the snapshot file: " + err.Error())
		return
	}
	// every chunk is one message; over real grpc with a compressor each costs milliseconds in the race build
	maxChunks := 6000
	if plan.Transport == "grpc" {
		maxChunks = 500
	}
	if plan.Cuts == "tiny" && len(raw1) > maxChunks*6 {
		plan.Cuts = "random"
		w.Plan = plan
	}
	for len(raw1)/plan.CopyBuf > maxChunks {
		plan.CopyBuf *= 8 // keep the number of chunks of a stream bounded
	}
	if strings.HasPrefix(plan.Send, "production") {
		plan.Cuts = "n/a (production chunking)"
	}
	w.Plan = plan
	job := &sendJob{path: sf1.Path(), plan: plan, cuts: cutPlan(rnd, plan.Cuts, lay, maxChunks*2/3), size: int64(len(raw1)), seed: c.Seed}
	name := fmt.Sprintf("c%d-%d", c.Idx, c.Seed)

	var result readResult
	var raw2 []byte
	ctx, cancel := context.WithTimeout(context.Background(), 3*time.Minute)
	defer cancel()

	switch plan.Dir {
	case "snapshot":
		var stream pb.Snapshot_StreamClient
		var q *pipeRecv
		var sendErr error
		sendDone := make(chan struct{})
		if plan.Transport == "fake" {
			p := newPipe(se.ce.codec, plan.Poison)
			q = &pipeRecv{p: p}
			stream = &fakeSnapClientStream{q: q}
			go func() {
				defer close(sendDone)
				defer close(p.frames)
				if _, err := sf1.Seek(0, io.SeekStart); err != nil {
					sendErr = err
					return
				}
				sendErr = sendSnapshot(sf1.File, job, &fakeSnapServerStream{p: p})
			}()
			defer func() { p.leave(); <-sendDone }()
		} else {
			close(sendDone)
			se.g.jobs.Store(name, job)
			defer se.g.jobs.Delete(name)
			var opts []grpc.CallOption
			if plan.Compressor != "" {
				opts = append(opts, grpc.UseCompressor(plan.Compressor))
			}
			s, err := pb.NewSnapshotClient(se.g.conn).Stream(ctx, &pb.SnapshotRequest{Table: []byte(name)}, opts...)
			if err != nil {
				broken("grpc Stream: " + err.Error())
				return
			}
			stream = s
		}
		sf2, err := snapshot.NewTemp()
		if err != nil {
			broken("snapshot.NewTemp: " + err.Error())
			return
		}
		defer func() { _ = sf2.Close(); _ = os.Remove(sf2.Path()) }()
		rd := &snapshot.Reader{Stream: stream}
		if plan.Limiter {
			rd.Limiter = rate.NewLimiter(rate.Inf, 0)
		}
		var rerr error
		if plan.Recv == "snapshot.Reader.Read" {
			bs := 1 << 20
			if plan.CopyBuf > bs {
				bs = plan.CopyBuf
			}
			_, rerr = io.CopyBuffer(onlyWriter{sf2.File}, onlyReader{rd}, make([]byte, bs))
		} else {
			_, rerr = io.Copy(sf2.File, rd) // as replication worker.recover and backup.Backup do
		}
		if q != nil {
			q.finish()
			q.p.leave()
			<-sendDone
		}
		if rerr != nil {
			if errors.Is(ctx.Err(), context.DeadlineExceeded) {
				broken("watchdog")
				return
			}
			fail("stream-receive-error:"+plan.Dir, "receive", rerr.Error())
			return
		}
		if sendErr != nil || job.err != nil {
			if errors.Is(ctx.Err(), context.DeadlineExceeded) {
				broken("watchdog")
				return
			}
			fail("stream-send-error", "send", fmt.Sprintf("%v / %v", sendErr, job.err))
			return
		}
		if err := sf2.Sync(); err != nil {
			broken("sync: " + err.Error())
			return
		}
		if _, err := sf2.Seek(0, io.SeekStart); err != nil {
			broken(err.Error())
			return
		}
		raw2, _ = os.ReadFile(sf2.Path())
		result = readMessages(sf2)
	case "restore":
		f, err := os.Open(sf1.Path())
		if err != nil {
			broken(err.Error())
			return
		}
		defer f.Close()
		var tables *fakeTables
		if plan.Transport == "fake" {
			tables = se.tables
			p := newPipe(se.ce.codec, plan.Poison)
			q := &pipeRecv{p: p}
			var srvErr error
			var resp *pb.RestoreResponse
			done := make(chan struct{})
			client := &fakeRestoreClient{p: p, done: done, srvErr: &srvErr, resp: &resp}
			bs := &regattaserver.BackupServer{Tables: tables}
			go func() {
				defer close(done)
				defer p.leave()
				srvErr = bs.Restore(&fakeRestoreServer{q: q, resp: &resp})
				q.finish()
			}()
			err := sendRestore(f, job, name, client)
			if err == nil {
				_, err = client.CloseAndRecv()
			} else {
				client.closeSend()
				<-done
				if srvErr != nil {
					err = srvErr
				}
			}
			if err != nil {
				fail("stream-receive-error:"+plan.Dir, "restore", err.Error())
				return
			}
		} else {
			tables = se.g.tables
			var opts []grpc.CallOption
			if plan.Compressor != "" {
				opts = append(opts, grpc.UseCompressor(plan.Compressor))
			}
			client, err := pb.NewMaintenanceClient(se.g.conn).Restore(ctx, opts...)
			if err != nil {
				broken("grpc Restore: " + err.Error())
				return
			}
			err = sendRestore(f, job, name, client)
			if err == nil {
				_, err = client.CloseAndRecv()
			}
			if err != nil {
				if errors.Is(ctx.Err(), context.DeadlineExceeded) {
					broken("watchdog")
					return
				}
				fail("stream-receive-error:"+plan.Dir, "restore", err.Error())
				return
			}
		}
		var ok bool
		result, ok = tables.take(name)
		if !ok {
			fail("stream-receive-error:"+plan.Dir, "restore", "BackupServer.Restore answered OK without handing the stream to the table service")
			return
		}
	}

	w.Chunks = len(job.lens)
	w.ChunkHead = job.lens
	if len(w.ChunkHead) > 12 {
		w.ChunkHead = w.ChunkHead[:12]
	}
	// chunk accounting
	var sum int64
	kinds := map[string]int{}
	for _, l := range job.lens {
		sum += int64(l)
		if sum < int64(len(raw1)) {
			kinds[lay.classify(sum)]++
		}
		r.Distinct("chunk_size_classes", chunkClass(l))
	}
	if sum != int64(len(raw1)) {
		fail("stream-bytes-sent-differ", "send", fmt.Sprintf("file has %d bytes, chunks carried %d", len(raw1), sum))
		return
	}
	if plan.Dir == "snapshot" {
		if len(raw2) < len(raw1) || !bytes.Equal(raw2[:len(raw1)], raw1) {
			fail("stream-bytes-received-differ:"+recvShort(plan.Recv), "receive", fmt.Sprintf("sent %d raw bytes, received file has %d, first difference at offset %d", len(raw1), len(raw2), firstDiff(raw1, raw2)))
			return
		}
	}
	if !judgeRead(fail, "stream-"+plan.Dir, "read the received stream message-wise", encs, cmds, result) {
		return
	}
	r.Eval(1)
	r.Count("streams", 1)
	if len(raw1) > 0 && len(raw1)%snapshot.DefaultSnapshotChunkSize == 0 {
		r.Count("streams_with_file_length_exact_multiple_of_chunk_size", 1)
	} else if plan.Aligned {
		r.Count("streams_with_file_length_next_to_multiple_of_chunk_size", 1)
	}
	r.Count("stream_chunks", int64(len(job.lens)))
	for k, v := range kinds {
		r.Count("chunk_boundaries_"+k, int64(v))
	}
	r.Distinct("stream_variants", plan.Transport+"|"+plan.Dir+"|"+plan.Send+"|"+plan.Recv+"|"+plan.Compressor)
	r.Distinct("stream_profiles", plan.Profile+"|"+plan.Cuts)
	if kinds["inside-length-prefix"] > 0 {
		r.Count("streams_with_boundary_inside_length_prefix", 1)
		r.Nontrivial(fmt.Sprintf("stream|%d|%v", c.Seed, job.lens))
	}
	if kinds["inside-snappy-chunk-header"] > 0 {
		r.Count("streams_with_boundary_inside_snappy_chunk_header", 1)
	}
	if c.Idx%25 == 3 || (plan.Transport == "grpc" && c.Idx%28 == 6) {
		r.Sample(map[string]any{"part": "stream", "plan": plan, "commands": len(cmds), "first_commands": describeCmds(cmds, 4), "snapshot_file_bytes": len(raw1),
			"chunks": len(job.lens), "first_chunk_lengths": w.ChunkHead, "chunk_boundaries": kinds, "messages_read_back": len(result.msgs), "result": "same sequence, same boundaries"})
	}
	return nil
}

func recvShort(s string) string {
	if s == "snapshot.Reader.Read" {
		return "Reader.Read"
	}
	return "Reader.WriteTo"
}

func chunkClass(n int) string {
	switch {
	case n == 1:
		return "1"
	case n < 8:
		return "2-7"
	case n == 8:
		return "8"
	case n < 64:
		return "9-63"
	case n < 4096:
		return "<4K"
	case n < 65536:
		return "<64K"
	case n < 1<<20:
		return "<1M"
	case n == 1<<20:
		return "1M"
	default:
		return ">1M"
	}
}

// judgeRead compares what was read back message-wise with what was written.
func judgeRead(fail func(sig, stage, detail string), sigPrefix, stage string, encs [][]byte, cmds []*pb.Command, res readResult) bool {
	if res.panic != "" {
		fail(sigPrefix+"-readback-panic", stage, "panic while reading message-wise: "+res.panic)
		return false
	}
	if res.err != nil {
		fail(sigPrefix+"-readback-error", stage, fmt.Sprintf("error after %d of %d messages: %v", len(res.msgs), len(encs), res.err))
		return false
	}
	if class, detail := compareSeq(encs, res.msgs); class != "" {
		fail(sigPrefix+"-sequence-differs:"+class, stage, detail)
		return false
	}
	// the statement is about commands: decode like table.Manager.readIntoTable (one reused object, Reset + UnmarshalVT)
	cmd := &pb.Command{}
	for i, m := range res.msgs {
		cmd.Reset()
		if err := cmd.UnmarshalVT(m); err != nil {
			fail(sigPrefix+"-command-undecodable", stage, fmt.Sprintf("message %d: %v", i, err))
			return false
		}
		if !proto.Equal(cmd, cmds[i]) {
			fail(sigPrefix+"-command-differs", stage, fmt.Sprintf("command %d decodes to a different command", i))
			return false
		}
	}
	return true
}

// observeEmptyMessage records (without judging, see the assumptions) what the snapshot file does
// with a message whose encoding is empty (the all-default Command).
func observeEmptyMessage(r *ev.Run) {
	sf, err := snapshot.NewTemp()
	if err != nil {
		return
	}
	defer func() { _ = sf.Close(); _ = os.Remove(sf.Path()) }()
	a, _ := (&pb.Command{Table: []byte("t"), Type: pb.Command_PUT, Kv: &pb.KeyValue{Key: []byte("a")}}).MarshalVT()
	e, _ := (&pb.Command{}).MarshalVT()
	b, _ := (&pb.Command{Table: []byte("t"), Type: pb.Command_PUT, Kv: &pb.KeyValue{Key: []byte("b")}}).MarshalVT()
	for _, m := range [][]byte{a, e, b} {
		if _, err := sf.Write(m); err != nil {
			return
		}
	}
	if sf.Sync() != nil {
		return
	}
	if _, err := sf.Seek(0, io.SeekStart); err != nil {
		return
	}
	res := readMessages(sf)
	r.Extra("observed_not_judged_message_with_empty_encoding", fmt.Sprintf("wrote 3 messages to a snapshot file, the middle one the all-default Command (%d-byte encoding); read back %d messages (err=%v): "+
		"an empty write is a no-op, so such a message leaves no frame", len(e), len(res.msgs), res.err))
}

func streamPlanCases(r *ev.Run) []streamCase {
	n := r.Pick(160, 1800)
	out := make([]streamCase, 0, n)
	for i := 0; i < n; i++ {
		out = append(out, streamCase{Part: "stream", Idx: i, Seed: r.Seed*3_000_017 + int64(i)*10_007})
	}
	for i := 0; i < r.Pick(len(alignedPlans), 4*len(alignedPlans)); i++ {
		out = append(out, streamCase{Part: "stream", Idx: alignedBase + i, Seed: r.Seed*3_000_017 + int64(alignedBase+i)*10_007})
	}
	return out
}

// snapshotFileLength writes the commands to a scratch snapshot file the way the case will and
// returns the length of the file.
func snapshotFileLength(cmds []*pb.Command) (int, error) {
	sf, err := snapshot.NewTemp()
	if err != nil {
		return 0, err
	}
	defer func() { _ = sf.Close(); _ = os.Remove(sf.Path()) }()
	var buf []byte
	for _, cmd := range cmds {
		size := cmd.SizeVT()
		if cap(buf) < size {
			buf = make([]byte, size*2)
		}
		n, err := cmd.MarshalToSizedBufferVT(buf[:size])
		if err != nil {
			return 0, err
		}
		if _, err := sf.Write(buf[:n]); err != nil {
			return 0, err
		}
	}
	if err := sf.Sync(); err != nil {
		return 0, err
	}
	st, err := os.Stat(sf.Path())
	if err != nil {
		return 0, err
	}
	return int(st.Size()), nil
}

// fitFileLength tunes the filler value (second to last command) until the snapshot file — after
// the snappy framing — is exactly target bytes long: build, measure, adjust, rebuild.
func fitFileLength(r *rand.Rand, cmds []*pb.Command, target int) error {
	filler := cmds[len(cmds)-2].Kv
	material := randBytes(r, target+64*1024) // incompressible: literal snappy blocks, length grows byte by byte
	n := target - 4096
	if n < 0 {
		n = 0
	}
	for it := 0; it < 24; it++ {
		filler.Value = material[:n]
		got, err := snapshotFileLength(cmds)
		if err != nil {
			return err
		}
		if got == target {
			return nil
		}
		n += target - got
		if it%6 == 5 {
			// stuck on a block boundary (a new 64 KiB block costs 8 bytes at once): shift the alignment
			first := cmds[0].Kv
			first.Value = append(first.Value, byte(it))
		}
		if n < 0 || n > len(material) {
			return fmt.Errorf("cannot reach a snapshot file of %d bytes (filler would be %d bytes)", target, n)
		}
	}
	return fmt.Errorf("snapshot file length did not settle on %d bytes", target)
}
