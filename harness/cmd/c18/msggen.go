package main

// Reflective generator and comparer for every message type of the regattapb API.
//
// The generator walks the message descriptor (protoreflect), so a message type or field that is
// added to the API later is covered without touching this file. Coverage features (which oneof
// arm was set, which state an optional field was in, nil/empty/large bytes …) are recorded so the
// evidence can state what was really sampled and the run can refuse to pass on too little.

import (
	"bytes"
	"fmt"
	"math"
	"math/rand"
	"sort"
	"strings"

	pb "github.com/jamf/regatta/regattapb"
	"google.golang.org/protobuf/proto"
	"google.golang.org/protobuf/reflect/protoreflect"
	"google.golang.org/protobuf/reflect/protoregistry"
)

const maxDepth = 4

// one message in bigEvery may carry one large (64 KiB … bigMax) bytes field
var bigEvery = 250

// apiMessageTypes returns every message type (nested ones included, synthetic map entries
// excluded) declared by the four API proto files, sorted by full name.
func apiMessageTypes() []protoreflect.MessageType {
	files := []protoreflect.FileDescriptor{pb.File_regatta_proto, pb.File_mvcc_proto, pb.File_replication_proto, pb.File_maintenance_proto}
	var out []protoreflect.MessageType
	var walk func(mds protoreflect.MessageDescriptors)
	walk = func(mds protoreflect.MessageDescriptors) {
		for i := 0; i < mds.Len(); i++ {
			md := mds.Get(i)
			if md.IsMapEntry() {
				continue
			}
			mt, err := protoregistry.GlobalTypes.FindMessageByName(md.FullName())
			if err == nil {
				out = append(out, mt)
			}
			walk(md.Messages())
		}
	}
	for _, f := range files {
		walk(f.Messages())
	}
	sort.Slice(out, func(i, j int) bool { return out[i].Descriptor().FullName() < out[j].Descriptor().FullName() })
	return out
}

// expectedFeatures lists the oneof / optional features that exist in the API (used as a floor).
func expectedFeatures(types []protoreflect.MessageType) (oneofStates, optStates []string) {
	for _, mt := range types {
		md := mt.Descriptor()
		for i := 0; i < md.Oneofs().Len(); i++ {
			oo := md.Oneofs().Get(i)
			if oo.IsSynthetic() {
				continue
			}
			oneofStates = append(oneofStates, string(oo.FullName())+"=<none>")
			for j := 0; j < oo.Fields().Len(); j++ {
				oneofStates = append(oneofStates, string(oo.FullName())+"="+string(oo.Fields().Get(j).Name()))
			}
		}
		for i := 0; i < md.Fields().Len(); i++ {
			fd := md.Fields().Get(i)
			if fd.HasOptionalKeyword() {
				for _, s := range []string{"unset", "zero", "value"} {
					optStates = append(optStates, string(fd.FullName())+":"+s)
				}
			}
		}
	}
	return
}

type mg struct {
	r      *rand.Rand
	rich   bool // "different, larger" mode: optionals set, longer lists, longer byte strings
	bigMax int  // upper bound for the (rare) large field
	bigs   int  // large fields still allowed in this message
	feat   map[string]struct{}
	budget int // message nodes still allowed (bounds the size of recursive types)
	// summary of what the generated message tree contains
	oneofsSet, optSet int
}

func newMG(r *rand.Rand, rich bool, bigMax int) *mg {
	g := &mg{r: r, rich: rich, bigMax: bigMax, feat: map[string]struct{}{}}
	g.budget = []int{6, 20, 20, 60, 60, 150}[r.Intn(6)]
	if rich {
		g.budget = g.budget*2 + 20
	}
	if r.Intn(bigEvery) == 0 {
		g.bigs = 1
	}
	return g
}

func (g *mg) note(s string) { g.feat[s] = struct{}{} }

// gen returns a new random message of the given type.
func (g *mg) gen(mt protoreflect.MessageType) proto.Message {
	m := mt.New()
	g.fill(m, 0)
	return m.Interface()
}

func (g *mg) fill(m protoreflect.Message, depth int) {
	if depth > maxDepth || g.budget <= 0 {
		return
	}
	g.budget--
	md := m.Descriptor()
	for i := 0; i < md.Oneofs().Len(); i++ {
		oo := md.Oneofs().Get(i)
		if oo.IsSynthetic() {
			continue
		}
		n := oo.Fields().Len()
		k := g.r.Intn(n+1) - 1
		if g.rich && k < 0 {
			k = g.r.Intn(n)
		}
		if k < 0 {
			g.note("oneof " + string(oo.FullName()) + "=<none>")
			continue
		}
		fd := oo.Fields().Get(k)
		g.note("oneof " + string(oo.FullName()) + "=" + string(fd.Name()))
		g.oneofsSet++
		zero := g.r.Intn(4) == 0
		if zero {
			g.note("oneof-arm-with-default-value")
		}
		g.setSingular(m, fd, depth, zero)
	}
	for i := 0; i < md.Fields().Len(); i++ {
		fd := md.Fields().Get(i)
		if oo := fd.ContainingOneof(); oo != nil && !oo.IsSynthetic() {
			continue
		}
		switch {
		case fd.IsMap():
			g.fillMap(m, fd, depth)
		case fd.IsList():
			g.fillList(m, fd, depth)
		case fd.HasOptionalKeyword():
			st := g.r.Intn(20)
			if g.rich && st < 7 {
				st = 12
			}
			switch {
			case st < 7:
				g.note("opt " + string(fd.FullName()) + ":unset")
			case st < 12:
				g.note("opt " + string(fd.FullName()) + ":zero")
				g.optSet++
				g.setSingular(m, fd, depth, true)
			default:
				g.note("opt " + string(fd.FullName()) + ":value")
				g.optSet++
				g.setSingular(m, fd, depth, false)
			}
		case fd.Kind() == protoreflect.MessageKind || fd.Kind() == protoreflect.GroupKind:
			st := g.r.Intn(20)
			if g.rich && st < 6 {
				st = 10
			}
			switch {
			case st < 6:
				g.note("msgfield:nil")
			case st < 9:
				g.note("msgfield:empty")
				g.setSingular(m, fd, depth, true)
			default:
				g.setSingular(m, fd, depth, false)
			}
		default:
			// implicit-presence scalar
			if !g.rich && g.r.Intn(10) < 3 {
				if fd.Kind() == protoreflect.BytesKind && g.r.Intn(2) == 0 {
					// non-nil empty slice in a field without presence: the same thing on the wire as nil
					g.note("bytes:empty-nonnil(no presence)")
					m.Set(fd, protoreflect.ValueOfBytes([]byte{}))
				}
				continue
			}
			m.Set(fd, g.scalar(fd, false))
		}
	}
}

// setSingular sets a singular field (possibly a oneof arm / optional) to its zero value or to a
// random value; presence is recorded by the Set/Mutable call in either case.
func (g *mg) setSingular(m protoreflect.Message, fd protoreflect.FieldDescriptor, depth int, zero bool) {
	if fd.Kind() == protoreflect.MessageKind || fd.Kind() == protoreflect.GroupKind {
		sub := m.Mutable(fd).Message()
		if !zero {
			g.fill(sub, depth+1)
		}
		return
	}
	m.Set(fd, g.scalar(fd, zero))
}

func (g *mg) listLen(depth int, msgElems bool) int {
	if g.rich {
		if depth > 0 {
			return 1 + g.r.Intn(4)
		}
		return 3 + g.r.Intn(10)
	}
	if depth > 1 {
		return g.r.Intn(4)
	}
	x := g.r.Intn(100)
	switch {
	case x < 30:
		return 0
	case x < 55:
		return 1
	case x < 90:
		return 2 + g.r.Intn(4)
	case x < 99 || depth > 0:
		return 6 + g.r.Intn(35)
	default:
		g.note("list:long")
		n := 200 + g.r.Intn(1800)
		if msgElems {
			g.budget += n
		}
		return n
	}
}

func (g *mg) fillList(m protoreflect.Message, fd protoreflect.FieldDescriptor, depth int) {
	isMsg := fd.Kind() == protoreflect.MessageKind || fd.Kind() == protoreflect.GroupKind
	n := g.listLen(depth, isMsg)
	if isMsg && (depth >= maxDepth || g.budget <= 0) {
		n = 0
	}
	if n == 0 {
		return
	}
	lst := m.Mutable(fd).List()
	ed := depth + 1
	if n > 50 {
		ed = maxDepth // long lists carry leaf-like elements
	}
	for i := 0; i < n; i++ {
		if isMsg {
			e := lst.NewElement()
			if g.r.Intn(12) != 0 {
				g.fill(e.Message(), ed)
			} else {
				g.note("list:empty-message-element")
			}
			lst.Append(e)
		} else {
			lst.Append(g.scalar(fd, g.r.Intn(6) == 0))
		}
	}
}

func (g *mg) fillMap(m protoreflect.Message, fd protoreflect.FieldDescriptor, depth int) {
	n := g.r.Intn(5)
	if g.rich {
		n = 2 + g.r.Intn(5)
	}
	if g.r.Intn(3) == 0 || depth >= maxDepth {
		n = 0
	}
	if n == 0 {
		return
	}
	mp := m.Mutable(fd).Map()
	kd, vd := fd.MapKey(), fd.MapValue()
	for i := 0; i < n; i++ {
		k := g.scalar(kd, i == 0 && g.r.Intn(3) == 0).MapKey()
		if vd.Kind() == protoreflect.MessageKind {
			v := mp.NewValue()
			if g.r.Intn(8) != 0 {
				g.fill(v.Message(), depth+1)
			}
			mp.Set(k, v)
		} else {
			mp.Set(k, g.scalar(vd, g.r.Intn(6) == 0))
		}
	}
	g.note("map:nonempty")
}

var nasty = [][]byte{{0}, {0xFF}, {0, 0}, {0xFF, 0xFF, 0xFF}, {0, 0xFF}, []byte("\x00key"), []byte("key\x00"), []byte("k\xffz")}

func (g *mg) bytesVal(zero bool) []byte {
	if zero {
		return []byte{}
	}
	if g.bigs > 0 && g.r.Intn(3) == 0 {
		g.bigs--
		n := 64*1024 + g.r.Intn(g.bigMax-64*1024+1)
		g.note("bytes:large(>=64KiB)")
		if n >= 1<<20 {
			g.note("bytes:large(>=1MiB)")
		}
		b := make([]byte, n)
		fillRandom(g.r, b)
		return b
	}
	x := g.r.Intn(100)
	switch {
	case x < 8 && !g.rich:
		g.note("bytes:empty-nonnil")
		return []byte{}
	case x < 20:
		g.note("bytes:nasty")
		return append([]byte{}, nasty[g.r.Intn(len(nasty))]...)
	case x < 80:
		b := make([]byte, 1+g.r.Intn(32))
		fillRandom(g.r, b)
		return b
	case x < 92:
		b := make([]byte, 33+g.r.Intn(200))
		fillRandom(g.r, b)
		return b
	case x < 97:
		b := make([]byte, 100+g.r.Intn(5000))
		fillRandom(g.r, b)
		return b
	default:
		b := make([]byte, 127+g.r.Intn(3)+128*g.r.Intn(130)) // around varint length boundaries (127/128, 16383/16384)
		fillRandom(g.r, b)
		return b
	}
}

var runes = []rune("abcXYZ019 _-/.\x00é世\U0001F600Ж\u007f")

func (g *mg) stringVal(zero bool) string {
	if zero {
		return ""
	}
	n := 1 + g.r.Intn(24)
	if g.r.Intn(30) == 0 {
		n = 120 + g.r.Intn(400)
	}
	var sb strings.Builder
	for i := 0; i < n; i++ {
		sb.WriteRune(runes[g.r.Intn(len(runes))])
	}
	return sb.String()
}

func (g *mg) scalar(fd protoreflect.FieldDescriptor, zero bool) protoreflect.Value {
	r := g.r
	pick64 := func() uint64 {
		switch r.Intn(8) {
		case 0:
			return 1
		case 1:
			return math.MaxUint64
		case 2:
			return 1 << 63
		case 3:
			return uint64(r.Intn(300)) // 1- and 2-byte varints
		case 4:
			return 1<<uint(r.Intn(64)) - uint64(r.Intn(2))
		default:
			return r.Uint64()
		}
	}
	switch fd.Kind() {
	case protoreflect.BoolKind:
		return protoreflect.ValueOfBool(!zero)
	case protoreflect.Int32Kind, protoreflect.Sint32Kind, protoreflect.Sfixed32Kind:
		if zero {
			return protoreflect.ValueOfInt32(0)
		}
		return protoreflect.ValueOfInt32(int32(pick64()))
	case protoreflect.Int64Kind, protoreflect.Sint64Kind, protoreflect.Sfixed64Kind:
		if zero {
			return protoreflect.ValueOfInt64(0)
		}
		return protoreflect.ValueOfInt64(int64(pick64()))
	case protoreflect.Uint32Kind, protoreflect.Fixed32Kind:
		if zero {
			return protoreflect.ValueOfUint32(0)
		}
		return protoreflect.ValueOfUint32(uint32(pick64()))
	case protoreflect.Uint64Kind, protoreflect.Fixed64Kind:
		if zero {
			return protoreflect.ValueOfUint64(0)
		}
		return protoreflect.ValueOfUint64(pick64())
	case protoreflect.FloatKind:
		if zero {
			return protoreflect.ValueOfFloat32(0)
		}
		return protoreflect.ValueOfFloat32(float32(g.floatVal()))
	case protoreflect.DoubleKind:
		if zero {
			return protoreflect.ValueOfFloat64(0)
		}
		return protoreflect.ValueOfFloat64(g.floatVal())
	case protoreflect.StringKind:
		return protoreflect.ValueOfString(g.stringVal(zero))
	case protoreflect.BytesKind:
		return protoreflect.ValueOfBytes(g.bytesVal(zero))
	case protoreflect.EnumKind:
		vals := fd.Enum().Values()
		if zero {
			return protoreflect.ValueOfEnum(0)
		}
		if r.Intn(25) == 0 {
			g.note("enum:unlisted-number")
			return protoreflect.ValueOfEnum(protoreflect.EnumNumber(1000 + r.Intn(1000))) // proto3 enums are open
		}
		return protoreflect.ValueOfEnum(vals.Get(r.Intn(vals.Len())).Number())
	}
	panic("c18: unhandled kind " + fd.Kind().String())
}

func (g *mg) floatVal() float64 {
	switch g.r.Intn(10) {
	case 0:
		g.note("float:NaN")
		return math.NaN()
	case 1:
		return math.Inf(1 - 2*g.r.Intn(2))
	case 2:
		return math.Copysign(0, -1)
	case 3:
		return math.MaxFloat64
	case 4:
		return math.SmallestNonzeroFloat64
	case 5:
		return float64(g.r.Intn(1000))
	default:
		return g.r.NormFloat64() * 1e6
	}
}

// ---------------------------------------------------------------------------------------------
// comparer

type fdiff struct {
	Path   string `json:"path"`
	Field  string `json:"field"`
	Kind   string `json:"kind"` // presence | value | length | unknown
	Detail string `json:"detail"`
	// for presence diffs
	origSet, gotSet bool
	gotLen          int
}

// diffMsg is the presence-aware comparison, written against protoreflect independently of
// proto.Equal: fields with presence (optional, oneof arms, message fields) must agree on
// set/unset and, when set, on the value; fields without presence must agree on the value
// (nil and empty are the same value there); lists element-wise; maps key-wise; NaN == NaN.
func diffMsg(path string, a, b protoreflect.Message, out *[]fdiff) {
	if len(*out) > 8 {
		return
	}
	md := a.Descriptor()
	for i := 0; i < md.Fields().Len(); i++ {
		fd := md.Fields().Get(i)
		p := path + "." + string(fd.Name())
		switch {
		case fd.IsList():
			la, lb := a.Get(fd).List(), b.Get(fd).List()
			if la.Len() != lb.Len() {
				*out = append(*out, fdiff{Path: p, Field: string(fd.FullName()), Kind: "length", Detail: fmt.Sprintf("original %d elements, decoded %d", la.Len(), lb.Len())})
				continue
			}
			for j := 0; j < la.Len(); j++ {
				diffVal(fmt.Sprintf("%s[%d]", p, j), fd, la.Get(j), lb.Get(j), out)
			}
		case fd.IsMap():
			ma, mb := a.Get(fd).Map(), b.Get(fd).Map()
			if ma.Len() != mb.Len() {
				*out = append(*out, fdiff{Path: p, Field: string(fd.FullName()), Kind: "length", Detail: fmt.Sprintf("original %d entries, decoded %d", ma.Len(), mb.Len())})
				continue
			}
			ma.Range(func(k protoreflect.MapKey, va protoreflect.Value) bool {
				if !mb.Has(k) {
					*out = append(*out, fdiff{Path: p, Field: string(fd.FullName()), Kind: "value", Detail: fmt.Sprintf("key %q lost", k.String())})
					return true
				}
				diffVal(fmt.Sprintf("%s[%q]", p, k.String()), fd.MapValue(), va, mb.Get(k), out)
				return true
			})
		case fd.HasPresence():
			ha, hb := a.Has(fd), b.Has(fd)
			if ha != hb {
				d := fdiff{Path: p, Field: string(fd.FullName()), Kind: "presence", origSet: ha, gotSet: hb}
				if hb && fd.Kind() == protoreflect.BytesKind {
					d.gotLen = len(b.Get(fd).Bytes())
				}
				d.Detail = fmt.Sprintf("original set=%v, decoded set=%v", ha, hb)
				if hb {
					d.Detail += fmt.Sprintf(" (decoded value %s)", short(b.Get(fd), fd))
				}
				*out = append(*out, d)
				continue
			}
			if ha {
				diffVal(p, fd, a.Get(fd), b.Get(fd), out)
			}
		default:
			diffVal(p, fd, a.Get(fd), b.Get(fd), out)
		}
	}
	if !bytes.Equal(a.GetUnknown(), b.GetUnknown()) {
		*out = append(*out, fdiff{Path: path, Field: string(md.FullName()), Kind: "unknown", Detail: fmt.Sprintf("unknown-field bytes: original %d B, decoded %d B", len(a.GetUnknown()), len(b.GetUnknown()))})
	}
}

func short(v protoreflect.Value, fd protoreflect.FieldDescriptor) string {
	switch fd.Kind() {
	case protoreflect.BytesKind:
		b := v.Bytes()
		if len(b) > 16 {
			return fmt.Sprintf("%d bytes %x…", len(b), b[:16])
		}
		return fmt.Sprintf("%d bytes %x", len(b), b)
	case protoreflect.MessageKind, protoreflect.GroupKind:
		return "message"
	case protoreflect.StringKind:
		s := v.String()
		if len(s) > 24 {
			s = s[:24] + "…"
		}
		return fmt.Sprintf("%q", s)
	}
	return fmt.Sprint(v.Interface())
}

func diffVal(p string, fd protoreflect.FieldDescriptor, va, vb protoreflect.Value, out *[]fdiff) {
	if len(*out) > 8 {
		return
	}
	same := true
	switch fd.Kind() {
	case protoreflect.MessageKind, protoreflect.GroupKind:
		diffMsg(p, va.Message(), vb.Message(), out)
		return
	case protoreflect.BytesKind:
		same = bytes.Equal(va.Bytes(), vb.Bytes())
	case protoreflect.FloatKind, protoreflect.DoubleKind:
		fa, fb := va.Float(), vb.Float()
		same = fa == fb || (math.IsNaN(fa) && math.IsNaN(fb))
	case protoreflect.EnumKind:
		same = va.Enum() == vb.Enum()
	case protoreflect.StringKind:
		same = va.String() == vb.String()
	case protoreflect.BoolKind:
		same = va.Bool() == vb.Bool()
	case protoreflect.Int32Kind, protoreflect.Sint32Kind, protoreflect.Sfixed32Kind, protoreflect.Int64Kind, protoreflect.Sint64Kind, protoreflect.Sfixed64Kind:
		same = va.Int() == vb.Int()
	default:
		same = va.Uint() == vb.Uint()
	}
	if !same {
		*out = append(*out, fdiff{Path: p, Field: string(fd.FullName()), Kind: "value", Detail: fmt.Sprintf("original %s, decoded %s", short(va, fd), short(vb, fd))})
	}
}

// compare runs both oracles. disagree reports that proto.Equal and the own comparer differ
// (a defect of the check, never a verdict about regatta).
func compare(orig, got proto.Message) (diffs []fdiff, equal bool, disagree bool) {
	diffMsg(string(orig.ProtoReflect().Descriptor().Name()), orig.ProtoReflect(), got.ProtoReflect(), &diffs)
	eq := proto.Equal(orig, got)
	return diffs, eq && len(diffs) == 0, eq != (len(diffs) == 0)
}

// compareFast asks proto.Equal first and runs the own comparer only to explain a mismatch (used
// where the same decoded value was already judged by both oracles on another path).
func compareFast(orig, got proto.Message) (diffs []fdiff, equal bool, disagree bool) {
	if proto.Equal(orig, got) {
		return nil, true, false
	}
	diffMsg(string(orig.ProtoReflect().Descriptor().Name()), orig.ProtoReflect(), got.ProtoReflect(), &diffs)
	return diffs, false, len(diffs) == 0
}

// onlyEmptyRangeEndPresence: every difference is "Command.range_end absent in the original,
// present with length 0 in the decoded message".
func onlyEmptyRangeEndPresence(diffs []fdiff) bool {
	if len(diffs) == 0 {
		return false
	}
	for _, d := range diffs {
		if !(d.Kind == "presence" && d.Field == "mvcc.v1.Command.range_end" && !d.origSet && d.gotSet && d.gotLen == 0) {
			return false
		}
	}
	return true
}

// summarize gives a compact rendering of a message for witnesses.
func summarize(m proto.Message) string {
	s := fmt.Sprintf("%v", m)
	if len(s) > 700 {
		s = s[:700] + fmt.Sprintf("… (%d chars)", len(s))
	}
	return s
}
