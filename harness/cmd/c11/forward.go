package main

import (
	"context"
	"fmt"
	"math/rand"
	"sync"
	"sync/atomic"
	"time"

	pb "github.com/jamf/regatta/regattapb"
	"github.com/jamf/regatta/regattaserver"
	"github.com/jamf/regatta/storage"
	"google.golang.org/grpc"
	"google.golang.org/grpc/codes"
	"google.golang.org/grpc/status"

	"verifharness/internal/cluster"
	"verifharness/internal/ev"
)

// leaderStub is the scripted leader: it answers after running before() with the chosen revision
// or error. It always sends a header, as the real leader does.
type leaderStub struct {
	pb.KVClient
	rev    uint64
	err    error
	before func()
}

func (l *leaderStub) reply() (*pb.ResponseHeader, error) {
	if l.before != nil {
		l.before()
	}
	if l.err != nil {
		return nil, l.err
	}
	return &pb.ResponseHeader{Revision: l.rev}, nil
}

func (l *leaderStub) Put(ctx context.Context, in *pb.PutRequest, opts ...grpc.CallOption) (*pb.PutResponse, error) {
	h, err := l.reply()
	if err != nil {
		return nil, err
	}
	return &pb.PutResponse{Header: h}, nil
}

func (l *leaderStub) DeleteRange(ctx context.Context, in *pb.DeleteRangeRequest, opts ...grpc.CallOption) (*pb.DeleteRangeResponse, error) {
	h, err := l.reply()
	if err != nil {
		return nil, err
	}
	return &pb.DeleteRangeResponse{Header: h}, nil
}

func (l *leaderStub) Txn(ctx context.Context, in *pb.TxnRequest, opts ...grpc.CallOption) (*pb.TxnResponse, error) {
	h, err := l.reply()
	if err != nil {
		return nil, err
	}
	return &pb.TxnResponse{Header: h, Succeeded: true}, nil
}

// runForwarding: one ForwardingKVServer call under a scripted order of events.
func runForwarding(r *ev.Run, id caseID) {
	g := rand.New(rand.NewSource(id.Seed))
	q := storage.NewNotificationQueue()
	go q.Run()
	defer q.Close()
	rev := uint64(g.Intn(6)) // includes 0
	method := []string{"put", "delete", "txn"}[g.Intn(3)]
	mode := []string{"notify-after-add", "notify-after-add", "notify-before-add", "insufficient-then-sufficient", "cancel-while-waiting", "deadline-while-waiting", "leader-error"}[g.Intn(7)]
	w := witness{Case: id, Script: []string{fmt.Sprintf("%s via follower, leader revision %d, mode %s", method, rev, mode)}}
	fail := func(sig, what string) {
		w.What = what
		r.Violation(sig, what, w)
	}
	var seq atomic.Int64
	var sufficientNotifyCalled atomic.Int64 // sequence number at which the first sufficient Notify was CALLED (0 = not yet)
	notify := func(x uint64) bool {
		if x >= rev && sufficientNotifyCalled.Load() == 0 {
			sufficientNotifyCalled.Store(seq.Add(1))
		}
		ok := callWithTimeout(8*time.Second, func() { q.Notify("t", x) })
		return ok && callWithTimeout(8*time.Second, func() { q.Len("t") })
	}
	stub := &leaderStub{rev: rev}
	codesList := []codes.Code{codes.NotFound, codes.InvalidArgument, codes.Unavailable, codes.FailedPrecondition, codes.Internal, codes.ResourceExhausted, codes.Unimplemented}
	wantCode := codes.OK
	switch mode {
	case "leader-error":
		wantCode = codesList[g.Intn(len(codesList))]
		stub.err = status.Error(wantCode, "scripted leader error")
	case "notify-before-add":
		// the follower has applied the write before the handler gets to wait for it
		stub.before = func() { notify(rev + uint64(g.Intn(2))) }
	}
	srv := regattaserver.NewForwardingKVServer(nil, stub, q)
	ctx, cancel := context.WithTimeout(context.Background(), 30*time.Second)
	defer cancel()
	if mode == "deadline-while-waiting" {
		ctx, cancel = context.WithTimeout(context.Background(), time.Duration(200+g.Intn(900))*time.Millisecond)
		defer cancel()
	}
	type result struct {
		err error
		at  int64
	}
	done := make(chan result, 1)
	started := time.Now()
	go func() {
		var err error
		switch method {
		case "put":
			_, err = srv.Put(ctx, &pb.PutRequest{Table: []byte("t"), Key: []byte("k"), Value: []byte("v")})
		case "delete":
			_, err = srv.DeleteRange(ctx, &pb.DeleteRangeRequest{Table: []byte("t"), Key: []byte("k")})
		default:
			_, err = srv.Txn(ctx, &pb.TxnRequest{Table: []byte("t"), Success: []*pb.RequestOp{{Request: &pb.RequestOp_RequestPut{RequestPut: &pb.RequestOp_Put{Key: []byte("k"), Value: []byte("v")}}}}})
		}
		done <- result{err, seq.Add(1)}
	}()
	waitLen := func(n int) bool { // until the waiter is queued
		for i := 0; i < 400; i++ {
			var l int
			if !callWithTimeout(8*time.Second, func() { l = q.Len("t") }) {
				return false
			}
			if l >= n {
				return true
			}
			time.Sleep(5 * time.Millisecond)
		}
		return false
	}
	var res result
	got := false
	wait := func(d time.Duration) bool {
		if got {
			return true
		}
		select {
		case res = <-done:
			got = true
			return true
		case <-time.After(d):
			return false
		}
	}
	switch mode {
	case "leader-error":
		if !wait(10 * time.Second) {
			fail("call-not-answered-after-leader-error", "the leader answered with an error but the follower call did not return within 10 s")
			return
		}
		if status.Code(res.err) != wantCode {
			fail("leader-error-code-not-propagated", fmt.Sprintf("leader answered %v, follower call returned %v", wantCode, res.err))
			return
		}
	case "notify-after-add", "insufficient-then-sufficient":
		if !waitLen(1) {
			if wait(0) {
				fail("call-returned-before-any-notification", fmt.Sprintf("follower call returned (%v) before the node applied anything", res.err))
				return
			}
			r.Inconclusive("waiter never appeared in the queue")
			return
		}
		if mode == "insufficient-then-sufficient" && rev > 0 {
			if !notify(rev - 1) {
				fail("queue-event-loop-wedged", "Notify/Len did not return")
				return
			}
			if wait(150 * time.Millisecond) {
				fail("call-released-by-insufficient-notification", fmt.Sprintf("leader revision %d, node applied only %d, yet the call returned (%v)", rev, rev-1, res.err))
				return
			}
		}
		if wait(0) {
			fail("call-returned-before-any-notification", fmt.Sprintf("follower call returned (%v) before the node applied revision %d", res.err, rev))
			return
		}
		if !notify(rev + uint64(g.Intn(3))) {
			fail("queue-event-loop-wedged", "Notify/Len did not return")
			return
		}
		if !wait(10 * time.Second) {
			fail("call-not-answered-after-sufficient-notification", fmt.Sprintf("node applied >= %d but the follower call did not return within 10 s", rev))
			return
		}
		if res.err != nil {
			fail("acknowledged-write-reported-as-error", fmt.Sprintf("node applied >= %d, call returned %v", rev, res.err))
			return
		}
		if res.at < sufficientNotifyCalled.Load() {
			fail("call-returned-before-sufficient-notification", "return event precedes the sufficient notification")
			return
		}
	case "notify-before-add":
		// the node has already applied >= rev when the waiter is added: the call must be answered at once
		if !wait(3 * time.Second) {
			// a later notification still releases it (so this is a delay, not a loss)
			later := notify(rev + 5)
			answered := wait(10 * time.Second)
			fail("ack-waits-for-next-notification-although-already-applied",
				fmt.Sprintf("leader revision %d had been applied on the node before the handler started waiting; the call was still blocked after 3 s (released by the next notification: %v, err %v, queue alive: %v)", rev, answered, res.err, later))
			return
		}
		if res.err != nil {
			fail("acknowledged-write-reported-as-error", fmt.Sprintf("node had applied >= %d, call returned %v", rev, res.err))
			return
		}
	case "cancel-while-waiting", "deadline-while-waiting":
		if !waitLen(1) {
			r.Inconclusive("waiter never appeared in the queue")
			return
		}
		if mode == "cancel-while-waiting" {
			time.Sleep(time.Duration(g.Intn(1200)) * time.Millisecond)
			cancel()
		}
		if !wait(6 * time.Second) {
			if !wait(12 * time.Second) {
				fail("call-not-answered-after-cancellation", fmt.Sprintf("%s: no answer 18 s after the context ended", mode))
				return
			}
		}
		if res.err == nil {
			fail("call-succeeded-without-notification", fmt.Sprintf("%s: the call returned success although the node never applied revision %d", mode, rev))
			return
		}
		// other callers are not delayed: the queue still answers
		if !callWithTimeout(8*time.Second, func() { q.Len("t") }) {
			fail("queue-event-loop-wedged", "Len did not return after a cancelled call")
			return
		}
	}
	_ = started
	r.Count("forwarding_cases", 1)
	r.Count("forwarding_mode_"+mode, 1)
	r.Eval(1)
	if rev == 0 {
		r.Nontrivial(fmt.Sprint("fwd", id.Seed))
	}
	r.Sample(map[string]any{"layer": 2, "case": w.Script[0]})
}

// runE2E: leader + follower wired like cmd/follower.go; writes through the follower API are read back on the same node.
func runE2E(r *ev.Run, id caseID) {
	g := rand.New(rand.NewSource(id.Seed))
	w := witness{Case: id}
	l, err := cluster.StartLeader(cluster.Opts{Nodes: 1}, 0)
	if err != nil {
		r.Inconclusive("leader start: " + err.Error())
		return
	}
	defer l.Close()
	if _, err := l.CreateTable("t"); err != nil {
		r.Inconclusive("create table: " + err.Error())
		return
	}
	var stall atomic.Int64 // ms every apply call of the follower's table is delayed by
	var gate atomic.Bool   // while set, the follower's applied-index notifications for the table are held back
	f, err := cluster.StartFollower(l.ReplAddr, cluster.FollowerOpts{Opts: cluster.Opts{Nodes: 1}, Hook: func(node uint64, table string, rev uint64) {
		if ms := stall.Load(); ms > 0 && table == "t" {
			time.Sleep(time.Duration(ms) * time.Millisecond)
		}
		for i := 0; gate.Load() && table == "r" && i < 1000; i++ { // closed gate: at most 2 s
			time.Sleep(2 * time.Millisecond)
		}
	}})
	if err != nil {
		r.Inconclusive("follower start: " + err.Error())
		return
	}
	defer f.Close()
	// wait until the follower replicates the table
	deadline := time.Now().Add(60 * time.Second)
	for {
		if _, err := f.Nodes[0].Engine.GetTable("t"); err == nil {
			break
		}
		if time.Now().After(deadline) {
			r.Inconclusive("follower never created the replicated table")
			return
		}
		time.Sleep(50 * time.Millisecond)
	}
	conn, err := cluster.Dial(f.N[0].APIAddr)
	if err != nil {
		r.Inconclusive(err.Error())
		return
	}
	defer conn.Close()
	kv := pb.NewKVClient(conn)
	n := r.Pick(120, 250)
	lateAcks := 0
	for i := 0; i < n; i++ {
		key := []byte(fmt.Sprintf("k%d", g.Intn(8)))
		val := []byte(fmt.Sprintf("e2e-%d-%d", id.Seed, i))
		ctx, cancel := context.WithTimeout(context.Background(), 3*time.Second)
		var err error
		del := g.Intn(6) == 0
		var ackRev uint64
		if g.Intn(5) == 0 {
			// a transaction through the follower API: whichever branch runs, it writes the key; the
			// compare fails in half of the cases (succeeded=false is an acknowledged write all the same)
			want := []byte("never-the-value")
			if g.Intn(2) == 0 {
				ctxr, cr := context.WithTimeout(context.Background(), 3*time.Second)
				if cur, err := kv.Range(ctxr, &pb.RangeRequest{Table: []byte("t"), Key: key}); err == nil && len(cur.Kvs) == 1 {
					want = cur.Kvs[0].Value
				}
				cr()
			}
			var tr *pb.TxnResponse
			tr, err = kv.Txn(ctx, &pb.TxnRequest{Table: []byte("t"),
				Compare: []*pb.Compare{{Key: key, Result: pb.Compare_EQUAL, Target: pb.Compare_VALUE, TargetUnion: &pb.Compare_Value{Value: want}}},
				Success: []*pb.RequestOp{{Request: &pb.RequestOp_RequestPut{RequestPut: &pb.RequestOp_Put{Key: key, Value: val}}}},
				Failure: []*pb.RequestOp{{Request: &pb.RequestOp_RequestPut{RequestPut: &pb.RequestOp_Put{Key: key, Value: val}}}}})
			ackRev = tr.GetHeader().GetRevision()
			del = false
			if err == nil {
				r.Count("e2e_follower_txns_succeeded_"+fmt.Sprint(tr.Succeeded), 1)
			}
		} else if del {
			var dr *pb.DeleteRangeResponse
			dr, err = kv.DeleteRange(ctx, &pb.DeleteRangeRequest{Table: []byte("t"), Key: key, Count: g.Intn(3) == 0, PrevKv: g.Intn(3) == 0})
			ackRev = dr.GetHeader().GetRevision()
		} else {
			var pr *pb.PutResponse
			pr, err = kv.Put(ctx, &pb.PutRequest{Table: []byte("t"), Key: key, Value: val, PrevKv: g.Intn(4) == 0})
			ackRev = pr.GetHeader().GetRevision()
		}
		cancel()
		if err == nil {
			if t, terr := f.Nodes[0].Engine.GetTable("t"); terr == nil {
				ctx, cancel := context.WithTimeout(context.Background(), 2*time.Second)
				li, lerr := t.LeaderIndex(ctx, false)
				cancel()
				if lerr == nil && li.Index < ackRev {
					r.Violation("follower-acknowledges-before-applying-the-revision", fmt.Sprintf("write of %s was acknowledged by the follower API with revision %d while the node's table had applied leader index %d only", key, ackRev, li.Index), w)
					return
				}
				r.Count("e2e_acks_checked_against_applied_index", 1)
			}
		}
		w.Script = append(w.Script, fmt.Sprintf("write %s=%s -> %v", key, val, err))
		if err != nil {
			if status.Code(err) == codes.DeadlineExceeded {
				// was it applied on the node although the caller was never told?
				ctx, cancel := context.WithTimeout(context.Background(), 3*time.Second)
				resp, rerr := kv.Range(ctx, &pb.RangeRequest{Table: []byte("t"), Key: key})
				cancel()
				if rerr == nil && ((del && len(resp.Kvs) == 0) || (!del && len(resp.Kvs) == 1 && string(resp.Kvs[0].Value) == string(val))) {
					lateAcks++
					r.Violation("ack-waits-for-next-notification-although-already-applied",
						fmt.Sprintf("write %s through the follower API timed out after 3 s although the node had applied it (the waiter was added after the notification)", key), w)
					continue
				}
			}
			r.Count("e2e_writes_failed(not judged)", 1)
			continue
		}
		// acknowledged: a serializable read on the same node must observe it
		ctx, cancel = context.WithTimeout(context.Background(), 3*time.Second)
		resp, rerr := kv.Range(ctx, &pb.RangeRequest{Table: []byte("t"), Key: key})
		cancel()
		if rerr != nil {
			r.Count("e2e_reads_failed(not judged)", 1)
			continue
		}
		if del {
			if len(resp.Kvs) != 0 {
				r.Violation("follower-read-misses-acknowledged-write", fmt.Sprintf("delete of %s was acknowledged by the follower API but a read on the same node still returns %q", key, resp.Kvs[0].Value), w)
				return
			}
		} else if len(resp.Kvs) != 1 || string(resp.Kvs[0].Value) != string(val) {
			got := "<absent>"
			if len(resp.Kvs) == 1 {
				got = string(resp.Kvs[0].Value)
			}
			r.Violation("follower-read-misses-acknowledged-write", fmt.Sprintf("put %s=%s was acknowledged by the follower API but a read on the same node returns %s", key, val, got), w)
			return
		}
		r.Count("e2e_follower_writes_read_back", 1)
	}
	// writes that change nothing on the leader: a key removed on the leader by another writer a
	// moment ago is deleted again through the follower API (plain, with count, with prev_kv) while
	// the follower applies slowly, i.e. has not yet applied the first removal. The acknowledgement
	// carries revision R: the node's table must have applied a leader index >= R by then, and a read
	// on the node must not return the key any more.
	le := l.Nodes[0].Engine
	followerIndex := func() (uint64, error) {
		t, err := f.Nodes[0].Engine.GetTable("t")
		if err != nil {
			return 0, err
		}
		ctx, cancel := context.WithTimeout(context.Background(), 2*time.Second)
		defer cancel()
		li, err := t.LeaderIndex(ctx, false)
		if err != nil {
			return 0, err
		}
		return li.Index, nil
	}
	for i, nn := 0, r.Pick(12, 40); i < nn; i++ {
		key := []byte(fmt.Sprintf("gone%d", i%3))
		ctx, cancel := context.WithTimeout(context.Background(), 10*time.Second)
		pr, err := le.Put(ctx, &pb.PutRequest{Table: []byte("t"), Key: key, Value: []byte(fmt.Sprintf("v%d", i))})
		if err != nil {
			cancel()
			r.Count("e2e_writes_failed(not judged)", 1)
			continue
		}
		for j := 0; j < 300; j++ {
			if li, err := followerIndex(); err == nil && li >= pr.Header.Revision {
				break
			}
			time.Sleep(10 * time.Millisecond)
		}
		stall.Store(int64(60 + g.Intn(120)))
		dr, err := le.Delete(ctx, &pb.DeleteRangeRequest{Table: []byte("t"), Key: key})
		if err != nil {
			stall.Store(0)
			cancel()
			r.Count("e2e_writes_failed(not judged)", 1)
			continue
		}
		req := &pb.DeleteRangeRequest{Table: []byte("t"), Key: key, Count: i%3 == 1, PrevKv: i%3 == 2}
		fr, ferr := kv.DeleteRange(ctx, req)
		li, lerr := followerIndex()
		resp, rerr := kv.Range(ctx, &pb.RangeRequest{Table: []byte("t"), Key: key})
		stall.Store(0)
		cancel()
		w.Script = append(w.Script, fmt.Sprintf("leader: put %s (rev %d), leader: delete %s (rev %d), follower API (applying slowly): delete %s count=%v prev_kv=%v -> %v", key, pr.Header.Revision, key, dr.Header.GetRevision(), key, req.Count, req.PrevKv, ferr))
		if ferr != nil {
			r.Count("e2e_writes_failed(not judged)", 1)
			continue
		}
		if lerr == nil && li < fr.Header.GetRevision() {
			r.Violation("follower-acknowledges-before-applying-the-revision", fmt.Sprintf("delete of %s (count=%v prev_kv=%v; the key had just been removed on the leader at revision %d) was acknowledged by the follower API with revision %d while the node's table had applied leader index %d only",
				key, req.Count, req.PrevKv, dr.Header.GetRevision(), fr.Header.GetRevision(), li), w)
			return
		}
		if rerr == nil && len(resp.Kvs) != 0 {
			r.Violation("follower-read-misses-acknowledged-write", fmt.Sprintf("delete of %s (count=%v prev_kv=%v) was acknowledged by the follower API but a read on the same node still returns %q", key, req.Count, req.PrevKv, resp.Kvs[0].Value), w)
			return
		}
		r.Count("e2e_follower_writes_read_back", 1)
		r.Count("e2e_noop_deletes_of_keys_just_removed_on_leader", 1)
	}
	// restarted follower node: the engine of the follower node is restarted twice (its table then
	// carries a local log index that differs from the leader index it has recorded), then writes go
	// through its API one at a time. Each time the node's applied-index notification is held back
	// until the handler has registered its waiter (observed as the queue length growing), so the
	// known waiter-added-after-its-notification race is excluded by construction: such a write must
	// be acknowledged.
	{
		// a young table: few leader entries, so that the restarts' own log entries count
		if _, err := l.CreateTable("r"); err != nil {
			r.Inconclusive("create table r: " + err.Error())
			return
		}
		ctx, cancel := context.WithTimeout(context.Background(), 10*time.Second)
		_, err := le.Put(ctx, &pb.PutRequest{Table: []byte("r"), Key: []byte("first"), Value: []byte("v")})
		cancel()
		if err != nil {
			r.Inconclusive("leader write: " + err.Error())
			return
		}
		for j := 0; j < 600; j++ {
			if t, err := f.Nodes[0].Engine.GetTable("r"); err == nil {
				ctx, cancel := context.WithTimeout(context.Background(), 2*time.Second)
				li, lerr := t.LeaderIndex(ctx, false)
				cancel()
				if lerr == nil && li.Index > 0 {
					break
				}
			}
			time.Sleep(50 * time.Millisecond)
		}
		restarted := true
		for rs := 0; rs < 3 && restarted; rs++ {
			if err := f.RestartEngine(0); err != nil {
				r.Inconclusive("follower engine restart: " + err.Error())
				return
			}
			restarted = false
			for j := 0; j < 600; j++ {
				f.ReconcileAll()
				_, e1 := f.Nodes[0].Engine.GetTable("t")
				_, e2 := f.Nodes[0].Engine.GetTable("r")
				if e1 == nil && e2 == nil {
					restarted = true
					break
				}
				time.Sleep(100 * time.Millisecond)
			}
			r.Count("e2e_follower_engine_restarts", 1)
			if restarted && rs < 2 {
				// one replicated write between two restarts
				ctx, cancel := context.WithTimeout(context.Background(), 10*time.Second)
				pr, err := le.Put(ctx, &pb.PutRequest{Table: []byte("r"), Key: []byte(fmt.Sprintf("between-restarts-%d", rs)), Value: []byte("v")})
				cancel()
				if err != nil {
					r.Inconclusive("leader write: " + err.Error())
					return
				}
				for j := 0; j < 600; j++ {
					if t, err := f.Nodes[0].Engine.GetTable("r"); err == nil {
						ctx, cancel := context.WithTimeout(context.Background(), 2*time.Second)
						li, lerr := t.LeaderIndex(ctx, false)
						cancel()
						if lerr == nil && li.Index >= pr.Header.Revision {
							break
						}
					}
					time.Sleep(20 * time.Millisecond)
				}
			}
		}
		if !restarted {
			r.Inconclusive("the replicated table did not come back after a follower engine restart")
			return
		}
		conn2, err := cluster.Dial(f.N[0].APIAddr)
		if err != nil {
			r.Inconclusive(err.Error())
			return
		}
		defer conn2.Close()
		kv = pb.NewKVClient(conn2)
		for i := 0; i < 8; i++ {
			key := []byte(fmt.Sprintf("after-restart-%d", i))
			before := f.N[0].Queue.Len("r")
			gate.Store(true)
			ch := make(chan error, 1)
			go func() {
				ctx, cancel := context.WithTimeout(context.Background(), 4*time.Second)
				defer cancel()
				_, err := kv.Put(ctx, &pb.PutRequest{Table: []byte("r"), Key: key, Value: []byte("v")})
				ch <- err
			}()
			registered := false
			for j := 0; j < 1000 && !registered; j++ {
				if f.N[0].Queue.Len("r") > before {
					registered = true
					break
				}
				select {
				case err := <-ch: // answered before any waiter was seen (error from the leader, ...)
					ch <- err
					j = 1000
				default:
					time.Sleep(2 * time.Millisecond)
				}
			}
			gate.Store(false)
			err := <-ch
			w.Script = append(w.Script, fmt.Sprintf("after 2 follower engine restarts: put %s through the follower API (waiter registered before the notification: %v) -> %v", key, registered, err))
			if err == nil {
				r.Count("e2e_writes_after_restart_acked", 1)
				continue
			}
			if registered && status.Code(err) == codes.DeadlineExceeded {
				ctx, cancel := context.WithTimeout(context.Background(), 3*time.Second)
				resp, rerr := kv.Range(ctx, &pb.RangeRequest{Table: []byte("r"), Key: key})
				cancel()
				if rerr == nil && len(resp.Kvs) == 1 {
					r.Violation("registered-waiter-never-answered-although-the-node-applied-the-revision",
						fmt.Sprintf("put %s through the API of the restarted follower node: the waiter was registered before the node applied the write, the node applied it (a read returns it), yet the call ended with DeadlineExceeded after 4 s", key), w)
					return
				}
			}
			r.Count("e2e_writes_failed(not judged)", 1)
		}
	}
	// concurrent phase: several clients write large values through the follower API at once (so
	// that one replication response carries several proposals' worth of commands) and read them back
	var cwg sync.WaitGroup
	var bad atomic.Value
	for cl := 0; cl < 4; cl++ {
		cwg.Add(1)
		go func(cl int) {
			defer cwg.Done()
			lg := rand.New(rand.NewSource(id.Seed*11 + int64(cl)))
			for i := 0; i < r.Pick(25, 60) && bad.Load() == nil; i++ {
				key := []byte(fmt.Sprintf("big-c%d-%d", cl, lg.Intn(3)))
				val := make([]byte, 60*1024+lg.Intn(60*1024))
				copy(val, fmt.Sprintf("c%d-%d-%d|", cl, i, id.Seed))
				ctx, cancel := context.WithTimeout(context.Background(), 5*time.Second)
				_, err := kv.Put(ctx, &pb.PutRequest{Table: []byte("t"), Key: key, Value: val})
				cancel()
				if err != nil {
					r.Count("e2e_writes_failed(not judged)", 1)
					continue
				}
				ctx, cancel = context.WithTimeout(context.Background(), 5*time.Second)
				resp, rerr := kv.Range(ctx, &pb.RangeRequest{Table: []byte("t"), Key: key})
				cancel()
				if rerr != nil {
					continue
				}
				if len(resp.Kvs) != 1 || string(resp.Kvs[0].Value[:24]) != string(val[:24]) {
					got := "<absent>"
					if len(resp.Kvs) == 1 {
						got = string(resp.Kvs[0].Value[:24])
					}
					bad.Store(fmt.Sprintf("put %s (value %q…, %d B) was acknowledged by the follower API but a read on the same node returns %q", key, val[:24], len(val), got))
					return
				}
				r.Count("e2e_follower_writes_read_back", 1)
				r.Count("e2e_concurrent_large_writes_read_back", 1)
			}
		}(cl)
	}
	cwg.Wait()
	if v := bad.Load(); v != nil {
		r.Violation("follower-read-misses-acknowledged-write", v.(string), w)
		return
	}
	r.Count("e2e_runs", 1)
	r.Eval(1)
	r.Sample(map[string]any{"layer": 3, "writes": n, "acks_that_timed_out_although_applied": lateAcks, "replicate_calls_served_by_leader": l.Stats.ReplicateCalls.Load()})
}
