package main

import (
	"context"
	"fmt"
	"math/rand"
	"sync/atomic"
	"time"

	"github.com/jamf/regatta/storage"

	"verifharness/internal/ev"
)

type waiter struct {
	id       int
	table    string
	rev      uint64
	kind     string // bg | cancel | deadline
	ctx      context.Context
	cancel   context.CancelFunc
	ch       <-chan error
	addedSeq int64
	answered bool
	released bool  // answered by release (nil)
	err      error // answered with an error
	closed   bool  // the answer was a close of the channel
}

type step struct {
	op    string // add cancel notify len sleep
	w     int
	table string
	rev   uint64
	kind  string
	ms    int
}

func (s step) String() string {
	switch s.op {
	case "add":
		return fmt.Sprintf("add(w%d %s rev=%d ctx=%s/%dms)", s.w, s.table, s.rev, s.kind, s.ms)
	case "cancel":
		return fmt.Sprintf("cancel(w%d)", s.w)
	case "notify":
		return fmt.Sprintf("notify(%s,%d)", s.table, s.rev)
	case "len":
		return fmt.Sprintf("len(%s)", s.table)
	}
	return fmt.Sprintf("sleep(%dms)", s.ms)
}

func genScript(g *rand.Rand) []step {
	var out []step
	tables := []string{"a", "b"}
	revs := []uint64{0, 1, 2, 2, 3, 5, 8, 8, 13}
	nw := 0
	var cancellable []int
	n := 6 + g.Intn(14)
	for i := 0; i < n; i++ {
		switch k := g.Intn(100); {
		case k < 45:
			s := step{op: "add", w: nw, table: tables[g.Intn(2)], rev: revs[g.Intn(len(revs))]}
			switch g.Intn(3) {
			case 0:
				s.kind = "bg"
			case 1:
				s.kind = "cancel"
				cancellable = append(cancellable, nw)
			default:
				s.kind = "deadline"
				s.ms = 150 + g.Intn(700)
			}
			if g.Intn(3) == 0 {
				s.table = "a" // build depth on one table
			}
			nw++
			out = append(out, s)
		case k < 55 && len(cancellable) > 0:
			j := g.Intn(len(cancellable))
			out = append(out, step{op: "cancel", w: cancellable[j]})
			cancellable = append(cancellable[:j], cancellable[j+1:]...)
		case k < 72:
			out = append(out, step{op: "notify", table: tables[g.Intn(2)], rev: uint64(g.Intn(10))})
		case k < 80:
			out = append(out, step{op: "len", table: tables[g.Intn(2)]})
		default:
			ms := 50 + g.Intn(400)
			if g.Intn(3) == 0 {
				ms = 900 + g.Intn(500) // straddle a sweep
			}
			out = append(out, step{op: "sleep", ms: ms})
		}
	}
	return out
}

// genDeepScript builds one deep heap on table "a": n waiters whose revisions arrive in a random
// order, a random subset is cancelled, a pause lets the periodic sweep remove them (every shape of
// "expired waiter somewhere inside the heap"), then the applied index advances revision by
// revision; the barrier check after every notification demands that exactly the live waiters at or
// below it have been released.
func genDeepScript(g *rand.Rand) []step {
	n := 5 + g.Intn(9)
	revs := g.Perm(n)
	var out []step
	for i := 0; i < n; i++ {
		rev := uint64(revs[i] + 1)
		if g.Intn(8) == 0 {
			rev = uint64(g.Intn(n) + 1) // duplicate revision
		}
		out = append(out, step{op: "add", w: i, table: "a", rev: rev, kind: "cancel"})
	}
	k := 1 + g.Intn(n/2+1)
	for _, w := range g.Perm(n)[:k] {
		out = append(out, step{op: "cancel", w: w})
	}
	out = append(out, step{op: "sleep", ms: 1150 + g.Intn(200)})
	if g.Intn(3) == 0 { // a second wave: more waiters and cancellations after the first sweep
		for i := n; i < n+3; i++ {
			out = append(out, step{op: "add", w: i, table: "a", rev: uint64(g.Intn(n) + 1), kind: "cancel"})
		}
		out = append(out, step{op: "cancel", w: n + g.Intn(3)})
		out = append(out, step{op: "sleep", ms: 1150 + g.Intn(200)})
	}
	out = append(out, step{op: "len", table: "a"})
	for rev := 1; rev <= n; rev++ {
		out = append(out, step{op: "notify", table: "a", rev: uint64(rev)})
	}
	return out
}

func runScript(r *ev.Run, id caseID) {
	g := rand.New(rand.NewSource(id.Seed))
	script := genScript(g)
	if id.Seed%3 == 0 {
		script = genDeepScript(g)
		r.Count("queue_scripts_deep_heap", 1)
	}
	w := witness{Case: id}
	for _, s := range script {
		w.Script = append(w.Script, s.String())
	}
	q := storage.NewNotificationQueue()
	go q.Run()
	defer q.Close()
	// what a follower's queue sees all the time: every replication worker asks for the number of
	// waiters of its table every 50 ms, and other tables keep announcing applied indices
	if id.Seed%2 == 1 {
		stopBg := make(chan struct{})
		defer close(stopBg)
		go func() {
			for i := uint64(1); ; i++ {
				select {
				case <-stopBg:
					return
				case <-time.After(50 * time.Millisecond):
					q.Len("other-table")
					if i%4 == 0 {
						q.Notify("other-table", i)
					}
				}
			}
		}()
		w.Script = append([]string{"(background: Len(other-table) every 50 ms, Notify(other-table) every 200 ms)"}, w.Script...)
		r.Count("queue_scripts_with_background_traffic", 1)
	}
	var seq atomic.Int64
	var ws []*waiter
	maxNotified := map[string]int64{"a": -1, "b": -1} // highest revision for which Notify has been CALLED
	fail := func(sig, what string) {
		w.What = what
		r.Violation(sig, what, w)
	}
	wedged := func(call string) {
		fail("queue-event-loop-wedged", fmt.Sprintf("%s did not return within 8 s: the queue's event loop no longer takes events", call))
	}
	// poll takes an answer from the waiter's channel if one is there (never blocks).
	poll := func(x *waiter) bool {
		if x.answered {
			return true
		}
		select {
		case e, ok := <-x.ch:
			x.answered = true
			x.closed = !ok
			if e == nil {
				x.released = true
				if int64(x.rev) > maxNotified[x.table] {
					fail("waiter-released-before-sufficient-notification", fmt.Sprintf("w%d (table %s, revision %d) was released although the highest notified revision is %d", x.id, x.table, x.rev, maxNotified[x.table]))
					return true
				}
			} else {
				x.err = e
				if x.ctx.Err() == nil {
					fail("live-waiter-answered-with-error", fmt.Sprintf("w%d got %v although its context is neither cancelled nor expired", x.id, e))
					return true
				}
			}
			return true
		default:
			return false
		}
	}
	pollAll := func() {
		for _, x := range ws {
			poll(x)
		}
	}
	sweepsStraddled := 0
	maxDepth := 0
	hasRevZero := false
	liveAndCancelledTogether := 0
	for _, s := range script {
		if r.Violations() > 25 {
			return
		}
		switch s.op {
		case "add":
			x := &waiter{id: s.w, table: s.table, rev: s.rev, kind: s.kind}
			switch s.kind {
			case "bg":
				x.ctx, x.cancel = context.WithCancel(context.Background())
			case "cancel":
				x.ctx, x.cancel = context.WithCancel(context.Background())
			case "deadline":
				x.ctx, x.cancel = context.WithTimeout(context.Background(), time.Duration(s.ms)*time.Millisecond)
			}
			if s.rev == 0 {
				hasRevZero = true
			}
			x.addedSeq = seq.Add(1)
			if !callWithTimeout(8*time.Second, func() { x.ch = q.Add(x.ctx, x.table, x.rev) }) {
				wedged(s.String())
				return
			}
			ws = append(ws, x)
			r.Count("waiters", 1)
		case "cancel":
			for _, x := range ws {
				if x.id == s.w {
					x.cancel()
				}
			}
		case "notify":
			pollAll()
			// eligible: live right now, unanswered, revision <= r
			var eligible []*waiter
			for _, x := range ws {
				if !x.answered && x.table == s.table && x.rev <= s.rev && x.ctx.Err() == nil && x.kind != "deadline" {
					eligible = append(eligible, x)
				}
			}
			if int64(s.rev) > maxNotified[s.table] {
				maxNotified[s.table] = int64(s.rev)
			}
			seq.Add(1)
			if !callWithTimeout(8*time.Second, func() { q.Notify(s.table, s.rev) }) {
				wedged(s.String())
				return
			}
			// barrier: the loop handles one event at a time, so once Len has been answered the
			// notification has been handled completely
			if !callWithTimeout(8*time.Second, func() { q.Len(s.table) }) {
				wedged("len(" + s.table + ") after " + s.String())
				return
			}
			for _, x := range eligible {
				if x.ctx.Err() != nil {
					continue // cancelled by the script meanwhile (cannot happen: single driver), or deadline
				}
				if !poll(x) {
					fail("live-waiter-not-released-by-sufficient-notification", fmt.Sprintf("after %s (handled) live w%d (revision %d) has no answer", s, x.id, x.rev))
					return
				}
				if !x.released {
					fail("live-waiter-not-released-by-sufficient-notification", fmt.Sprintf("after %s live w%d (revision %d) got %v instead of a release", s, x.id, x.rev, x.err))
					return
				}
			}
			r.Count("barrier_checks", 1)
		case "len":
			pollAll()
			var got int
			if !callWithTimeout(8*time.Second, func() { got = q.Len(s.table) }) {
				wedged(s.String())
				return
			}
			live := 0
			cancelled := 0
			for _, x := range ws {
				if x.table != s.table {
					continue
				}
				if !poll(x) {
					if x.ctx.Err() == nil {
						live++
					} else {
						cancelled++
					}
				}
			}
			if got < live {
				fail("len-smaller-than-live-waiters", fmt.Sprintf("%s = %d but %d live waiters are still unanswered (a live waiter fell out of the queue)", s, got, live))
				return
			}
			if got > maxDepth {
				maxDepth = got
			}
			if live > 0 && cancelled > 0 {
				liveAndCancelledTogether++
			}
		case "sleep":
			time.Sleep(time.Duration(s.ms) * time.Millisecond)
			if s.ms >= 900 {
				sweepsStraddled++
			}
			pollAll()
			queued := map[string]int{}
			live, dead := 0, 0
			for _, x := range ws {
				if !x.answered {
					queued[x.table]++
					if x.ctx.Err() == nil {
						live++
					} else {
						dead++
					}
				}
			}
			for _, n := range queued {
				if n > maxDepth {
					maxDepth = n
				}
			}
			if live > 0 && dead > 0 {
				liveAndCancelledTogether++
			}
		}
	}
	// quiescence: cancel everything, let the sweep answer, then a final notification
	pollAll()
	for _, x := range ws {
		x.cancel()
	}
	time.Sleep(2300 * time.Millisecond)
	// every waiter is cancelled by now: those no notification has covered must have been answered
	// (with their context's error) by the periodic sweep, without any further notification for
	// their table - whatever else the queue is busy with. Bound: 2 sweep periods have passed,
	// re-examined once after 3 more.
	pollAll()
	var unswept []*waiter
	for _, x := range ws {
		if !x.answered && int64(x.rev) > maxNotified[x.table] {
			unswept = append(unswept, x)
		}
	}
	if len(unswept) > 0 {
		time.Sleep(3500 * time.Millisecond)
		pollAll()
		for _, x := range unswept {
			if !x.answered {
				if !callWithTimeout(8*time.Second, func() { q.Len(x.table) }) {
					wedged("len while waiting for the sweep")
					return
				}
				fail("cancelled-waiter-not-answered-by-the-sweep", fmt.Sprintf("w%d (table %s, revision %d, ctx %s) was cancelled 5.8 s ago (more than 5 sweep periods), no notification covers it, and it has not been answered", x.id, x.table, x.rev, x.kind))
				return
			}
		}
	}
	r.Count("waiters_left_to_the_sweep_alone", int64(len(unswept)))
	for _, t := range []string{"a", "b"} {
		maxNotified[t] = 1 << 40
		if !callWithTimeout(8*time.Second, func() { q.Notify(t, 1<<40) }) {
			wedged("final notify(" + t + ")")
			return
		}
		if !callWithTimeout(8*time.Second, func() { q.Len(t) }) {
			wedged("final len(" + t + ")")
			return
		}
	}
	pollAll()
	var missing []*waiter
	for _, x := range ws {
		if !x.answered {
			missing = append(missing, x)
		}
	}
	if len(missing) > 0 {
		time.Sleep(7 * time.Second) // re-examine once at 3x the bound
		pollAll()
		for _, x := range missing {
			if !x.answered {
				if !callWithTimeout(8*time.Second, func() { q.Len(x.table) }) {
					wedged("len after quiescence")
					return
				}
				fail("waiter-never-answered", fmt.Sprintf("w%d (table %s, revision %d, ctx %s) has received no answer 9 s after every context was cancelled and a notification above every revision was delivered", x.id, x.table, x.rev, x.kind))
				return
			}
		}
	}
	// exactly one answer: nothing more may arrive on a channel that delivered an error value
	time.Sleep(1200 * time.Millisecond) // one more sweep
	for _, x := range ws {
		if x.closed {
			continue // released by close: the channel stays readable, that is not a second answer
		}
		select {
		case e, ok := <-x.ch:
			fail("waiter-answered-twice", fmt.Sprintf("w%d (revision %d) first got %v and then a second answer (%v, closed=%v)", x.id, x.rev, x.err, e, !ok))
			return
		default:
		}
		if x.released {
			r.Count("waiters_released_by_notification", 1)
		} else {
			r.Count("waiters_answered_with_context_error", 1)
		}
	}
	for _, x := range ws {
		if x.closed {
			r.Count("waiters_released_by_notification", 1)
		}
	}
	for _, t := range []string{"a", "b"} {
		var n int
		if !callWithTimeout(8*time.Second, func() { n = q.Len(t) }) {
			wedged("len at the end")
			return
		}
		if n != 0 {
			r.Count("final_len_nonzero(recorded,not judged)", 1)
		}
	}
	r.Count("queue_scripts", 1)
	r.Eval(1)
	deep := id.Seed%3 == 0
	if (liveAndCancelledTogether >= 1 && sweepsStraddled >= 2 && maxDepth >= 3) || hasRevZero || deep {
		r.Nontrivial(fmt.Sprint(id.Seed))
	}
	r.Sample(map[string]any{"layer": 1, "script": w.Script, "waiters": len(ws)})
}
