package main

import (
	"context"
	"fmt"
	"math/rand"
	"sync"
	"time"

	pb "github.com/jamf/regatta/regattapb"
	"github.com/jamf/regatta/storage"
	"github.com/jamf/regatta/storage/table/fsm"
	sm "github.com/lni/dragonboat/v4/statemachine"

	"verifharness/internal/ev"
	"verifharness/internal/fsmx"
)

// runAnnounce (layer 4): the real table state machine wired to the real notification queue the way
// storage/table/manager.go + cmd/follower.go wire them. Replicated entries (each carrying its
// leader index = the revision a follower-API caller waits for) are applied in batches of 1..12;
// (a) the listener itself reads, at the moment index N is announced, the key written by the entry
// with leader index N; (b) callers waiting in the queue for revision N read that key as soon as
// they are released. Both must see the value of entry N or a later one: an announced (and hence
// acknowledged) write is applied, i.e. readable on the node.
func runAnnounce(r *ev.Run, id caseID) {
	g := rand.New(rand.NewSource(id.Seed))
	w := witness{Case: id}
	q := storage.NewNotificationQueue()
	go q.Run()
	defer q.Close()
	n := 150 + g.Intn(150)
	keyOf := func(li uint64) []byte { return []byte(fmt.Sprintf("k%d", li%7)) }
	// value written by leader entry li: "v<li>"; a read shows v<m> with m >= li (same key, later entry) or fails
	var t *fsmx.T
	var bad sync.Map
	readSees := func(li uint64, who string) {
		rr, err := t.Range(&pb.RequestOp_Range{Key: keyOf(li)})
		if err != nil {
			bad.Store(who, fmt.Sprintf("%s: read error %v", who, err))
			return
		}
		var got uint64
		if len(rr.Kvs) == 1 {
			fmt.Sscanf(string(rr.Kvs[0].Value), "v%d", &got)
		}
		if got < li {
			bad.Store(who, fmt.Sprintf("%s: leader index %d was announced as applied, but a read of %q on the node returns %q (the entry with leader index %d wrote v%d)", who, li, keyOf(li), valueOf(rr), li, li))
		}
	}
	t = fsmx.New(fsmx.NewMem(), "t", 10001, 1, fsm.SnapshotRecoveryType(g.Intn(2)), func(applied uint64) {
		if applied > 0 { // (Open announces 0, so does a table reset)
			readSees(applied, "listener")
			r.Count("announcements_checked_by_an_immediate_read", 1)
		}
		q.Notify("t", applied)
	})
	if _, err := t.SM.Open(nil); err != nil {
		r.Inconclusive("fsm open: " + err.Error())
		return
	}
	defer t.Close()
	var wg sync.WaitGroup
	// the follower's own log index runs far ahead of the leader indices (as it does on a table that
	// was reset or re-replicated before): a local index taken for a leader index would cover every
	// revision anybody waits for
	idx := uint64(50000)
	li := uint64(0)
	for applied := 0; applied < n; {
		bsz := 1 + g.Intn(12)
		if bsz > n-applied {
			bsz = n - applied
		}
		var es []sm.Entry
		var waitFor []uint64
		for j := 0; j < bsz; j++ {
			idx++
			li++
			v := li
			val := []byte(fmt.Sprintf("v%d", li))
			if g.Intn(4) == 0 {
				val = append(val, make([]byte, 64*1024)...) // makes the commit of the batch take a while
				val = []byte(fmt.Sprintf("v%d%s", li, string(val[len(fmt.Sprintf("v%d", li)):])))
			}
			c := &pb.Command{Table: []byte("t"), Type: pb.Command_PUT, LeaderIndex: &v, Kv: &pb.KeyValue{Key: keyOf(li), Value: val}}
			es = append(es, fsmx.Entry(idx, c))
			if g.Intn(2) == 0 {
				waitFor = append(waitFor, li)
			}
		}
		// now and then the table is reset while writes are in flight: the batch ends with the reset
		// marker (leader index 0), and callers already wait for revisions the leader has handed out
		// but the node has not applied yet (they must stay waiting until their entries arrive)
		if g.Intn(12) == 0 && n-(applied+bsz) >= 1 {
			// (the batch's own entries are announced by the next batch only: nobody waits for them here)
			waitFor = nil
			idx++
			zero := uint64(0)
			es = append(es, fsmx.Entry(idx, &pb.Command{Table: []byte("t"), Type: pb.Command_DUMMY, LeaderIndex: &zero}))
			for k, nk := 1, 1+g.Intn(3); k <= nk && k <= n-(applied+bsz); k++ {
				waitFor = append(waitFor, li+uint64(k))
			}
			r.Count("table_resets_with_writes_in_flight", 1)
		}
		// callers registered before the batch is applied (as the forwarding server registers them
		// after the leader answered)
		for _, rev := range waitFor {
			wg.Add(1)
			ctx, cancel := context.WithTimeout(context.Background(), 20*time.Second)
			ch := q.Add(ctx, "t", rev)
			go func(rev uint64) {
				defer wg.Done()
				defer cancel()
				if err := <-ch; err != nil {
					bad.Store(fmt.Sprint("waiter", rev), fmt.Sprintf("caller waiting for revision %d was answered with %v although the node applied it", rev, err))
					return
				}
				readSees(rev, fmt.Sprintf("caller released for revision %d", rev))
				r.Count("released_callers_reading_at_once", 1)
			}(rev)
		}
		w.Script = append(w.Script, fmt.Sprintf("apply call with %d replicated entries (leader indices %d..%d), %d callers waiting", bsz, li-uint64(bsz)+1, li, len(waitFor)))
		if _, err := t.Update(es); err != nil {
			r.Violation("update-error", err.Error(), w)
			return
		}
		applied += bsz
	}
	wg.Wait()
	var first string
	bad.Range(func(_, v any) bool { first = v.(string); return false })
	if first != "" {
		w.What = first
		if len(w.Script) > 12 {
			w.Script = w.Script[len(w.Script)-12:]
		}
		r.Violation("applied-index-announced-before-the-write-is-readable", first, w)
		return
	}
	r.Count("announce_cases", 1)
	r.Eval(1)
}

func valueOf(rr *pb.ResponseOp_Range) string {
	if len(rr.Kvs) != 1 {
		return "<absent>"
	}
	v := rr.Kvs[0].Value
	if len(v) > 16 {
		v = v[:16]
	}
	return string(v)
}
