// C11 — writes through a follower are read-your-writes; waiting never wedges the node.
//
// Layer 1: the real storage.IndexNotificationQueue (real Run loop, real 1 s sweep) driven by
//          seeded scripts of Add / Notify / Len / cancel / pauses that straddle sweeps.
// Layer 2: the real regattaserver.ForwardingKVServer with a scripted leader stub and the real
//          queue: the RPC returns only after a sufficient notification or with the context's error.
// Layer 3: end to end: leader cluster + follower cluster wired like cmd/follower.go; a client
//          writes through the follower's API and immediately reads the key on the same node.
package main

import (
	"context"
	"fmt"
	"os"
	"sync"
	"time"

	"verifharness/internal/ev"
	"verifharness/internal/racelog"
)

type caseID struct {
	Layer int   `json:"layer"`
	Seed  int64 `json:"case_seed"`
}

type witness struct {
	Case   caseID   `json:"case"`
	Script []string `json:"script"`
	What   string   `json:"what"`
}

func main() {
	r := ev.Start("C11", "exploration")
	r.Supervise() // a panic in the queue's event loop (send on / close of a closed channel) kills the process: observed by the parent
	r.Rule("layer 1: seeded queue scripts (2 tables, revisions incl. 0 and duplicates, background / cancelled / short-deadline contexts, pauses of 0.1-1.3 s so that cancellations straddle the periodic sweep) judged at barriers; " +
		"layer 2: ForwardingKVServer cases (leader stub revision incl. 0, leader errors, notification before / after the waiter is added, cancellation while waiting); layer 3: follower-API writes followed by same-node serializable reads. " +
		"Non-trivial: a script in which live and cancelled waiters coexist across >=2 sweeps with >=3 queued waiters on one table, or which contains revision 0, or a deep-heap script (5-13 waiters on one table arriving in random revision order, a random subset cancelled before a sweep, then the applied index advanced revision by revision with a barrier check each time); distinct by script seed")
	r.Assume("each waiter channel is read the way the server reads it (one receive); a waiter's context error is the only acceptable non-nil answer",
		"'answered once the deadline or cancellation passes' is checked as: answered within 3 sweep periods after quiescence, re-examined once after 3x that bound")
	if r.Replay != "" {
		var w witness
		if _, err := r.ReadReplay(&w); err != nil {
			fmt.Fprintln(os.Stderr, "replay:", err)
			os.Exit(2)
		}
		switch w.Case.Layer {
		case 1:
			runScript(r, w.Case)
		case 2:
			runForwarding(r, w.Case)
		case 3:
			runE2E(r, w.Case)
		}
		r.Finish()
	}
	// layer 1: scripts in parallel (sweeps are real time)
	n1 := r.Pick(300, 4000)
	par := 150
	var wg sync.WaitGroup
	sem := make(chan struct{}, par)
	for i := 0; i < n1; i++ {
		wg.Add(1)
		sem <- struct{}{}
		go func(i int) {
			defer wg.Done()
			defer func() { <-sem }()
			runScript(r, caseID{1, r.Seed*1_000_003 + int64(i)})
		}(i)
	}
	wg.Wait()
	n2 := r.Pick(60, 800)
	sem2 := make(chan struct{}, 30)
	for i := 0; i < n2; i++ {
		wg.Add(1)
		sem2 <- struct{}{}
		go func(i int) {
			defer wg.Done()
			defer func() { <-sem2 }()
			runForwarding(r, caseID{2, r.Seed*2_000_003 + int64(i)})
		}(i)
	}
	wg.Wait()
	ev.Parallel(r.Pick(40, 600), 8, func(i int) {
		runAnnounce(r, caseID{4, r.Seed*4_000_003 + int64(i)})
	})
	for i, n := 0, r.Pick(1, 8); i < n; i++ {
		runE2E(r, caseID{3, r.Seed*3_000_003 + int64(i)})
	}
	if rep := racelog.Scan(); rep != nil {
		for sig, n := range rep.Regatta {
			r.Violation(sig, fmt.Sprintf("data race report with regatta frames (x%d): %s", n, rep.Samples[sig]), nil)
		}
		r.Extra("race_reports_third_party", rep.ThirdParty)
	}
	r.FloorNontrivial(int64(r.Pick(100, 1500)))
	r.FloorCount("queue_scripts", int64(r.Pick(250, 3500)))
	r.FloorCount("queue_scripts_with_background_traffic", int64(r.Pick(100, 1500)))
	r.FloorCount("waiters", int64(r.Pick(1500, 20000)))
	r.FloorCount("waiters_released_by_notification", int64(r.Pick(300, 4000)))
	r.FloorCount("waiters_answered_with_context_error", int64(r.Pick(300, 4000)))
	r.FloorCount("barrier_checks", int64(r.Pick(300, 4000)))
	r.FloorCount("forwarding_cases", int64(r.Pick(40, 520)))
	r.FloorCount("announcements_checked_by_an_immediate_read", int64(r.Pick(1000, 15000)))
	r.FloorCount("released_callers_reading_at_once", int64(r.Pick(2000, 30000)))
	r.FloorCount("e2e_follower_writes_read_back", int64(r.Pick(60, 500)))
	r.FloorCount("e2e_noop_deletes_of_keys_just_removed_on_leader", int64(r.Pick(8, 100)))
	r.FloorCount("e2e_writes_after_restart_acked", int64(r.Pick(5, 40)))
	r.Finish()
}

// callWithTimeout runs f; ok=false when it did not return within d (event loop wedged).
func callWithTimeout(d time.Duration, f func()) bool {
	done := make(chan struct{})
	go func() {
		defer close(done)
		f()
	}()
	select {
	case <-done:
		return true
	case <-time.After(d):
		return false
	}
}

var _ = context.Background
