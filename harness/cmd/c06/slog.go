package main

import (
	"bytes"
	"encoding/binary"
	"errors"
	"fmt"
	"math/rand"

	"github.com/lni/dragonboat/v4"
	"github.com/lni/dragonboat/v4/raftpb"
)

// slog is the SCRIPTED LOG of layer 1: a dragonboat.ReadonlyLogReader whose behaviour follows
// dragonboat's internal/logdb.LogReader (v4.0.0-20231222133740) + the pebble/tan IterateEntries
// it sits on:
//
//	GetRange()            = (marker+1, last); an empty log has last == marker
//	Entries(low,high,max) = low > high            -> error
//	                        low <= marker         -> ErrCompacted
//	                        high > last+1         -> ErrUnavailable
//	                        otherwise entries low, low+1, … while the cumulative SizeUpperLimit
//	                        stays <= max, but never fewer than one entry (max == 0 -> exactly one)
//
// All entries ever appended are kept (also the compacted ones) so that an answer served from a
// not-yet-invalidated cache can still be compared with the entry that really was at that index.
type slog struct {
	shard  uint64
	marker uint64 // compacted up to and including this index
	last   uint64
	base   uint64 // index of all[0]
	all    []raftpb.Entry
	term   uint64
	calls  []logCall // Entries() calls since the last resetTrace
	ranges int       // GetRange() calls since the last resetTrace
}

type logCall struct {
	Low, High, Max uint64
	N              int
	Err            string
}

var (
	errCompacted   = errors.New("entry compacted")   // text of dragonboat's raft.ErrCompacted
	errUnavailable = errors.New("entry unavailable") // text of dragonboat's raft.ErrUnavailable
)

// blob supplies command payloads without allocating per entry.
var blob = func() []byte {
	b := make([]byte, 5<<20)
	rnd := rand.New(rand.NewSource(42))
	for i := 0; i < len(b); i += 8 {
		binary.LittleEndian.PutUint64(b[i:], rnd.Uint64())
	}
	return b
}()

func newSlog(shard, marker uint64) *slog {
	return &slog{shard: shard, marker: marker, last: marker, base: marker + 1, term: 1}
}

func (l *slog) first() uint64 { return l.marker + 1 }

func (l *slog) at(i uint64) raftpb.Entry { return l.all[i-l.base] }

func (l *slog) has(i uint64) bool { return i >= l.base && i <= l.last }

func (l *slog) size(i uint64) uint64 { e := l.at(i); return uint64(e.SizeUpperLimit()) }

// appendEntry adds one entry of the given type with a payload of n bytes.
func (l *slog) appendEntry(r *rand.Rand, typ raftpb.EntryType, n int) {
	l.last++
	if r.Intn(12) == 0 {
		l.term++
	}
	e := raftpb.Entry{Term: l.term, Index: l.last, Type: typ}
	if n > 0 {
		if n < 10 {
			n = 10
		}
		cmd := make([]byte, 10, 10)
		cmd[0] = 0 // dragonboat's "v0, no compression, no session" header of an encoded entry
		binary.LittleEndian.PutUint64(cmd[1:], l.last)
		cmd[9] = byte(l.shard)
		if n > 10 {
			off := r.Intn(len(blob) - n)
			full := make([]byte, 0, n)
			full = append(full, cmd...)
			full = append(full, blob[off:off+n-10]...)
			cmd = full
		}
		e.Cmd = cmd
	}
	switch typ {
	case raftpb.ConfigChangeEntry:
		e.Key = r.Uint64()
	case raftpb.EncodedEntry, raftpb.ApplicationEntry:
		if r.Intn(3) == 0 {
			e.Key, e.ClientID, e.SeriesID = r.Uint64(), r.Uint64(), uint64(r.Intn(5))
		}
	}
	l.all = append(l.all, e)
}

func (l *slog) compact(to uint64) {
	if to < l.marker || to > l.last {
		panic("scripted log: bad compaction index")
	}
	l.marker = to
}

func (l *slog) resetTrace() { l.calls = l.calls[:0]; l.ranges = 0 }

// ---- dragonboat.ReadonlyLogReader ----

func (l *slog) GetRange() (uint64, uint64) { l.ranges++; return l.marker + 1, l.last }

func (l *slog) NodeState() (raftpb.State, raftpb.Membership) {
	return raftpb.State{Term: l.term, Commit: l.last}, raftpb.Membership{}
}

func (l *slog) Term(index uint64) (uint64, error) {
	if index == l.marker {
		return 0, nil
	}
	es, err := l.entries(index, index+1, 0)
	if err != nil || len(es) == 0 {
		return 0, err
	}
	return es[0].Term, nil
}

func (l *slog) Snapshot() raftpb.Snapshot { return raftpb.Snapshot{Index: l.marker} }

func (l *slog) Entries(low, high, maxSize uint64) ([]raftpb.Entry, error) {
	es, err := l.entries(low, high, maxSize)
	c := logCall{Low: low, High: high, Max: maxSize, N: len(es)}
	if err != nil {
		c.Err = err.Error()
	}
	l.calls = append(l.calls, c)
	return es, err
}

// entries mirrors LogReader.Entries/entriesLocked over plainEntries.iterate.
func (l *slog) entries(low, high, maxSize uint64) ([]raftpb.Entry, error) {
	if low > high {
		return nil, fmt.Errorf("high (%d) < low (%d)", high, low)
	}
	if low <= l.marker {
		return nil, errCompacted
	}
	if high > l.last+1 {
		return nil, errUnavailable
	}
	ents := make([]raftpb.Entry, 0, high-low)
	size := uint64(0)
	for i := low; i < high; i++ {
		e := l.at(i)
		size += uint64(e.SizeUpperLimit())
		ents = append(ents, e)
		if size > maxSize {
			break
		}
	}
	if maxSize > 0 && size > maxSize && len(ents) > 1 {
		return ents[:len(ents)-1], nil
	} else if maxSize == 0 && size > maxSize && len(ents) > 1 {
		return ents[:1], nil
	}
	return ents, nil
}

var _ dragonboat.ReadonlyLogReader = (*slog)(nil)

// specLen is the independent statement of the contract for a servable range: the number of
// entries the uncached reader has to return for [a,b) under limit m.
func (l *slog) specLen(a, b, m uint64) int {
	n, cum := 0, uint64(0)
	for i := a; i < b && i <= l.last; i++ {
		s := l.size(i)
		if n > 0 && (cum+s > m || cum+s < cum) {
			break
		}
		cum += s
		n++
	}
	return n
}

func sameEntry(a, b raftpb.Entry) bool {
	return a.Term == b.Term && a.Index == b.Index && a.Type == b.Type && a.Key == b.Key &&
		a.ClientID == b.ClientID && a.SeriesID == b.SeriesID && a.RespondedTo == b.RespondedTo &&
		bytes.Equal(a.Cmd, b.Cmd)
}

// querier implements the (unexported) logQuerier interface of storage/logreader.
type querier struct {
	logs map[uint64]*slog
}

func (q *querier) GetLogReader(shardID uint64) (dragonboat.ReadonlyLogReader, error) {
	l, ok := q.logs[shardID]
	if !ok {
		return nil, dragonboat.ErrLogDBNotCreatedOrClosed
	}
	return l, nil
}
