package main

import (
	"context"
	"fmt"
	"strings"
	"sync/atomic"
	"time"

	pvfs "github.com/cockroachdb/pebble/vfs"
	"github.com/jamf/regatta/storage"
	lvfs "github.com/lni/vfs"
	"go.uber.org/zap"
	"go.uber.org/zap/zapcore"

	"verifharness/internal/cluster"
)

// evHook is a zap core given to the engine as its logger. storage.(*events).dispatchEvents logs
// every Raft system event ("raft: <type> <fields>") BEFORE it handles it and handles events one
// after the other, so:
//   - the line for logCompacted{our shard} is written after dragonboat moved the log's first
//     index (Compact happens before the event is published) and before ShardCache.LogCompacted;
//     the hook samples the log's first index F at that moment (synchronously, in the dispatcher);
//   - the NEXT "raft:" line (any event) proves the handling of that logCompacted is complete.
//
// From then on everything in the cache was read from a log whose first index was >= F, so a
// cached answer other than USE_SNAPSHOT for an index < F cannot be excused by a late event.
// This gives layer 2 the same logical "cache last emptied at first index F" bound layer 1 has,
// without any waiting. If the log format changes the hook never fires and the bound stays 0
// (everything below the first index is then judged leniently; a coverage floor reports that).
type evHook struct {
	shard     atomic.Uint64
	firstOf   atomic.Pointer[func() uint64]
	pending   atomic.Uint64 // F sampled at the last logCompacted line, handling not yet proven
	confirmed atomic.Uint64 // cache was emptied when the first index was >= this
	seen      atomic.Int64  // logCompacted lines for our shard
	lines     atomic.Int64  // all "raft:" lines
}

func (k *evHook) Enabled(l zapcore.Level) bool { return l >= zapcore.InfoLevel }
func (k *evHook) With([]zapcore.Field) zapcore.Core { return k }
func (k *evHook) Sync() error                       { return nil }
func (k *evHook) Check(e zapcore.Entry, ce *zapcore.CheckedEntry) *zapcore.CheckedEntry {
	if k.Enabled(e.Level) {
		return ce.AddCore(e, k)
	}
	return ce
}

func (k *evHook) Write(e zapcore.Entry, _ []zapcore.Field) error {
	if !strings.HasPrefix(e.Message, "raft: ") {
		return nil
	}
	k.lines.Add(1)
	if p := k.pending.Swap(0); p > k.confirmed.Load() {
		k.confirmed.Store(p)
	}
	var sh, rep uint64
	if n, _ := fmt.Sscanf(e.Message, "raft: storage.logCompacted {ShardID:%d ReplicaID:%d}", &sh, &rep); n == 2 && sh != 0 && sh == k.shard.Load() {
		k.seen.Add(1)
		if f := k.firstOf.Load(); f != nil {
			k.pending.Store((*f)())
		}
	}
	return nil
}

// startEngine starts a single-node engine like internal/cluster does, but with the hook as logger.
func startEngine(cacheSize int, hook *evHook) (*storage.Engine, error) {
	cluster.Quiet()
	var lastErr error
	for attempt := 0; attempt < 10; attempt++ {
		ports, err := cluster.FreePorts(2)
		if err != nil {
			return nil, err
		}
		raft, gossip := fmt.Sprintf("127.0.0.1:%d", ports[0]), fmt.Sprintf("127.0.0.1:%d", ports[1])
		tfs := pvfs.NewMem()
		_ = tfs.MkdirAll("/tables", 0o755)
		cfg := storage.Config{
			Log:            zap.New(hook).Sugar(),
			NodeID:         1,
			InitialMembers: map[uint64]string{1: raft},
			WALDir:         "/wal",
			NodeHostDir:    "/nh",
			RTTMillisecond: 5,
			RaftAddress:    raft,
			Gossip:         storage.GossipConfig{BindAddress: gossip, InitialMembers: []string{gossip}, ClusterName: "verif", NodeName: "n1-" + gossip},
			Table: storage.TableConfig{
				FS: tfs, DataDir: "/tables", TableCacheSize: 1024, BlockCacheSize: 16 << 20,
				ElectionRTT: 10, HeartbeatRTT: 1, SnapshotEntries: 10, CompactionOverhead: 3,
			},
			Meta:         storage.MetaConfig{ElectionRTT: 10, HeartbeatRTT: 1},
			LogCacheSize: cacheSize,
			FS:           lvfs.NewMem(),
		}
		e, err := storage.New(cfg)
		if err == nil {
			if err = e.Start(); err == nil {
				ctx, cancel := context.WithTimeout(context.Background(), 30*time.Second)
				err = e.WaitUntilReady(ctx)
				cancel()
				if err == nil {
					return e, nil
				}
			}
			closeEngine(e)
		}
		lastErr = err
		s := err.Error()
		if !(strings.Contains(s, "address already in use") || strings.Contains(s, "bind:") || strings.Contains(s, "listen")) {
			return nil, err
		}
	}
	return nil, fmt.Errorf("engine start (ports): %w", lastErr)
}

func closeEngine(e *storage.Engine) {
	defer func() { _ = recover() }()
	_ = e.Cluster.Close()
	_ = e.Close()
}

// createTable creates the table and waits (watchdog only) until its shard has a leader.
func createTable(e *storage.Engine, name string) error {
	if _, err := e.CreateTable(name); err != nil {
		return err
	}
	deadline := time.Now().Add(30 * time.Second)
	for {
		_ = e.Manager.VerifReconcile()
		if t, err := e.GetTable(name); err == nil {
			if _, _, valid, err := e.GetLeaderID(t.ClusterID); err == nil && valid {
				return nil
			}
		}
		if time.Now().After(deadline) {
			return fmt.Errorf("table %s not ready", name)
		}
		time.Sleep(20 * time.Millisecond)
	}
}
