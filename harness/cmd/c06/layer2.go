package main

import (
	"bytes"
	"context"
	"fmt"
	"io"
	"math"
	"math/rand"
	"net"
	"sync"
	"sync/atomic"
	"time"

	pb "github.com/jamf/regatta/regattapb"
	"github.com/jamf/regatta/regattaserver"
	"github.com/jamf/regatta/storage"
	"github.com/jamf/regatta/storage/logreader"
	"github.com/jamf/regatta/storage/table"
	"github.com/lni/dragonboat/v4"
	"go.uber.org/zap"
	"google.golang.org/grpc"
	"google.golang.org/grpc/codes"
	"google.golang.org/grpc/credentials/insecure"
	"google.golang.org/grpc/status"

	"verifharness/internal/cluster"
	"verifharness/internal/ev"
	"verifharness/internal/gen"
	"verifharness/internal/model"
)

var msgLimits = []uint64{200, 1024, 4 << 20}

type l2srv struct {
	name   string
	cached bool
	limit  uint64
	rs     *regattaserver.RegattaServer
	conn   *grpc.ClientConn
	cli    pb.LogClient
}

type rcvCmd struct {
	idx   uint64  // ReplicateCommand.leader_index
	inner *uint64 // Command.leader_index
	typ   pb.Command_CommandType
	body  []byte // Command marshalled without leader_index
}

type l2msg struct {
	Kind    string   `json:"kind"` // commands | USE_SNAPSHOT | LEADER_BEHIND | empty
	Leader  uint64   `json:"leader_index"`
	Indices []uint64 `json:"command_indices,omitempty"`
	cmds    []rcvCmd
}

type l2call struct {
	Server        string  `json:"server"`
	Start         uint64  `json:"requested_index"`
	FirstBefore   uint64  `json:"log_first_before"`
	FirstAfter    uint64  `json:"log_first_after"`
	AppliedBefore uint64  `json:"applied_before"`
	AppliedAfter  uint64  `json:"applied_after"`
	// InvalidatedBelow: the log cache is known to have been emptied (LogCompacted handled) at a
	// moment when the log's first index was already >= this value; sampled before the call.
	InvalidatedBelow uint64 `json:"cache_known_emptied_at_first_index"`
	Msgs          []l2msg `json:"messages"`
	RPCErr        string  `json:"rpc_error,omitempty"`
	code          codes.Code
	srv           *l2srv
}

type l2 struct {
	r         *ev.Run
	rep       *reporter
	id        caseID
	rnd       *rand.Rand
	g         *gen.G
	eng       *storage.Engine
	tbl       table.ActiveTable
	shard     uint64
	simple    *logreader.Simple
	srvs      []*l2srv
	mu        sync.Mutex
	hist      map[uint64][]byte // revision -> marshalled command as proposed, top-level leader_index removed
	stored    map[uint64]int    // revision -> length of the bytes really proposed
	labelled  map[uint64]uint64 // revision -> foreign leader_index the stored command carries
	restored  map[string][]byte // pairs of the restored backup
	restoreTo uint64            // log indices <= this were written by Engine.Restore
	desc      map[uint64]string
	maxRev    uint64
	tainted   bool
	cacheSize int
	hook      *evHook
	tailSrv   *l2srv      // the cached server a tailing follower polls while the history is written
	tailNext  uint64      // next index that follower asks for
	tailCalls []*l2call   // its calls made from the writer goroutine of the concurrent phase (judged afterwards)
	deferTail atomic.Bool // true while the writer runs beside the caller
	ops       []string
	sawCmds   bool
	sawSnap   bool
	sawPart   bool
}

func runL2(r *ev.Run, rep *reporter, id caseID) {
	rnd := rand.New(rand.NewSource(id.Seed))
	h := &l2{r: r, rep: rep, id: id, rnd: rnd, g: gen.New(id.Seed), hist: map[uint64][]byte{}, desc: map[uint64]string{}, stored: map[uint64]int{}, labelled: map[uint64]uint64{}}
	h.g.NewPool(8)
	h.cacheSize = cacheSizes[rnd.Intn(len(cacheSizes))]
	h.hook = &evHook{}
	eng, err := startEngine(h.cacheSize, h.hook)
	if err != nil {
		r.Inconclusive("engine start: " + err.Error())
		return
	}
	defer closeEngine(eng)
	h.eng = eng
	if err := createTable(eng, "t"); err != nil {
		r.Inconclusive("create table: " + err.Error())
		return
	}
	if h.eng.LogCache == nil {
		r.Inconclusive("engine has no log cache")
		return
	}
	if id.Restore {
		if err := h.restoreTable(); err != nil {
			r.Inconclusive("restore: " + err.Error())
			return
		}
		r.Count("l2_histories_on_restored_table", 1)
	}
	h.tbl, err = h.eng.GetTable("t")
	if err != nil {
		r.Inconclusive("get table: " + err.Error())
		return
	}
	h.shard = h.tbl.ClusterID
	firstOf := func() uint64 { f, _ := h.logRange(); return f }
	h.hook.firstOf.Store(&firstOf)
	h.hook.shard.Store(h.shard)
	h.simple = &logreader.Simple{LogQuerier: h.eng.NodeHost}
	defer h.stopServers()
	for _, lim := range msgLimits {
		for _, cached := range []bool{true, false} {
			if err := h.startServer(cached, lim); err != nil {
				r.Inconclusive("replication server start: " + err.Error())
				return
			}
		}
	}

	for _, sv := range h.srvs {
		if sv.cached && sv.limit == 4<<20 {
			h.tailSrv = sv
		}
	}
	h.tailNext = 1
	phases := []int{3, 6, 9, 13, 11}
	if r.Thorough() {
		phases = []int{2, 5, 8, 12, 9, 17, 11, 23}
	}
	for pi, n := range phases {
		n += rnd.Intn(4)
		if err := h.propose(n); err != nil {
			r.Inconclusive(fmt.Sprintf("proposal failed (%v); history abandoned", err))
			return
		}
		h.quiesce()
		if !h.probeBoundary() || !h.sweep(pi) {
			return
		}
	}
	if !h.concurrentPhase() {
		return
	}
	r.Count("l2_logcompacted_events_seen", h.hook.seen.Load())
	r.Count("l2_raft_event_lines_seen", h.hook.lines.Load())
	if h.tainted {
		r.Inconclusive("a revision could not be attributed to one proposal; command contents were not compared")
		return
	}
	r.Eval(1)
	if h.sawCmds && h.sawSnap && h.sawPart {
		r.Nontrivial(fmt.Sprintf("l2:%d:%d", id.Seed, h.cacheSize))
	}
	r.Distinct("l2_cache_size", fmt.Sprint(h.cacheSize))
	first, last := h.logRange()
	r.Sample(map[string]any{"layer": 2, "case_seed": id.Seed, "log_cache_size": h.cacheSize, "proposals": len(h.hist), "last_revision": h.maxRev,
		"final_log_range": []uint64{first, last}, "ops": headStr(h.ops, 6)})
}

func headStr(s []string, n int) []string {
	if len(s) > n {
		return append(append([]string{}, s[:n]...), fmt.Sprintf("… %d more", len(s)-n))
	}
	return s
}

func (h *l2) startServer(cached bool, limit uint64) error {
	l, err := net.Listen("tcp", "127.0.0.1:0")
	if err != nil {
		return err
	}
	var lr regattaserver.LogReaderService = h.simple
	name := fmt.Sprintf("uncached/%dB", limit)
	if cached {
		lr = h.eng.LogReader
		name = fmt.Sprintf("cached/%dB", limit)
	}
	rs := regattaserver.NewServer(l, zap.NewNop().Sugar())
	pb.RegisterLogServer(rs, regattaserver.NewLogServer(h.eng, lr, zap.NewNop(), limit))
	go func() { _ = rs.Serve() }()
	conn, err := grpc.Dial(l.Addr().String(), grpc.WithTransportCredentials(insecure.NewCredentials()),
		grpc.WithDefaultCallOptions(grpc.MaxCallRecvMsgSize(256<<20)))
	if err != nil {
		rs.Server.Stop()
		return err
	}
	h.srvs = append(h.srvs, &l2srv{name: name, cached: cached, limit: limit, rs: rs, conn: conn, cli: pb.NewLogClient(conn)})
	return nil
}

func (h *l2) stopServers() {
	for _, s := range h.srvs {
		_ = s.conn.Close()
		s.rs.Server.Stop()
	}
}

func (h *l2) logRange() (uint64, uint64) {
	lr, err := h.eng.NodeHost.GetLogReader(h.shard)
	if err != nil {
		return 0, 0
	}
	return lr.GetRange()
}

// applied reads the table state machine's applied index on this (only) replica.
func (h *l2) applied() (uint64, error) {
	ctx, cancel := context.WithTimeout(context.Background(), 10*time.Second)
	defer cancel()
	ir, err := h.tbl.LocalIndex(ctx, false)
	if err != nil {
		return 0, err
	}
	return ir.Index, nil
}

// quiesce waits (bounded) for snapshotting/compaction started by the last proposals to settle.
// It only reduces the number of calls that overlap a compaction; verdicts never depend on it.
func (h *l2) quiesce() {
	pf, pl := h.logRange()
	stable := 0
	for i := 0; i < 150 && stable < 6; i++ {
		time.Sleep(10 * time.Millisecond)
		f, l := h.logRange()
		if f == pf && l == pl && h.hook.pending.Load() == 0 {
			stable++
		} else {
			stable, pf, pl = 0, f, l
		}
	}
}

// record notes the command proposed at a revision. What must come back on the stream is that
// command with ONLY its top-level leader_index replaced by the entry's own index ("each labelled
// with its own index"), so the expectation is kept without the top-level label.
func (h *l2) record(rev uint64, cmd *pb.Command, d string) {
	full, err := cmd.MarshalVT()
	if err != nil {
		panic(err)
	}
	li := cmd.LeaderIndex
	cmd.LeaderIndex = nil
	b, err := cmd.MarshalVT()
	cmd.LeaderIndex = li
	if err != nil {
		panic(err)
	}
	h.mu.Lock()
	defer h.mu.Unlock()
	if _, dup := h.hist[rev]; dup {
		h.tainted = true
	}
	h.stored[rev] = len(full)
	if li != nil {
		h.labelled[rev] = *li
	}
	h.hist[rev] = b
	h.desc[rev] = d
	if rev > h.maxRev {
		h.maxRev = rev
	}
	h.ops = append(h.ops, fmt.Sprintf("%d: %s", rev, d))
}

func (h *l2) value() []byte {
	switch k := h.rnd.Intn(20); {
	case k < 10:
		return []byte(fmt.Sprintf("v%d", h.rnd.Intn(1000)))
	case k < 14:
		return bytes.Repeat([]byte{'x'}, 40+h.rnd.Intn(200)) // entry a little above/below the 200 B limit
	case k < 17:
		return bytes.Repeat([]byte{'y'}, 700+h.rnd.Intn(600)) // around the 1 KiB limit
	case k < 18:
		return bytes.Repeat([]byte{'z'}, 20000+h.rnd.Intn(40000))
	default:
		return h.g.Value()
	}
}

func (h *l2) putOp() *pb.RequestOp {
	return &pb.RequestOp{Request: &pb.RequestOp_RequestPut{RequestPut: &pb.RequestOp_Put{Key: h.g.Key(), Value: h.value(), PrevKv: h.rnd.Intn(2) == 0}}}
}

// proposeOne issues one write through the engine and records the command proposed at the
// revision the engine reports.
func (h *l2) proposeOne() error {
	ctx, cancel := context.WithTimeout(context.Background(), 10*time.Second)
	defer cancel()
	tn := []byte("t")
	if h.rnd.Intn(6) == 0 {
		return h.proposeLabelled(ctx)
	}
	switch k := h.rnd.Intn(10); {
	case k < 6:
		req := &pb.PutRequest{Table: tn, Key: h.g.Key(), Value: h.value(), PrevKv: h.rnd.Intn(3) == 0}
		resp, err := h.eng.Put(ctx, req)
		if err != nil {
			return err
		}
		h.record(resp.Header.Revision, &pb.Command{Type: pb.Command_PUT, Table: tn, Kv: &pb.KeyValue{Key: req.Key, Value: req.Value}, PrevKvs: req.PrevKv},
			fmt.Sprintf("Put(%q,%dB)", req.Key, len(req.Value)))
	case k < 8:
		req := &pb.DeleteRangeRequest{Table: tn, Key: h.g.Key(), PrevKv: h.rnd.Intn(2) == 0, Count: h.rnd.Intn(2) == 0}
		if h.rnd.Intn(2) == 0 {
			req.RangeEnd = h.g.RangeEnd(req.Key)
		}
		resp, err := h.eng.Delete(ctx, req)
		if err != nil {
			return err
		}
		h.record(resp.Header.Revision, &pb.Command{Type: pb.Command_DELETE, Table: tn, Kv: &pb.KeyValue{Key: req.Key}, PrevKvs: req.PrevKv, RangeEnd: req.RangeEnd, Count: req.Count},
			fmt.Sprintf("Delete(%q,end=%q)", req.Key, req.RangeEnd))
	default:
		req := &pb.TxnRequest{Table: tn, Success: []*pb.RequestOp{h.putOp()}, Failure: []*pb.RequestOp{h.putOp()}}
		for i, n := 0, h.rnd.Intn(3); i < n; i++ {
			req.Compare = append(req.Compare, h.g.Compare())
		}
		for i, n := 0, h.rnd.Intn(3); i < n; i++ {
			req.Success = append(req.Success, h.g.Op())
			req.Failure = append(req.Failure, h.g.Op())
		}
		lastBefore := h.lastBehindBarrier()
		resp, err := h.eng.Txn(ctx, req)
		if err != nil {
			return err
		}
		rev := resp.Header.Revision
		if rev == 0 {
			// (a transaction can report revision 0 — property C10's subject)
			after, ok := h.soleNewEntry(lastBefore)
			if !ok {
				return nil
			}
			rev = after
		}
		h.record(rev, &pb.Command{Type: pb.Command_TXN, Table: tn, Txn: &pb.Txn{Compare: req.Compare, Success: req.Success, Failure: req.Failure}},
			fmt.Sprintf("Txn(%d cmp,%d/%d ops)", len(req.Compare), len(req.Success), len(req.Failure)))
	}
	h.r.Count("l2_proposals", 1)
	return nil
}

// proposeLabelled writes, directly on the table shard, a command that is STORED with a
// leader_index of its own: a SEQUENCE whose sub-commands are labelled too (what
// replication/worker.proposeBatch proposes on a table that is or was a replica) or a PUT_BATCH
// (what Manager.readIntoTable proposes for the closing batch of a restore). The foreign index is
// far away from any index of this log.
func (h *l2) proposeLabelled(ctx context.Context) error {
	tn := []byte("t")
	foreign := uint64(1_000_000 + h.rnd.Intn(1_000_000))
	cmd := &pb.Command{LeaderIndex: &foreign}
	var d string
	if h.rnd.Intn(3) > 0 {
		cmd.Type = pb.Command_SEQUENCE
		for i, n := 0, 1+h.rnd.Intn(3); i < n; i++ {
			sub := foreign - uint64(n-1-i)
			if h.rnd.Intn(3) == 0 {
				cmd.Sequence = append(cmd.Sequence, &pb.Command{Type: pb.Command_DELETE, Table: tn, Kv: &pb.KeyValue{Key: h.g.Key()}, LeaderIndex: &sub})
			} else {
				cmd.Sequence = append(cmd.Sequence, &pb.Command{Type: pb.Command_PUT, Table: tn, Kv: &pb.KeyValue{Key: h.g.Key(), Value: h.value()}, LeaderIndex: &sub})
			}
		}
		d = fmt.Sprintf("Sequence(%d cmds, stored leader_index %d)", len(cmd.Sequence), foreign)
	} else {
		cmd.Type, cmd.Table = pb.Command_PUT_BATCH, tn
		for i, n := 0, 1+h.rnd.Intn(3); i < n; i++ {
			cmd.Batch = append(cmd.Batch, &pb.KeyValue{Key: h.g.Key(), Value: h.value()})
		}
		d = fmt.Sprintf("PutBatch(%d pairs, stored leader_index %d)", len(cmd.Batch), foreign)
	}
	b, err := cmd.MarshalVT()
	if err != nil {
		return err
	}
	lastBefore := h.lastBehindBarrier()
	if _, err := h.eng.NodeHost.SyncPropose(ctx, h.eng.NodeHost.GetNoOPSession(h.shard), b); err != nil {
		return err
	}
	after, ok := h.soleNewEntry(lastBefore)
	if !ok {
		return nil
	}
	h.record(after, cmd, d)
	h.r.Count("l2_proposals", 1)
	h.r.Count("l2_proposals_stored_with_own_leader_index", 1)
	return nil
}

// lastBehindBarrier reads the log's last index behind a linearizable read of the table. A
// proposal completes when the apply worker is done, the step worker extends the log reader's
// visible range only afterwards (observed: last 126 while applied 127); the read index request
// goes through that same step worker, so behind it the range is current. LogServer.Replicate is
// ordered the same way by its own linearizable LocalIndex.
func (h *l2) lastBehindBarrier() uint64 {
	ctx, cancel := context.WithTimeout(context.Background(), 10*time.Second)
	defer cancel()
	if _, err := h.tbl.LocalIndex(ctx, true); err != nil {
		return 0
	}
	_, last := h.logRange()
	return last
}

// soleNewEntry attributes a completed proposal that reports no revision: with a single proposer
// the log has grown by exactly one entry and that entry is the applied one. (The state machine's
// own index cannot serve as "before": it does not move for Raft-internal entries.) Anything else
// taints the history: contents are then not compared and the history counts as inconclusive.
func (h *l2) soleNewEntry(lastBefore uint64) (uint64, bool) {
	lastAfter := h.lastBehindBarrier()
	after, err := h.applied()
	if err == nil && lastBefore != 0 && lastAfter == lastBefore+1 && after == lastAfter {
		return after, true
	}
	h.mu.Lock()
	h.tainted = true
	h.mu.Unlock()
	h.r.Note(fmt.Sprintf("proposal without revision not attributable: log last %d -> %d, applied %d (err %v)", lastBefore, lastAfter, after, err))
	return 0, false
}

// restoreTable replaces the freshly created table by one restored from a backup stream in the
// format BackupServer/SnapshotServer produce: one PUT per pair and the closing DUMMY marker with
// the index the backup was taken at. Engine.Restore moves the table to a new shard whose log
// starts with the restore's PUT_BATCH proposals, the closing one stamped with that index.
func (h *l2) restoreTable() error {
	h.restored = map[string][]byte{}
	var kvs []model.KV
	for i, n := 0, 4+h.rnd.Intn(8); i < n; i++ {
		k := fmt.Sprintf("restored-%02d", i)
		v := h.value()
		if v == nil {
			v = []byte{}
		}
		h.restored[k] = v
		kvs = append(kvs, model.KV{K: k, V: v})
	}
	li := uint64(2_000_000 + h.rnd.Intn(1000))
	rd, cleanup, err := cluster.SnapshotStream("t", kvs, &li)
	if err != nil {
		return err
	}
	defer cleanup()
	old, err := h.eng.GetTable("t")
	if err != nil {
		return err
	}
	if err := h.eng.Restore("t", rd); err != nil {
		return err
	}
	deadline := time.Now().Add(30 * time.Second)
	for {
		_ = h.eng.Manager.VerifReconcile()
		if t, err := h.eng.GetTable("t"); err == nil && t.ClusterID != old.ClusterID {
			if _, _, valid, err := h.eng.GetLeaderID(t.ClusterID); err == nil && valid {
				ctx, cancel := context.WithTimeout(context.Background(), 5*time.Second)
				ir, err := t.LocalIndex(ctx, true)
				cancel()
				if err == nil {
					h.restoreTo = ir.Index
					return nil
				}
			}
		}
		if time.Now().After(deadline) {
			return fmt.Errorf("restored table not ready")
		}
		time.Sleep(20 * time.Millisecond)
	}
}

// restoredEntryOK judges the content of a command at an index written by Engine.Restore: a
// Raft-internal entry (DUMMY) or a PUT_BATCH for this table made only of pairs of the backup.
// (How the restore cuts the pairs into batches is property C07's subject.)
func (h *l2) restoredEntryOK(body []byte) (bool, string) {
	dummy, _ := (&pb.Command{Type: pb.Command_DUMMY}).MarshalVT()
	if bytes.Equal(dummy, body) {
		return true, ""
	}
	c := &pb.Command{}
	if err := c.UnmarshalVT(body); err != nil {
		return false, "undecodable: " + err.Error()
	}
	if c.Type != pb.Command_PUT_BATCH || string(c.Table) != "t" || c.Kv != nil || len(c.Sequence) > 0 || c.Txn != nil {
		return false, fmt.Sprintf("type %v table %q", c.Type, c.Table)
	}
	for _, kv := range c.Batch {
		v, ok := h.restored[string(kv.Key)]
		if !ok || !bytes.Equal(v, kv.Value) {
			return false, fmt.Sprintf("pair %q is not a pair of the backup", kv.Key)
		}
	}
	return true, ""
}

func (h *l2) propose(n int) error {
	for i := 0; i < n; i++ {
		if err := h.proposeChecked(); err != nil {
			return err
		}
		h.tail()
	}
	return nil
}

// proposeChecked tolerates requests the engine rejects before proposing them (validation of
// keys/values nested in transactions is other properties' subject): with a single proposer an
// unchanged applied index proves nothing entered the log, so the history simply goes on.
func (h *l2) proposeChecked() error {
	before, berr := h.applied()
	err := h.proposeOne()
	if err == nil {
		return nil
	}
	if after, aerr := h.applied(); berr == nil && aerr == nil && after == before {
		h.r.Count("l2_requests_rejected_without_proposal", 1)
		return nil
	}
	return err
}

// tail is one poll of a tailing follower on the cached server: it asks for the index after the
// last command it received (as replication/worker does) — which keeps the most recent entries in
// the log cache while snapshots and compactions happen, the situation a production leader is in.
// Every poll is judged like any other call. A follower told USE_SNAPSHOT resumes at the first index.
func (h *l2) tail() {
	if h.tailSrv == nil {
		return
	}
	shape := cacheShape{}
	c := h.call(h.tailSrv, h.tailNext)
	h.r.Count("l2_tailing_follower_polls", 1)
	for _, m := range c.Msgs {
		switch m.Kind {
		case "commands":
			if n := len(m.Indices); n > 0 && m.Indices[n-1] >= h.tailNext {
				h.tailNext = m.Indices[n-1] + 1
			}
		case "USE_SNAPSHOT":
			if f, _ := h.logRange(); f > h.tailNext {
				h.tailNext = f
			}
		}
	}
	if h.deferTail.Load() {
		h.mu.Lock()
		h.tailCalls = append(h.tailCalls, c)
		h.mu.Unlock()
		return
	}
	h.judge(c, shape, true)
}

// probeBoundary asks the cached servers for exactly the compaction index (first-1), its
// neighbours and the first retained index, before the sweep reshuffles the cache: the entry at
// the compaction index is the one a partial cache invalidation is most likely to get wrong.
func (h *l2) probeBoundary() bool {
	first, _ := h.logRange()
	if first <= 1 {
		return true
	}
	for _, sv := range h.srvs {
		if !sv.cached {
			continue
		}
		for _, a := range []uint64{first - 1, first, first - 2} {
			if a == 0 {
				continue
			}
			shape := peekCache(h.eng.LogCache, h.shard)
			c := h.call(sv, a)
			if a == first-1 && c.FirstBefore == first && c.FirstAfter == first {
				h.r.Count("l2_requests_exactly_at_compaction_index", 1)
				if c.InvalidatedBelow >= first {
					h.r.Count("l2_requests_exactly_at_compaction_index_judged_strictly", 1)
				}
				if shape.OK && shape.N > 0 && shape.Lo <= a && a <= shape.Hi {
					h.r.Count("l2_requests_at_compaction_index_while_cache_still_holds_it", 1)
				}
			}
			if !h.judge(c, shape, true) {
				return false
			}
		}
	}
	return true
}

// call performs one Replicate RPC and brackets it with samples of the log range and applied index.
func (h *l2) call(s *l2srv, a uint64) *l2call {
	c := &l2call{Server: s.name, Start: a, srv: s}
	c.InvalidatedBelow = h.hook.confirmed.Load()
	c.FirstBefore, _ = h.logRange()
	c.AppliedBefore, _ = h.applied()
	ctx, cancel := context.WithTimeout(context.Background(), 30*time.Second)
	defer cancel()
	st, err := s.cli.Replicate(ctx, &pb.ReplicateRequest{Table: []byte("t"), LeaderIndex: a})
	if err != nil {
		c.RPCErr, c.code = err.Error(), status.Code(err)
	} else {
		for {
			m, err := st.Recv()
			if err == io.EOF {
				break
			}
			if err != nil {
				c.RPCErr, c.code = err.Error(), status.Code(err)
				break
			}
			lm := l2msg{Leader: m.LeaderIndex, Kind: "empty"}
			switch x := m.Response.(type) {
			case *pb.ReplicateResponse_ErrorResponse:
				lm.Kind = x.ErrorResponse.GetError().String()
			case *pb.ReplicateResponse_CommandsResponse:
				lm.Kind = "commands"
				for _, rc := range x.CommandsResponse.GetCommands() {
					rv := rcvCmd{idx: rc.LeaderIndex}
					if rc.Command != nil {
						if rc.Command.LeaderIndex != nil {
							v := *rc.Command.LeaderIndex
							rv.inner = &v
						}
						rc.Command.LeaderIndex = nil
						rv.typ = rc.Command.Type
						rv.body, _ = rc.Command.MarshalVT()
					}
					lm.cmds = append(lm.cmds, rv)
					lm.Indices = append(lm.Indices, rc.LeaderIndex)
				}
			}
			c.Msgs = append(c.Msgs, lm)
			if len(c.Msgs) > 100000 {
				break
			}
		}
	}
	c.AppliedAfter, _ = h.applied()
	c.FirstAfter, _ = h.logRange()
	h.r.Count("l2_replicate_calls", 1)
	return c
}

func (h *l2) sweep(phase int) bool {
	ap, err := h.applied()
	if err != nil {
		h.r.Inconclusive("applied index unreadable: " + err.Error())
		return false
	}
	type pair struct {
		s *l2srv
		a uint64
	}
	var todo []pair
	for _, s := range h.srvs {
		for a := uint64(0); a <= ap+2; a++ {
			todo = append(todo, pair{s, a})
		}
		todo = append(todo, pair{s, ap + 3 + uint64(h.rnd.Intn(50))}, pair{s, math.MaxUint64})
	}
	h.rnd.Shuffle(len(todo), func(i, j int) { todo[i], todo[j] = todo[j], todo[i] })
	for _, p := range todo {
		shape := peekCache(h.eng.LogCache, h.shard)
		c := h.call(p.s, p.a)
		if !h.judge(c, shape, true) {
			return false
		}
	}
	return true
}

// concurrentPhase issues Replicate calls while a writer keeps proposing, so that "none beyond the
// applied index sampled after the call" is exercised against a moving applied index.
func (h *l2) concurrentPhase() bool {
	nCalls := 60
	if h.r.Thorough() {
		nCalls = 150
	}
	seeds := make([]int64, nCalls)
	for i := range seeds {
		seeds[i] = h.rnd.Int63()
	}
	var stop atomic.Bool
	done := make(chan error, 1)
	h.deferTail.Store(true)
	go func() {
		var err error
		for i := 0; i < 400 && err == nil && !stop.Load(); i++ {
			if err = h.proposeChecked(); err == nil {
				h.tail()
			}
		}
		done <- err
	}()
	var calls []*l2call
	var shapes []cacheShape
	for i := 0; i < nCalls; i++ {
		rr := rand.New(rand.NewSource(seeds[i]))
		s := h.srvs[rr.Intn(len(h.srvs))]
		first, _ := h.logRange()
		ap, _ := h.applied()
		lo := int64(first) - 2
		if lo < 1 {
			lo = 1
		}
		a := uint64(lo + rr.Int63n(int64(ap)+3-lo+1))
		shapes = append(shapes, peekCache(h.eng.LogCache, h.shard))
		calls = append(calls, h.call(s, a))
	}
	stop.Store(true)
	err := <-done
	h.deferTail.Store(false)
	if err != nil {
		h.r.Inconclusive(fmt.Sprintf("proposal failed during the concurrent phase (%v)", err))
		return false
	}
	for _, c := range h.tailCalls {
		calls = append(calls, c)
		shapes = append(shapes, cacheShape{})
	}
	h.tailCalls = nil
	h.r.Count("l2_calls_concurrent_with_writer", int64(len(calls)))
	for i, c := range calls {
		if c.AppliedAfter > c.AppliedBefore {
			h.r.Count("l2_calls_during_which_applied_moved", 1)
		}
		if c.FirstAfter != c.FirstBefore {
			h.r.Count("l2_calls_during_which_log_was_compacted", 1)
		}
		if !h.judge(c, shapes[i], false) {
			return false
		}
	}
	h.quiesce()
	return h.probeBoundary() && h.sweep(99)
}

// entrySize is the Raft entry's SizeUpperLimit: for a proposal of the harness it follows from the
// proposed bytes (128 B of non-payload fields + 1 B encoding header + the marshalled command; the
// tables use no entry compression); otherwise it is read from the log if the entry is still there.
func (h *l2) entrySize(idx uint64) (uint64, bool) {
	h.mu.Lock()
	n, ok := h.stored[idx]
	h.mu.Unlock()
	if ok {
		return uint64(128 + 1 + n), true
	}
	es, err := h.simple.QueryRaftLog(context.Background(), h.shard, dragonboat.LogRange{FirstIndex: idx, LastIndex: idx + 1}, math.MaxUint64)
	if err != nil || len(es) != 1 || es[0].Index != idx {
		return 0, false
	}
	return uint64(es[0].SizeUpperLimit()), true
}

func (h *l2) fail(sig, what string, c *l2call, goOn bool) bool {
	h.rep.violation(sig, func() (string, any) {
		h.mu.Lock()
		ops := append([]string{}, h.ops...)
		h.mu.Unlock()
		return what + fmt.Sprintf(" — server %s, requested index %d, log first %d→%d, applied %d→%d, messages %s", c.Server, c.Start, c.FirstBefore, c.FirstAfter,
				c.AppliedBefore, c.AppliedAfter, renderMsgs(c.Msgs)),
			witness{Case: h.id, Setup: fmt.Sprintf("1-node engine, SnapshotEntries 10, CompactionOverhead 3, LogCacheSize %d", h.cacheSize), Steps: ops,
				At: fmt.Sprintf("Replicate(%d) on %s", c.Start, c.Server), Calls: []any{c}}
	})
	return goOn
}

func renderMsgs(ms []l2msg) string {
	var b bytes.Buffer
	for i, m := range ms {
		if i > 0 {
			b.WriteString(" ")
		}
		if i >= 12 {
			fmt.Fprintf(&b, "… %d more", len(ms)-i)
			break
		}
		switch m.Kind {
		case "commands":
			fmt.Fprintf(&b, "cmds%v@%d", m.Indices, m.Leader)
		default:
			fmt.Fprintf(&b, "%s@%d", m.Kind, m.Leader)
		}
	}
	if len(ms) == 0 {
		return "(none)"
	}
	return b.String()
}

// judge decides one Replicate call. quiet = the call did not overlap proposals (brackets tight).
// It returns false when the history should be abandoned.
func (h *l2) judge(c *l2call, shape cacheShape, quiet bool) bool {
	r := h.r
	a := c.Start
	apLo, apHi := c.AppliedBefore, c.AppliedAfter
	fLo, fHi := min(c.FirstBefore, c.FirstAfter), max(c.FirstBefore, c.FirstAfter)
	if apHi < apLo || fLo == 0 {
		r.Inconclusive("bracket samples unusable")
		return true
	}
	if a == 0 {
		r.Count("l2_calls_index_0", 1)
		if c.code == codes.InvalidArgument && len(c.Msgs) == 0 {
			return true
		}
		if c.RPCErr == "" && len(c.Msgs) == 1 && c.Msgs[0].Kind == "USE_SNAPSHOT" {
			return true
		}
		return h.fail("request-index-0-not-rejected", "index 0 is not a log index; expected InvalidArgument (or USE_SNAPSHOT)", c, true)
	}
	if c.RPCErr != "" {
		r.Inconclusive(fmt.Sprintf("Replicate(%d) on %s: rpc error %s", a, c.Server, c.RPCErr))
		return true
	}
	single := func(kind string) bool { return len(c.Msgs) == 1 && c.Msgs[0].Kind == kind }

	switch {
	case a > apHi+1:
		r.Count("l2_expect_leader_behind", 1)
		if !single("LEADER_BEHIND") {
			return h.fail("no-leader-behind-beyond-applied-plus-1", fmt.Sprintf("requested %d > applied+1 = %d: expected exactly one LEADER_BEHIND message", a, apHi+1), c, true)
		}
		return true
	case a > apLo+1:
		// applied moved across the requested index during the call: behind, empty or data are all legitimate
		if single("LEADER_BEHIND") {
			return true
		}
	case a < fLo:
		r.Count("l2_expect_use_snapshot", 1)
		if single("USE_SNAPSHOT") {
			h.sawSnap = true
			return true
		}
		if !c.srv.cached || a < c.InvalidatedBelow || !h.validStream(c, true) {
			why := "uncached reader"
			if c.srv.cached {
				why = fmt.Sprintf("the cache was emptied by a LogCompacted event when the first index was already >= %d", c.InvalidatedBelow)
				if a >= c.InvalidatedBelow {
					why = "the streamed commands are not the log's"
				}
			}
			return h.fail("no-use-snapshot-for-compacted-index", fmt.Sprintf("requested %d is below the log's first index %d (%s): expected exactly one USE_SNAPSHOT message", a, fLo, why), c, true)
		}
		// Correct commands for a compacted index from the cached server while the handling of the
		// LogCompacted event for that compaction has not been observed yet: production allows it.
		r.Count("l2_compacted_index_served_before_cache_invalidation_observed", 1)
		return true
	case a < fHi:
		// a compaction crossed the requested index during the call
		if single("USE_SNAPSHOT") {
			return true
		}
	}
	if a == apLo+1 && apLo == apHi {
		r.Count("l2_expect_empty_at_applied_plus_1", 1)
		if !single("empty") || c.Msgs[0].Leader != apLo {
			return h.fail("no-single-empty-message-at-applied-plus-1", fmt.Sprintf("requested applied+1 = %d: expected exactly one empty message carrying %d", a, apLo), c, true)
		}
		return true
	}
	// data expected
	r.Count("l2_expect_commands", 1)
	if !h.validStream(c, false) {
		return true // reported inside
	}
	h.sawCmds = true
	if c.srv.cached && shape.OK && shape.N > 0 && a >= shape.Lo && a <= shape.Hi && apLo > shape.Hi {
		h.sawPart = true
		r.Count("l2_streams_partly_cache_partly_log", 1)
	}
	_ = quiet
	return true
}

// validStream checks a command stream against the recorded history. With probe=true nothing is
// reported (used to decide whether a stale-cache answer is at least a correct one).
func (h *l2) validStream(c *l2call, probe bool) bool {
	a := c.Start
	apLo, apHi := c.AppliedBefore, c.AppliedAfter
	fHi := max(c.FirstBefore, c.FirstAfter)
	bad := func(sig, what string) bool {
		if !probe {
			h.fail(sig, what, c, true)
		}
		return false
	}
	h.mu.Lock()
	tainted, maxRev := h.tainted, h.maxRev
	h.mu.Unlock()
	next := a
	terminal := -1
	for mi, m := range c.Msgs {
		if terminal >= 0 {
			return bad("stream-continues-after-terminal-message", fmt.Sprintf("message %d follows the terminal message", mi))
		}
		switch m.Kind {
		case "commands":
			if len(m.cmds) == 0 {
				return bad("stream-empty-commands-message", fmt.Sprintf("message %d is a commands response without commands", mi))
			}
			if m.Leader < apLo || m.Leader > apHi {
				return bad("stream-message-applied-index-out-of-bracket", fmt.Sprintf("message %d carries leader_index %d, applied was %d..%d", mi, m.Leader, apLo, apHi))
			}
			for _, rc := range m.cmds {
				switch {
				case rc.idx != next && next == a:
					return bad("stream-wrong-start-index", fmt.Sprintf("first command is labelled %d, requested %d", rc.idx, a))
				case rc.idx != next:
					return bad("stream-gap-or-repeat", fmt.Sprintf("command labelled %d where %d was due", rc.idx, next))
				case rc.inner == nil || *rc.inner != rc.idx:
					h.mu.Lock()
					foreign, lab := h.labelled[rc.idx]
					h.mu.Unlock()
					note := ""
					if lab {
						note = fmt.Sprintf(" (the stored command carries leader_index %d of its own)", foreign)
					} else if rc.idx <= h.restoreTo {
						note = " (entry written by Engine.Restore)"
					}
					return bad("stream-command-inner-label-mismatch", fmt.Sprintf("command at log index %d (envelope leader_index %d): Command.leader_index is %v%s", next, rc.idx, fmtPtr(rc.inner), note))
				case rc.idx > apHi:
					return bad("stream-command-beyond-applied-index", fmt.Sprintf("command %d streamed, applied index after the call is %d", rc.idx, apHi))
				}
				if rc.idx <= h.restoreTo {
					if ok, why := h.restoredEntryOK(rc.body); !ok {
						return bad("stream-restore-entry-content", fmt.Sprintf("index %d was written by Engine.Restore but is streamed as %v: %s", rc.idx, rc.typ, why))
					}
					if !probe && rc.typ == pb.Command_PUT_BATCH {
						h.r.Count("l2_restore_batches_streamed", 1)
					}
				} else if !tainted && rc.idx <= maxRev {
					h.mu.Lock()
					exp, proposed := h.hist[rc.idx]
					d := h.desc[rc.idx]
					_, lab := h.labelled[rc.idx]
					h.mu.Unlock()
					if proposed && lab && !probe {
						h.r.Count("l2_streamed_commands_stored_with_own_leader_index", 1)
					}
					if proposed {
						if !bytes.Equal(exp, rc.body) {
							return bad("stream-command-differs-from-proposed", fmt.Sprintf("command %d: streamed %v (%d B) is not the proposed %s (%d B)", rc.idx, rc.typ, len(rc.body), d, len(exp)))
						}
					} else {
						dummy, _ := (&pb.Command{Type: pb.Command_DUMMY}).MarshalVT()
						if !bytes.Equal(dummy, rc.body) {
							return bad("stream-raft-internal-entry-not-dummy", fmt.Sprintf("index %d was not proposed by the harness (Raft-internal entry) but streamed as %v (%d B)", rc.idx, rc.typ, len(rc.body)))
						}
						if !probe {
							h.r.Count("l2_dummy_commands_checked", 1)
						}
					}
				}
				next++
			}
		case "empty":
			terminal = mi
			if m.Leader < apLo || m.Leader > apHi {
				return bad("stream-terminal-applied-index-out-of-bracket", fmt.Sprintf("terminal message carries %d, applied was %d..%d", m.Leader, apLo, apHi))
			}
		case "USE_SNAPSHOT":
			if next < fHi && c.FirstBefore != c.FirstAfter {
				// compaction overtook the stream: legitimate end
				h.r.Count("l2_streams_overtaken_by_compaction", 1)
				return !probe
			}
			return bad("stream-use-snapshot-for-index-in-log", fmt.Sprintf("USE_SNAPSHOT at index %d, log's first index is %d", next, fHi))
		default:
			return bad("stream-leader-behind-for-applied-index", fmt.Sprintf("%s at index %d, applied %d", m.Kind, next, apLo))
		}
	}
	if probe {
		return true
	}
	if terminal < 0 {
		if c.FirstBefore != c.FirstAfter {
			h.r.Inconclusive(fmt.Sprintf("Replicate(%d) on %s ended without terminal message while the log was being compacted", a, c.Server))
			return false
		}
		return bad("stream-ends-without-terminal-message", fmt.Sprintf("stream ended at index %d without the empty message carrying the applied index", next))
	}
	if next <= apLo {
		// the stream stopped before the applied index of the call time
		if sz, ok := h.entrySize(next); ok && c.srv.cached && sz >= c.srv.limit {
			return bad(sigFixSize, fmt.Sprintf("stream from %d stopped at %d with the 'up to date' message although applied is %d: entry %d has size %d >= message limit %d and the cached reader answers zero entries for it",
				a, next, apLo, next, sz, c.srv.limit))
		}
		return bad("stream-ends-before-applied-index", fmt.Sprintf("stream from %d stopped at %d with the 'up to date' message although applied is %d", a, next, apLo))
	}
	h.r.Count("l2_commands_checked", int64(next-a))
	h.r.Count("l2_command_streams_checked", 1)
	return true
}

func fmtPtr(p *uint64) string {
	if p == nil {
		return "absent"
	}
	return fmt.Sprint(*p)
}
