package main

import (
	"reflect"
	"sync"
	"unsafe"

	"github.com/jamf/regatta/storage/logreader"
)

// cacheShape is what the monitor can see of the per-shard entry cache (read-only reflection
// over the unexported fields ShardCache.shardCache → SyncMap.m → shard.cache.buffer). It is used
// only to classify cases (non-trivial rule, narrow signatures, query aiming), never for a verdict;
// if the layout changes, ok=false and the driver falls back to black-box classification.
type cacheShape struct {
	Lo, Hi uint64
	N      int
	Contig bool
	OK     bool
}

func peekCache(sc *logreader.ShardCache, shard uint64) (s cacheShape) {
	defer func() {
		if recover() != nil {
			s = cacheShape{}
		}
	}()
	v := reflect.ValueOf(sc).Elem().FieldByName("shardCache")
	if !v.IsValid() || v.IsNil() {
		return
	}
	m := v.Elem().FieldByName("m")
	if !m.IsValid() || m.Kind() != reflect.Map {
		return
	}
	// the cache is used concurrently by the engine's event goroutine and by Replicate calls: take
	// the structure's OWN locks (SyncMap.mtx for the map, shard.mtx for the buffer) through their
	// addresses, otherwise this peek is itself a fatal "concurrent map read and map write"
	mapMu := v.Elem().FieldByName("mtx")
	if !mapMu.IsValid() || !mapMu.CanAddr() || mapMu.Type() != reflect.TypeOf(sync.RWMutex{}) {
		return
	}
	rw := (*sync.RWMutex)(unsafe.Pointer(mapMu.UnsafeAddr()))
	rw.RLock()
	sh := m.MapIndex(reflect.ValueOf(shard))
	rw.RUnlock()
	if !sh.IsValid() {
		return cacheShape{OK: true, Contig: true}
	}
	shMu := sh.Elem().FieldByName("mtx")
	if !shMu.IsValid() || !shMu.CanAddr() || shMu.Type() != reflect.TypeOf(sync.Mutex{}) {
		return
	}
	mu := (*sync.Mutex)(unsafe.Pointer(shMu.UnsafeAddr()))
	mu.Lock()
	defer mu.Unlock()
	c := sh.Elem().FieldByName("cache")
	if !c.IsValid() || c.IsNil() {
		return
	}
	buf := c.Elem().FieldByName("buffer")
	if !buf.IsValid() || buf.Kind() != reflect.Slice {
		return
	}
	s.N = buf.Len()
	s.Contig = true
	for i := 0; i < s.N; i++ {
		idx := buf.Index(i).FieldByName("Index").Uint()
		if i == 0 {
			s.Lo = idx
		} else if idx != s.Hi+1 {
			s.Contig = false
		}
		s.Hi = idx
	}
	s.OK = true
	return
}
