package main

// Layer 3 — black box: the REAL `regatta leader` binary with its command-line wiring of the
// replication server (cmd/leader.go createReplicationServer + NewLogServer from the same
// --replication.max-send-message-size-bytes flag), written through the KV API and read through
// the Log API like a follower does. Process helpers are private to this driver.

import (
	"bytes"
	"context"
	"fmt"
	"io"
	"net"
	"os"
	"os/exec"
	"path/filepath"
	"runtime"
	"strings"
	"sync"
	"syscall"
	"time"

	pb "github.com/jamf/regatta/regattapb"
	"google.golang.org/grpc"
	"google.golang.org/grpc/codes"
	"google.golang.org/grpc/credentials/insecure"
	"google.golang.org/grpc/status"

	"verifharness/internal/ev"
)

// ---- child processes: killed on every exit path ------------------------------------------------

// Children are forked from one goroutine locked to an OS thread that never exits: Pdeathsig is
// delivered when the forking THREAD dies, so this makes it "when the driver dies".
var spawnCh = make(chan func())

func init() {
	go func() {
		runtime.LockOSThread()
		for f := range spawnCh {
			f()
		}
	}()
}

type child struct {
	cmd     *exec.Cmd
	logPath string
	done    chan struct{}
	waitErr error
}

var (
	childMu  sync.Mutex
	children []*child
)

func startChild(bin string, args []string, dir string) (*child, error) {
	logPath := filepath.Join(dir, "out.log")
	lf, err := os.OpenFile(logPath, os.O_CREATE|os.O_WRONLY|os.O_APPEND, 0o644)
	if err != nil {
		return nil, err
	}
	cmd := exec.Command(bin, args...)
	cmd.Stdout, cmd.Stderr, cmd.Dir = lf, lf, dir
	cmd.SysProcAttr = &syscall.SysProcAttr{Pdeathsig: syscall.SIGKILL, Setpgid: true}
	errc := make(chan error, 1)
	spawnCh <- func() { errc <- cmd.Start() }
	err = <-errc
	_ = lf.Close()
	if err != nil {
		return nil, err
	}
	c := &child{cmd: cmd, logPath: logPath, done: make(chan struct{})}
	go func() { c.waitErr = cmd.Wait(); close(c.done) }()
	childMu.Lock()
	children = append(children, c)
	childMu.Unlock()
	return c, nil
}

func (c *child) alive() bool {
	select {
	case <-c.done:
		return false
	default:
		return true
	}
}

func (c *child) kill() {
	if c == nil {
		return
	}
	if c.alive() {
		_ = syscall.Kill(-c.cmd.Process.Pid, syscall.SIGKILL) // the whole process group
		_ = c.cmd.Process.Kill()
		select {
		case <-c.done:
		case <-time.After(10 * time.Second):
		}
	}
}

func (c *child) tail(n int) string {
	b, _ := os.ReadFile(c.logPath)
	if len(b) > n {
		b = b[len(b)-n:]
	}
	return string(b)
}

// killAll stops every child; called before every exit of the driver (normal end, replay end,
// signal) — and the kernel does it (Pdeathsig) if the driver dies without running it.
func killAll() {
	childMu.Lock()
	cs := append([]*child{}, children...)
	childMu.Unlock()
	for _, c := range cs {
		c.kill()
	}
}

func freePorts(n int) ([]int, error) {
	var ls []net.Listener
	var ps []net.PacketConn
	defer func() {
		for _, l := range ls {
			_ = l.Close()
		}
		for _, p := range ps {
			_ = p.Close()
		}
	}()
	var ports []int
	for tries := 0; len(ports) < n && tries < 200; tries++ {
		l, err := net.Listen("tcp", "127.0.0.1:0")
		if err != nil {
			return nil, err
		}
		port := l.Addr().(*net.TCPAddr).Port
		pc, err := net.ListenPacket("udp", fmt.Sprintf("127.0.0.1:%d", port))
		if err != nil {
			_ = l.Close()
			continue
		}
		ls, ps, ports = append(ls, l), append(ps, pc), append(ports, port)
	}
	if len(ports) < n {
		return nil, fmt.Errorf("no free ports")
	}
	return ports, nil
}

// scratchDir is a private directory under $SCRATCH (set by /verif/check, removed by it) or, when
// run by hand, under /var/tmp (removed by the driver). Never /tmp.
var ownScratch string

func scratchDir() (string, error) {
	base := os.Getenv("SCRATCH")
	if base == "" {
		d, err := os.MkdirTemp("/var/tmp", "verif.c06.")
		if err != nil {
			return "", err
		}
		ownScratch = d
		base = d
	}
	d := filepath.Join(base, "c06bin")
	return d, os.MkdirAll(d, 0o755)
}

func cleanupL3() {
	killAll()
	if ownScratch != "" {
		_ = os.RemoveAll(ownScratch)
	}
}

// ---- one leader ---------------------------------------------------------------------------------

const defaultSendLimit = 4 << 20 // regattaserver.DefaultMaxGRPCSize, the flag's default

type leader struct {
	p        *child
	api      *grpc.ClientConn
	repl     *grpc.ClientConn
	flag     string // value of --replication.max-send-message-size-bytes ("" = flag not given)
	limit    uint64 // what the log server uses as its target size
	logCache int
}

func dialPlain(addr string) (*grpc.ClientConn, error) {
	return grpc.Dial(addr, grpc.WithTransportCredentials(insecure.NewCredentials()),
		grpc.WithDefaultCallOptions(grpc.MaxCallRecvMsgSize(256<<20), grpc.MaxCallSendMsgSize(256<<20)))
}

func startLeaderBin(bin, base string, n int, flag string, logCache int) (*leader, error) {
	var last error
	for attempt := 0; attempt < 10; attempt++ {
		d := filepath.Join(base, fmt.Sprintf("leader-%d-%d", n, attempt))
		if err := os.MkdirAll(filepath.Join(d, "sm", "data"), 0o755); err != nil {
			return nil, err
		}
		ports, err := freePorts(5)
		if err != nil {
			last = err
			continue
		}
		api, raft, ml, repl, rest := ports[0], ports[1], ports[2], ports[3], ports[4]
		args := []string{"leader", "--dev-mode", "--log-level=INFO",
			fmt.Sprintf("--api.address=http://127.0.0.1:%d", api),
			fmt.Sprintf("--raft.address=127.0.0.1:%d", raft),
			fmt.Sprintf("--raft.initial-members=1=127.0.0.1:%d", raft),
			"--raft.node-host-dir=" + filepath.Join(d, "nh"),
			"--raft.state-machine-dir=" + filepath.Join(d, "sm", "data"),
			fmt.Sprintf("--memberlist.address=127.0.0.1:%d", ml),
			fmt.Sprintf("--replication.address=http://127.0.0.1:%d", repl),
			fmt.Sprintf("--rest.address=http://127.0.0.1:%d", rest),
			"--raft.rtt=5ms",
			"--tables.names=t",
			fmt.Sprintf("--replication.log-cache-size=%d", logCache),
		}
		l := &leader{flag: flag, limit: defaultSendLimit, logCache: logCache}
		if flag != "" {
			args = append(args, "--replication.max-send-message-size-bytes="+flag)
			var v uint64
			fmt.Sscan(flag, &v)
			if v != 0 { // NewLogServer maps 0 to the default
				l.limit = v
			}
		}
		p, err := startChild(bin, args, d)
		if err != nil {
			return nil, err
		}
		l.p = p
		if l.api, err = dialPlain(fmt.Sprintf("127.0.0.1:%d", api)); err != nil {
			p.kill()
			return nil, err
		}
		if l.repl, err = dialPlain(fmt.Sprintf("127.0.0.1:%d", repl)); err != nil {
			l.close()
			return nil, err
		}
		// ready = a write to the table is acknowledged (watchdog only; never a verdict)
		kv := pb.NewKVClient(l.api)
		deadline := time.Now().Add(40 * time.Second)
		for {
			if !p.alive() {
				last = fmt.Errorf("leader exited during start-up: %v; log tail: %s", p.waitErr, p.tail(600))
				break
			}
			ctx, cancel := context.WithTimeout(context.Background(), 2*time.Second)
			_, err := kv.Put(ctx, &pb.PutRequest{Table: []byte("t"), Key: []byte("ready"), Value: []byte("1")})
			cancel()
			if err == nil {
				return l, nil
			}
			if time.Now().After(deadline) {
				l.close()
				return nil, fmt.Errorf("leader did not accept a write within the watchdog: %v", err)
			}
			time.Sleep(50 * time.Millisecond)
		}
		l.close() // died during start-up: most likely a port clash, draw fresh ports
	}
	return nil, fmt.Errorf("leader start failed 10 times: %v", last)
}

func (l *leader) close() {
	if l.api != nil {
		_ = l.api.Close()
	}
	if l.repl != nil {
		_ = l.repl.Close()
	}
	l.p.kill()
}

// ---- the case ------------------------------------------------------------------------------------

type l3 struct {
	r       *ev.Run
	rep     *reporter
	id      caseID
	ld      *leader
	hist    map[uint64][]byte // revision -> marshalled PUT command as the server proposes it
	size    map[uint64]uint64 // revision -> Raft entry size (128 + 1 + command bytes)
	ops     []string
	applied uint64
	large   []uint64 // revisions of the entries larger than the limit
}

type l3call struct {
	Start    uint64  `json:"requested_index"`
	Gzip     bool    `json:"gzip"`
	Applied  uint64  `json:"applied"`
	Msgs     []l2msg `json:"messages"`
	RPCErr   string  `json:"rpc_error,omitempty"`
	code     codes.Code
	msgBytes []int
}

func runL3(r *ev.Run, rep *reporter, id caseID, bin, base string, n int) {
	ld, err := startLeaderBin(bin, base, n, id.Flag, id.LogCache)
	if err != nil {
		r.Inconclusive("binary start: " + err.Error())
		return
	}
	defer ld.close()
	r.Count("binary_starts", 1)
	h := &l3{r: r, rep: rep, id: id, ld: ld, hist: map[uint64][]byte{}, size: map[uint64]uint64{}}

	// history: small entries with single entries above the limit in between
	kv := pb.NewKVClient(ld.api)
	bigs := []int{16 << 10, 200 << 10}
	if ld.limit >= defaultSendLimit {
		bigs = []int{16 << 10, 200 << 10, 1 << 20} // nothing is oversized under the default; control run
	}
	var sizes []int
	for _, b := range bigs {
		for i := 0; i < 2+int(id.Seed%3); i++ {
			sizes = append(sizes, 10+i*40)
		}
		sizes = append(sizes, b+int(id.Seed%97))
	}
	sizes = append(sizes, 25, 300, 12)
	for i, sz := range sizes {
		key := []byte(fmt.Sprintf("k%03d", i))
		val := bytes.Repeat([]byte{byte('a' + i%26)}, sz)
		copy(val, fmt.Sprintf("v%d-%d-", id.Seed, i))
		ctx, cancel := context.WithTimeout(context.Background(), 20*time.Second)
		resp, err := kv.Put(ctx, &pb.PutRequest{Table: []byte("t"), Key: key, Value: val})
		cancel()
		if err != nil {
			r.Inconclusive(fmt.Sprintf("binary: Put of %d B failed: %v", sz, err))
			return
		}
		rev := resp.GetHeader().GetRevision()
		b, _ := (&pb.Command{Type: pb.Command_PUT, Table: []byte("t"), Kv: &pb.KeyValue{Key: key, Value: val}}).MarshalVT()
		if _, dup := h.hist[rev]; dup || rev <= h.applied {
			r.Inconclusive(fmt.Sprintf("binary: revision %d reported twice / out of order", rev))
			return
		}
		h.hist[rev], h.size[rev], h.applied = b, uint64(128+1+len(b)), rev
		h.ops = append(h.ops, fmt.Sprintf("%d: Put(%s, %d B)", rev, key, sz))
		if h.size[rev] > ld.limit {
			h.large = append(h.large, rev)
		}
	}

	// reads: from 1, from around every large entry, at and beyond the end; plain and gzip
	starts := []uint64{1, h.applied, h.applied + 1, h.applied + 2}
	for _, rev := range h.large {
		starts = append(starts, rev-1, rev)
	}
	if len(h.large) == 0 {
		starts = append(starts, h.applied/2)
	}
	ok := true
	for _, gz := range []bool{false, true} {
		for _, a := range starts {
			if !h.judge(h.call(a, gz)) {
				ok = false
			}
		}
	}
	if !ld.p.alive() {
		h.fail("binary-leader-exited", fmt.Sprintf("the leader process exited during the case: %v; log tail: %s", ld.p.waitErr, ld.p.tail(800)), nil)
		return
	}
	r.Eval(1)
	if ok && len(h.large) > 0 {
		r.Nontrivial(fmt.Sprintf("l3:%s:%d:%d", id.Flag, id.LogCache, id.Seed))
	}
	r.Distinct("binary_max_send_flag", "flag="+id.Flag)
	r.Sample(map[string]any{"layer": 3, "case_seed": id.Seed, "max_send_message_size_flag": id.Flag, "log_cache_size": id.LogCache,
		"applied": h.applied, "entries_larger_than_limit": h.large, "ops": headStr(h.ops, 8)})
}

func (h *l3) call(a uint64, gz bool) *l3call {
	c := &l3call{Start: a, Gzip: gz, Applied: h.applied}
	ctx, cancel := context.WithTimeout(context.Background(), 60*time.Second)
	defer cancel()
	var opts []grpc.CallOption
	if gz {
		opts = append(opts, grpc.UseCompressor("gzip"))
	}
	st, err := pb.NewLogClient(h.ld.repl).Replicate(ctx, &pb.ReplicateRequest{Table: []byte("t"), LeaderIndex: a}, opts...)
	if err != nil {
		c.RPCErr, c.code = err.Error(), status.Code(err)
		return c
	}
	for len(c.Msgs) < 100000 {
		m, err := st.Recv()
		if err == io.EOF {
			break
		}
		if err != nil {
			c.RPCErr, c.code = err.Error(), status.Code(err)
			break
		}
		c.msgBytes = append(c.msgBytes, m.SizeVT())
		lm := l2msg{Leader: m.LeaderIndex, Kind: "empty"}
		switch x := m.Response.(type) {
		case *pb.ReplicateResponse_ErrorResponse:
			lm.Kind = x.ErrorResponse.GetError().String()
		case *pb.ReplicateResponse_CommandsResponse:
			lm.Kind = "commands"
			for _, rc := range x.CommandsResponse.GetCommands() {
				rv := rcvCmd{idx: rc.LeaderIndex}
				if rc.Command != nil {
					if rc.Command.LeaderIndex != nil {
						v := *rc.Command.LeaderIndex
						rv.inner = &v
					}
					rc.Command.LeaderIndex = nil
					rv.typ = rc.Command.Type
					rv.body, _ = rc.Command.MarshalVT()
				}
				lm.cmds = append(lm.cmds, rv)
				lm.Indices = append(lm.Indices, rc.LeaderIndex)
			}
		}
		c.Msgs = append(c.Msgs, lm)
	}
	h.r.Count("binary_replicate_calls", 1)
	return c
}

func (h *l3) fail(sig, what string, c *l3call) bool {
	h.rep.violation(sig, func() (string, any) {
		w := witness{Case: h.id, Setup: fmt.Sprintf("real binary: regatta leader --replication.max-send-message-size-bytes=%q (log server target size %d) --replication.log-cache-size=%d --tables.names=t",
			h.id.Flag, h.ld.limit, h.ld.logCache), Steps: h.ops}
		if c != nil {
			w.At = fmt.Sprintf("Replicate(%d) gzip=%v", c.Start, c.Gzip)
			w.Calls = []any{c}
			what += fmt.Sprintf(" — flag %q, requested index %d, gzip %v, applied %d, messages %s", h.id.Flag, c.Start, c.Gzip, c.Applied, renderMsgs(c.Msgs))
			if c.RPCErr != "" {
				what += ", rpc error: " + c.RPCErr
			}
		}
		return what, w
	})
	return false
}

// judge is the stream oracle at the client boundary. The log is at rest (single writer, all
// writes acknowledged), so the applied index is exactly the last revision.
func (h *l3) judge(c *l3call) bool {
	a, ap := c.Start, h.applied
	single := func(kind string) bool { return c.RPCErr == "" && len(c.Msgs) == 1 && c.Msgs[0].Kind == kind }
	switch {
	case a > ap+1:
		if !single("LEADER_BEHIND") {
			return h.fail("binary-no-leader-behind-beyond-applied-plus-1", fmt.Sprintf("requested %d > applied+1 = %d: expected exactly one LEADER_BEHIND message", a, ap+1), c)
		}
		return true
	case a == ap+1:
		if !single("empty") || c.Msgs[0].Leader != ap {
			return h.fail("binary-no-single-empty-message-at-applied-plus-1", fmt.Sprintf("requested applied+1 = %d: expected exactly one empty message carrying %d", a, ap), c)
		}
		return true
	}
	next := a
	terminal := false
	for mi, m := range c.Msgs {
		if terminal {
			return h.fail("binary-stream-continues-after-terminal-message", fmt.Sprintf("message %d follows the terminal message", mi), c)
		}
		switch m.Kind {
		case "commands":
			if len(m.cmds) == 0 {
				return h.fail("binary-stream-empty-commands-message", fmt.Sprintf("message %d carries no command", mi), c)
			}
			if m.Leader != ap {
				return h.fail("binary-stream-message-applied-index", fmt.Sprintf("message %d carries leader_index %d, applied is %d", mi, m.Leader, ap), c)
			}
			for _, rc := range m.cmds {
				switch {
				case rc.idx != next && next == a:
					return h.fail("binary-stream-wrong-start-index", fmt.Sprintf("first command is labelled %d, requested %d", rc.idx, a), c)
				case rc.idx != next:
					return h.fail("binary-stream-gap-or-repeat", fmt.Sprintf("command labelled %d where %d was due", rc.idx, next), c)
				case rc.inner == nil || *rc.inner != rc.idx:
					return h.fail("binary-stream-command-inner-label-mismatch", fmt.Sprintf("command %d: Command.leader_index is %s", rc.idx, fmtPtr(rc.inner)), c)
				case rc.idx > ap:
					return h.fail("binary-stream-command-beyond-applied-index", fmt.Sprintf("command %d streamed, applied is %d", rc.idx, ap), c)
				}
				if exp, ok := h.hist[rc.idx]; ok {
					if !bytes.Equal(exp, rc.body) {
						return h.fail("binary-stream-command-differs-from-written", fmt.Sprintf("command %d: streamed %v (%d B) is not the write acknowledged at that revision (%d B)", rc.idx, rc.typ, len(rc.body), len(exp)), c)
					}
					if h.size[rc.idx] > h.ld.limit {
						if len(m.cmds) != 1 {
							return h.fail("binary-oversized-entry-not-alone-in-message", fmt.Sprintf("entry %d (%d B > target %d) shares its message with %d other commands", rc.idx, h.size[rc.idx], h.ld.limit, len(m.cmds)-1), c)
						}
						h.r.Count("oversized_entries_streamed", 1)
					}
				} else if rc.idx > 1 && rc.typ != pb.Command_DUMMY && !(rc.typ == pb.Command_PUT && h.isReadyPut(rc.body)) {
					return h.fail("binary-stream-unwritten-command", fmt.Sprintf("index %d was never written by the harness but is streamed as %v (%d B)", rc.idx, rc.typ, len(rc.body)), c)
				}
				next++
			}
		case "empty":
			terminal = true
			if m.Leader != ap {
				return h.fail("binary-stream-terminal-applied-index", fmt.Sprintf("terminal message carries %d, applied is %d", m.Leader, ap), c)
			}
		default:
			if m.Kind == "USE_SNAPSHOT" {
				h.r.Inconclusive(fmt.Sprintf("binary: USE_SNAPSHOT at index %d (the first index of the log is not visible from outside)", next))
				return true
			}
			return h.fail("binary-stream-leader-behind-for-applied-index", fmt.Sprintf("%s at index %d, applied %d", m.Kind, next, ap), c)
		}
	}
	if c.RPCErr != "" {
		if sz, ok := h.size[next]; ok && sz > h.ld.limit || h.id.Flag == "0" {
			return h.fail("binary-stream-breaks-at-entry-larger-than-message-size-flag",
				fmt.Sprintf("stream from %d broke with %v at index %d (entry of %d B, --replication.max-send-message-size-bytes %q is documented as a target, 'a larger message could be sent'): a follower can never get past this entry",
					a, c.code, next, h.size[next], h.id.Flag), c)
		}
		return h.fail("binary-stream-rpc-error", fmt.Sprintf("stream from %d broke with %v at index %d", a, c.code, next), c)
	}
	if !terminal {
		return h.fail("binary-stream-ends-without-terminal-message", fmt.Sprintf("stream ended at index %d without the empty message carrying the applied index", next), c)
	}
	if next <= ap {
		return h.fail("binary-stream-ends-before-applied-index", fmt.Sprintf("stream from %d stopped at %d with the 'up to date' message although applied is %d", a, next, ap), c)
	}
	h.r.Count("binary_replicate_streams", 1)
	h.r.Count("binary_commands_checked", int64(next-a))
	return true
}

// isReadyPut recognises the start-up probe writes (key "ready") that precede the history.
func (h *l3) isReadyPut(body []byte) bool {
	c := &pb.Command{}
	return c.UnmarshalVT(body) == nil && string(c.Table) == "t" && c.Kv != nil && string(c.Kv.Key) == "ready"
}

var _ = strings.TrimSpace
