package main

import (
	"context"
	"errors"
	"fmt"
	"math"
	"math/rand"
	"reflect"
	"strings"
	"sync"
	"sync/atomic"

	serrors "github.com/jamf/regatta/storage/errors"
	"github.com/jamf/regatta/storage/logreader"
	"github.com/lni/dragonboat/v4"
	"github.com/lni/dragonboat/v4/raftpb"

	"verifharness/internal/ev"
)

const (
	sigFixSize = "cached-reader-empty-when-first-entry-exceeds-maxsize"
	sigEndEqLo = "cached-reader-empty-when-range-end-equals-smallest-cached-index"
)

// reporter prints one witness per signature and counts the rest, so that a frequent known
// defect does not bury a different failure of the same property.
type reporter struct {
	r    *ev.Run
	mu   sync.Mutex
	seen map[string]int
}

func (p *reporter) violation(sig string, mk func() (what string, witness any)) {
	p.mu.Lock()
	n := p.seen[sig]
	p.seen[sig]++
	p.mu.Unlock()
	p.r.Count("violations["+sig+"]", 1)
	if n == 0 {
		what, w := mk()
		p.r.Violation(sig, what, w)
	}
}

type caseID struct {
	Layer int   `json:"layer"`
	Seed  int64 `json:"case_seed"`
	// Restore (layer 2): the table is first restored through Engine.Restore from a backup stream
	// whose final marker carries a leader index, so that its log starts with restore batches.
	Restore bool `json:"restore,omitempty"`
	// layer 3: value of --replication.max-send-message-size-bytes ("" = flag not given) and of
	// --replication.log-cache-size the real binary is started with.
	Flag     string `json:"max_send_message_size_flag,omitempty"`
	LogCache int    `json:"log_cache_size,omitempty"`
}

type witness struct {
	Case  caseID   `json:"case"`
	Setup string   `json:"setup"`
	Steps []string `json:"steps,omitempty"`
	At    string   `json:"at"`
	Calls []any    `json:"calls,omitempty"`
}

// stream is one Replicate call in progress as the server runs it: the end of the range is fixed
// at applied+1 of the call time, the start moves behind the last entry returned.
type stream struct{ next, end uint64 }

type shardSt struct {
	id         uint64
	log        *slog
	applied    uint64
	staleFirst uint64 // first index of the log when the cache of this shard was last emptied
	pending    int    // compactions whose LogCompacted event has not been delivered yet
	pendingIdx []uint64 // their compaction indices (what dragonboat puts into EntryInfo.Index), oldest first
	streams    []*stream
	compacted  bool
}

type ansSum struct {
	First uint64
	N     int
	Err   string
}

func (a ansSum) String() string {
	if a.Err != "" {
		return a.Err
	}
	if a.N == 0 {
		return "[]"
	}
	return fmt.Sprintf("[%d..%d]", a.First, a.First+uint64(a.N)-1)
}

type step struct {
	kind   string // append, apply, compact, event, nodedel, query, behind
	shard  uint64
	a, b   uint64
	n      int
	shape  cacheShape
	c, s   ansSum
	reads  []logCall
	first  uint64
	last   uint64
	stale  uint64
	lagged bool
}

func (s step) String() string {
	switch s.kind {
	case "append":
		return fmt.Sprintf("shard %d: append %d entries -> last=%d", s.shard, s.n, s.last)
	case "apply":
		return fmt.Sprintf("shard %d: applied -> %d", s.shard, s.a)
	case "compact":
		return fmt.Sprintf("shard %d: log compacted to %d (first=%d), LogCompacted event queued", s.shard, s.a, s.a+1)
	case "event":
		if s.n == 1 {
			return fmt.Sprintf("shard %d: compaction event delivered with compaction index %d (entries <= %d are gone)", s.shard, s.a, s.a)
		}
		return fmt.Sprintf("shard %d: ShardCache.LogCompacted delivered", s.shard)
	case "nodedel":
		return fmt.Sprintf("shard %d: ShardCache.NodeDeleted", s.shard)
	case "behind":
		return fmt.Sprintf("shard %d: request %d > applied+1=%d: LEADER_BEHIND decided by the server, reader not called", s.shard, s.a, s.b)
	}
	cs := "cache=?"
	if s.shape.OK {
		if s.shape.N == 0 {
			cs = "cache=[]"
		} else {
			cs = fmt.Sprintf("cache=[%d..%d]#%d", s.shape.Lo, s.shape.Hi, s.shape.N)
		}
	}
	var rd []string
	for _, c := range s.reads {
		e := ""
		if c.Err != "" {
			e = " " + c.Err
		}
		rd = append(rd, fmt.Sprintf("Entries(%d,%d)=%d%s", c.Low, c.High, c.N, e))
	}
	lg := ""
	if s.lagged {
		lg = " (older call's range end)"
	}
	return fmt.Sprintf("shard %d: query [%d,%d)%s log=[%d..%d] %s -> cached %v (log reads: %s) | uncached %v",
		s.shard, s.a, s.b, lg, s.first, s.last, cs, s.c, strings.Join(rd, ","), s.s)
}

type l1 struct {
	r          *ev.Run
	rep        *reporter
	id         caseID
	rnd        *rand.Rand
	q          *querier
	sc         *logreader.ShardCache
	cached     *logreader.Cached
	simple     *logreader.Simple
	cacheSize  int
	maxSize    uint64
	profile    int
	interleave bool
	shards     []*shardSt
	steps      []step
	stop       bool
	partial    bool
	afterComp  bool
	key        strings.Builder
	prevEnts   []raftpb.Entry
	prevShard  *shardSt
	setup      string
	cnt        map[string]int64
	dst        map[string]map[string]struct{}
	// byIndex: when the ShardCache offers an exported LogCompacted*(shard, index uint64) method (a
	// partial invalidation that is told the compaction index), half of the cases deliver the
	// compaction event through it, with the inclusive compaction index dragonboat reports.
	byIndex     reflect.Value
	byIndexName string
}

// compactedByIndex finds an exported method of *ShardCache named LogCompacted… that takes
// (shardID, index uint64). The unchanged tree has none.
func compactedByIndex(sc *logreader.ShardCache) (reflect.Value, string) {
	v := reflect.ValueOf(sc)
	t := v.Type()
	u64 := reflect.TypeOf(uint64(0))
	for i := 0; i < t.NumMethod(); i++ {
		m := t.Method(i)
		mt := m.Type // receiver is In(0)
		if strings.HasPrefix(m.Name, "LogCompacted") && mt.NumIn() == 3 && mt.In(1) == u64 && mt.In(2) == u64 && mt.NumOut() == 0 {
			return v.Method(i), m.Name
		}
	}
	return reflect.Value{}, ""
}

func (c *l1) count(name string, n int64) { c.cnt[name] += n }

func (c *l1) distinct(set, elem string) {
	m := c.dst[set]
	if m == nil {
		m = map[string]struct{}{}
		c.dst[set] = m
	}
	m[elem] = struct{}{}
}

func (c *l1) flush() {
	for k, v := range c.cnt {
		c.r.Count(k, v)
	}
	for set, m := range c.dst {
		for e := range m {
			c.r.Distinct(set, e)
		}
	}
}

var cacheSizes = []int{1, 2, 3, 8, 100}

var l1Samples atomic.Int32

func runL1(r *ev.Run, rep *reporter, id caseID) {
	rnd := rand.New(rand.NewSource(id.Seed))
	c := &l1{r: r, rep: rep, id: id, rnd: rnd, cnt: map[string]int64{}, dst: map[string]map[string]struct{}{}}
	defer c.flush()
	c.cacheSize = cacheSizes[rnd.Intn(len(cacheSizes))]
	c.q = &querier{logs: map[uint64]*slog{}}
	c.sc = logreader.NewShardCache(c.cacheSize)
	c.cached = &logreader.Cached{LogQuerier: c.q, ShardCache: c.sc}
	c.simple = &logreader.Simple{LogQuerier: c.q}
	c.interleave = rnd.Intn(2) == 0
	useByIndex := rnd.Intn(2) == 0
	if m, name := compactedByIndex(c.sc); m.IsValid() {
		r.Distinct("l1_index_carrying_invalidation_methods", name)
		if useByIndex {
			c.byIndex, c.byIndexName = m, name
		}
	}
	switch p := rnd.Intn(100); {
	case p < 30:
		c.profile = 0
	case p < 60:
		c.profile = 1
	case p < 85:
		c.profile = 2
	case p < 98:
		c.profile = 3
	default:
		c.profile = 4
	}
	nsh := 1
	if rnd.Intn(5) == 0 {
		nsh = 2
	}
	for i := 0; i < nsh; i++ {
		marker := uint64(0)
		if rnd.Intn(3) == 0 {
			marker = uint64(rnd.Intn(60))
		}
		s := &shardSt{id: uint64(10001 + i), log: newSlog(uint64(10001+i), marker)}
		c.q.logs[s.id] = s.log
		for n := rnd.Intn(25); n > 0; n-- {
			c.appendRandom(s)
		}
		s.applied = s.log.last
		if rnd.Intn(4) == 0 {
			s.applied = s.log.marker + uint64(rnd.Int63n(int64(s.log.last-s.log.marker)+1))
		}
		s.staleFirst = s.log.first()
		c.shards = append(c.shards, s)
	}
	c.pickMaxSize()
	c.setup = fmt.Sprintf("cache size %d, maxSize %d, payload profile %d, shards %d, interleaved calls %v; initial log(s):",
		c.cacheSize, c.maxSize, c.profile, nsh, c.interleave)
	if c.byIndexName != "" {
		c.setup = "compaction events delivered through ShardCache." + c.byIndexName + "(shard, compaction index); " + c.setup
	}
	for _, s := range c.shards {
		c.setup += fmt.Sprintf(" shard %d [%d..%d] applied %d sizes %v;", s.id, s.log.first(), s.log.last, s.applied, c.sizes(s, 12))
	}

	nSteps := 8 + rnd.Intn(40)
	for i := 0; i < nSteps && !c.stop; i++ {
		s := c.shards[rnd.Intn(len(c.shards))]
		switch k := rnd.Intn(100); {
		case k < 58:
			c.queryStep(s)
		case k < 72:
			n := 1 + rnd.Intn(6)
			for j := 0; j < n; j++ {
				c.appendRandom(s)
			}
			if rnd.Intn(10) < 7 {
				s.applied = s.log.last
			}
			c.steps = append(c.steps, step{kind: "append", shard: s.id, n: n, last: s.log.last})
			c.steps = append(c.steps, step{kind: "apply", shard: s.id, a: s.applied})
		case k < 80:
			if s.applied < s.log.last {
				s.applied += 1 + uint64(rnd.Int63n(int64(s.log.last-s.applied)))
				c.steps = append(c.steps, step{kind: "apply", shard: s.id, a: s.applied})
			}
		case k < 89:
			if s.applied > s.log.marker {
				to := s.log.marker + 1 + uint64(rnd.Int63n(int64(s.applied-s.log.marker)))
				if rnd.Intn(2) == 0 && s.applied-s.log.marker > 3 {
					to = s.applied - 3 // the production shape: snapshot index minus the overhead
				}
				s.log.compact(to)
				s.pending++
				s.pendingIdx = append(s.pendingIdx, to)
				s.compacted = true
				c.steps = append(c.steps, step{kind: "compact", shard: s.id, a: to})
				if rnd.Intn(2) == 0 { // most of the time the event follows at once
					c.deliver(s)
				}
			}
		case k < 97:
			if s.pending > 0 {
				c.deliver(s)
			}
		default:
			c.sc.NodeDeleted(s.id)
			s.staleFirst = s.log.first()
			c.steps = append(c.steps, step{kind: "nodedel", shard: s.id})
		}
	}
	// drain: every call still open is run to its end, plus a few complete calls.
	for _, s := range c.shards {
		for n := 0; n < 3 && !c.stop; n++ {
			if !c.interleave {
				s.streams = nil
			}
			c.startStream(s, c.pickStart(s))
			for guard := 0; len(s.streams) > 0 && guard < 500 && !c.stop; guard++ {
				c.continueStream(s, len(s.streams)-1)
			}
		}
	}
	if c.stop {
		return
	}
	r.Eval(1)
	if c.partial && c.afterComp {
		r.Nontrivial(c.key.String())
	}
	if c.partial {
		r.Count("l1_cases_with_partly_cached_answer", 1)
	}
	if c.afterComp {
		r.Count("l1_cases_with_query_after_compaction", 1)
	}
	r.Distinct("l1_cache_size", fmt.Sprint(c.cacheSize))
	r.Distinct("l1_maxsize", fmt.Sprint(c.maxSize))
	if c.partial && c.afterComp && l1Samples.Add(1) <= 3 {
		r.Sample(map[string]any{"layer": 1, "case_seed": id.Seed, "setup": c.setup, "steps": c.render(14)})
	}
}

func (c *l1) sizes(s *shardSt, max int) []uint64 {
	var out []uint64
	for i := s.log.first(); i <= s.log.last && len(out) < max; i++ {
		out = append(out, s.log.size(i))
	}
	return out
}

func (c *l1) render(max int) []string {
	out := make([]string, 0, len(c.steps))
	for _, s := range c.steps {
		out = append(out, s.String())
	}
	if max > 0 && len(out) > max {
		out = append(out[:max:max], fmt.Sprintf("… %d more steps", len(out)-max))
	}
	return out
}

func (c *l1) deliver(s *shardSt) {
	var idx uint64
	if len(s.pendingIdx) > 0 {
		idx, s.pendingIdx = s.pendingIdx[0], s.pendingIdx[1:]
	} else {
		idx = s.log.marker
	}
	if s.pending > 0 {
		s.pending--
	}
	if c.byIndex.IsValid() {
		// partial invalidation: told "entries <= idx are gone"; whatever it keeps must be > idx.
		// Later compactions whose events are still queued keep their own tolerance.
		c.byIndex.Call([]reflect.Value{reflect.ValueOf(s.id), reflect.ValueOf(idx)})
		if idx+1 > s.staleFirst {
			s.staleFirst = idx + 1
		}
		c.count("l1_compaction_events_delivered_with_index", 1)
	} else {
		c.sc.LogCompacted(s.id)
		s.staleFirst = s.log.first()
	}
	c.steps = append(c.steps, step{kind: "event", shard: s.id, a: idx, n: map[bool]int{false: 0, true: 1}[c.byIndex.IsValid()]})
}

func (c *l1) payload() int {
	r := c.rnd
	switch c.profile {
	case 0:
		return 10 + r.Intn(40)
	case 1:
		return 10 + r.Intn(300)
	case 2:
		return 10 + r.Intn(3000)
	case 3:
		if r.Intn(8) == 0 {
			return 5000 + r.Intn(65000)
		}
		return 10 + r.Intn(500)
	default:
		if r.Intn(10) == 0 {
			return 4<<20 - 300 + r.Intn(600)
		}
		return 10 + r.Intn(2000)
	}
}

func (c *l1) appendRandom(s *shardSt) {
	r := c.rnd
	switch k := r.Intn(100); {
	case k < 66:
		s.log.appendEntry(r, raftpb.EncodedEntry, c.payload())
	case k < 80:
		s.log.appendEntry(r, raftpb.ApplicationEntry, 0) // the empty entry a new leader appends
	case k < 86:
		s.log.appendEntry(r, raftpb.ApplicationEntry, c.payload())
	case k < 94:
		s.log.appendEntry(r, raftpb.ConfigChangeEntry, 10+r.Intn(40))
	default:
		n := 0
		if r.Intn(2) == 0 {
			n = 10 + r.Intn(20)
		}
		s.log.appendEntry(r, raftpb.MetadataEntry, n)
	}
}

func (c *l1) pickMaxSize() {
	r := c.rnd
	if c.profile == 4 {
		c.maxSize = 4 << 20
		return
	}
	switch r.Intn(13) {
	case 0:
		c.maxSize = 1
	case 1:
		c.maxSize = uint64(1 + r.Intn(127))
	case 2:
		c.maxSize = 128
	case 3:
		c.maxSize = uint64(129 + r.Intn(100))
	case 4:
		c.maxSize = 200
	case 5:
		c.maxSize = 1024
	case 6:
		c.maxSize = 4096
	case 7:
		c.maxSize = 4 << 20
	case 8:
		c.maxSize = math.MaxUint64
	case 9:
		c.maxSize = uint64(300 + r.Intn(3000))
	default:
		// exactly the cumulative size of k consecutive entries of the initial log, ±1
		s := c.shards[0]
		n := s.log.last - s.log.marker
		if n == 0 {
			c.maxSize = 256
			return
		}
		from := s.log.first() + uint64(r.Int63n(int64(n)))
		k := 1 + r.Intn(4)
		var cum uint64
		for i := from; i <= s.log.last && k > 0; i, k = i+1, k-1 {
			cum += s.log.size(i)
		}
		c.maxSize = cum + uint64(r.Intn(3)) - 1
	}
}

func (c *l1) pickStart(s *shardSt) uint64 {
	r := c.rnd
	first, ap := s.log.first(), s.applied
	var a int64
	switch r.Intn(10) {
	case 0, 1:
		lo := int64(first) - 3
		a = lo + r.Int63n(int64(ap)+2-lo+1)
	case 2, 3:
		sh := peekCache(c.sc, s.id)
		if sh.OK && sh.N > 0 {
			if r.Intn(2) == 0 {
				a = int64(sh.Lo) - 2 + r.Int63n(4)
			} else {
				a = int64(sh.Hi) - 1 + r.Int63n(4)
			}
		} else {
			a = int64(first) + r.Int63n(int64(ap)+2-int64(first))
		}
	case 4:
		a = int64(first) - 1 + r.Int63n(3)
	case 5:
		a = int64(ap) - 1 + r.Int63n(3)
	default:
		if ap >= first {
			a = int64(first) + r.Int63n(int64(ap-first+1))
		} else {
			a = int64(ap) + 1
		}
	}
	if a < 1 {
		a = 1
	}
	return uint64(a)
}

func (c *l1) queryStep(s *shardSt) {
	if len(s.streams) > 0 && c.rnd.Intn(100) < 45 {
		c.continueStream(s, c.rnd.Intn(len(s.streams)))
		return
	}
	if !c.interleave {
		s.streams = nil
	}
	c.startStream(s, c.pickStart(s))
}

func (c *l1) startStream(s *shardSt, a uint64) {
	end := s.applied + 1
	if a > end {
		// LogServer.Replicate answers LEADER_BEHIND before it touches the reader.
		c.count("l1_requests_beyond_applied_plus_1", 1)
		c.steps = append(c.steps, step{kind: "behind", shard: s.id, a: a, b: end})
		return
	}
	st := &stream{next: a, end: end}
	if len(s.streams) >= 3 {
		s.streams = s.streams[1:]
	}
	s.streams = append(s.streams, st)
	c.continueStream(s, len(s.streams)-1)
}

func (c *l1) continueStream(s *shardSt, i int) {
	st := s.streams[i]
	n, ok := c.query(s, st.next, st.end)
	if !ok || n == 0 {
		s.streams = append(s.streams[:i:i], s.streams[i+1:]...)
		return
	}
	st.next += uint64(n)
	if st.next >= st.end {
		// the server's next query is the empty range [end,end)
		c.query(s, st.end, st.end)
		s.streams = append(s.streams[:i:i], s.streams[i+1:]...)
	}
}

func errClass(err error) string {
	switch {
	case err == nil:
		return ""
	case errors.Is(err, serrors.ErrLogAhead):
		return "ErrLogAhead"
	case errors.Is(err, serrors.ErrLogBehind):
		return "ErrLogBehind"
	default:
		return "error(" + err.Error() + ")"
	}
}

func sum(es []raftpb.Entry, err error) ansSum {
	a := ansSum{N: len(es), Err: errClass(err)}
	if len(es) > 0 {
		a.First = es[0].Index
	}
	return a
}

// query runs one reader query [a,b) against both readers and judges it. It returns the number of
// entries the cached reader delivered (the stream under test follows the cached reader) and
// whether the stream goes on.
func (c *l1) query(s *shardSt, a, b uint64) (int, bool) {
	ctx := context.Background()
	lr := dragonboat.LogRange{FirstIndex: a, LastIndex: b}
	shape := peekCache(c.sc, s.id)
	s.log.resetTrace()
	ce, cerr := c.cached.QueryRaftLog(ctx, s.id, lr, c.maxSize)
	reads := append([]logCall(nil), s.log.calls...)
	s.log.resetTrace()
	se, serr := c.simple.QueryRaftLog(ctx, s.id, lr, c.maxSize)
	s.log.resetTrace()

	st := step{kind: "query", shard: s.id, a: a, b: b, shape: shape, c: sum(ce, cerr), s: sum(se, serr), reads: reads,
		first: s.log.first(), last: s.log.last, stale: s.staleFirst, lagged: b != s.applied+1}
	c.steps = append(c.steps, st)
	if a < b {
		c.count("l1_queries", 1)
	}
	if s.compacted && a < b {
		c.afterComp = true
		c.count("l1_queries_after_compaction", 1)
	}
	if st.lagged {
		c.count("l1_queries_with_older_range_end", 1)
	}

	okS := c.judge("uncached", s, a, b, se, serr, shape)
	okC := c.judge("cached", s, a, b, ce, cerr, shape)
	if c.stop {
		return 0, false
	}

	// earlier cached answer must not have been altered by this query
	if c.prevEnts != nil {
		for i, e := range c.prevEnts {
			if !c.prevShard.log.has(e.Index) || !sameEntry(e, c.prevShard.log.at(e.Index)) || (i > 0 && e.Index != c.prevEnts[i-1].Index+1) {
				c.fail("cached-earlier-answer-altered-by-later-query", fmt.Sprintf("entry %d of the previous cached answer changed after query [%d,%d)", i, a, b), false)
				return 0, false
			}
		}
	}
	c.prevEnts, c.prevShard = nil, nil
	if okC && len(ce) > 0 {
		c.prevEnts, c.prevShard = ce, s
	}

	if okC && okS && cerr == nil && serr == nil && a < b {
		// relation cached / uncached ("apart from where a size limit cuts it")
		n := min(len(ce), len(se))
		for i := 0; i < n; i++ {
			if !sameEntry(ce[i], se[i]) {
				c.fail("cached-answer-not-prefix-related-to-uncached", fmt.Sprintf("query [%d,%d): position %d differs", a, b, i), false)
				return 0, false
			}
		}
		switch {
		case len(ce) == len(se):
			c.count("l1_cached_equals_uncached", 1)
		case len(ce) < len(se):
			var cum uint64
			for _, e := range ce {
				cum += uint64(e.SizeUpperLimit())
			}
			if cum+uint64(se[len(ce)].SizeUpperLimit()) >= c.maxSize {
				c.count("l1_cached_shorter_at_size_cut", 1)
			} else {
				c.count("l1_cached_shorter_at_cache_boundary", 1)
			}
		default:
			c.count("l1_cached_longer_than_uncached", 1)
		}
		// how the cached answer was put together
		if len(ce) > 0 {
			lastIdx := ce[len(ce)-1].Index
			part := false
			for _, rd := range reads {
				if rd.Err != "" || rd.N == 0 {
					continue
				}
				if rd.Low > a || (rd.Low == a && rd.High < b && lastIdx >= rd.High) {
					part = true
				}
			}
			switch {
			case part:
				c.partial = true
				c.count("l1_answers_partly_cache_partly_log", 1)
				mb := 0
				for m := c.maxSize; m > 0; m >>= 4 {
					mb++
				}
				fmt.Fprintf(&c.key, "%d:%d:%d:%d:%d:%d|", int64(shape.Lo)-int64(s.log.first()), shape.N, int64(a)-int64(s.log.first()), b-a, mb, len(ce))
				c.distinct("l1_partial_shape", fmt.Sprintf("%d:%d:%d:%d", int64(shape.Lo)-int64(a), shape.N, b-a, len(ce)))
			case len(reads) == 0:
				c.count("l1_answers_from_cache_only", 1)
			default:
				c.count("l1_answers_from_log_only", 1)
			}
		}
	}
	if cerr != nil || !okC {
		return 0, false
	}
	return len(ce), true
}

func (c *l1) fail(sig, what string, goOn bool) {
	if c.interleave {
		c.count("l1_violations_with_several_calls_in_progress["+sig+"]", 1)
	} else {
		c.count("l1_violations_with_one_call_at_a_time["+sig+"]", 1)
	}
	c.rep.violation(sig, func() (string, any) {
		w := witness{Case: c.id, Setup: c.setup, Steps: c.render(0), At: c.steps[len(c.steps)-1].String()}
		return what + " — " + w.At, w
	})
	if !goOn {
		c.stop = true
	}
}

// judge applies the property's rule to one answer. It returns true when the answer is acceptable.
func (c *l1) judge(kind string, s *shardSt, a, b uint64, es []raftpb.Entry, err error, shape cacheShape) bool {
	log := s.log
	cls := errClass(err)
	if a == b {
		c.count("l1_empty_range_queries", 1)
		if err != nil || len(es) != 0 {
			c.fail(kind+"-reader-answer-for-empty-range", fmt.Sprintf("range [%d,%d) is empty but the %s reader answered %v", a, b, kind, sum(es, err)), false)
			return false
		}
		return true
	}
	first := log.first()
	if kind == "cached" && err == nil && len(es) == 0 && shape.OK && shape.N > 0 && shape.Lo == b {
		// (also when a is already compacted: the reader never looked at the log)
		c.fail(sigEndEqLo, fmt.Sprintf("range [%d,%d) is non-empty (log [%d..%d]) and the cache holds [%d..%d]: cached reader answered zero entries and no error without reading the log",
			a, b, first, log.last, shape.Lo, shape.Hi), true)
		return false
	}
	if a < first {
		stale := kind == "cached" && a >= s.staleFirst
		if cls == "ErrLogAhead" {
			c.count("l1_use_snapshot_answers", 1)
			return true
		}
		if !stale {
			c.fail(kind+"-reader-no-use-snapshot-for-compacted-index",
				fmt.Sprintf("index %d is below the log's first index %d (cache last emptied at first index %d) but the %s reader answered %v instead of ErrLogAhead", a, first, s.staleFirst, kind, sum(es, err)), false)
			return false
		}
		// the LogCompacted event for this compaction has not been delivered: production allows the
		// cache to still serve the (unchanged) entries; they must be the right ones.
		c.count("l1_compacted_index_served_from_not_yet_invalidated_cache", 1)
	}
	if err != nil {
		c.fail(kind+"-reader-"+strings.SplitN(cls, "(", 2)[0]+"-for-servable-range",
			fmt.Sprintf("range [%d,%d) is servable (log [%d..%d]) but the %s reader answered %s", a, b, first, log.last, kind, cls), false)
		return false
	}
	if len(es) == 0 {
		switch {
		case kind == "cached" && log.has(a) && log.size(a) >= c.maxSize && (!shape.OK || (shape.N > 0 && shape.Lo < b && shape.Hi >= a)):
			c.fail(sigFixSize, fmt.Sprintf("range [%d,%d) is non-empty, entry %d has size %d >= maxSize %d: cached reader answered zero entries (uncached reader answers one)",
				a, b, a, log.size(a), c.maxSize), true)
		default:
			c.fail(kind+"-reader-empty-for-nonempty-range", fmt.Sprintf("range [%d,%d) is non-empty and in the log [%d..%d] but the %s reader answered zero entries", a, b, first, log.last, kind), false)
		}
		return false
	}
	for i, e := range es {
		want := a + uint64(i)
		switch {
		case e.Index != want && i == 0:
			c.fail(kind+"-reader-wrong-start-index", fmt.Sprintf("range [%d,%d): first entry returned has index %d", a, b, e.Index), false)
			return false
		case e.Index != want:
			c.fail(kind+"-reader-gap-or-repeat", fmt.Sprintf("range [%d,%d): entry %d of the answer has index %d, expected %d", a, b, i, e.Index, want), false)
			return false
		case e.Index >= b:
			c.fail(kind+"-reader-entry-beyond-range-end", fmt.Sprintf("range [%d,%d): entry with index %d returned", a, b, e.Index), false)
			return false
		case !log.has(e.Index):
			c.fail(kind+"-reader-entry-not-in-log", fmt.Sprintf("range [%d,%d): entry %d returned, log ends at %d", a, b, e.Index, log.last), false)
			return false
		case !sameEntry(e, log.at(e.Index)):
			c.fail(kind+"-reader-entry-content-mismatch", fmt.Sprintf("range [%d,%d): entry labelled %d is not the log's entry %d (type %v/%v, %d/%d payload bytes)", a, b, e.Index, e.Index,
				e.Type, log.at(e.Index).Type, len(e.Cmd), len(log.at(e.Index).Cmd)), false)
			return false
		}
	}
	if kind == "uncached" && a >= first {
		if n := log.specLen(a, b, c.maxSize); n != len(es) {
			c.fail("uncached-reader-differs-from-log-contract", fmt.Sprintf("range [%d,%d) maxSize %d: %d entries returned, the log's contract gives %d", a, b, c.maxSize, len(es), n), false)
			return false
		}
	}
	c.count("l1_entries_checked", int64(len(es)))
	return true
}
