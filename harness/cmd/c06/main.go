// C06 — the replication log stream is exact: consecutive applied entries, no gap or repeat.
//
// Layer 1 drives the real logreader.Simple and logreader.Cached (+ShardCache) over a scripted log
// that follows dragonboat's LogReader contract, with sequences of queries shaped like the ones
// LogServer.Replicate issues (range end = applied+1 of the call, start moving behind the last
// entry returned), interleaved with appends, compactions and (possibly late) LogCompacted /
// NodeDeleted cache events. Layer 2 runs the real LogServer.Replicate over gRPC against a real
// single-node storage.Engine whose Raft log really gets compacted, with a cached and an uncached
// reader and three message-size limits, for every start index, and compares the streamed
// commands with the commands the harness proposed at those revisions.
package main

import (
	"fmt"
	"os"
	"os/signal"
	"runtime"
	"sync"
	"syscall"

	"verifharness/internal/ev"
)

func main() {
	r := ev.Start("C06", "exploration")
	r.Rule("layer 1: seeded cases = scripted log(s) (entries of all four Raft types, payload profiles from 10 B to >4 MiB, optional initial compaction marker) + 8-47 steps " +
		"(reader queries issued as LogServer.Replicate issues them, appends, applied-index advances, compactions, delivery of the LogCompacted event at once or later — through ShardCache.LogCompacted, or in half of the cases through an exported LogCompacted*(shard, compaction index) method if the cache has one —, NodeDeleted), " +
		"cache size in {1,2,3,8,100}, maxSize from 1 B to 2^64-1 incl. exact cumulative-size boundaries, 1-2 shards on one ShardCache, with or without several calls in progress; " +
		"layer 2: real engine (SnapshotEntries 10, CompactionOverhead 3, LogCacheSize in {1,2,3,8,100}), put/delete/txn histories in phases that also contain commands stored WITH a leader_index of their own (SEQUENCE with labelled sub-commands as the replication worker proposes, PUT_BATCH as a restore proposes, both proposed by the harness on the table shard; every second history starts from a table restored through Engine.Restore from a stream ending with the leader-index marker), after each phase every start index 0..applied+2 (+2 beyond) " +
		"on 6 real gRPC LogServers (cached/uncached reader x 200 B/1 KiB/4 MiB), then calls concurrent with a writer; a tailing follower polls the cached server after every proposal (so the cache holds the recent entries when a compaction happens) and after each phase the cached servers are first asked for exactly the compaction index and its neighbours. " +
		"layer 3: the real `regatta leader` binary (command-line wiring of the replication server) started with --replication.max-send-message-size-bytes in {4096, 65536, 0} (thorough: also unset, 1024, 20000, 1 MiB) and log cache 0/3/8, a history written through the KV API with single entries above the limit (16 KiB, 200 KiB) between small ones, Replicate over plain and gzip gRPC from 1, from before/at every large entry, at applied, applied+1, applied+2. " +
		"A case is non-trivial when at least one query was answered partly from the cache and partly from the log and at least one query came after a compaction; " +
		"distinct by hash of the (cache shape relative to the log, query, limit class, answer length) list of its partly-cached answers")
	r.Assume(
		"the scripted log follows dragonboat v4 LogReader.Entries: size-limited prefix, at least one entry, ErrCompacted at/below the marker, ErrUnavailable above last+1",
		"range ends are applied+1 of a call and applied <= last persisted index (dragonboat persists before it applies), so the reader is never asked beyond last+1",
		"ShardCache.LogCompacted is delivered asynchronously in production (dragonboat system-event goroutine, then regatta's events channel): between a compaction and that delivery the cached reader may still serve the unchanged entries below the new first index; after the delivery it must answer ErrLogAhead/USE_SNAPSHOT",
		"layer 2 learns that the cache was emptied from the engine's own event log (the line dispatchEvents writes before handling logCompacted, confirmed by the next event line), never from elapsed time",
		"layer 2 samples log range and applied index before and after every call; where a compaction or a proposal crosses the requested index during the call both outcomes are accepted",
		"request index 0: only 'no commands are streamed' is judged (InvalidArgument observed)")
	rep := &reporter{r: r, seen: map[string]int{}}

	// layer 3 starts child processes: they are killed on every way out (r.Finish exits the process,
	// so cleanupL3 is called right before it; signals; and Pdeathsig if the driver is killed).
	sigc := make(chan os.Signal, 1)
	signal.Notify(sigc, os.Interrupt, syscall.SIGTERM)
	go func() {
		<-sigc
		cleanupL3()
		os.Exit(2)
	}()
	defer cleanupL3()
	bin := os.Getenv("VERIF_REGATTA_BIN")

	if r.Replay != "" {
		var w witness
		if _, err := r.ReadReplay(&w); err != nil {
			fmt.Fprintln(os.Stderr, "replay:", err)
			os.Exit(2)
		}
		switch w.Case.Layer {
		case 1:
			runL1(r, rep, w.Case)
		case 2:
			for i := 0; i < 3 && r.Violations() == 0; i++ {
				runL2(r, rep, w.Case)
			}
		case 3:
			if base, err := scratchDir(); err == nil && bin != "" {
				runL3(r, rep, w.Case, bin, base, 0)
			} else {
				fmt.Fprintln(os.Stderr, "replay of a layer-3 case needs VERIF_REGATTA_BIN (run through /verif/check)")
			}
		}
		cleanupL3()
		r.Finish()
	}

	// layer 2 runs beside layer 1 (it is mostly waiting on Raft round trips)
	var wg sync.WaitGroup
	ne := r.Pick(2, 20)
	wg.Add(1)
	go func() {
		defer wg.Done()
		for i := 0; i < ne; i++ {
			runL2(r, rep, caseID{Layer: 2, Seed: r.Seed*9_000_011 + int64(i), Restore: i%2 == 0})
		}
	}()

	// layer 3: the real binary, one start per flag value
	wg.Add(1)
	go func() {
		defer wg.Done()
		if bin == "" {
			r.Note("VERIF_REGATTA_BIN not set (not run through /verif/check): layer 3 skipped, its floors will report it")
			return
		}
		base, err := scratchDir()
		if err != nil {
			r.Inconclusive("scratch: " + err.Error())
			return
		}
		flags := []string{"4096", "65536", "0"}
		if r.Thorough() {
			flags = []string{"4096", "65536", "0", "", "1024", "20000", "1048576"}
		}
		for i, f := range flags {
			lc := []int{0, 8, 3}[(i+int(r.Seed))%3]
			runL3(r, rep, caseID{Layer: 3, Seed: r.Seed*5_000_011 + int64(i), Flag: f, LogCache: lc}, bin, base, i)
		}
	}()

	n := r.Pick(12000, 1000000)
	workers := runtime.NumCPU() / 2
	if workers < 1 {
		workers = 1
	}
	if !r.Thorough() {
		workers = 2
	}
	ch := make(chan int, 256)
	for w := 0; w < workers; w++ {
		wg.Add(1)
		go func() {
			defer wg.Done()
			for i := range ch {
				runL1(r, rep, caseID{Layer: 1, Seed: r.Seed*1_000_003 + int64(i)})
			}
		}()
	}
	for i := 0; i < n; i++ {
		ch <- i
	}
	close(ch)
	wg.Wait()

	r.FloorNontrivial(int64(r.Pick(1500, 30000)))
	r.FloorCount("l1_queries", int64(r.Pick(100000, 3000000)))
	r.FloorCount("l1_answers_partly_cache_partly_log", int64(r.Pick(10000, 300000)))
	r.FloorCount("l1_queries_after_compaction", int64(r.Pick(50000, 1500000)))
	r.FloorCount("l2_replicate_calls", int64(r.Pick(2000, 10000)))
	r.FloorCount("l2_commands_checked", int64(r.Pick(200, 2000)))
	r.FloorCount("l2_expect_use_snapshot", int64(r.Pick(100, 1000)))
	r.FloorCount("l2_expect_leader_behind", int64(r.Pick(20, 200)))
	r.FloorCount("l2_expect_empty_at_applied_plus_1", int64(r.Pick(10, 100)))
	r.FloorCount("l2_logcompacted_events_seen", int64(r.Pick(4, 40))) // the event hook must be alive, else layer 2 is lenient below the first index
	r.FloorCount("l2_tailing_follower_polls", int64(r.Pick(100, 1000)))
	r.FloorCount("l2_requests_exactly_at_compaction_index_judged_strictly", int64(r.Pick(6, 60)))
	r.FloorCount("l2_streamed_commands_stored_with_own_leader_index", int64(r.Pick(50, 500)))
	r.FloorCount("l2_restore_batches_streamed", int64(r.Pick(3, 30)))
	r.FloorCount("binary_replicate_streams", int64(r.Pick(20, 50)))
	r.FloorCount("oversized_entries_streamed", int64(r.Pick(10, 30)))
	r.FloorDistinct("l1_cache_size", 5)
	cleanupL3()
	r.Finish()
}
