package main

// The controlled scheduler: every store operation of every manager parks on a gate; exactly
// one goroutine runs at a time; the driver decides which parked operation goes next. Schedules
// are discovered by re-execution from the start with a prefix of choices (depth-first), since
// the number of store operations of a call depends on what it reads.

import (
	"encoding/json"
	"fmt"
	"math/rand"
	"strings"
	"sync/atomic"
	"time"

	"github.com/jamf/regatta/storage/kv"
	"github.com/jamf/regatta/storage/table"
	sm "github.com/lni/dragonboat/v4/statemachine"
)

// lfsmBackend drives the real metadata state machine the way kv.RaftStore + the Raft group do:
// every proposal (accepted or rejected) is one log entry with the next index; reads are Lookups.
type lfsmBackend struct {
	fsm sm.IConcurrentStateMachine
	idx uint64
}

func newLFSMBackend() *lfsmBackend {
	// a fresh shard has a config-change entry and the leader's no-op before the first proposal
	return &lfsmBackend{fsm: kv.NewLFSM()(1, 1), idx: 2}
}

func (b *lfsmBackend) propose(u kv.Update) (sm.Result, error) {
	cmd, err := json.Marshal(u)
	if err != nil {
		return sm.Result{}, err
	}
	b.idx++
	out, err := b.fsm.Update([]sm.Entry{{Index: b.idx, Cmd: cmd}})
	if err != nil {
		return sm.Result{}, err
	}
	return out[0].Result, nil
}

// proposeBatch commits several proposals the way the Raft group does when they arrive in the
// same step: consecutive indices, ONE Update call.
func (b *lfsmBackend) proposeBatch(ups []kv.Update) ([]sm.Result, error) {
	entries := make([]sm.Entry, len(ups))
	for i, u := range ups {
		cmd, err := json.Marshal(u)
		if err != nil {
			return nil, err
		}
		b.idx++
		entries[i] = sm.Entry{Index: b.idx, Cmd: cmd}
	}
	out, err := b.fsm.Update(entries)
	if err != nil {
		return nil, err
	}
	res := make([]sm.Result, len(out))
	for i := range out {
		res[i] = out[i].Result
	}
	return res, nil
}

// decodeSetResult / decodeDeleteResult map a state machine result the way kv.RaftStore does.
func decodeSetResult(res sm.Result, pair kv.Pair) (kv.Pair, error) {
	if err := json.Unmarshal(res.Data, &pair); err != nil {
		return kv.Pair{}, err
	}
	if res.Value == kv.ResultCodeVersionMismatch {
		return pair, kv.ErrVersionMismatch
	}
	return pair, nil
}

func decodeDeleteResult(res sm.Result) error {
	if res.Value == kv.ResultCodeVersionMismatch {
		return kv.ErrVersionMismatch
	}
	return nil
}

func (b *lfsmBackend) Set(key, value string, ver uint64) (kv.Pair, error) {
	pair := kv.Pair{Key: key, Value: value, Ver: ver}
	res, err := b.propose(kv.Update{Op: kv.UpdateOpSet, KVPair: pair})
	if err != nil {
		return kv.Pair{}, err
	}
	return decodeSetResult(res, pair)
}

func (b *lfsmBackend) Delete(key string, ver uint64) error {
	res, err := b.propose(kv.Update{Op: kv.UpdateOpDelete, KVPair: kv.Pair{Key: key, Ver: ver}})
	if err != nil {
		return err
	}
	return decodeDeleteResult(res)
}

func (b *lfsmBackend) Get(key string) (kv.Pair, error) {
	v, err := b.fsm.Lookup(kv.QueryKey{Key: key})
	if err != nil {
		return kv.Pair{}, err
	}
	return v.(kv.Pair), nil
}

func (b *lfsmBackend) Exists(key string) (bool, error) {
	v, err := b.fsm.Lookup(kv.QueryExist{Key: key})
	if err != nil {
		return false, err
	}
	return v.(bool), nil
}

func (b *lfsmBackend) GetAll(pattern string) ([]kv.Pair, error) {
	v, err := b.fsm.Lookup(kv.QueryAll{Pattern: pattern})
	if err != nil {
		return nil, err
	}
	return v.([]kv.Pair), nil
}

// script[i] = calls of node i+1, in order.
type script [][]int

func (s script) String() string {
	var b strings.Builder
	for i, calls := range s {
		if i > 0 {
			b.WriteByte(' ')
		}
		fmt.Fprintf(&b, "n%d[", i+1)
		for j, c := range calls {
			if j > 0 {
				b.WriteByte(' ')
			}
			b.WriteString(callNames[c])
		}
		b.WriteByte(']')
	}
	return b.String()
}

// bound is the number of interleavings if every call made two store operations.
func (s script) bound() float64 {
	total := 0
	b := 1.0
	for _, calls := range s {
		k := 2 * len(calls)
		for j := 1; j <= k; j++ {
			total++
			b = b * float64(total) / float64(j)
		}
	}
	return b
}

type event struct {
	node int
	op   int
	done bool
}

type runCtx struct {
	events chan event
	grants []chan struct{}
	abort  chan struct{}
}

func (rc *runCtx) gate(idx, op int) {
	select {
	case rc.events <- event{node: idx, op: op}:
	case <-rc.abort:
		return
	}
	select {
	case <-rc.grants[idx]:
	case <-rc.abort:
	}
}

// watchdogs counts schedules that did not finish; after a few of them the exploration stops
// scheduling new work (every further schedule would wait for the watchdog again).
var watchdogs atomic.Int64

const maxWatchdogs = 3

const (
	runOK = iota
	runWatchdog
	runDiverged // a forced choice (prefix / replay) named an operation that is not parked
)

type runResult struct {
	status   int
	choices  []int   // index into the option list, per decision
	nopts    []int   // number of options, per decision
	picks    [][]int // clients released per decision (one, or an ordered batch of writers)
	trace    []step
	outcomes [][]byte // per node, per call: outcome code of the return value
	viol     []violation
	unsure   []string
	overlap  bool
}

func (rr *runResult) sig() string {
	b := make([]byte, 0, 3*len(rr.trace))
	for _, s := range rr.trace {
		x := s.sig()
		b = append(b, x[:]...)
	}
	return string(b)
}

func (rr *runResult) schedule() [][]int {
	out := make([][]int, len(rr.picks))
	for i, p := range rr.picks {
		out[i] = append([]int{}, p...)
	}
	return out
}

func (rr *runResult) steps() []string {
	out := make([]string, len(rr.trace))
	for i, s := range rr.trace {
		out[i] = s.String()
	}
	return out
}

// outcomeKey is the compact return-value vector; renderOutcomes makes it readable.
func (rr *runResult) outcomeKey() string {
	b := make([]byte, 0, 12)
	for i, o := range rr.outcomes {
		if i > 0 {
			b = append(b, '|')
		}
		b = append(b, o...)
	}
	return string(b)
}

func renderOutcomes(key string) string {
	var b strings.Builder
	for i, part := range strings.Split(key, "|") {
		if i > 0 {
			b.WriteByte(' ')
		}
		fmt.Fprintf(&b, "n%d[", i+1)
		for j := 0; j < len(part); j++ {
			if j > 0 {
				b.WriteByte(' ')
			}
			b.WriteString(renderOutcome(part[j]))
		}
		b.WriteByte(']')
	}
	return b.String()
}

func (rr *runResult) outcomeString() string { return renderOutcomes(rr.outcomeKey()) }

// worker owns one set of real managers. table.NewManager starts GOMAXPROCS table-cache
// goroutines that are never released, so managers are created once per worker, not per
// schedule; LeaseTable/ReturnTable keep no state in the manager (re-execution of a prefix is
// checked to reach the same choice points, which would expose hidden state).
type worker struct {
	mgrs []*table.Manager
	cls  []*client
	st   *stats
}

const maxNodes = 3

func newWorker() *worker {
	w := &worker{st: newStats()}
	w.fresh()
	return w
}

func (w *worker) fresh() {
	w.mgrs, w.cls = nil, nil
	for i := 0; i < maxNodes; i++ {
		cl := &client{idx: i + 1, node: uint64(i + 1)}
		w.cls = append(w.cls, cl)
		w.mgrs = append(w.mgrs, table.NewManager(nil, nil, cl, mgrConfig(uint64(i+1))))
	}
}

// mgrConfig: only NodeID matters for Lease/Return; the cache sizes just have to be accepted by pebble.
func mgrConfig(node uint64) table.Config {
	return table.Config{NodeID: node, Table: table.TableConfig{TableCacheSize: 64, BlockCacheSize: 1 << 20}}
}

const tableName = "t"

var tableKey = leaseKey(tableName)

func doCall(mgr *table.Manager, cl *client, kind int, tbl, key string) byte {
	cl.beginCall(kind, key)
	var (
		ok  bool
		err error
	)
	switch kind {
	case cLeaseLong:
		err = mgr.LeaseTable(tbl, time.Hour)
	case cLeaseExp:
		err = mgr.LeaseTable(tbl, -time.Hour)
	case cReturn:
		ok, err = mgr.ReturnTable(tbl)
	}
	return cl.endCall(ok, err)
}

// orderedSubsets lists every ordered selection of at least two elements of ws.
func orderedSubsets(ws []int) [][]int {
	var out [][]int
	var rec func(cur []int, used uint)
	rec = func(cur []int, used uint) {
		if len(cur) >= 2 {
			out = append(out, append([]int{}, cur...))
		}
		for i, x := range ws {
			if used&(1<<uint(i)) == 0 {
				rec(append(cur, x), used|1<<uint(i))
			}
		}
	}
	rec(nil, 0)
	return out
}

// run executes one schedule of sc. At every decision the options are: release one parked
// operation (clients ascending), and - with batch - commit two or more parked lease WRITES, in
// any order, as one batch (consecutive log indices, ONE Update call of the state machine: what
// the Raft group does with proposals that arrive together). choose returns the index of the
// option to take, or -1 to give up (divergence).
func (w *worker) run(sc script, batch bool, choose func(depth int, opts [][]int) int) *runResult {
	n := len(sc)
	rc := &runCtx{events: make(chan event), abort: make(chan struct{}), grants: make([]chan struct{}, n+1)}
	mon := newMonitor(newLFSMBackend(), w.st, true)
	mon.trace = make([]step, 0, 4*len(sc[0])*n)
	rr := &runResult{outcomes: make([][]byte, n)}
	for i := 0; i < n; i++ {
		rc.grants[i+1] = make(chan struct{})
		cl := w.cls[i]
		cl.m, cl.cur, cl.pw, cl.gate = mon, nil, nil, rc.gate
	}
	for i := 0; i < n; i++ {
		// mgr/cl are captured here: after a watchdog the worker gets fresh ones while the
		// abandoned goroutines finish (or stay stuck) on the old ones
		go func(i int, mgr *table.Manager, cl *client) {
			for _, kind := range sc[i] {
				rr.outcomes[i] = append(rr.outcomes[i], doCall(mgr, cl, kind, tableName, tableKey))
			}
			select {
			case rc.events <- event{node: i + 1, done: true}:
			case <-rc.abort:
			}
		}(i, w.mgrs[i], w.cls[i])
	}
	timer := time.NewTimer(20 * time.Second) // generous watchdog: a schedule takes microseconds
	defer timer.Stop()
	const (
		sRunning = iota
		sParked
		sDone
	)
	state := make([]int, n+1)
	giveUp := func(status int) *runResult {
		if status == runWatchdog {
			watchdogs.Add(1)
		}
		close(rc.abort) // everything still parked free-runs to completion; results are discarded
		w.fresh()       // the old managers/clients may still be in use by those goroutines
		// rr may still be written by those goroutines: hand back a fresh result
		return &runResult{status: status}
	}
	recv := func(want int) bool {
		select {
		case e := <-rc.events:
			if want != 0 && e.node != want {
				return false
			}
			if e.done {
				state[e.node] = sDone
			} else {
				state[e.node] = sParked
			}
			return true
		case <-timer.C:
			return false
		}
	}
	for k := 0; k < n; k++ {
		if !recv(0) {
			return giveUp(runWatchdog)
		}
	}
	singles := make([][]int, n+1)
	for i := 1; i <= n; i++ {
		singles[i] = []int{i}
	}
	opts := make([][]int, 0, n)
	var writers []int
	grp := uint8(0)
	for depth := 0; ; depth++ {
		opts, writers = opts[:0], writers[:0]
		for i := 1; i <= n; i++ {
			if state[i] == sParked {
				opts = append(opts, singles[i])
				if batch && w.cls[i-1].pw != nil {
					writers = append(writers, i)
				}
			}
		}
		if len(opts) == 0 {
			break
		}
		if len(writers) >= 2 {
			opts = append(opts, orderedSubsets(writers)...)
		}
		ci := choose(depth, opts)
		if ci < 0 || ci >= len(opts) {
			return giveUp(runDiverged)
		}
		pick := opts[ci]
		rr.choices = append(rr.choices, ci)
		rr.nopts = append(rr.nopts, len(opts))
		rr.picks = append(rr.picks, pick)
		if len(pick) > 1 {
			// group commit: the scheduler proposes the parked writes itself, in one batch; the
			// writers are then released one by one and find their results
			grp++
			cls := make([]*client, len(pick))
			for k, node := range pick {
				cls[k] = w.cls[node-1]
			}
			mon.commitBatch(cls, grp)
		}
		for _, node := range pick {
			state[node] = sRunning
			select {
			case rc.grants[node] <- struct{}{}:
			case <-timer.C:
				return giveUp(runWatchdog)
			}
			if !recv(node) {
				return giveUp(runWatchdog)
			}
		}
	}
	mon.finalCheck()
	rr.trace = mon.trace
	rr.viol = mon.viol
	rr.unsure = mon.inconclusive
	rr.overlap = mon.overlap
	return rr
}

// found is one violating schedule kept as a witness.
type found struct {
	violation
	Script   string   `json:"script"`
	Calls    script   `json:"calls"`
	Schedule [][]int  `json:"schedule"` // clients released at each decision (several = one batch)
	Steps    []string `json:"steps"`
	Outcomes string   `json:"return_values"`
}

type scriptReport struct {
	Family     string
	Sc         script
	ScStr      string
	Schedules  int64
	Exhaustive bool
	Nontrivial int64            // schedules with overlapping read→write windows
	Distinct   int64            // distinct interleaving signatures
	Outcomes   map[string]int64 // return-value vectors seen → schedules
	Found      []found          // first violating schedule per signature
	ViolCount  map[string]int64
	Unsure     []string
	Sample     map[string]any
	MaxDepth   int

	sampleScore int
}

func (rep *scriptReport) account(rr *runResult, ntKey func(string)) {
	rep.Schedules++
	if len(rr.trace) > rep.MaxDepth {
		rep.MaxDepth = len(rr.trace)
	}
	o := rr.outcomeKey()
	rep.Outcomes[o]++
	if rr.overlap {
		rep.Nontrivial++
		if ntKey != nil {
			ntKey(rep.ScStr + "|" + rr.sig())
		}
		// keep the most contended overlapping schedule as the script's sample
		score := 1
		for _, s := range rr.trace {
			if s.res == resMismatch {
				score += 2
			} else if s.op != opGet {
				score++
			}
		}
		if score > rep.sampleScore {
			rep.sampleScore = score
			rep.Sample = map[string]any{"script": rep.ScStr, "schedule": rr.steps(), "return_values": renderOutcomes(o)}
		}
	}
	for _, v := range rr.viol {
		if rep.ViolCount[v.Sig] == 0 {
			rep.Found = append(rep.Found, found{violation: v, Script: rep.ScStr, Calls: rep.Sc,
				Schedule: rr.schedule(), Steps: rr.steps(), Outcomes: renderOutcomes(o)})
		}
		rep.ViolCount[v.Sig]++
	}
	for _, u := range rr.unsure {
		if len(rep.Unsure) < 5 {
			rep.Unsure = append(rep.Unsure, u)
		}
	}
}

// subtrees lists the choice prefixes of length depth (or shorter, for schedules that end
// earlier) that partition the schedule tree of sc, so that one script can be enumerated by
// several workers. The discovery runs are not counted anywhere.
func (w *worker) subtrees(sc script, batch bool, depth int) ([][]int, bool) {
	saved := w.st
	w.st = newStats()
	defer func() { w.st = saved }()
	var out [][]int
	ok := true
	var rec func(p []int)
	rec = func(p []int) {
		if !ok {
			return
		}
		if len(p) == depth {
			out = append(out, append([]int{}, p...))
			return
		}
		rr := w.run(sc, batch, func(d int, opts [][]int) int {
			if d < len(p) {
				return p[d]
			}
			return 0
		})
		if rr.status != runOK {
			ok = false
			return
		}
		if len(rr.nopts) <= len(p) {
			out = append(out, append([]int{}, p...))
			return
		}
		for c := 0; c < rr.nopts[len(p)]; c++ {
			rec(append(append([]int{}, p...), c))
		}
	}
	rec(nil)
	return out, ok
}

func (rep *scriptReport) merge(o *scriptReport) {
	rep.Schedules += o.Schedules
	rep.Nontrivial += o.Nontrivial
	rep.Distinct += o.Distinct
	rep.Exhaustive = rep.Exhaustive && o.Exhaustive
	if o.MaxDepth > rep.MaxDepth {
		rep.MaxDepth = o.MaxDepth
	}
	for k, v := range o.Outcomes {
		rep.Outcomes[k] += v
	}
	for _, f := range o.Found {
		if rep.ViolCount[f.Sig] == 0 {
			dup := false
			for _, g := range rep.Found {
				dup = dup || g.Sig == f.Sig
			}
			if !dup {
				rep.Found = append(rep.Found, f)
			}
		}
	}
	for k, v := range o.ViolCount {
		rep.ViolCount[k] += v
	}
	rep.Unsure = append(rep.Unsure, o.Unsure...)
	if o.sampleScore > rep.sampleScore {
		rep.Sample, rep.sampleScore = o.Sample, o.sampleScore
	}
}

func newReport(family string, sc script, exhaustive bool) *scriptReport {
	return &scriptReport{Family: family, Sc: sc, ScStr: sc.String(), Exhaustive: exhaustive, Outcomes: map[string]int64{}, ViolCount: map[string]int64{}}
}

// exploreDFS enumerates every schedule of sc that starts with the choices in fixed
// (fixed = nil: the whole tree).
// budget is shared by all subtree jobs of the script and starts at the combinatorial bound
// (two store operations per call): a tree that turns out larger is not what the sizes were
// planned for (e.g. a changed LeaseTable making three store operations) and is cut there.
func (w *worker) exploreDFS(family string, sc script, batch bool, fixed []int, budget *atomic.Int64, ntKey func(string)) *scriptReport {
	rep := newReport(family, sc, true)
	prefix := append([]int{}, fixed...)
	for {
		p := prefix
		rr := w.run(sc, batch, func(depth int, opts [][]int) int {
			if depth < len(p) {
				return p[depth] // out of range ⇒ divergence, detected by run
			}
			return 0
		})
		if rr.status != runOK {
			rep.Exhaustive = false
			why := "watchdog fired"
			if rr.status == runDiverged {
				why = "re-execution of a schedule prefix reached a different set of parked operations (hidden state?)"
			}
			rep.Unsure = append(rep.Unsure, fmt.Sprintf("%s: %s after %d schedules", sc, why, rep.Schedules))
			return rep
		}
		if left := budget.Add(-1); left < 0 {
			rep.Exhaustive = false
			if left == -1 {
				rep.Unsure = append(rep.Unsure, fmt.Sprintf("%s: more schedules than planned for (bound %.0f at two store operations per call; do calls make more?); enumeration cut", sc, sc.bound()))
			}
			return rep
		}
		rep.account(rr, ntKey)
		d := len(rr.choices) - 1
		for d >= len(fixed) && rr.choices[d]+1 >= rr.nopts[d] {
			d--
		}
		if d < len(fixed) {
			break
		}
		prefix = append(append(prefix[:0:0], rr.choices[:d]...), rr.choices[d]+1)
	}
	rep.Distinct = rep.Schedules // every leaf of the choice tree is a different interleaving
	return rep
}

// exploreWalks samples walks random schedules of sc (uniform choice at every decision).
func (w *worker) exploreWalks(family string, sc script, batch bool, seed int64, walks int, ntKey func(string)) *scriptReport {
	rep := newReport(family, sc, false)
	rng := rand.New(rand.NewSource(seed))
	seen := map[string]struct{}{}
	for k := 0; k < walks; k++ {
		rr := w.run(sc, batch, func(depth int, opts [][]int) int { return rng.Intn(len(opts)) })
		if rr.status != runOK {
			rep.Unsure = append(rep.Unsure, fmt.Sprintf("%s: watchdog fired in walk %d", sc, k))
			return rep
		}
		rep.account(rr, ntKey)
		seen[rr.sig()] = struct{}{}
	}
	rep.Distinct = int64(len(seen))
	return rep
}

// replaySchedule forces the recorded sequence of releases.
func (w *worker) replaySchedule(sc script, schedule [][]int) *runResult {
	batch := false
	for _, p := range schedule {
		batch = batch || len(p) > 1
	}
	return w.run(sc, batch, func(depth int, opts [][]int) int {
		if depth >= len(schedule) {
			return 0
		}
		for i, o := range opts {
			if fmt.Sprint(o) == fmt.Sprint(schedule[depth]) {
				return i
			}
		}
		return -1
	})
}
