package main

// Part 3: the metadata store as it really is on a follower cluster - THREE replicas of the real
// kv.LFSM fed from one agreed, ordered log, each table.Manager reading from its LOCAL replica
// (kv.RaftStore reads are stale reads of the local state machine) and being told the result its
// LOCAL replica computed for its proposal (that is what dragonboat reports to the proposer).
// Replicas may lag, be away, be restarted, and - after the log was compacted past their position
// - are caught up BY SNAPSHOT: PrepareSnapshot/SaveSnapshot on an up-to-date replica,
// RecoverFromSnapshot on the live state machine of the lagging one, then the remaining entries,
// as dragonboat does for a lagging member.
//
// Calls are atomic here (one node at a time; the interleavings of reads and writes are parts 1
// and 2); the non-determinism explored is where each replica stands when a node asks.
//
// Oracle: a fourth LFSM applies every entry of the agreed log, one by one, and is never
// snapshotted: "the record as seen by the agreed log". A lease write a node is told succeeded
// must have been over an absent / own / expired record there; at most one node believes it
// holds an unexpired lease; a replica that applied a prefix of the log (by entries or by
// snapshot) holds exactly the records the agreed log has at that index.

import (
	"bytes"
	"encoding/json"
	"errors"
	"fmt"
	"math/rand"
	"runtime"
	"strings"
	"sync"
	"time"

	serrors "github.com/jamf/regatta/storage/errors"
	"github.com/jamf/regatta/storage/kv"
	"github.com/jamf/regatta/storage/table"
	sm "github.com/lni/dragonboat/v4/statemachine"

	"verifharness/internal/ev"
)

const (
	rLive    = iota // applies every entry as soon as it is committed
	rLagging        // applies only when its own node proposes, or on "sync"
	rDown           // node away: applies nothing, its manager makes no calls
)

type repl struct {
	fsm      sm.IConcurrentStateMachine
	applied  uint64
	mode     int
	diverged bool
	ownSnap  []byte // the last snapshot this replica installed (what a restart recovers from)
	ownSnapI uint64
}

type rEntry struct {
	idx uint64
	cmd []byte
}

// step kinds of a scenario
const (
	sCall = iota
	sDown
	sLag
	sResume  // back / live again: catches up (by snapshot if the log was compacted past it)
	sRestart // process restart: fresh state machine, own snapshot + own log replayed, then as resume
	sSnapshot
	sSync // every replica that is not down applies everything
)

type rstep struct {
	kind int
	node int // 1..3 (call: the calling node; down/lag/resume/restart: the replica)
	call int // cLeaseLong / cLeaseExp / cReturn
}

func (s rstep) String() string {
	switch s.kind {
	case sCall:
		return fmt.Sprintf("n%d:%s", s.node, callNames[s.call])
	case sDown:
		return fmt.Sprintf("down r%d", s.node)
	case sLag:
		return fmt.Sprintf("lag r%d", s.node)
	case sResume:
		return fmt.Sprintf("resume r%d", s.node)
	case sRestart:
		return fmt.Sprintf("restart r%d", s.node)
	case sSnapshot:
		return "snapshot+compact"
	}
	return "sync"
}

func parseRStep(t string) (rstep, bool) {
	var n int
	switch {
	case t == "snapshot+compact":
		return rstep{kind: sSnapshot}, true
	case t == "sync":
		return rstep{kind: sSync}, true
	case strings.HasPrefix(t, "n") && strings.Contains(t, ":"):
		var c string
		if _, err := fmt.Sscanf(t, "n%d:%s", &n, &c); err != nil {
			return rstep{}, false
		}
		for k, name := range callNames {
			if name == c {
				return rstep{kind: sCall, node: n, call: k}, n >= 1 && n <= 3
			}
		}
		return rstep{}, false
	}
	for kind, word := range map[int]string{sDown: "down", sLag: "lag", sResume: "resume", sRestart: "restart"} {
		if _, err := fmt.Sscanf(t, word+" r%d", &n); err == nil {
			return rstep{kind: kind, node: n}, n >= 1 && n <= 3
		}
	}
	return rstep{}, false
}

// rcluster is one scenario's state.
type rcluster struct {
	t0        time.Time
	reps      [4]*repl // 1..3
	ref       sm.IConcurrentStateMachine
	log       []rEntry // full archive; log[k].idx = logBase+1+k
	last      uint64
	compacted uint64 // entries <= compacted are no longer available to a lagging replica
	snap      []byte
	snapIdx   uint64
	hist      map[uint64]string // index -> content of the agreed store after that entry

	holder uint64 // node that was told its Lease(+1h) succeeded and has not given it up since
	viol   []violation
	unsure []string
	trace  []string
	st     *stats

	// call in flight
	curNode  int
	curRead  string
	curSetOK int
	curDelOK int

	snapCatchups      int
	snapOverDifferent int // snapshot installed on a replica whose lease record differed from the snapshot's
}

const logBase = 2

func newRCluster(st *stats) *rcluster {
	c := &rcluster{t0: time.Now(), ref: kv.NewLFSM()(1, 9), last: logBase, hist: map[uint64]string{logBase: ""}, st: st}
	for i := 1; i <= 3; i++ {
		c.reps[i] = &repl{fsm: kv.NewLFSM()(1, uint64(i)), applied: logBase}
	}
	return c
}

func (c *rcluster) violate(sig, format string, a ...any) {
	c.viol = append(c.viol, violation{Sig: sig, What: fmt.Sprintf(format, a...), At: len(c.trace)})
}

func dumpFSM(f sm.IConcurrentStateMachine) string {
	v, err := f.Lookup(kv.QueryAll{Pattern: "/tables/*/*"})
	if err != nil {
		return "lookup error: " + err.Error()
	}
	var b strings.Builder
	for _, p := range v.([]kv.Pair) {
		fmt.Fprintf(&b, "%s=%s@v%d;", p.Key, p.Value, p.Ver)
	}
	return b.String()
}

func (c *rcluster) recOf(f sm.IConcurrentStateMachine, key string) rec {
	v, err := f.Lookup(kv.QueryKey{Key: key})
	if err != nil {
		return rec{}
	}
	p := v.(kv.Pair)
	var l table.Lease
	if json.Unmarshal([]byte(p.Value), &l) != nil {
		return rec{present: true, ver: p.Ver, bad: true, kind: kAmbig}
	}
	r := rec{present: true, ver: p.Ver, owner: l.ID, kind: kAmbig}
	switch d := l.Until.Sub(c.t0); {
	case d > 30*time.Minute:
		r.kind = kLive
	case d < -30*time.Minute:
		r.kind = kExpired
	}
	return r
}

// check compares replica r (which has applied exactly the prefix up to rep.applied) with the
// agreed log at that index.
func (c *rcluster) check(r int, how string) {
	rep := c.reps[r]
	if rep.diverged {
		return
	}
	want, ok := c.hist[rep.applied]
	if !ok {
		return
	}
	if got := dumpFSM(rep.fsm); got != want {
		rep.diverged = true
		c.violate("replicas:replica-differs-from-agreed-log:"+how,
			"replica %d has applied the log up to index %d (%s) and holds {%s}; the agreed log at that index has {%s}", r, rep.applied, how, got, want)
	}
}

// catchUp brings replica r to index upto the way dragonboat would: a snapshot if the entries it
// needs were compacted away, then the remaining entries in one apply batch. It returns the
// result the replica computed for entry upto.
func (c *rcluster) catchUp(r int, upto uint64) (sm.Result, error) {
	rep := c.reps[r]
	var res sm.Result
	if rep.applied >= upto {
		return res, nil
	}
	if rep.applied < c.compacted {
		before := c.recOf(rep.fsm, tableKey)
		if err := rep.fsm.RecoverFromSnapshot(bytes.NewReader(c.snap), nil, nil); err != nil {
			return res, err
		}
		rep.applied, rep.ownSnap, rep.ownSnapI = c.snapIdx, c.snap, c.snapIdx
		c.snapCatchups++
		c.st.add("replicas_snapshot_catchups", 1)
		after := c.recOf(rep.fsm, tableKey)
		if before.present != after.present || before.ver != after.ver {
			c.snapOverDifferent++
		}
		c.trace = append(c.trace, fmt.Sprintf("  r%d caught up by snapshot@%d (lease record before: %s, after: %s)", r, c.snapIdx, before, after))
		c.check(r, "after-snapshot-catch-up")
	}
	if rep.applied < upto {
		var batch []sm.Entry
		for i := rep.applied + 1; i <= upto; i++ {
			batch = append(batch, sm.Entry{Index: i, Cmd: c.log[i-logBase-1].cmd})
		}
		out, err := rep.fsm.Update(batch)
		if err != nil {
			return res, err
		}
		res = out[len(out)-1].Result
		rep.applied = upto
		c.st.add("replicas_log_catchups", 1)
		c.check(r, "after-log-catch-up")
	}
	return res, nil
}

// propose appends the proposal of node to the agreed log and returns what node is told.
func (c *rcluster) propose(node int, u kv.Update) (sm.Result, error) {
	cmd, err := json.Marshal(u)
	if err != nil {
		return sm.Result{}, err
	}
	// the proposer's replica applies everything before its own entry first (separate batch: those
	// entries were committed earlier)
	if _, err := c.catchUp(node, c.last); err != nil {
		return sm.Result{}, err
	}
	c.last++
	idx := c.last
	c.log = append(c.log, rEntry{idx: idx, cmd: cmd})
	key := u.KVPair.Key
	before := c.recOf(c.ref, key)
	out, err := c.ref.Update([]sm.Entry{{Index: idx, Cmd: cmd}})
	if err != nil {
		return sm.Result{}, err
	}
	agreed := out[0].Result
	c.hist[idx] = dumpFSM(c.ref)
	told, err := c.catchUp(node, idx)
	if err != nil {
		return sm.Result{}, err
	}
	for r := 1; r <= 3; r++ {
		if r != node && c.reps[r].mode == rLive {
			if _, err := c.catchUp(r, idx); err != nil {
				return sm.Result{}, err
			}
		}
	}
	if isLeaseKey(key) {
		c.judge(node, u, idx, before, told, agreed)
	}
	return told, nil
}

func resName(v uint64) string {
	if v == kv.ResultCodeVersionMismatch {
		return "version-mismatch"
	}
	return "ok"
}

func (c *rcluster) judge(node int, u kv.Update, idx uint64, before rec, told, agreed sm.Result) {
	n := uint64(node)
	c.trace = append(c.trace, fmt.Sprintf("  n%d:%s(v%d)@%d: replica %d says %s, agreed log (record before: %s) says %s",
		node, u.Op, u.KVPair.Ver, idx, node, resName(told.Value), before, resName(agreed.Value)))
	if told.Value != agreed.Value {
		c.st.add("replicas_told_differs_from_agreed", 1)
	}
	if told.Value == kv.ResultCodeVersionMismatch {
		c.st.add("replicas_cas_rejected", 1)
		return
	}
	if u.Op == kv.UpdateOpDelete {
		c.curDelOK++
		if agreed.Value == kv.ResultCodeSuccess && before.present && before.owner != n {
			c.violate("replicas:return-removed-foreign-lease", "n%d's delete (version %d) removed the record %s of the agreed log, a lease owned by another node", node, u.KVPair.Ver, before)
		}
		if c.holder == n {
			c.holder = 0
		}
		c.st.add("replicas_return_ok", 1)
		return
	}
	// node is told its lease write succeeded
	c.curSetOK++
	var l table.Lease
	_ = json.Unmarshal([]byte(u.KVPair.Value), &l)
	kind := kAmbig
	switch d := l.Until.Sub(c.t0); {
	case d > 30*time.Minute:
		kind = kLive
	case d < -30*time.Minute:
		kind = kExpired
	}
	if kind == kAmbig || before.present && before.kind == kAmbig {
		c.unsure = append(c.unsure, "lease record with ambiguous expiry")
		return
	}
	if agreed.Value != kv.ResultCodeSuccess {
		c.violate("replicas:lease-granted-against-agreed-log",
			"n%d is told its lease write (version %d, it had read %s from its replica) succeeded, but the agreed log rejected it: the record there was %s",
			node, u.KVPair.Ver, c.curRead, before)
	}
	if before.present && before.owner != n && before.kind == kLive {
		c.violate("replicas:lease-write-over-live-foreign-lease",
			"n%d is told its lease write (version %d, it had read %s from its replica) succeeded while the record of the agreed log was %s, an unexpired lease of another node",
			node, u.KVPair.Ver, c.curRead, before)
	}
	if c.holder != 0 && c.holder != n {
		c.violate("replicas:two-unexpired-holders",
			"n%d is told its lease request succeeded while n%d had been told the same for Lease(+1h) and has not returned the table since (agreed record before: %s)",
			node, c.holder, before)
	}
	switch {
	case !before.present:
		c.st.add("replicas_lease_ok_unclaimed", 1)
	case before.owner == n:
		c.st.add("replicas_lease_ok_renew_own", 1)
	default:
		c.st.add("replicas_lease_ok_takeover_expired", 1)
	}
	if kind == kLive {
		c.holder = n
	} else {
		c.holder = 0
	}
}

func (c *rcluster) snapshot() {
	// the leader is up to date; take the lowest replica that is not down
	src := 0
	for r := 1; r <= 3; r++ {
		if c.reps[r].mode != rDown {
			src = r
			break
		}
	}
	if src == 0 {
		return
	}
	if _, err := c.catchUp(src, c.last); err != nil {
		c.unsure = append(c.unsure, "catch-up failed: "+err.Error())
		return
	}
	rep := c.reps[src]
	ctx, err := rep.fsm.PrepareSnapshot()
	if err != nil {
		c.unsure = append(c.unsure, "PrepareSnapshot: "+err.Error())
		return
	}
	var buf bytes.Buffer
	if err := rep.fsm.SaveSnapshot(ctx, &buf, nil, nil); err != nil {
		c.unsure = append(c.unsure, "SaveSnapshot: "+err.Error())
		return
	}
	c.snap, c.snapIdx, c.compacted = buf.Bytes(), rep.applied, rep.applied
	rep.ownSnap, rep.ownSnapI = c.snap, c.snapIdx
	c.st.add("replicas_snapshots", 1)
	c.trace = append(c.trace, fmt.Sprintf("  snapshot by r%d at index %d, log compacted up to it", src, c.snapIdx))
}

// restart: the node's process starts again: a fresh state machine recovers from the replica's
// own last snapshot and replays its own log up to where it was.
func (c *rcluster) restart(r int) {
	old := c.reps[r]
	rep := &repl{fsm: kv.NewLFSM()(1, uint64(r)), applied: logBase, ownSnap: old.ownSnap, ownSnapI: old.ownSnapI, diverged: old.diverged}
	if rep.ownSnap != nil {
		if err := rep.fsm.RecoverFromSnapshot(bytes.NewReader(rep.ownSnap), nil, nil); err != nil {
			c.unsure = append(c.unsure, "restart: RecoverFromSnapshot: "+err.Error())
		}
		rep.applied = rep.ownSnapI
	}
	if rep.applied < old.applied {
		var batch []sm.Entry
		for i := rep.applied + 1; i <= old.applied; i++ {
			batch = append(batch, sm.Entry{Index: i, Cmd: c.log[i-logBase-1].cmd})
		}
		if _, err := rep.fsm.Update(batch); err != nil {
			c.unsure = append(c.unsure, "restart: replay: "+err.Error())
		}
		rep.applied = old.applied
	}
	c.reps[r] = rep
	c.check(r, "after-restart-replay")
}

// rstore is the store of one manager: reads its node's replica, proposes to the agreed log.
type rstore struct {
	node int
	w    *rworker
}

func (s *rstore) Get(key string) (kv.Pair, error) {
	c := s.w.cur
	v, err := c.reps[s.node].fsm.Lookup(kv.QueryKey{Key: key})
	if isLeaseKey(key) {
		c.curRead = c.recOf(c.reps[s.node].fsm, key).String()
		c.trace = append(c.trace, fmt.Sprintf("  n%d:get from replica %d (applied %d of %d) = %s", s.node, s.node, c.reps[s.node].applied, c.last, c.curRead))
	}
	if err != nil {
		return kv.Pair{}, err
	}
	return v.(kv.Pair), nil
}

func (s *rstore) Exists(key string) (bool, error) {
	v, err := s.w.cur.reps[s.node].fsm.Lookup(kv.QueryExist{Key: key})
	if err != nil {
		return false, err
	}
	return v.(bool), nil
}

func (s *rstore) GetAll(pattern string) ([]kv.Pair, error) {
	v, err := s.w.cur.reps[s.node].fsm.Lookup(kv.QueryAll{Pattern: pattern})
	if err != nil {
		return nil, err
	}
	return v.([]kv.Pair), nil
}

func (s *rstore) Set(key, value string, ver uint64) (kv.Pair, error) {
	pair := kv.Pair{Key: key, Value: value, Ver: ver}
	res, err := s.w.cur.propose(s.node, kv.Update{Op: kv.UpdateOpSet, KVPair: pair})
	if err != nil {
		return kv.Pair{}, err
	}
	return decodeSetResult(res, pair)
}

func (s *rstore) Delete(key string, ver uint64) error {
	res, err := s.w.cur.propose(s.node, kv.Update{Op: kv.UpdateOpDelete, KVPair: kv.Pair{Key: key, Ver: ver}})
	if err != nil {
		return err
	}
	return decodeDeleteResult(res)
}

type rworker struct {
	mgrs [4]*table.Manager
	cur  *rcluster
	st   *stats
}

func newRWorker() *rworker {
	w := &rworker{st: newStats()}
	for i := 1; i <= 3; i++ {
		w.mgrs[i] = table.NewManager(nil, nil, &rstore{node: i, w: w}, mgrConfig(uint64(i)))
	}
	return w
}

type rresult struct {
	viol     []violation
	unsure   []string
	trace    []string
	outcomes string
	snapOver int
	snaps    int
}

// runScenario executes the steps; steps that make no sense in the current state (a call by a
// node that is down, taking a second node away) are skipped and reported as such in the trace.
func (w *rworker) runScenario(steps []rstep) *rresult {
	c := newRCluster(w.st)
	w.cur = c
	var outs []string
	for _, s := range steps {
		c.trace = append(c.trace, s.String())
		at := len(c.trace) - 1 // the step's own line (sub-steps are appended below it)
		rep := c.reps[s.node%4]
		switch s.kind {
		case sCall:
			if rep.mode == rDown {
				c.trace[at] += " (skipped: node is down)"
				continue
			}
			c.curNode, c.curRead, c.curSetOK, c.curDelOK = s.node, "nothing", 0, 0
			var (
				ok  bool
				err error
			)
			switch s.call {
			case cLeaseLong:
				err = w.mgrs[s.node].LeaseTable(tableName, time.Hour)
			case cLeaseExp:
				err = w.mgrs[s.node].LeaseTable(tableName, -time.Hour)
			case cReturn:
				ok, err = w.mgrs[s.node].ReturnTable(tableName)
			}
			out := "nil"
			switch {
			case err == nil && s.call == cReturn:
				out = fmt.Sprint(ok)
			case err == nil:
			case errors.Is(err, kv.ErrVersionMismatch):
				out = "version-mismatch"
			case errors.Is(err, serrors.ErrLeaseNotAcquired):
				out = "not-acquired"
			default:
				out = "error"
				c.unsure = append(c.unsure, fmt.Sprintf("%s failed unexpectedly: %v", s, err))
			}
			c.trace[at] += " -> " + out
			outs = append(outs, out)
			w.st.add("replicas_calls", 1)
			if s.call != cReturn && err == nil && c.curSetOK == 0 {
				c.violate("replicas:lease-granted-without-successful-write", "%s returned nil although its node was not told that a lease write succeeded (it had read %s)", s, c.curRead)
			}
			if s.call == cReturn && err == nil && ok && c.curDelOK == 0 {
				c.violate("replicas:return-true-without-delete", "%s returned true although its node was not told that a delete succeeded", s)
			}
		case sDown, sLag:
			// keep a majority: at most one replica away at a time
			away := 0
			for r := 1; r <= 3; r++ {
				if r != s.node && c.reps[r].mode == rDown {
					away++
				}
			}
			if s.kind == sDown && away > 0 {
				c.trace[at] += " (skipped: another node is down)"
				continue
			}
			rep.mode = map[int]int{sDown: rDown, sLag: rLagging}[s.kind]
		case sResume, sRestart:
			if s.kind == sRestart {
				c.restart(s.node)
				rep = c.reps[s.node]
			}
			rep.mode = rLive
			if _, err := c.catchUp(s.node, c.last); err != nil {
				c.unsure = append(c.unsure, "catch-up failed: "+err.Error())
			}
		case sSnapshot:
			c.snapshot()
		case sSync:
			for r := 1; r <= 3; r++ {
				if c.reps[r].mode != rDown {
					if _, err := c.catchUp(r, c.last); err != nil {
						c.unsure = append(c.unsure, "catch-up failed: "+err.Error())
					}
				}
			}
		}
	}
	// end: everybody back, same prefix => same records
	for r := 1; r <= 3; r++ {
		c.reps[r].mode = rLive
		if _, err := c.catchUp(r, c.last); err != nil {
			c.unsure = append(c.unsure, "catch-up failed: "+err.Error())
		}
		c.check(r, "at-the-end")
	}
	return &rresult{viol: c.viol, unsure: c.unsure, trace: c.trace, outcomes: strings.Join(outs, ","), snapOver: c.snapOverDifferent, snaps: c.snapCatchups}
}

func stepsToStrings(steps []rstep) []string {
	out := make([]string, len(steps))
	for i, s := range steps {
		out[i] = s.String()
	}
	return out
}

// callSeqs lists every sequence of at most maxLen calls by the given nodes.
func callSeqs(nodes []int, maxLen int) [][]rstep {
	out := [][]rstep{nil}
	level := [][]rstep{nil}
	for l := 1; l <= maxLen; l++ {
		var next [][]rstep
		for _, p := range level {
			for _, n := range nodes {
				for k := 0; k < 3; k++ {
					next = append(next, append(append([]rstep{}, p...), rstep{kind: sCall, node: n, call: k}))
				}
			}
		}
		out = append(out, next...)
		level = next
	}
	return out
}

// structuredScenarios: [calls] , replica L away , [calls by the others] , snapshot+compact or
// not , L back (resume or restart) , [calls]. Exhaustive for the given lengths.
func structuredScenarios(pre, mid, post int) [][]rstep {
	var out [][]rstep
	all := []int{1, 2, 3}
	for l := 1; l <= 3; l++ {
		var others []int
		for _, n := range all {
			if n != l {
				others = append(others, n)
			}
		}
		for _, p := range callSeqs(all, pre) {
			for _, m := range callSeqs(others, mid) {
				for _, snap := range []bool{false, true} {
					for _, back := range []int{sResume, sRestart} {
						for _, q := range callSeqs(all, post) {
							sc := append([]rstep{}, p...)
							sc = append(sc, rstep{kind: sDown, node: l})
							sc = append(sc, m...)
							if snap {
								sc = append(sc, rstep{kind: sSnapshot})
							}
							sc = append(sc, rstep{kind: back, node: l})
							sc = append(sc, q...)
							out = append(out, sc)
						}
					}
				}
			}
		}
	}
	return out
}

// randomScenario: longer seeded mixes (several away/lag/snapshot cycles).
func randomScenario(rng *rand.Rand) []rstep {
	n := 8 + rng.Intn(18)
	sc := make([]rstep, 0, n)
	for len(sc) < n {
		switch x := rng.Intn(100); {
		case x < 62:
			sc = append(sc, rstep{kind: sCall, node: 1 + rng.Intn(3), call: rng.Intn(3)})
		case x < 70:
			sc = append(sc, rstep{kind: sDown, node: 1 + rng.Intn(3)})
		case x < 76:
			sc = append(sc, rstep{kind: sLag, node: 1 + rng.Intn(3)})
		case x < 85:
			sc = append(sc, rstep{kind: sSnapshot})
		case x < 92:
			sc = append(sc, rstep{kind: sResume, node: 1 + rng.Intn(3)})
		case x < 97:
			sc = append(sc, rstep{kind: sRestart, node: 1 + rng.Intn(3)})
		default:
			sc = append(sc, rstep{kind: sSync})
		}
	}
	return sc
}

type replicaWitness struct {
	Mode  string   `json:"mode"`
	Steps []string `json:"steps"`
	Trace []string `json:"trace,omitempty"`
}

// runReplicas explores the scenarios (in parallel) and reports.
func runReplicas(r *ev.Run) {
	var scenarios [][]rstep
	if r.Thorough() {
		scenarios = structuredScenarios(1, 2, 2)
	} else {
		scenarios = structuredScenarios(1, 1, 2)
	}
	nStruct := len(scenarios)
	nRand := r.Pick(4000, 150_000)
	for i := 0; i < nRand; i++ {
		scenarios = append(scenarios, randomScenario(rand.New(rand.NewSource(r.Seed*2_000_003+int64(i)))))
	}
	type hit struct {
		idx int
		v   violation
		res *rresult
	}
	var (
		mu       sync.Mutex
		hits     []hit
		counts   = map[string]int64{}
		total    = newStats()
		unsure   []string
		sample   *rresult
		sampleSc []rstep
		nontriv  int64
	)
	nw := runtime.NumCPU()
	if nw > 16 {
		nw = 16
	}
	var wg sync.WaitGroup
	for wi := 0; wi < nw; wi++ {
		wg.Add(1)
		go func(wi int) {
			defer wg.Done()
			w := newRWorker()
			var myHits []hit
			myCounts := map[string]int64{}
			var myUnsure []string
			var mySample *rresult
			var mySampleSc []rstep
			var myNT int64
			for i := wi; i < len(scenarios); i += nw {
				res := w.runScenario(scenarios[i])
				seen := map[string]bool{}
				for _, v := range res.viol {
					if !seen[v.Sig] {
						seen[v.Sig] = true
						if myCounts[v.Sig] < 3 {
							myHits = append(myHits, hit{i, v, res})
						}
						myCounts[v.Sig]++
					}
				}
				if len(res.unsure) > 0 && len(myUnsure) < 5 {
					myUnsure = append(myUnsure, fmt.Sprintf("replicas scenario %v: %s", stepsToStrings(scenarios[i]), res.unsure[0]))
				}
				if res.snapOver > 0 {
					// non-trivial: a snapshot was installed on a live replica whose lease record
					// differed from the one in the snapshot
					myNT++
					r.Nontrivial("replicas|" + strings.Join(stepsToStrings(scenarios[i]), ","))
					if mySample == nil || len(res.trace) > len(mySample.trace) && len(res.trace) < 40 {
						mySample, mySampleSc = res, scenarios[i]
					}
				}
			}
			mu.Lock()
			hits = append(hits, myHits...)
			for k, v := range myCounts {
				counts[k] += v
			}
			total.merge(w.st)
			unsure = append(unsure, myUnsure...)
			nontriv += myNT
			if mySample != nil && (sample == nil || wi == 0) {
				sample, sampleSc = mySample, mySampleSc
			}
			mu.Unlock()
		}(wi)
	}
	wg.Wait()
	r.Eval(int64(len(scenarios)))
	r.Count("replicas_scenarios", int64(len(scenarios)))
	r.Count("replicas_scenarios_structured", int64(nStruct))
	r.Count("replicas_scenarios_snapshot_over_different_record", nontriv)
	for k, v := range total.c {
		r.Count(k, v)
	}
	for _, u := range unsure {
		r.Inconclusive(u)
	}
	if sample != nil {
		r.Extra("replicas_sample", map[string]any{"steps": stepsToStrings(sampleSc), "trace": sample.trace, "return_values": sample.outcomes})
	}
	// deterministic report order: by scenario index; at most 2 witnesses per signature
	for i := 1; i < len(hits); i++ {
		for j := i; j > 0 && hits[j].idx < hits[j-1].idx; j-- {
			hits[j], hits[j-1] = hits[j-1], hits[j]
		}
	}
	reported := map[string]int{}
	for _, h := range hits {
		if reported[h.v.Sig]++; reported[h.v.Sig] > 2 {
			continue
		}
		steps := stepsToStrings(scenarios[h.idx])
		r.Violation(h.v.Sig, fmt.Sprintf("%s — scenario %v (%d violating scenarios with this signature in this run)", h.v.What, steps, counts[h.v.Sig]),
			replicaWitness{Mode: "replicas", Steps: steps, Trace: h.res.trace})
	}
	for k, v := range counts {
		r.Count("violating_scenarios:"+k, v)
	}
	fmt.Printf("C15 replicated log: scenarios=%d (structured %d, random %d) snapshot catch-ups=%d, over a different record in %d scenarios\n",
		len(scenarios), nStruct, nRand, total.c["replicas_snapshot_catchups"], nontriv)
}

func replayReplicas(r *ev.Run, steps []string) {
	var sc []rstep
	for _, t := range steps {
		s, ok := parseRStep(t)
		if !ok {
			fmt.Println("replay: cannot parse step", t)
			r.Inconclusive("replay: cannot parse step " + t)
			return
		}
		sc = append(sc, s)
	}
	res := newRWorker().runScenario(sc)
	r.Eval(1)
	for _, l := range res.trace {
		fmt.Println("  ", l)
	}
	seen := map[string]bool{}
	for _, v := range res.viol {
		if !seen[v.Sig] {
			seen[v.Sig] = true
			r.Violation(v.Sig, v.What, replicaWitness{Mode: "replicas", Steps: steps, Trace: res.trace})
		}
	}
}
