package main

// Part 4: the lease as the replication WORKER acts upon it. A real leader cluster, a real 3-node
// follower cluster, one real replication.Manager per follower node (the exported entry point: the
// worker and its lease routine are unexported) with a short lease interval; the workers of the
// three nodes compete for the table's lease through the real table.Manager / kv.RaftStore /
// metadata Raft group.
//
// Observed: which node's worker acts as the lease holder = the worker's own flag as it exports
// it (gauge regatta_replication_leased of each node's replication.Manager, set together with
// the flag), plus - as corroboration - which node issues Log/Replicate calls for the table (each
// node's manager gets its own client connection carrying a node header).
//
// Fault: the metadata shard's state machine of every follower node is wrapped (the replica is
// stopped and started again with a delegating wrapper around the real kv.LFSM, through the
// exported NodeHost API); for the node under fault the wrapper makes the Lookup of the lease
// record fail, so that node's LeaseTable returns a non-refusal store error at once while
// everything else (GetTable, the other nodes, the Raft group and its quorum) keeps working. The
// wrapper counts these failed lookups = the failed renewal attempts of that node's worker.
//
// Verdict, on logical evidence (one sampler, program order): [the lease record read from a
// healthy replica names another node B as owner, unexpired] then [the faulted node A has
// completed at least two failed renewal attempts] then [B's worker flag is set] then [A's worker
// flag is still set]. A worker that gives up the lease on a failed renewal can never show this,
// whatever the scheduling: its flag is cleared before the second attempt starts and cannot be
// set again while its renewals fail.

import (
	"context"
	"encoding/json"
	"errors"
	"fmt"
	"strings"
	"sync"
	"sync/atomic"
	"time"

	pb "github.com/jamf/regatta/regattapb"
	"github.com/jamf/regatta/regattaserver"
	"github.com/jamf/regatta/replication"
	"github.com/jamf/regatta/storage/kv"
	"github.com/jamf/regatta/storage/table"
	"github.com/lni/dragonboat/v4"
	"github.com/lni/dragonboat/v4/config"
	sm "github.com/lni/dragonboat/v4/statemachine"
	"github.com/prometheus/client_golang/prometheus"
	dto "github.com/prometheus/client_model/go"
	"go.uber.org/zap"
	"google.golang.org/grpc"
	"google.golang.org/grpc/metadata"

	"verifharness/internal/cluster"
	"verifharness/internal/ev"
)

const (
	metaShard      = 1000 // storage.tableStoreID
	workerTable    = "lease-t"
	nodeHeader     = "x-verif-node"
	wLeaseInterval = 200 * time.Millisecond
	wElectionRTT   = 20
	wRTT           = 10
)

var errInjected = errors.New("verif: injected metadata store failure")

// faultCtl is shared by the wrapped state machines of the follower nodes.
type faultCtl struct {
	faulty [4]atomic.Bool  // node -> lookups of the lease record fail
	fails  [4]atomic.Int64 // node -> failed lookups so far (= failed renewal attempts)
	key    string
}

type faultSM struct {
	sm.IConcurrentStateMachine
	node int
	ctl  *faultCtl
}

func (f *faultSM) Lookup(q interface{}) (interface{}, error) {
	if k, ok := q.(kv.QueryKey); ok && k.Key == f.ctl.key && f.ctl.faulty[f.node].Load() {
		f.ctl.fails[f.node].Add(1)
		return nil, errInjected
	}
	return f.IConcurrentStateMachine.Lookup(q)
}

// wrapMetaShard restarts node's replica of the metadata shard with the wrapper around the real LFSM.
func wrapMetaShard(nh *dragonboat.NodeHost, node int, ctl *faultCtl) error {
	if err := nh.StopShard(metaShard); err != nil {
		return fmt.Errorf("StopShard: %w", err)
	}
	factory := func(shardID, replicaID uint64) sm.IConcurrentStateMachine {
		return &faultSM{IConcurrentStateMachine: kv.NewLFSM()(shardID, replicaID), node: node, ctl: ctl}
	}
	cfg := config.Config{ // kv.kvRaftConfig with the values cluster.nodeConfig gives the metadata shard
		ReplicaID: uint64(node), ShardID: metaShard, CheckQuorum: true, PreVote: true,
		ElectionRTT: wElectionRTT, HeartbeatRTT: 1, OrderedConfigChange: true,
	}
	var err error
	for attempt := 0; attempt < 100; attempt++ {
		if err = nh.StartConcurrentReplica(map[uint64]dragonboat.Target{}, false, factory, cfg); err == nil {
			break
		}
		time.Sleep(20 * time.Millisecond)
	}
	if err != nil {
		return fmt.Errorf("StartConcurrentReplica: %w", err)
	}
	deadline := time.Now().Add(30 * time.Second)
	for time.Now().Before(deadline) {
		if _, _, ok, _ := nh.GetLeaderID(metaShard); ok {
			if _, err := nh.StaleRead(metaShard, kv.QueryExist{Key: "/x"}); err == nil {
				return nil
			}
		}
		time.Sleep(10 * time.Millisecond)
	}
	return errors.New("metadata shard has no leader after the restart")
}

func leasedGauge(m *replication.Manager, tbl string) bool {
	ch := make(chan prometheus.Metric, 64)
	go func() { m.Collect(ch); close(ch) }()
	on := false
	for mt := range ch {
		if !strings.Contains(mt.Desc().String(), "regatta_replication_leased") {
			continue
		}
		var d dto.Metric
		if mt.Write(&d) != nil {
			continue
		}
		for _, l := range d.GetLabel() {
			if l.GetName() == "table" && l.GetValue() == tbl && d.GetGauge().GetValue() == 1 {
				on = true
			}
		}
	}
	return on
}

type workerEnv struct {
	leader    *cluster.Cluster
	stopSrv   func()
	fol       *cluster.Follower
	mgrs      []*replication.Manager
	conns     []*grpc.ClientConn
	ctl       *faultCtl
	calls     [4]atomic.Int64 // Replicate calls for the table per follower node
	closeOnce sync.Once
}

func (w *workerEnv) Close() {
	w.closeOnce.Do(func() {
		for i := range w.ctl.faulty {
			w.ctl.faulty[i].Store(false)
		}
		for _, m := range w.mgrs {
			if m != nil {
				done := make(chan struct{})
				go func(m *replication.Manager) {
					defer close(done)
					defer func() { _ = recover() }()
					m.Close()
				}(m)
				select {
				case <-done:
				case <-time.After(20 * time.Second):
				}
			}
		}
		for _, c := range w.conns {
			_ = c.Close()
		}
		if w.fol != nil {
			w.fol.Close()
		}
		if w.stopSrv != nil {
			w.stopSrv()
		}
		if w.leader != nil {
			w.leader.Close()
		}
	})
}

type tableReq interface{ GetTable() []byte }

type recvSpy struct {
	grpc.ServerStream
	onTable func(string)
}

func (s *recvSpy) RecvMsg(m any) error {
	err := s.ServerStream.RecvMsg(m)
	if err == nil {
		if t, ok := m.(tableReq); ok {
			s.onTable(string(t.GetTable()))
		}
	}
	return err
}

func startWorkerEnv() (*workerEnv, error) {
	env := &workerEnv{ctl: &faultCtl{key: leaseKey(workerTable)}}
	opts := cluster.Opts{Nodes: 1, RTT: wRTT, ElectionRTT: wElectionRTT}
	lc, err := cluster.Start(opts)
	if err != nil {
		return nil, fmt.Errorf("leader cluster: %w", err)
	}
	env.leader = lc
	e := lc.Nodes[0].Engine
	addr, stop, err := cluster.Serve(func(s *grpc.Server) {
		pb.RegisterMetadataServer(s, &regattaserver.MetadataServer{Tables: e})
		pb.RegisterSnapshotServer(s, &regattaserver.SnapshotServer{Tables: e})
		pb.RegisterKVServer(s, &regattaserver.KVServer{Storage: e})
		pb.RegisterLogServer(s, regattaserver.NewLogServer(e, e.LogReader, zap.NewNop(), 4*1024*1024))
	}, grpc.ChainStreamInterceptor(func(srv any, ss grpc.ServerStream, info *grpc.StreamServerInfo, h grpc.StreamHandler) error {
		if info.FullMethod == "/replication.v1.Log/Replicate" {
			node := 0
			if md, ok := metadata.FromIncomingContext(ss.Context()); ok {
				if v := md.Get(nodeHeader); len(v) == 1 {
					_, _ = fmt.Sscanf(v[0], "%d", &node)
				}
			}
			if node >= 1 && node <= 3 {
				return h(srv, &recvSpy{ServerStream: ss, onTable: func(t string) {
					if t == workerTable {
						env.calls[node].Add(1)
					}
				}})
			}
		}
		return h(srv, ss)
	}))
	if err != nil {
		env.Close()
		return nil, fmt.Errorf("replication endpoint: %w", err)
	}
	env.stopSrv = stop
	fol, err := cluster.StartFollower(addr, cluster.FollowerOpts{Opts: cluster.Opts{Nodes: 3, RTT: wRTT, ElectionRTT: wElectionRTT}, NoManager: true})
	if err != nil {
		env.Close()
		return nil, fmt.Errorf("follower cluster: %w", err)
	}
	env.fol = fol
	for i, n := range fol.Nodes {
		if err := wrapMetaShard(n.Engine.NodeHost, i+1, env.ctl); err != nil {
			env.Close()
			return nil, fmt.Errorf("wrapping the metadata shard of node %d: %w", i+1, err)
		}
	}
	if _, err := lc.CreateTable(workerTable); err != nil {
		env.Close()
		return nil, fmt.Errorf("create table on the leader: %w", err)
	}
	cfg := replication.Config{
		ReconcileInterval: 100 * time.Millisecond,
		Workers: replication.WorkerConfig{
			PollInterval: 20 * time.Millisecond, LeaseInterval: wLeaseInterval, LogRPCTimeout: 5 * time.Second,
			SnapshotRPCTimeout: 60 * time.Second, MaxRecoveryInFlight: 1, MaxSnapshotRecv: 0,
		},
	}
	for i, n := range fol.Nodes {
		hdr := fmt.Sprint(i + 1)
		conn, err := cluster.Dial(addr,
			grpc.WithDefaultCallOptions(grpc.UseCompressor("gzip")), grpc.WithDefaultCallOptions(grpc.MaxCallRecvMsgSize(8*1024*1024)),
			grpc.WithChainStreamInterceptor(func(ctx context.Context, desc *grpc.StreamDesc, cc *grpc.ClientConn, method string, streamer grpc.Streamer, o ...grpc.CallOption) (grpc.ClientStream, error) {
				return streamer(metadata.AppendToOutgoingContext(ctx, nodeHeader, hdr), desc, cc, method, o...)
			}))
		if err != nil {
			env.Close()
			return nil, fmt.Errorf("dial: %w", err)
		}
		env.conns = append(env.conns, conn)
		m := replication.NewManager(n.Engine, fol.N[i].Queue, conn, cfg)
		if err := m.Start(); err != nil {
			env.Close()
			return nil, fmt.Errorf("replication manager of node %d: %w", i+1, err)
		}
		env.mgrs = append(env.mgrs, m)
	}
	// the follower's table is created by the replication managers; its replicas are started by
	// the table managers' reconciliation (every 30 s in production)
	deadline := time.Now().Add(60 * time.Second)
	for {
		fol.ReconcileAll()
		if err := fol.WaitTable(workerTable, 500*time.Millisecond); err == nil {
			break
		}
		if time.Now().After(deadline) {
			env.Close()
			return nil, errors.New("the follower cluster did not get the table")
		}
	}
	return env, nil
}

// leaseOnRecord reads the lease record from the replicas of the nodes other than skip.
func (w *workerEnv) leaseOnRecord(skip int) (table.Lease, uint64, bool) {
	var best kv.Pair
	found := false
	for i, n := range w.fol.Nodes {
		if i+1 == skip {
			continue
		}
		v, err := n.Engine.StaleRead(metaShard, kv.QueryKey{Key: w.ctl.key})
		if err != nil {
			continue
		}
		if p := v.(kv.Pair); !found || p.Ver > best.Ver {
			best, found = p, true
		}
	}
	var l table.Lease
	if !found || json.Unmarshal([]byte(best.Value), &l) != nil {
		return table.Lease{}, 0, false
	}
	return l, best.Ver, true
}

// holder waits until exactly one node's worker acts as holder and the record agrees.
func (w *workerEnv) holder(d time.Duration) int {
	deadline := time.Now().Add(d)
	for time.Now().Before(deadline) {
		h, n := 0, 0
		for i, m := range w.mgrs {
			if leasedGauge(m, workerTable) {
				h, n = i+1, n+1
			}
		}
		if n == 1 {
			if l, _, ok := w.leaseOnRecord(0); ok && int(l.ID) == h && l.Until.After(time.Now()) {
				return h
			}
		}
		time.Sleep(10 * time.Millisecond)
	}
	return 0
}

type workerWitness struct {
	Mode    string   `json:"mode"`
	Trial   int      `json:"trial"`
	Faulted int      `json:"faulted_node"`
	History []string `json:"history"`
}

func runWorkerLease(r *ev.Run, trials int) {
	env, err := startWorkerEnv()
	if err != nil {
		r.Inconclusive("worker part: setup failed: " + err.Error())
		return
	}
	defer env.Close()
	reported := 0
	for trial := 1; trial <= trials; trial++ {
		a := env.holder(20 * time.Second)
		if a == 0 {
			r.Inconclusive(fmt.Sprintf("worker part, trial %d: no single lease holder among the workers within 20 s", trial))
			return
		}
		var hist []string
		note := func(format string, args ...any) {
			if len(hist) < 60 {
				hist = append(hist, fmt.Sprintf(format, args...))
			}
		}
		base := env.ctl.fails[a].Load()
		callsAtFault := env.calls[a].Load()
		note("node %d's worker holds the lease (flag set, record owner n%d); its lookups of the lease record start to fail", a, a)
		env.ctl.faulty[a].Store(true)
		t0 := time.Now()
		var (
			violated     bool
			takenOver    int
			callsAtTake  int64
			overlapSeen  int
			lastFailSeen int64
		)
		for time.Since(t0) < 40*wLeaseInterval {
			l, ver, ok := env.leaseOnRecord(a)
			fails := env.ctl.fails[a].Load() - base
			if fails != lastFailSeen {
				lastFailSeen = fails
				note("+%dms: node %d has made %d failed renewal attempts; its flag is %v", time.Since(t0).Milliseconds(), a, fails, leasedGauge(env.mgrs[a-1], workerTable))
			}
			if ok && int(l.ID) != a && l.ID >= 1 && l.ID <= 3 && l.Until.After(time.Now()) {
				b := int(l.ID)
				if takenOver == 0 {
					takenOver, callsAtTake = b, env.calls[a].Load()
					note("+%dms: lease on record: owner n%d until %s (version %d)", time.Since(t0).Milliseconds(), b, l.Until.Format("15:04:05.000"), ver)
				}
				// program order: record (above), A's failed attempts, B's flag, A's flag, B's flag
				f2 := env.ctl.fails[a].Load() - base
				b1 := leasedGauge(env.mgrs[b-1], workerTable)
				aOn := leasedGauge(env.mgrs[a-1], workerTable)
				b2 := leasedGauge(env.mgrs[b-1], workerTable)
				if f2 >= 2 && b1 && aOn && b2 {
					overlapSeen++
					if !violated {
						violated = true
						note("+%dms: node %d's worker flag AND node %d's worker flag are set; record owner n%d (unexpired); node %d has completed %d failed renewals",
							time.Since(t0).Milliseconds(), a, b, b, a, f2)
					}
				}
				if !aOn && b1 {
					note("+%dms: node %d's worker has given up (flag cleared after %d failed renewals), node %d's worker acts as holder", time.Since(t0).Milliseconds(), a, f2, b)
					break
				}
			}
			time.Sleep(500 * time.Microsecond)
		}
		env.ctl.faulty[a].Store(false)
		r.Count("worker_trials", 1)
		r.Count("worker_failed_renewals_injected", env.ctl.fails[a].Load()-base)
		r.Count("worker_replicate_calls_by_holder_before_fault", callsAtFault)
		if takenOver == 0 {
			r.Inconclusive(fmt.Sprintf("worker part, trial %d: no other node took the table over within %s", trial, 40*wLeaseInterval))
			continue
		}
		r.Count("worker_takeovers", 1)
		r.Eval(1)
		r.Nontrivial(fmt.Sprintf("worker|trial %d|n%d->n%d", trial, a, takenOver))
		after := env.calls[a].Load() - callsAtTake
		if violated {
			note("node %d issued %d Replicate calls for the table after node %d's lease was on record; both-flags-set observed in %d samples", a, after, takenOver, overlapSeen)
			r.Count("worker_overlap_samples", int64(overlapSeen))
			if reported++; reported <= 2 {
				r.Violation("worker:old-holder-still-acts-after-takeover",
					fmt.Sprintf("trial %d: node %d's replication worker still acts as lease holder of %q (regatta_replication_leased=1, %d Replicate calls) after it completed >= 2 failed lease renewals, "+
						"while node %d's lease is on record, unexpired, and node %d's worker acts as holder too", trial, a, workerTable, after, takenOver, takenOver),
					workerWitness{Mode: "worker", Trial: trial, Faulted: a, History: hist})
			}
		}
		if trial == 1 {
			r.Extra("worker_sample_history", hist)
		}
	}
	var per []int64
	for i := 1; i <= 3; i++ {
		per = append(per, env.calls[i].Load())
	}
	r.Extra("worker_replicate_calls_per_node", per)
}
