package main

// The monitor: a store wrapper that sits between the real table.Managers and the real metadata
// store (kv.LFSM driven directly, or a kv.RaftStore on a NodeHost). Every write of a lease key is
// executed and judged inside one critical section (monitor.mu): the record immediately before,
// the write, the record immediately after. The shadow state ("which node holds an unexpired
// lease according to the history of successful writes") is updated in that same section, so the
// monitor cannot itself be the race.

import (
	"encoding/json"
	"errors"
	"fmt"
	"strings"
	"sync"
	"time"

	serrors "github.com/jamf/regatta/storage/errors"
	"github.com/jamf/regatta/storage/kv"
	"github.com/jamf/regatta/storage/table"
	sm "github.com/lni/dragonboat/v4/statemachine"
)

// backend is what the managers' store calls end up in.
type backend interface {
	Exists(key string) (bool, error)
	Set(key, value string, ver uint64) (kv.Pair, error)
	Delete(key string, ver uint64) error
	Get(key string) (kv.Pair, error)
	GetAll(pattern string) ([]kv.Pair, error)
}

// lease kinds, decided from the durations the scripts use (+1h / -1h) against the start of the
// run; a run lasts seconds, so anything within 30 min of "now" would be neither and is
// reported as ambiguous (inconclusive), never judged.
const (
	kNone    = 0
	kLive    = 1 // Until ≈ start + 1h: unexpired for the whole run
	kExpired = 2 // Until ≈ start - 1h: expired as soon as written
	kAmbig   = 3
)

type rec struct {
	present bool
	ver     uint64
	owner   uint64
	kind    int
	bad     bool // value did not parse
}

func (m *monitor) parse(p kv.Pair, err error) (rec, bool) {
	if err != nil {
		if errors.Is(err, kv.ErrNotExist) {
			return rec{}, true
		}
		return rec{}, false
	}
	if m.lastVal != "" && p.Value == m.lastVal {
		// same bytes as the last value decoded (the record just written, read back): same meaning
		r := m.lastRec
		r.ver = p.Ver
		return r, true
	}
	var l table.Lease
	if json.Unmarshal([]byte(p.Value), &l) != nil {
		return rec{present: true, ver: p.Ver, bad: true, kind: kAmbig}, true
	}
	r := rec{present: true, ver: p.Ver, owner: l.ID}
	d := l.Until.Sub(m.t0)
	switch {
	case d > 30*time.Minute:
		r.kind = kLive
	case d < -30*time.Minute:
		r.kind = kExpired
	default:
		r.kind = kAmbig
	}
	m.lastVal, m.lastRec = p.Value, r
	return r, true
}

func (r rec) String() string {
	if !r.present {
		return "absent"
	}
	k := map[int]string{kLive: "live", kExpired: "expired", kAmbig: "ambiguous"}[r.kind]
	return fmt.Sprintf("n%d/%s@v%d", r.owner, k, r.ver)
}

// operations and outcomes of a step (compact; rendered on demand)
const (
	opGet = iota
	opSet
	opDel
	opExists
	opGetAll
)

const (
	resOK = iota
	resMismatch
	resErr
)

var opNames = [...]string{"get", "set", "delete", "exists", "getall"}

type step struct {
	node uint8 // NodeID of the caller
	cl   uint8 // 1-based index of the client (= node in the exploration; two clients per node in the stress)
	op   uint8
	res  uint8
	seen rec    // get: what was returned; set/delete: record immediately before
	ver  uint64 // set/delete: version passed by the manager
	grp  uint8  // >0: committed as part of batch number grp (one Update call)
}

func (s step) String() string {
	who := fmt.Sprintf("n%d", s.node)
	if s.cl != s.node {
		who = fmt.Sprintf("n%d(c%d)", s.node, s.cl)
	}
	switch s.op {
	case opGet:
		return fmt.Sprintf("%s:get=%s", who, s.seen)
	case opSet, opDel:
		out := [...]string{"ok", "version-mismatch", "error"}[s.res]
		if s.grp != 0 {
			return fmt.Sprintf("[batch %d] %s:%s(v%d) on %s -> %s", s.grp, who, opNames[s.op], s.ver, s.seen, out)
		}
		return fmt.Sprintf("%s:%s(v%d) on %s -> %s", who, opNames[s.op], s.ver, s.seen, out)
	}
	return fmt.Sprintf("%s:%s", who, opNames[s.op])
}

// sig is the compact interleaving signature of a step (who, what, how it ended).
func (s step) sig() [3]byte {
	res := "omE"[s.res]
	if s.grp != 0 {
		res = 0x80 | s.grp<<2 | s.res // batched entries sign differently (and per batch)
	}
	return [3]byte{'0' + s.cl, "gsdxa"[s.op], res}
}

type violation struct {
	Sig  string `json:"signature"`
	What string `json:"what"`
	At   int    `json:"-"` // length of the trace when it was found
}

// stats are plain counters owned by one worker (merged into the evidence at the end).
type stats struct {
	c map[string]int64
}

func newStats() *stats { return &stats{c: map[string]int64{}} }
func (s *stats) add(k string, n int64) {
	s.c[k] += n
}
func (s *stats) merge(o *stats) {
	for k, v := range o.c {
		s.c[k] += v
	}
}

type keyState struct {
	holder  uint64 // node whose last successful live lease write is still standing (0 = none)
	tainted bool   // an ambiguous store error happened on this key: no further judgement
}

type monitor struct {
	mu   sync.Mutex
	be   backend
	t0   time.Time
	keys map[string]*keyState
	st   *stats

	lastVal string // decode cache of parse (guarded by mu)
	lastRec rec

	viol         []violation
	inconclusive []string
	trace        []step // exploration only (one goroutine runs at a time)
	keepTrace    bool

	// read→write window bookkeeping for the non-trivial rule
	winOpen    [8]bool // per client: a read happened in the current call, no write yet
	winCrossed [8]bool // another client read while the window was open
	overlap    bool    // some client wrote after another client's read fell into its window
}

func newMonitor(be backend, st *stats, keepTrace bool) *monitor {
	return &monitor{be: be, t0: time.Now(), keys: map[string]*keyState{}, st: st, keepTrace: keepTrace}
}

func (m *monitor) key(k string) *keyState {
	ks := m.keys[k]
	if ks == nil {
		ks = &keyState{}
		m.keys[k] = ks
	}
	return ks
}

func (m *monitor) violate(sig, format string, a ...any) {
	m.viol = append(m.viol, violation{Sig: sig, What: fmt.Sprintf(format, a...), At: len(m.trace)})
}

func (m *monitor) unsure(format string, a ...any) {
	if len(m.inconclusive) < 20 {
		m.inconclusive = append(m.inconclusive, fmt.Sprintf(format, a...))
	}
}

// call kinds
const (
	cLeaseLong = iota // LeaseTable(+1h)
	cLeaseExp         // LeaseTable(-1h): already expired when written
	cReturn           // ReturnTable
)

var callNames = [...]string{"L+", "L-", "R"}

type callState struct {
	kind    int
	key     string
	read    *rec // last observation of the lease key in this call
	sets    int  // successful lease writes in this call
	dels    int  // successful deletes in this call
	tainted bool
}

// client is the store handed to one table.Manager.
type client struct {
	m    *monitor
	idx  int                   // 1-based client index (scheduler identity)
	node uint64                // NodeID of the manager
	gate func(idx int, op int) // nil = free running (stress)
	cur  *callState
	pw   *writeReq // the lease write this client is parked on
}

func isLeaseKey(k string) bool { return strings.HasSuffix(k, "/lease") }

func leaseKey(tbl string) string { return "/tables/" + tbl + "/lease" }

func (c *client) park(op int) {
	if c.gate != nil {
		c.gate(c.idx, op)
	}
}

func (c *client) Exists(key string) (bool, error) {
	c.park(opExists)
	return c.m.be.Exists(key)
}

func (c *client) GetAll(pattern string) ([]kv.Pair, error) {
	c.park(opGetAll)
	return c.m.be.GetAll(pattern)
}

func (c *client) Get(key string) (kv.Pair, error) {
	c.park(opGet)
	// the read itself is not serialized with anything (in the stress it really runs
	// concurrently with writes of the other managers); only its bookkeeping is locked.
	p, err := c.m.be.Get(key)
	if !isLeaseKey(key) {
		return p, err
	}
	m := c.m
	m.mu.Lock()
	defer m.mu.Unlock()
	r, ok := m.parse(p, err)
	if !ok {
		m.key(key).tainted = true
		if c.cur != nil {
			c.cur.tainted = true
		}
		m.unsure("get %s by n%d failed: %v", key, c.node, err)
		return p, err
	}
	if c.cur != nil && c.cur.key == key {
		rr := r
		c.cur.read = &rr
	}
	// window bookkeeping: this read falls into every other client's open read→write window
	for i := range m.winOpen {
		if i != c.idx && m.winOpen[i] {
			m.winCrossed[i] = true
		}
	}
	m.winOpen[c.idx] = true
	m.winCrossed[c.idx] = false
	if m.keepTrace {
		m.trace = append(m.trace, step{node: uint8(c.node), cl: uint8(c.idx), op: opGet, seen: r})
	}
	return p, err
}

func (c *client) closeWindow(wrote bool) {
	m := c.m
	if wrote && m.winOpen[c.idx] && m.winCrossed[c.idx] {
		m.overlap = true
	}
	m.winOpen[c.idx] = false
	m.winCrossed[c.idx] = false
}

// writeReq is one lease write of a manager: announced before parking, so that the scheduler can
// commit several parked writes in one Update call (what Raft does with proposals that arrive
// together) and hand each writer its result.
type writeReq struct {
	op    int
	key   string
	value string
	ver   uint64
	done  bool // committed by the scheduler as part of a batch; pair/err hold the result
	pair  kv.Pair
	err   error
}

func (c *client) Set(key, value string, ver uint64) (kv.Pair, error) {
	if !isLeaseKey(key) {
		c.park(opSet)
		return c.m.be.Set(key, value, ver)
	}
	w := &writeReq{op: opSet, key: key, value: value, ver: ver}
	c.pw = w
	c.park(opSet)
	c.pw = nil
	if w.done {
		return w.pair, w.err
	}
	m := c.m
	m.mu.Lock()
	defer m.mu.Unlock()
	before, bok := m.parse(m.be.Get(key))
	w.pair, w.err = m.be.Set(key, value, ver) // linearization point of the write
	m.judgeWrite(c, w, before, bok, true, 0)
	return w.pair, w.err
}

func (c *client) Delete(key string, ver uint64) error {
	if !isLeaseKey(key) {
		c.park(opDel)
		return c.m.be.Delete(key, ver)
	}
	w := &writeReq{op: opDel, key: key, ver: ver}
	c.pw = w
	c.park(opDel)
	c.pw = nil
	if w.done {
		return w.err
	}
	m := c.m
	m.mu.Lock()
	defer m.mu.Unlock()
	before, bok := m.parse(m.be.Get(key))
	w.err = m.be.Delete(key, ver) // linearization point
	m.judgeWrite(c, w, before, bok, true, 0)
	return w.err
}

// judgeWrite judges one lease write (result in w.pair / w.err) at its linearization point.
// before is the record standing immediately before it. readBack: compare with the record the
// store holds right after (single proposals); inside a batch the state between two entries of
// one Update call cannot be read: it is, by definition of applying a log in order, what the
// entries acknowledged so far produced, and the caller checks the end of the batch.
// Must be called with m.mu held. Returns the record standing after the write.
func (m *monitor) judgeWrite(c *client, w *writeReq, before rec, bok bool, readBack bool, grp uint8) rec {
	key, ver, err := w.key, w.ver, w.err
	ks := m.key(key)
	c.closeWindow(true)
	st := step{node: uint8(c.node), cl: uint8(c.idx), op: uint8(w.op), seen: before, ver: ver, grp: grp}
	switch {
	case err == nil:
		st.res = resOK
	case errors.Is(err, kv.ErrVersionMismatch):
		st.res = resMismatch
	default:
		st.res = resErr
	}
	if m.keepTrace {
		m.trace = append(m.trace, st)
	}
	if !bok || st.res == resErr {
		// outcome unknown (proposal may or may not have been applied): stop judging this key
		ks.tainted = true
		if c.cur != nil {
			c.cur.tainted = true
		}
		m.unsure("%s %s by n%d: ambiguous store outcome: %v", opNames[w.op], key, c.node, err)
		return before
	}
	if ks.tainted {
		return before
	}
	if w.op == opDel {
		return m.judgeDelete(c, w, ks, before, st, readBack)
	}
	if st.res == resMismatch {
		m.st.add("cas_rejected_set", 1)
		if c.cur != nil && c.cur.read != nil && !c.cur.read.present {
			m.st.add("first_claims_lost_race", 1)
		}
		return before
	}
	// ---- a successful lease write by c.node
	if c.cur != nil {
		c.cur.sets++
	}
	wr, _ := m.parse(kv.Pair{Value: w.value, Ver: w.pair.Ver}, nil)
	if readBack {
		after, aok := m.parse(m.be.Get(key))
		if !aok || !after.present || after.owner != wr.owner || after.kind != wr.kind {
			// the store did not keep what it acknowledged: that is C13's subject, not ours
			ks.tainted = true
			m.unsure("set %s by n%d acknowledged but record after is %s", key, c.node, after)
			return after
		}
	}
	var read *rec
	if c.cur != nil {
		read = c.cur.read
	}
	readS := "nothing"
	if read != nil {
		readS = read.String()
	}
	if before.present && before.kind == kAmbig || wr.kind == kAmbig {
		m.unsure("lease record with ambiguous expiry (before %s, written %s)", before, wr)
		ks.tainted = true
		return wr
	}
	how := ""
	if grp != 0 {
		how = " (both writes were committed in the same Update batch of the state machine)"
	}
	// (1) granted only if unclaimed, own, or expired
	if before.present && before.owner != c.node && before.kind == kLive {
		m.violate("lease-write-over-live-foreign-lease",
			"n%d's lease write (version %d, it had read %s) succeeded while the record was %s: an unexpired lease of another node was overwritten%s",
			c.node, ver, readS, before, how)
	}
	// (2) of racing requests at most one succeeds: a successful write must not replace a
	// record the writer never saw (written by somebody else between its read and its write)
	if before.present && (read == nil || !read.present || read.ver != before.ver) {
		m.violate("racing-lease-requests-both-succeed",
			"n%d's lease write (version %d) succeeded over %s although it had read %s: both racing requests succeeded%s",
			c.node, ver, before, readS, how)
	}
	// (3) shadow: holders according to the history of successful writes
	if ks.holder != 0 && ks.holder != c.node {
		m.violate("two-unexpired-holders",
			"n%d's lease write succeeded while n%d's last successful Lease(+1h) had neither been returned by n%d nor expired (record before: %s)%s",
			c.node, ks.holder, ks.holder, before, how)
	}
	if wr.owner != c.node {
		m.violate("lease-written-for-other-node", "n%d wrote a lease record owned by n%d", c.node, wr.owner)
	}
	switch {
	case !before.present:
		m.st.add("lease_ok_unclaimed", 1)
	case before.owner == c.node:
		m.st.add("lease_ok_renew_own", 1)
	case before.kind == kExpired:
		m.st.add("lease_ok_takeover_expired", 1)
	}
	if wr.kind == kLive && wr.owner == c.node {
		ks.holder = c.node
	} else {
		ks.holder = 0
	}
	return wr
}

func (m *monitor) judgeDelete(c *client, w *writeReq, ks *keyState, before rec, st step, readBack bool) rec {
	if st.res == resMismatch {
		m.st.add("cas_rejected_delete", 1)
		return before
	}
	if c.cur != nil {
		c.cur.dels++
	}
	if readBack {
		after, aok := m.parse(m.be.Get(w.key))
		if !aok || after.present {
			ks.tainted = true
			m.unsure("delete %s by n%d acknowledged but record after is %s", w.key, c.node, after)
			return after
		}
	}
	switch {
	case !before.present:
		// nothing was removed (the record had already gone): not a removal of anybody's lease
		m.st.add("return_delete_found_nothing", 1)
	case before.owner != c.node:
		m.violate("return-removed-foreign-lease",
			"n%d's delete (version %d) removed the record %s, a lease owned by another node", c.node, w.ver, before)
	default:
		m.st.add("return_ok_own", 1)
		if ks.holder == c.node {
			ks.holder = 0
		}
	}
	return rec{}
}

// batcher is a backend that can commit several proposals in one Update call of the state machine.
type batcher interface {
	proposeBatch(ups []kv.Update) ([]sm.Result, error)
}

// commitBatch commits the parked lease writes of cls (in this order) as ONE batch: consecutive
// log indices, a single Update call, as the Raft group does with proposals that arrive in the
// same step. Each entry is judged at its position in the log. Called by the scheduler while
// every manager goroutine is parked.
func (m *monitor) commitBatch(cls []*client, grp uint8) {
	m.mu.Lock()
	defer m.mu.Unlock()
	ups := make([]kv.Update, len(cls))
	model := map[string]rec{}
	okBefore := map[string]bool{}
	for i, c := range cls {
		w := c.pw
		op := kv.UpdateOpSet
		if w.op == opDel {
			op = kv.UpdateOpDelete
		}
		ups[i] = kv.Update{Op: op, KVPair: kv.Pair{Key: w.key, Value: w.value, Ver: w.ver}}
		if _, seen := model[w.key]; !seen {
			model[w.key], okBefore[w.key] = m.parse(m.be.Get(w.key))
		}
	}
	res, err := m.be.(batcher).proposeBatch(ups)
	m.st.add("batches_committed", 1)
	m.st.add("batched_writes", int64(len(cls)))
	for i, c := range cls {
		w := c.pw
		w.done = true
		switch {
		case err != nil:
			w.err = err
		case w.op == opSet:
			w.pair, w.err = decodeSetResult(res[i], ups[i].KVPair)
		default:
			w.err = decodeDeleteResult(res[i])
		}
		model[w.key] = m.judgeWrite(c, w, model[w.key], okBefore[w.key], false, grp)
	}
	// end of the batch: the store must hold what the acknowledged entries produced
	for k, want := range model {
		if ks := m.key(k); ks.tainted {
			continue
		}
		got, ok := m.parse(m.be.Get(k))
		if !ok || got.present != want.present || got.present && (got.owner != want.owner || got.kind != want.kind || got.ver != want.ver) {
			m.key(k).tainted = true
			m.unsure("after a batch of %d proposals %s holds %s, the acknowledged results say %s", len(cls), k, got, want)
		}
	}
}

// beginCall / endCall bracket one LeaseTable / ReturnTable call of this client's manager.
func (c *client) beginCall(kind int, key string) {
	c.m.mu.Lock()
	c.cur = &callState{kind: kind, key: key}
	c.m.mu.Unlock()
}

// outcome codes of a call (lower case = not judged because the store outcome was ambiguous)
var outcomeNames = map[byte]string{'N': "nil", 'V': "version-mismatch", 'A': "not-acquired", 'E': "error", 'T': "true", 'F': "false"}

func renderOutcome(b byte) string {
	if b >= 'a' && b <= 'z' {
		return outcomeNames[b-'a'+'A'] + "(unjudged)"
	}
	return outcomeNames[b]
}

// endCall judges the call's return value against the writes it made.
func (c *client) endCall(ok bool, err error) byte {
	m := c.m
	m.mu.Lock()
	defer m.mu.Unlock()
	cs := c.cur
	c.cur = nil
	c.closeWindow(false)
	out := byte('?')
	switch cs.kind {
	case cLeaseLong, cLeaseExp:
		switch {
		case err == nil:
			out = 'N'
		case errors.Is(err, kv.ErrVersionMismatch):
			out = 'V'
			m.st.add("lease_lost_cas", 1)
		case errors.Is(err, serrors.ErrLeaseNotAcquired):
			out = 'A'
			m.st.add("lease_refused", 1)
			if cs.read != nil && cs.read.present && cs.read.kind == kLive && cs.read.owner != c.node {
				m.st.add("lease_refused_live_foreign", 1)
			}
		default:
			out = 'E'
			m.st.add("lease_other_error", 1)
			if !cs.tainted {
				m.unsure("LeaseTable by n%d failed unexpectedly: %v", c.node, err)
			}
		}
		if cs.tainted || m.key(cs.key).tainted {
			return out - 'A' + 'a'
		}
		if err == nil && cs.sets == 0 {
			readS := "nothing"
			if cs.read != nil {
				readS = cs.read.String()
			}
			m.violate("lease-granted-without-successful-write",
				"LeaseTable(%s) by n%d returned nil although no store write of it succeeded (it had read %s): the node believes it holds a lease it does not have",
				callNames[cs.kind], c.node, readS)
		}
		if err != nil && cs.sets > 0 {
			m.violate("lease-refused-but-written",
				"LeaseTable(%s) by n%d returned %v although its lease write succeeded", callNames[cs.kind], c.node, err)
		}
	case cReturn:
		switch {
		case err == nil && ok:
			out = 'T'
		case err == nil:
			out = 'F'
			m.st.add("return_false", 1)
			if cs.read != nil && cs.read.present && cs.read.owner != c.node {
				m.st.add("return_declined_foreign", 1)
			}
		case errors.Is(err, kv.ErrVersionMismatch):
			out = 'V'
			m.st.add("return_lost_cas", 1)
		default:
			out = 'E'
			m.st.add("return_other_error", 1)
			if !cs.tainted {
				m.unsure("ReturnTable by n%d failed unexpectedly: %v", c.node, err)
			}
		}
		if cs.tainted || m.key(cs.key).tainted {
			return out - 'A' + 'a'
		}
		if err == nil && ok && cs.dels == 0 {
			m.violate("return-true-without-delete", "ReturnTable by n%d returned true although no delete of it succeeded", c.node)
		}
		if !(err == nil && ok) && cs.dels > 0 {
			m.st.add("return_not_true_but_deleted", 1)
		}
	}
	return out
}

// finalCheck compares the shadow holder with the record really in the store.
func (m *monitor) finalCheck() {
	m.mu.Lock()
	defer m.mu.Unlock()
	for k, ks := range m.keys {
		if ks.tainted {
			continue
		}
		r, ok := m.parse(m.be.Get(k))
		if !ok {
			continue
		}
		live := uint64(0)
		if r.present && r.kind == kLive {
			live = r.owner
		}
		if live != ks.holder {
			// a holder that lost its record without returning it (or a record nobody's
			// successful write explains): the history of writes and the store disagree
			m.violate("holder-and-store-disagree",
				"%s: the history of successful writes says holder=n%d but the store record is %s", k, ks.holder, r)
		}
	}
}
