package main

// Random stress of the same managers over a REAL kv.RaftStore on a real single-node dragonboat
// NodeHost (in-memory FS), free running (no gates), under the race detector. Writes of lease
// keys are serialized by the monitor (so that "record immediately before / after" is exact);
// reads are not, they really run concurrently with the other managers' proposals and with
// the state machine's snapshots.

import (
	"context"
	"errors"
	"fmt"
	"io"
	"log"
	"math/rand"
	"os"
	"path/filepath"
	"sort"
	"strings"
	"sync"
	"sync/atomic"
	"time"

	serrors "github.com/jamf/regatta/storage/errors"
	"github.com/jamf/regatta/storage/kv"
	"github.com/jamf/regatta/storage/table"
	"github.com/lni/dragonboat/v4"
	"github.com/lni/dragonboat/v4/config"
	"github.com/lni/vfs"

	"verifharness/internal/cluster"
	"verifharness/internal/ev"
)

func startRaftStore() (*kv.RaftStore, *dragonboat.NodeHost, error) {
	cluster.Quiet()
	// pebble's default logger (used by dragonboat's log DB for "background error: vfs: not
	// supported" on the in-memory FS) writes through the standard log package
	log.SetOutput(io.Discard)
	var lastErr error
	for attempt := 0; attempt < 10; attempt++ {
		ports, err := cluster.FreePorts(1)
		if err != nil {
			return nil, nil, err
		}
		addr := fmt.Sprintf("127.0.0.1:%d", ports[0])
		nhc := config.NodeHostConfig{
			WALDir:         "wal",
			NodeHostDir:    "dragonboat",
			RTTMillisecond: 2,
			RaftAddress:    addr,
		}
		_ = nhc.Prepare()
		nhc.Expert.FS = vfs.NewMem()
		nhc.Expert.Engine.ExecShards = 1
		nhc.Expert.LogDB.Shards = 1
		nh, err := dragonboat.NewNodeHost(nhc)
		if err != nil {
			lastErr = err
			continue
		}
		rs := &kv.RaftStore{NodeHost: nh, ClusterID: 1}
		// small snapshot interval: the state machine is snapshotted while managers read it
		if err := rs.Start(kv.RaftConfig{NodeID: 1, ElectionRTT: 10, HeartbeatRTT: 1, SnapshotEntries: 100,
			CompactionOverhead: 50, InitialMembers: map[uint64]string{1: addr}}); err != nil {
			nh.Close()
			lastErr = err
			continue
		}
		ctx, cancel := context.WithTimeout(context.Background(), 30*time.Second)
		err = rs.WaitForLeader(ctx)
		cancel()
		if err != nil {
			nh.Close()
			lastErr = err
			continue
		}
		return rs, nh, nil
	}
	return nil, nil, lastErr
}

type stressWitness struct {
	Mode     string   `json:"mode"`
	Seed     int64    `json:"stress_seed"`
	Clients  int      `json:"clients"`
	Ops      int      `json:"ops_per_client"`
	Tables   int      `json:"tables"`
	History  []string `json:"history_before_violation,omitempty"`
	RaceText string   `json:"race_report,omitempty"`
}

// runStress runs the workload and reports violations; returns false if it could not run.
func runStress(r *ev.Run, seed int64, opsPerClient, tables int) {
	rs, nh, err := startRaftStore()
	if err != nil {
		r.Inconclusive(fmt.Sprintf("stress: cannot start RaftStore: %v", err))
		return
	}
	st := newStats()
	mon := newMonitor(rs, st, true)
	const nodes, perNode = 3, 2 // two concurrent callers per node, as the replication worker has
	// (lease routine + replication routine); modelled as two managers with the same NodeID
	var cls []*client
	var mgrs []*table.Manager
	for i := 0; i < nodes*perNode; i++ {
		node := uint64(i%nodes + 1)
		cl := &client{m: mon, idx: i + 1, node: node}
		cls = append(cls, cl)
		mgrs = append(mgrs, table.NewManager(nil, nil, cl, mgrConfig(node)))
	}
	var done atomic.Int64
	var wg sync.WaitGroup
	for i := range cls {
		wg.Add(1)
		go func(i int) {
			defer wg.Done()
			rng := rand.New(rand.NewSource(seed*1_000_003 + int64(i)))
			for k := 0; k < opsPerClient; k++ {
				tbl := fmt.Sprintf("t%d", rng.Intn(tables))
				kind := rng.Intn(3)
				doCall(mgrs[i], cls[i], kind, tbl, leaseKey(tbl))
				done.Add(1)
			}
		}(i)
	}
	fin := make(chan struct{})
	go func() { wg.Wait(); close(fin) }()
	wd := time.Duration(r.Pick(90, 300)) * time.Second
	select {
	case <-fin:
		mon.finalCheck()
	case <-time.After(wd):
		r.Inconclusive(fmt.Sprintf("stress: watchdog after %s (%d/%d calls done)", wd, done.Load(), opsPerClient*len(cls)))
	}
	raceRounds(r, rs, seed, r.Pick(400, 4000))
	closed := make(chan struct{})
	go func() { nh.Close(); close(closed) }()
	select {
	case <-closed:
	case <-time.After(30 * time.Second):
		r.Inconclusive("stress: NodeHost.Close did not return in 30 s")
	}

	mon.mu.Lock()
	viol := append([]violation{}, mon.viol...)
	unsure := append([]string{}, mon.inconclusive...)
	trace := mon.trace
	mon.mu.Unlock()
	r.Count("stress_calls", done.Load())
	r.Count("stress_store_ops", int64(len(trace)))
	for k, v := range st.c {
		r.Count("stress_"+k, v)
	}
	for _, u := range unsure {
		r.Inconclusive("stress: " + u)
	}
	reported := map[string]int{}
	for _, v := range viol {
		reported[v.Sig]++
		if reported[v.Sig] > 2 {
			continue
		}
		lo := v.At - 30
		if lo < 0 {
			lo = 0
		}
		var hist []string
		for _, s := range trace[lo:min(v.At, len(trace))] {
			hist = append(hist, s.String())
		}
		r.Violation("stress:"+v.Sig, v.What, stressWitness{Mode: "stress", Seed: seed, Clients: len(cls), Ops: opsPerClient, Tables: tables, History: hist})
	}
	if len(trace) > 12 {
		var hist []string
		for _, s := range trace[:12] {
			hist = append(hist, s.String())
		}
		r.Extra("stress_sample_history", hist)
	}
	scanRaceLogs(r, stressWitness{Mode: "stress", Seed: seed, Clients: len(cls), Ops: opsPerClient, Tables: tables})
}

// raceRounds: on a table nobody used before (or whose only lease, of a fourth node, has
// expired), three nodes request the lease at the same instant through managers that sit
// DIRECTLY on the real RaftStore (no monitor in between: the proposals really reach the Raft
// group together and may be committed in one batch). Judged from return values alone: nobody
// returns the lease during a round, so at most one of the racing requests may be told nil.
func raceRounds(r *ev.Run, rs *kv.RaftStore, seed int64, rounds int) {
	const nodes = 3
	mgrs := make([]*table.Manager, nodes)
	for i := range mgrs {
		mgrs[i] = table.NewManager(nil, nil, rs, mgrConfig(uint64(i+1)))
	}
	fourth := table.NewManager(nil, nil, rs, mgrConfig(4))
	type req struct {
		tbl   string
		start chan struct{}
	}
	reqs := make([]chan req, nodes)
	errs := make([]chan error, nodes)
	for i := range mgrs {
		reqs[i], errs[i] = make(chan req), make(chan error, 1)
		go func(i int) {
			for q := range reqs[i] {
				<-q.start
				errs[i] <- mgrs[i].LeaseTable(q.tbl, time.Hour)
			}
		}(i)
	}
	defer func() {
		for i := range reqs {
			close(reqs[i])
		}
	}()
	deadline := time.After(time.Duration(r.Pick(60, 240)) * time.Second)
	reported := 0
	for k := 0; k < rounds; k++ {
		tbl := fmt.Sprintf("race-%d-%d", seed, k)
		variant := "unclaimed table"
		if k%2 == 1 {
			variant = "expired lease of a fourth node"
			if err := fourth.LeaseTable(tbl, -time.Hour); err != nil {
				r.Inconclusive(fmt.Sprintf("stress: race round %d: cannot plant the expired lease: %v", k, err))
				continue
			}
		}
		start := make(chan struct{})
		for i := range reqs {
			reqs[i] <- req{tbl: tbl, start: start}
		}
		close(start)
		var winners []int
		unknown := false
		for i := range errs {
			select {
			case err := <-errs[i]:
				switch {
				case err == nil:
					winners = append(winners, i+1)
				case errors.Is(err, kv.ErrVersionMismatch), errors.Is(err, serrors.ErrLeaseNotAcquired):
				default:
					unknown = true
				}
			case <-deadline:
				r.Inconclusive(fmt.Sprintf("stress: race rounds: watchdog in round %d", k))
				return
			}
		}
		if unknown {
			r.Inconclusive(fmt.Sprintf("stress: race round %d: a request failed with an unexpected store error", k))
			continue
		}
		r.Count("stress_race_rounds", 1)
		r.Count(fmt.Sprintf("stress_race_rounds_%d_granted", len(winners)), 1)
		if len(winners) > 1 {
			r.Count("stress_race_rounds_violating", 1)
			if reported++; reported <= 2 {
				stored, _ := rs.Get(leaseKey(tbl))
				r.Violation("stress:racing-lease-requests-all-granted",
					fmt.Sprintf("round %d (%s): the simultaneous LeaseTable(+1h) requests of nodes %v over a real RaftStore were all told nil, nobody returned a lease in between (stored record: %s)",
						k, variant, winners, stored.Value),
					stressWitness{Mode: "stress", Seed: seed, Clients: nodes, Ops: rounds, Tables: 1,
						History: []string{fmt.Sprintf("round %d, %s, granted to %v, stored %s", k, variant, winners, stored.Value)}})
			}
		}
	}
}

// ---- race detector reports

type raceBlock struct {
	text     string
	access   [][]string // the two access stacks (function names, innermost first)
	allFuncs []string
}

func parseRaceBlocks(text string) []raceBlock {
	var out []raceBlock
	for _, chunk := range strings.Split(text, "==================") {
		if !strings.Contains(chunk, "WARNING: DATA RACE") {
			continue
		}
		b := raceBlock{text: strings.TrimSpace(chunk)}
		var cur *[]string
		for _, line := range strings.Split(chunk, "\n") {
			t := strings.TrimSpace(line)
			switch {
			case t == "":
				cur = nil
			case strings.HasSuffix(t, ":") && (strings.Contains(t, " by goroutine ") || strings.Contains(t, " by main goroutine")):
				b.access = append(b.access, nil)
				cur = &b.access[len(b.access)-1]
			case strings.HasSuffix(t, ":") && strings.HasPrefix(t, "Goroutine "):
				cur = nil
			case strings.HasPrefix(line, "  ") && !strings.HasPrefix(line, "      ") && strings.HasSuffix(t, ")"):
				fn := t
				if i := strings.LastIndex(fn, "("); i > 0 {
					fn = fn[:i]
				}
				b.allFuncs = append(b.allFuncs, fn)
				if cur != nil {
					*cur = append(*cur, fn)
				}
			}
		}
		out = append(out, b)
	}
	return out
}

const regattaPkg = "github.com/jamf/regatta/"

func isHarnessFn(f string) bool {
	return strings.HasPrefix(f, "main.") || strings.HasPrefix(f, "verifharness/")
}

func outermostRegatta(stack []string) string {
	for i := len(stack) - 1; i >= 0; i-- {
		if strings.HasPrefix(stack[i], regattaPkg) {
			return strings.TrimPrefix(stack[i], regattaPkg)
		}
	}
	return ""
}

func innermostUser(stack []string) string {
	for _, f := range stack {
		if strings.HasPrefix(f, "runtime.") || strings.HasPrefix(f, "sync.") || strings.HasPrefix(f, "sync/atomic.") {
			continue
		}
		return f
	}
	return ""
}

func scanRaceLogs(r *ev.Run, w stressWitness) {
	if !raceEnabled {
		r.Note("driver built without -race: no race reports can be observed")
		return
	}
	scratch := os.Getenv("SCRATCH")
	if scratch == "" {
		r.Note("SCRATCH not set: race log not read")
		return
	}
	files, _ := filepath.Glob(filepath.Join(scratch, "race*"))
	seen := map[string]int{}
	for _, f := range files {
		b, err := os.ReadFile(f)
		if err != nil {
			continue
		}
		for _, blk := range parseRaceBlocks(string(b)) {
			r.Count("race_reports", 1)
			hasRegatta := false
			for _, f := range blk.allFuncs {
				if strings.HasPrefix(f, regattaPkg) {
					hasRegatta = true
				}
			}
			harnessOnly := len(blk.access) >= 2
			for _, st := range blk.access {
				if !isHarnessFn(innermostUser(st)) {
					harnessOnly = false
				}
			}
			switch {
			case harnessOnly:
				r.Count("race_reports_harness", 1)
				r.Inconclusive("race report on the harness's own data: " + firstLines(blk.text, 6))
			case !hasRegatta:
				r.Count("race_reports_third_party", 1)
				r.Distinct("race_third_party", innermostUser(first(blk.access, 0))+"|"+innermostUser(first(blk.access, 1)))
			default:
				r.Count("race_reports_regatta", 1)
				var fns []string
				for _, st := range blk.access {
					if f := outermostRegatta(st); f != "" {
						fns = append(fns, f)
					}
				}
				if len(fns) == 0 {
					for _, f := range blk.allFuncs {
						if strings.HasPrefix(f, regattaPkg) {
							fns = append(fns, strings.TrimPrefix(f, regattaPkg))
							break
						}
					}
				}
				sort.Strings(fns)
				sig := "race:" + strings.Join(fns, "|")
				seen[sig]++
				if seen[sig] == 1 {
					ww := w
					ww.RaceText = blk.text
					r.Violation(sig, "data race reported by the race detector with regatta frames: "+firstLines(blk.text, 4), ww)
				}
			}
		}
	}
	r.Extra("race_detector", map[string]any{"enabled": true, "log_files": len(files)})
}

func first(s [][]string, i int) []string {
	if i < len(s) {
		return s[i]
	}
	return nil
}

func firstLines(s string, n int) string {
	l := strings.Split(s, "\n")
	if len(l) > n {
		l = l[:n]
	}
	return strings.Join(l, " / ")
}
