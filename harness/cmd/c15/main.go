// C15 — at most one follower node holds a table's replication lease at a time.
//
// Part 1 (exploration): 2–3 real table.Managers (distinct NodeIDs) share one store: a scheduling
// wrapper around the real metadata state machine kv.LFSM (driven through Update/Lookup with
// consecutive log indices, as kv.RaftStore + the Raft group do). Every store operation of every
// manager parks on a gate; a depth-first scheduler enumerates ALL interleavings of the store
// operations of short scripts of Lease(+1h) / Lease(-1h) / Return calls by re-execution.
// Part 2 (stress): the same managers, free running, over a real kv.RaftStore on a single-node
// dragonboat NodeHost, under the race detector.
//
// The oracle sits inside the store wrapper, at the linearization point of every lease write.
package main

import (
	"fmt"
	"math/rand"
	"os"
	"runtime"
	"runtime/debug"
	"sort"
	"sync"
	"sync/atomic"
	"time"

	"verifharness/internal/ev"
)

type family struct {
	Name    string
	Scripts []script
	Batch   bool // the scheduler may also commit parked writes together (one Update call)
	Walks   int  // >0: sample this many random schedules per script instead of enumerating
	PickN   int  // >0: only a seeded selection of this many scripts
	reports []*scriptReport
}

// perNode lists every call sequence of a length in [lo,hi] over {L+, L-, R}.
func perNode(lo, hi int) [][]int {
	var out [][]int
	var rec func(cur []int, l int)
	rec = func(cur []int, l int) {
		if len(cur) == l {
			out = append(out, append([]int{}, cur...))
			return
		}
		for k := 0; k < 3; k++ {
			rec(append(cur, k), l)
		}
	}
	for l := lo; l <= hi; l++ {
		rec(nil, l)
	}
	return out
}

func product(nodes int, per [][]int) []script {
	var out []script
	var rec func(cur script)
	rec = func(cur script) {
		if len(cur) == nodes {
			out = append(out, append(script{}, cur...))
			return
		}
		for _, p := range per {
			rec(append(cur, p))
		}
	}
	rec(nil)
	return out
}

// splitCanonical separates the scripts whose per-node call lists are in non-decreasing order
// (one representative per renaming of the nodes) from the renamed variants.
func splitCanonical(scs []script) (canon, renamed []script) {
	code := func(c []int) int {
		v := 0
		for _, k := range c {
			v = v*4 + k + 1
		}
		return v
	}
	for _, sc := range scs {
		ok := true
		for i := 1; i < len(sc); i++ {
			if code(sc[i-1]) > code(sc[i]) {
				ok = false
			}
		}
		if ok {
			canon = append(canon, sc)
		} else {
			renamed = append(renamed, sc)
		}
	}
	return
}

const sampleThreshold = 50_000 // trees above this bound are sampled, not enumerated

type job struct {
	fam    *family
	idx    int
	sc     script
	walks  int
	seed   int64
	budget *atomic.Int64 // schedules this script may still enumerate (shared by its subtree jobs)
	fixed  []int         // enumerate only the subtree under this choice prefix
	split  bool          // discover the subtrees first and enqueue one job per subtree
	batch  bool          // group commit allowed (family.Batch)
}

const (
	splitBound = 3000 // trees that may be larger than this are enumerated by several workers
	splitDepth = 4
)

type witness struct {
	Mode string `json:"mode"` // "schedule" | "stress"
	found
	stressWitness
}

func main() {
	r := ev.Start("C15", "exploration")
	r.Rule("scripts = per node 1-3 calls from {L+ = LeaseTable(+1h), L- = LeaseTable(-1h, expired when written), R = ReturnTable}; for each script every " +
		"interleaving of the individual store operations (get/set/delete) of the nodes' calls is executed against the real kv.LFSM by a depth-first " +
		"scheduler; the '+ group commit' families additionally let the scheduler commit two or three parked writes, in any order, in ONE Update call " +
		"(consecutive log indices), as the Raft group does with proposals that arrive together (scripts above 50k schedules and the quick-tier 3x2 selection are sampled with the seeded PRNG, exhaustive=false); " +
		"a schedule is non-trivial when one node's read falls between another node's read and that node's write (overlapping read→write windows); " +
		"distinct by hash of (script, interleaving signature)")
	r.Assume("worker part: a real leader cluster and a real 3-node follower cluster with one replication.Manager per node (lease interval 200 ms); 'acts as lease holder' = the worker's exported flag "+
		"(gauge regatta_replication_leased), corroborated by the Replicate calls each node issues; fault = the lease-record lookup of one node's metadata state machine fails (wrapper around the real "+
		"kv.LFSM installed through the NodeHost API), which also counts that node's failed renewal attempts; the verdict needs no clock: record names another unexpired owner, then >= 2 failed "+
		"renewals completed, then both workers' flags set",
		"replicated-log part: three real kv.LFSM replicas fed from one agreed log by the driver (single entries for the proposer, one apply batch for a replica that catches up, "+
			"RecoverFromSnapshot on the live state machine when the log was compacted past it, fresh state machine + own snapshot + own log on restart), managers read their local replica and are told "+
			"their local replica's result; calls are atomic there; scenarios = every [<=1-2 calls] / one replica away / [<=1-2 calls by the others] / snapshot+compact or not / back by resume or "+
			"restart / [<=2 calls], plus seeded random mixes; non-trivial = a snapshot is installed on a replica whose lease record differs from the snapshot's",
		"inside a group-commit batch each entry is judged at its position in the log; the record between two entries of one Update call is what the "+
			"acknowledged entries so far produced (checked against the store at the end of the batch)",
		"lease expiry is decided from the durations used (+1h = unexpired for the whole run, -1h = expired when written), never from the clock",
		"a read served by a lagging replica is modelled as an earlier read (reads and writes of a call are separate scheduling steps)",
		"3 nodes x 2 calls, thorough tier: scripts that differ only by a renaming of the nodes (the managers differ in nothing but their NodeID, which is only compared for equality) "+
			"are represented by one script each (165 of 729), all enumerated exhaustively, plus a seeded selection of 60 renamed variants, also enumerated exhaustively",
		"managers are created once per worker and re-used across schedules (NewManager leaks table-cache goroutines); the store and the monitor are fresh per schedule; "+
			"re-execution of every schedule prefix is checked to reach the same choice points",
		"a successful ReturnTable whose delete found the record already gone removed nobody's lease: counted (return_delete_found_nothing), not a violation",
		"a lease request that is refused although it could have been granted (e.g. lost compare-and-set) is not a violation: the statement is 'succeeds only if'; "+
			"such behaviour shows up only in the coverage floors (grants by renewal / takeover / own return must be observed)")

	if r.Replay != "" {
		replay(r)
		r.Finish()
	}
	// the set of distinct non-trivial schedules is millions of small strings in the thorough
	// tier: collect less often
	debug.SetGCPercent(400)

	three2 := product(3, perNode(2, 2))
	canon, renamed := splitCanonical(three2)
	fams := []*family{
		{Name: "2 nodes x 1-2 calls", Scripts: product(2, perNode(1, 2))},
		{Name: "3 nodes x 1 call", Scripts: product(3, perNode(1, 1))},
	}
	if r.Thorough() {
		fams = append(fams,
			&family{Name: "3 nodes x 2 calls (one script per node renaming)", Scripts: canon},
			&family{Name: "3 nodes x 2 calls (renamed variants, selection)", Scripts: renamed, PickN: 60},
			&family{Name: "2 nodes x 3 calls", Scripts: product(2, perNode(3, 3))},
			&family{Name: "3 nodes x 3 calls (sampled)", Scripts: product(3, perNode(3, 3)), PickN: 96, Walks: 1500},
		)
	} else {
		fams = append(fams,
			&family{Name: "3 nodes x 2 calls (sampled)", Scripts: three2, PickN: 96, Walks: 400},
			&family{Name: "3 nodes x 2 calls (selection, enumerated)", Scripts: canon, PickN: 4},
		)
	}
	// the same scripts with group commit: parked writes may also be committed together, in any
	// order, in ONE Update call of the state machine (proposals that reach the Raft group together)
	fams = append(fams,
		&family{Name: "2 nodes x 1-2 calls + group commit", Scripts: product(2, perNode(1, 2)), Batch: true},
		&family{Name: "3 nodes x 1 call + group commit", Scripts: product(3, perNode(1, 1)), Batch: true},
	)
	if r.Thorough() {
		fams = append(fams, &family{Name: "3 nodes x 2 calls + group commit (sampled)", Scripts: three2, PickN: 96, Walks: 1000, Batch: true})
	}
	t0 := time.Now()
	explore(r, fams)
	fmt.Printf("C15 exploration took %.1fs\n", time.Since(t0).Seconds())

	// three replicas of the metadata state machine on one agreed log, catch-up by snapshot
	t0 = time.Now()
	runReplicas(r)
	fmt.Printf("C15 replicated log took %.1fs\n", time.Since(t0).Seconds())

	// stress over a real RaftStore
	t0 = time.Now()
	runStress(r, r.Seed, r.Pick(500, 3000), 3)
	fmt.Printf("C15 stress took %.1fs\n", time.Since(t0).Seconds())

	// the lease as the replication worker acts upon it (real leader + 3-node follower cluster)
	t0 = time.Now()
	runWorkerLease(r, r.Pick(3, 8))
	fmt.Printf("C15 worker lease took %.1fs\n", time.Since(t0).Seconds())

	r.FloorCount("worker_trials", int64(r.Pick(3, 8)))
	r.FloorCount("worker_takeovers", int64(r.Pick(3, 8)))
	r.FloorNontrivial(int64(r.Pick(10_000, 500_000)))
	r.FloorCount("schedules", int64(r.Pick(20_000, 1_000_000)))
	for _, c := range []string{"lease_ok_unclaimed", "lease_ok_renew_own", "lease_ok_takeover_expired", "lease_refused_live_foreign",
		"return_ok_own", "return_declined_foreign", "cas_rejected_set", "cas_rejected_delete", "first_claims_lost_race", "batches_committed"} {
		r.FloorCount(c, int64(r.Pick(200, 5000)))
	}
	r.FloorCount("stress_calls", int64(r.Pick(3000, 18_000)))
	r.FloorCount("stress_lease_ok_unclaimed", int64(r.Pick(30, 400)))
	r.FloorCount("stress_lease_ok_renew_own", int64(r.Pick(50, 800)))
	r.FloorCount("stress_lease_ok_takeover_expired", int64(r.Pick(4, 40)))
	r.FloorCount("stress_return_ok_own", int64(r.Pick(30, 400)))
	r.FloorCount("stress_race_rounds", int64(r.Pick(300, 3000)))
	r.FloorCount("replicas_scenarios", int64(r.Pick(20_000, 500_000)))
	r.FloorCount("replicas_snapshot_catchups", int64(r.Pick(5000, 100_000)))
	r.FloorCount("replicas_scenarios_snapshot_over_different_record", int64(r.Pick(2000, 50_000)))
	r.FloorCount("replicas_lease_ok_takeover_expired", int64(r.Pick(1000, 20_000)))
	r.Finish()
}

func explore(r *ev.Run, fams []*family) {
	var jobs []job
	for fi, f := range fams {
		scs := f.Scripts
		idx := make([]int, len(scs))
		for i := range idx {
			idx[i] = i
		}
		if f.PickN > 0 && f.PickN < len(scs) {
			rng := rand.New(rand.NewSource(r.Seed*7919 + int64(fi)))
			rng.Shuffle(len(idx), func(a, b int) { idx[a], idx[b] = idx[b], idx[a] })
			idx = idx[:f.PickN]
			sort.Ints(idx)
		}
		f.reports = make([]*scriptReport, len(idx))
		for k, si := range idx {
			j := job{fam: f, idx: k, sc: scs[si], walks: f.Walks, batch: f.Batch, seed: r.Seed*1_000_003 + int64(fi)*100_003 + int64(si)}
			if j.walks == 0 && j.sc.bound() > sampleThreshold {
				j.walks = 2000
			}
			jobs = append(jobs, j)
		}
	}
	// big trees first, for balance
	sort.SliceStable(jobs, func(a, b int) bool {
		ca, cb := jobs[a].sc.bound(), jobs[b].sc.bound()
		if jobs[a].walks > 0 {
			ca = float64(jobs[a].walks)
		}
		if jobs[b].walks > 0 {
			cb = float64(jobs[b].walks)
		}
		return ca > cb
	})
	nw := runtime.NumCPU()
	if nw > 16 {
		nw = 16
	}
	var (
		mu      sync.Mutex // guards reports (several workers may contribute to one script)
		pending sync.WaitGroup
		queue   = make(chan job, 1<<16)
		wg      sync.WaitGroup
	)
	deliver := func(j job, rep *scriptReport) {
		mu.Lock()
		if cur := j.fam.reports[j.idx]; cur == nil {
			j.fam.reports[j.idx] = rep
		} else {
			cur.merge(rep)
		}
		mu.Unlock()
	}
	workers := make([]*worker, nw)
	for i := 0; i < nw; i++ {
		w := newWorker()
		workers[i] = w
		wg.Add(1)
		go func() {
			defer wg.Done()
			for j := range queue {
				switch {
				case watchdogs.Load() >= maxWatchdogs:
					rep := newReport(j.fam.Name, j.sc, false)
					if j.fixed == nil {
						rep.Unsure = append(rep.Unsure, fmt.Sprintf("%s: not explored, the watchdog had fired %d times before", j.sc, maxWatchdogs))
					}
					deliver(j, rep)
				case j.walks > 0:
					deliver(j, w.exploreWalks(j.fam.Name, j.sc, j.batch, j.seed, j.walks, r.Nontrivial))
				case j.split:
					subs, ok := w.subtrees(j.sc, j.batch, splitDepth)
					if !ok {
						rep := newReport(j.fam.Name, j.sc, false)
						rep.Unsure = append(rep.Unsure, fmt.Sprintf("%s: watchdog fired while partitioning the schedule tree", j.sc))
						deliver(j, rep)
						break
					}
					for _, p := range subs {
						jj := j
						jj.split, jj.fixed = false, p
						pending.Add(1)
						queue <- jj
					}
				default:
					deliver(j, w.exploreDFS(j.fam.Name, j.sc, j.batch, j.fixed, j.budget, r.Nontrivial))
				}
				pending.Done()
			}
		}()
	}
	for _, j := range jobs {
		j.split = j.walks == 0 && j.sc.bound() > splitBound
		j.budget = new(atomic.Int64)
		j.budget.Store(int64(j.sc.bound() + 0.5))
		if j.batch {
			// batches add options: the tree has no simple bound; families are sized to stay far below this
			j.budget.Store(sampleThreshold)
		}
		pending.Add(1)
		queue <- j
	}
	pending.Wait()
	close(queue)
	wg.Wait()

	total := newStats()
	for _, w := range workers {
		total.merge(w.st)
	}
	for k, v := range total.c {
		r.Count(k, v)
	}

	allExhaustive := true
	var famEv []map[string]any
	var perScript []string
	var distinctTotal int64
	var founds []found
	violTotals := map[string]int64{}
	samples := 0
	for _, f := range fams {
		var sched, nt, dist int64
		exh, sampled := 0, 0
		minS, maxS := int64(-1), int64(0)
		famSamples := 0
		for _, rep := range f.reports {
			sched += rep.Schedules
			nt += rep.Nontrivial
			dist += rep.Distinct
			if rep.Exhaustive {
				exh++
			} else {
				sampled++
				allExhaustive = false
			}
			if minS < 0 || rep.Schedules < minS {
				minS = rep.Schedules
			}
			if rep.Schedules > maxS {
				maxS = rep.Schedules
			}
			for _, u := range rep.Unsure {
				r.Inconclusive(u)
			}
			outs := make([]string, 0, len(rep.Outcomes))
			for o := range rep.Outcomes {
				outs = append(outs, o)
				r.Distinct("return_value_vectors", rep.ScStr+"="+o)
			}
			perScript = append(perScript, fmt.Sprintf("%s: schedules=%d exhaustive=%v overlapping=%d distinct_interleavings=%d return_vectors=%d max_store_ops=%d",
				rep.Sc, rep.Schedules, rep.Exhaustive, rep.Nontrivial, rep.Distinct, len(outs), rep.MaxDepth))
			founds = append(founds, rep.Found...)
			for s, n := range rep.ViolCount {
				violTotals[s] += n
			}
		}
		// samples: the scripts of the family with the most different return-value vectors
		order := make([]*scriptReport, 0, len(f.reports))
		for _, rep := range f.reports {
			if rep.Sample != nil {
				order = append(order, rep)
			}
		}
		sort.SliceStable(order, func(a, b int) bool { return len(order[a].Outcomes) > len(order[b].Outcomes) })
		for _, rep := range order {
			if famSamples >= 2 || samples >= 6 {
				break
			}
			rep.Sample["family"] = f.Name
			rep.Sample["schedules_of_script"] = rep.Schedules
			rep.Sample["exhaustive"] = rep.Exhaustive
			r.Sample(rep.Sample)
			famSamples++
			samples++
		}
		distinctTotal += dist
		r.Eval(sched)
		r.Count("schedules", sched)
		r.Count("scripts", int64(len(f.reports)))
		famEv = append(famEv, map[string]any{
			"family": f.Name, "scripts": len(f.reports), "scripts_enumerated_exhaustively": exh, "scripts_sampled": sampled,
			"schedules": sched, "min_schedules_per_script": minS, "max_schedules_per_script": maxS,
			"overlapping_window_schedules": nt, "distinct_interleaving_signatures": dist,
		})
		fmt.Printf("C15 %-28s scripts=%d (exhaustive %d, sampled %d) schedules=%d overlapping=%d\n", f.Name, len(f.reports), exh, sampled, sched, nt)
	}
	r.Exhaustive(allExhaustive)
	r.Extra("families", famEv)
	r.Extra("distinct_interleaving_signatures", distinctTotal)
	r.Extra("schedules_per_script", perScript)

	// violations: at most 3 witnesses per signature, smallest families first (deterministic)
	reported := map[string]int{}
	for _, fd := range founds {
		reported[fd.Sig]++
		if reported[fd.Sig] > 3 {
			continue
		}
		what := fmt.Sprintf("%s — script %s, schedule %v (%d violating schedules with this signature in this run)", fd.What, fd.Script, fd.Steps, violTotals[fd.Sig])
		r.Violation(fd.Sig, what, witness{Mode: "schedule", found: fd})
	}
	for s, n := range violTotals {
		r.Count("violating_schedules:"+s, n)
	}
}

func replay(r *ev.Run) {
	var w witness
	if _, err := r.ReadReplay(&w); err != nil {
		fmt.Fprintln(os.Stderr, "replay:", err)
		os.Exit(2)
	}
	switch w.Mode {
	case "schedule":
		wk := newWorker()
		rr := wk.replaySchedule(w.Calls, w.Schedule)
		if rr.status != runOK {
			r.Inconclusive("replay: the recorded schedule cannot be followed on this tree (a recorded step is not parked)")
			fmt.Println("replay: recorded schedule not reproducible on this tree")
			return
		}
		r.Eval(1)
		fmt.Printf("replay script %s\n", w.Calls)
		for _, s := range rr.steps() {
			fmt.Println("  ", s)
		}
		fmt.Println("  return values:", rr.outcomeString())
		for _, v := range rr.viol {
			fd := found{violation: v, Script: w.Calls.String(), Calls: w.Calls, Schedule: rr.schedule(), Steps: rr.steps(), Outcomes: rr.outcomeString()}
			r.Violation(v.Sig, v.What, witness{Mode: "schedule", found: fd})
		}
	case "replicas":
		replayReplicas(r, w.found.Steps)
	case "worker":
		// schedule-dependent: run the part again
		runWorkerLease(r, 4)
	case "stress":
		// schedule-dependent: re-run the same workload (same seed) and report what it shows
		for i := 0; i < 3 && r.Violations() == 0; i++ {
			runStress(r, w.Seed, w.Ops, w.Tables)
		}
	default:
		fmt.Fprintln(os.Stderr, "replay: unknown witness mode", w.Mode)
		os.Exit(2)
	}
}
