// C09 — range reads are sorted, bounded, truthful about `more`, and page losslessly.
//
// Layer 1: Lookup(range) and Lookup(iterator) on the real FSM for generated contents, with
// limits aligned on purpose around the number of matching pairs and pair sizes arranged so that
// size cuts fall around the last pairs. Layer 2: KV.Range / KV.IterateRange over real gRPC
// against a real engine (message limit of the client = the transport limit). Layer 3: a streamed
// read consumed slowly while a writer keeps rewriting every key with a fresh tag must be one
// point-in-time view.
package main

import (
	"bytes"
	"context"
	"fmt"
	"io"
	"os"
	"sync/atomic"
	"time"

	pb "github.com/jamf/regatta/regattapb"
	"github.com/jamf/regatta/regattaserver"
	"github.com/jamf/regatta/storage/table/fsm"
	"github.com/jamf/regatta/util/iter"
	sm "github.com/lni/dragonboat/v4/statemachine"
	"google.golang.org/grpc"

	"verifharness/internal/cluster"
	"verifharness/internal/ev"
	"verifharness/internal/fsmx"
	"verifharness/internal/gen"
	"verifharness/internal/judge"
	"verifharness/internal/model"
)

type caseID struct {
	Kind string `json:"kind"` // small | big | grpc | view
	Seed int64  `json:"case_seed"`
}

type witness struct {
	Case    caseID   `json:"case"`
	Content []string `json:"content"`
	Request string   `json:"request"`
}

func main() {
	r := ev.Start("C09", "exploration")
	r.Supervise() // a real engine runs in-process: its death is an outcome, observed by a supervising parent
	r.Rule("generated table contents (small nasty keys; big: 3-9 pairs of 0.5-2 MiB so that 4 MiB size cuts fall on / before / after the last pair); every request is issued with limit in {m-2..m+2, 0} " +
		"for m matching pairs, in full / keys_only / count_only form, as one read and as a stream. Non-trivial: a read with limit in {m-1,m,m+1} (m>=1) or a stream of >=2 messages; distinct by (content, request) hash")
	r.Assume("how pairs are packed into messages is not judged, only: prefix of the full answer, ascending, within limit, truthful more, every message below the 4 MiB transport limit, progress")
	if r.Replay != "" {
		var w witness
		if _, err := r.ReadReplay(&w); err != nil {
			fmt.Fprintln(os.Stderr, "replay:", err)
			os.Exit(2)
		}
		run(r, w.Case)
		r.Finish()
	}
	ev.Parallel(r.Pick(400, 8000), 8, func(i int) {
		run(r, caseID{"small", r.Seed*1_000_003 + int64(i)})
	})
	for i, n := 0, r.Pick(12, 150); i < n; i++ {
		run(r, caseID{"big", r.Seed*2_000_003 + int64(i)})
	}
	for i, n := 0, r.Pick(1, 6); i < n; i++ {
		run(r, caseID{"grpc", r.Seed*3_000_003 + int64(i)})
	}
	for i, n := 0, r.Pick(2, 20); i < n; i++ {
		run(r, caseID{"view", r.Seed*4_000_003 + int64(i)})
	}
	r.Count("contents_of_many_mid_size_pairs", manySmall.Load())
	r.FloorCount("contents_of_many_mid_size_pairs", 1)
	r.FloorNontrivial(int64(r.Pick(1500, 30000)))
	r.FloorCount("reads", int64(r.Pick(8000, 150000)))
	r.FloorCount("streams_multi_message", int64(r.Pick(40, 500)))
	r.FloorCount("streams_walked_again", int64(r.Pick(1000, 15000)))
	r.FloorCount("grpc_streams", int64(r.Pick(40, 300)))
	r.FloorCount("view_streams_overlapping_writes", int64(r.Pick(2, 20)))
	r.Finish()
}

func run(r *ev.Run, id caseID) {
	switch id.Kind {
	case "small", "big":
		runFSM(r, id)
	case "grpc":
		runGRPC(r, id)
	case "view":
		runView(r, id)
	}
}

// fillManySmall: a range of several MiB made of tens of thousands of small pairs, so that the
// per-pair framing overhead adds up inside one message.
func fillManySmall(g *gen.G) []*pb.Command {
	var cmds []*pb.Command
	total, i := 0, 0
	target := (5 + g.R.Intn(4)) * 1024 * 1024
	// 2-8 KiB pairs: 500-2000 pairs per 4 MiB message (regatta recomputes the message size per
	// pair, so much smaller pairs make a single read take tens of seconds)
	vmax := []int{2048, 4096, 8192}[g.R.Intn(3)]
	klen := []int{8, 40, 120}[g.R.Intn(3)]
	for total < target {
		batch := &pb.Command{Type: pb.Command_PUT_BATCH}
		for j := 0; j < 200 && total < target; j++ {
			k := []byte(fmt.Sprintf("%0*d", klen, i))
			v := bytes.Repeat([]byte{byte('a' + i%26)}, vmax/2+g.R.Intn(vmax/2))
			batch.Batch = append(batch.Batch, &pb.KeyValue{Key: k, Value: v})
			total += len(k) + len(v)
			i++
		}
		cmds = append(cmds, batch)
	}
	return cmds
}

var manySmall atomic.Int64

// fillLongKeys: several MiB of KEYS (1000-byte keys, tiny values): a keys-only read of it does not
// fit one message either.
func fillLongKeys(g *gen.G) []*pb.Command {
	var cmds []*pb.Command
	n := 4600 + g.R.Intn(2500)
	for i := 0; i < n; {
		batch := &pb.Command{Type: pb.Command_PUT_BATCH}
		for j := 0; j < 200 && i < n; j++ {
			k := []byte(fmt.Sprintf("%01000d", i))
			batch.Batch = append(batch.Batch, &pb.KeyValue{Key: k, Value: []byte{byte('a' + i%26)}})
			i++
		}
		cmds = append(cmds, batch)
	}
	return cmds
}

var longKeys atomic.Int64

func fill(g *gen.G, big bool) []*pb.Command {
	var cmds []*pb.Command
	if big && (g.R.Intn(5) == 0 || longKeys.CompareAndSwap(0, 1)) {
		longKeys.Add(1)
		return fillLongKeys(g)
	}
	if big && g.R.Intn(4) == 0 {
		manySmall.Add(1)
		return fillManySmall(g)
	}
	if big {
		n := 3 + g.R.Intn(7)
		// a third of the big contents is aligned: the first three pairs sum up to the transport
		// limit +- a few KiB, so that an off-by-some size test produces an oversize message
		aligned := g.R.Intn(3) == 0
		var sum int
		for i := 0; i < n; i++ {
			sz := 512*1024 + g.R.Intn(3*512*1024)
			if aligned && i <= 2 {
				if i < 2 {
					sz = 1024*1024 + 128*1024 + g.R.Intn(128*1024)
					sum += sz + 3
				} else {
					sz = 4*1024*1024 - sum - 3 - 2048 + g.R.Intn(8192)
				}
				cmds = append(cmds, &pb.Command{Type: pb.Command_PUT, Kv: &pb.KeyValue{Key: []byte(fmt.Sprintf("k%02d", i)), Value: bytes.Repeat([]byte{byte('a' + i)}, sz)}})
				continue
			}
			if g.R.Intn(4) == 0 {
				sz = 2*1024*1024 - g.R.Intn(2048)
			}
			if g.R.Intn(6) == 0 {
				sz = g.R.Intn(2000)
			}
			v := make([]byte, sz)
			for j := 0; j < len(v); j += 4096 {
				v[j] = byte(g.R.Intn(256))
			}
			copy(v, fmt.Sprintf("big%d", i))
			cmds = append(cmds, &pb.Command{Type: pb.Command_PUT, Kv: &pb.KeyValue{Key: []byte(fmt.Sprintf("k%02d", i)), Value: v}})
		}
		return cmds
	}
	g.NewPool(2 + g.R.Intn(12))
	for i, n := 0, g.R.Intn(25); i < n; i++ {
		c := g.Command(1)
		cmds = append(cmds, c)
	}
	return cmds
}

// requests returns the request family for one base request and m matching pairs.
func requests(base *pb.RequestOp_Range, m int) []*pb.RequestOp_Range {
	var out []*pb.RequestOp_Range
	limits := map[int64]bool{0: true}
	for d := -2; d <= 2; d++ {
		if l := int64(m + d); l > 0 {
			limits[l] = true
		}
	}
	for l := range limits {
		for f := 0; f < 3; f++ {
			q := &pb.RequestOp_Range{Key: base.Key, RangeEnd: base.RangeEnd, Limit: l, KeysOnly: f == 1, CountOnly: f == 2}
			out = append(out, q)
		}
	}
	return out
}

func judgeStream(req *pb.RequestOp_Range, full []model.KV, chunks []*pb.ResponseOp_Range) (string, int) {
	if len(chunks) == 0 {
		return "stream delivered no message", 0
	}
	want := full
	if req.Limit > 0 && int(req.Limit) < len(want) {
		want = want[:req.Limit]
	}
	pos := 0
	for i, c := range chunks {
		last := i == len(chunks)-1
		if sz := c.SizeVT(); sz >= judge.MaxMsg {
			return fmt.Sprintf("message %d has %d bytes, at or above the transport limit", i, sz), len(chunks)
		}
		n := len(c.Kvs)
		if req.CountOnly {
			n = int(c.Count)
			if len(c.Kvs) != 0 {
				return "count_only stream carries pairs", len(chunks)
			}
		} else if c.Count != int64(len(c.Kvs)) {
			return fmt.Sprintf("message %d: count=%d but %d pairs", i, c.Count, len(c.Kvs)), len(chunks)
		}
		if pos+n > len(want) {
			return fmt.Sprintf("stream delivered more than the %d expected pairs", len(want)), len(chunks)
		}
		if !req.CountOnly {
			for j, kv := range c.Kvs {
				if why := judge.KVEq(kv, want[pos+j], req.KeysOnly); why != "" {
					return fmt.Sprintf("message %d pair %d: %s", i, j, why), len(chunks)
				}
			}
		}
		pos += n
		if !last {
			if !c.More {
				return fmt.Sprintf("message %d of %d is not flagged more", i, len(chunks)), len(chunks)
			}
			if n == 0 {
				return fmt.Sprintf("message %d of %d is empty", i, len(chunks)), len(chunks)
			}
		} else {
			remain := pos < len(full)
			if c.More != remain {
				return fmt.Sprintf("last message more=%v but %d of %d pairs of the range were delivered (limit %d)", c.More, pos, len(full), req.Limit), len(chunks)
			}
		}
	}
	if pos != len(want) {
		return fmt.Sprintf("stream delivered %d pairs, the single read of the same view holds %d (limit %d)", pos, len(want), req.Limit), len(chunks)
	}
	return "", len(chunks)
}

func content(m *model.Table) []string {
	var out []string
	for _, kv := range m.Sorted() {
		out = append(out, fmt.Sprintf("%q=%dB", trunc(kv.K), len(kv.V)))
	}
	return out
}

func trunc(s string) string {
	if len(s) > 16 {
		return s[:16] + "…"
	}
	return s
}

func runFSM(r *ev.Run, id caseID) {
	g := gen.New(id.Seed)
	big := id.Kind == "big"
	t, err := fsmx.Fresh("t", fsm.RecoveryTypeSnapshot)
	if err != nil {
		r.Violation("fsm-open", err.Error(), id)
		return
	}
	defer t.Close()
	m := model.NewTable()
	cmds := fill(g, big)
	var entries []sm.Entry
	for i, c := range cmds {
		c.Table = []byte("t")
		e := fsmx.Entry(uint64(i+1), c)
		entries = append(entries, e)
		m.Apply(e.Index, fsmx.Decoded(e))
	}
	pos := 0
	for _, c := range g.Cut(len(entries), 6) {
		if _, err := t.Update(entries[pos : pos+c]); err != nil {
			r.Violation("update-error", err.Error(), id)
			return
		}
		pos += c
	}
	w := witness{Case: id, Content: content(m)}
	var bases []*pb.RequestOp_Range
	bases = append(bases, fsmx.All())
	nb := 4
	if big {
		nb = 2
	}
	for i := 0; i < nb; i++ {
		b := g.RangeReq()
		if big {
			keys := m.Sorted()
			b = &pb.RequestOp_Range{Key: []byte{0}, RangeEnd: []byte{0}}
			if len(keys) > 2 {
				b.Key = []byte(keys[g.R.Intn(2)].K)
				b.RangeEnd = append([]byte(keys[len(keys)-1-g.R.Intn(2)].K), 0)
			}
		}
		bases = append(bases, b)
	}
	for _, b := range bases {
		full := m.Select(b.Key, b.RangeEnd)
		for _, req := range requests(b, len(full)) {
			if req.RangeEnd == nil && req.Limit != 0 && !big {
				// limit is irrelevant for a single key; keep one variant
				if req.Limit != 1 {
					continue
				}
			}
			w.Request = gen.DescribeRange(req)
			got, err := t.Range(req)
			r.Count("reads", 1)
			if err != nil {
				r.Violation("read-error", err.Error()+" @ "+w.Request, w)
				return
			}
			why, n := judge.Range(req, full, got)
			if why != "" {
				sig := "read-mismatch"
				if req.Limit > 0 && int(req.Limit) == len(full)-1 && n == int(req.Limit) && !got.More {
					sig = "more-false-with-one-pair-left"
				}
				r.Violation(sig, why+" @ "+w.Request, w)
				return
			}
			// other requests are served between opening the stream and producing its first message
			chunks, again, err := t.StreamRewalk(req, func() {
				_, _ = t.Range(&pb.RequestOp_Range{Key: []byte("zz-other-key")})
				_, _ = t.Range(&pb.RequestOp_Range{Key: []byte("a-other"), RangeEnd: []byte("b-other")})
				_, _ = t.Txn(&pb.TxnRequest{Compare: []*pb.Compare{{Key: []byte("other-cmp")}}})
			})
			r.Count("reads", 1)
			r.Count("streams_with_requests_between_open_and_first_message", 1)
			if err != nil {
				r.Violation("stream-error", err.Error()+" @ "+w.Request, w)
				return
			}
			var sw string
			var nm int
			if req.RangeEnd == nil {
				if len(chunks) != 1 {
					sw = fmt.Sprintf("single-key stream delivered %d messages", len(chunks))
				} else {
					sw, _ = judge.Range(req, full, chunks[0])
				}
				nm = len(chunks)
			} else {
				sw, nm = judgeStream(req, full, chunks)
			}
			if sw != "" {
				sig := "stream-mismatch"
				if req.Limit > 0 && int(req.Limit) == len(full)-1 {
					sig = "stream-mismatch-limit-one-below-matches"
				}
				r.Violation(sig, sw+" @ stream "+w.Request, w)
				return
			}
			if nm >= 2 {
				r.Count("streams_multi_message", 1)
			}
			// the same sequence walked again (after a walk that stopped at its first message): the table
			// did not change, so it must describe the same read
			r.Count("streams_walked_again", 1)
			if req.RangeEnd == nil {
				if len(again) != 1 {
					sw = fmt.Sprintf("single-key stream delivered %d messages", len(again))
				} else {
					sw, _ = judge.Range(req, full, again[0])
				}
			} else {
				sw, _ = judgeStream(req, full, again)
			}
			if sw != "" {
				r.Violation("stream-rewalk-mismatch", "second complete walk of the same sequence: "+sw+" @ stream "+w.Request, w)
				return
			}
			l := int(req.Limit)
			if (len(full) >= 1 && l >= len(full)-1 && l <= len(full)+1 && l > 0) || nm >= 2 {
				r.Nontrivial(fmt.Sprint(w.Content, w.Request))
			}
			r.Distinct("limit_minus_matches", fmt.Sprint(classify(l, len(full))))
		}
	}
	r.Eval(1)
	r.Sample(map[string]any{"kind": id.Kind, "content": head(w.Content, 6), "last_request": w.Request})
}

func classify(limit, m int) string {
	switch {
	case limit == 0:
		return "unlimited"
	case limit < m-1:
		return "less"
	case limit == m-1:
		return "m-1"
	case limit == m:
		return "m"
	case limit == m+1:
		return "m+1"
	}
	return "greater"
}

func head(s []string, n int) []string {
	if len(s) > n {
		return append(append([]string{}, s[:n]...), fmt.Sprintf("… %d more", len(s)-n))
	}
	return s
}

// runGRPC: real engine + real KVServer + real gRPC client with default limits.
func runGRPC(r *ev.Run, id caseID) {
	g := gen.New(id.Seed)
	c, err := cluster.Start(cluster.Opts{Nodes: 1})
	if err != nil {
		r.Inconclusive("engine start: " + err.Error())
		return
	}
	defer c.Close()
	e := c.Nodes[0].Engine
	addr, stop, err := cluster.Serve(func(s *grpc.Server) {
		pb.RegisterKVServer(s, &regattaserver.KVServer{Storage: e})
	})
	if err != nil {
		r.Inconclusive("serve: " + err.Error())
		return
	}
	defer stop()
	conn, err := cluster.Dial(addr)
	if err != nil {
		r.Inconclusive("dial: " + err.Error())
		return
	}
	defer conn.Close()
	kv := pb.NewKVClient(conn)
	ctx, cancel := context.WithTimeout(context.Background(), 5*time.Minute)
	defer cancel()
	nStreams := 0
	for tb := 0; tb < 3; tb++ {
		name := fmt.Sprintf("t%d", tb)
		if _, err := c.CreateTable(name); err != nil {
			r.Inconclusive("create table: " + err.Error())
			return
		}
		m := model.NewTable()
		cmds := fill(g, tb < 2)
		for _, cm := range cmds {
			switch cm.Type {
			case pb.Command_PUT:
				if _, err := kv.Put(ctx, &pb.PutRequest{Table: []byte(name), Key: cm.Kv.Key, Value: cm.Kv.Value}); err != nil {
					r.Inconclusive("grpc put: " + err.Error())
					return
				}
				m.M[string(cm.Kv.Key)] = cm.Kv.Value
			}
		}
		w := witness{Case: id, Content: content(m)}
		bases := []*pb.RequestOp_Range{fsmx.All()}
		keys := m.Sorted()
		if len(keys) > 2 {
			bases = append(bases, &pb.RequestOp_Range{Key: []byte(keys[1].K), RangeEnd: []byte(keys[len(keys)-1].K)})
		}
		for _, b := range bases {
			full := m.Select(b.Key, b.RangeEnd)
			for _, req := range requests(b, len(full)) {
				w.Request = gen.DescribeRange(req)
				rr := &pb.RangeRequest{Table: []byte(name), Key: req.Key, RangeEnd: req.RangeEnd, Limit: req.Limit, KeysOnly: req.KeysOnly, CountOnly: req.CountOnly, Linearizable: g.R.Intn(2) == 0}
				resp, err := kv.Range(ctx, rr)
				if err != nil {
					r.Violation("grpc-range-error", err.Error()+" @ "+w.Request, w)
					return
				}
				if why, _ := judge.Range(req, full, &pb.ResponseOp_Range{Kvs: resp.Kvs, More: resp.More, Count: resp.Count}); why != "" {
					r.Violation("grpc-range-mismatch", why+" @ "+w.Request, w)
					return
				}
				// every second stream is requested the way a client without a time-out does it: the
				// server then sees a context that carries no deadline
				sctx, scancel := ctx, context.CancelFunc(func() {})
				if nStreams++; nStreams%2 == 0 {
					sctx, scancel = context.WithCancel(context.Background())
					w.Request += " (stream requested without a deadline)"
					r.Count("grpc_streams_without_deadline", 1)
				}
				st, err := kv.IterateRange(sctx, rr)
				if err != nil {
					scancel()
					r.Violation("grpc-stream-error", err.Error()+" @ "+w.Request, w)
					return
				}
				var chunks []*pb.ResponseOp_Range
				for {
					msg, err := st.Recv()
					if err == io.EOF {
						break
					}
					if err != nil {
						scancel()
						r.Violation("grpc-stream-error", "Recv: "+err.Error()+" @ "+w.Request, w)
						return
					}
					chunks = append(chunks, &pb.ResponseOp_Range{Kvs: msg.Kvs, More: msg.More, Count: msg.Count})
				}
				scancel()
				// the same read by an in-process caller of the engine (as the replication and backup
				// code paths call it), with a context that carries no deadline
				if nStreams%4 == 0 {
					seq, err := e.IterateRange(context.Background(), rr)
					if err != nil {
						r.Violation("engine-stream-error", err.Error()+" @ "+w.Request, w)
						return
					}
					var ech []*pb.ResponseOp_Range
					seq(func(m *pb.RangeResponse) bool {
						ech = append(ech, &pb.ResponseOp_Range{Kvs: m.Kvs, More: m.More, Count: m.Count})
						return true
					})
					if why, _ := judgeStream(req, full, ech); why != "" {
						r.Violation("engine-stream-mismatch", why+" @ Engine.IterateRange(context.Background()) "+w.Request, w)
						return
					}
					r.Count("engine_streams_without_deadline", 1)
				}
				why, nm := judgeStream(req, full, chunks)
				if why != "" {
					r.Violation("grpc-stream-mismatch", why+" @ stream "+w.Request, w)
					return
				}
				r.Count("grpc_streams", 1)
				r.Count("reads", 2)
				if nm >= 2 {
					r.Count("streams_multi_message", 1)
					r.Nontrivial(fmt.Sprint("grpc", w.Content, w.Request))
				}
			}
		}
	}
	r.Eval(1)
}

// runView: a slowly consumed stream must be one point-in-time view.
func runView(r *ev.Run, id caseID) {
	g := gen.New(id.Seed)
	t, err := fsmx.Fresh("t", fsm.RecoveryTypeSnapshot)
	if err != nil {
		r.Violation("fsm-open", err.Error(), id)
		return
	}
	defer t.Close()
	const nkeys = 6
	valSize := 1024*1024 + g.R.Intn(512*1024)
	mkBatch := func(gen uint64) []sm.Entry {
		tx := &pb.Txn{}
		for k := 0; k < nkeys; k++ {
			v := make([]byte, valSize)
			copy(v, fmt.Sprintf("gen%06d", gen))
			tx.Success = append(tx.Success, &pb.RequestOp{Request: &pb.RequestOp_RequestPut{RequestPut: &pb.RequestOp_Put{Key: []byte(fmt.Sprintf("k%d", k)), Value: v}}})
		}
		return []sm.Entry{fsmx.Entry(gen, &pb.Command{Table: []byte("t"), Type: pb.Command_TXN, Txn: tx})}
	}
	if _, err := t.Update(mkBatch(1)); err != nil {
		r.Violation("update-error", err.Error(), id)
		return
	}
	var started, completed atomic.Uint64
	started.Store(1)
	completed.Store(1)
	stop := make(chan struct{})
	done := make(chan struct{})
	go func() {
		defer close(done)
		for gn := uint64(2); ; gn++ {
			select {
			case <-stop:
				return
			default:
			}
			started.Store(gn)
			if _, err := t.Update(mkBatch(gn)); err != nil {
				return
			}
			completed.Store(gn)
		}
	}()
	defer func() { close(stop); <-done }()
	for s := 0; s < 4; s++ {
		lo := completed.Load()
		v, err := t.SM.Lookup(fsm.IteratorRequest{RangeOp: fsmx.All()})
		if err != nil {
			r.Violation("stream-error", err.Error(), id)
			return
		}
		seq := v.(iter.Seq[*pb.ResponseOp_Range])
		gens := map[string]int{}
		keys := 0
		msgs := 0
		var prev []byte
		bad := ""
		seq(func(c *pb.ResponseOp_Range) bool {
			msgs++
			for _, kv := range c.Kvs {
				if prev != nil && bytes.Compare(prev, kv.Key) >= 0 {
					bad = fmt.Sprintf("keys not ascending / repeated across messages at %q", kv.Key)
				}
				prev = append(prev[:0], kv.Key...)
				gens[string(kv.Value[:9])]++
				keys++
			}
			time.Sleep(3 * time.Millisecond) // consumer back-pressure between messages
			return true
		})
		hi := started.Load()
		if bad != "" {
			r.Violation("stream-view-order", bad, witness{Case: id})
			return
		}
		if len(gens) != 1 || keys != nkeys {
			r.Violation("stream-not-point-in-time", fmt.Sprintf("streamed read over %d messages mixes generations %v (%d keys): not a single point-in-time view", msgs, gens, keys), witness{Case: id})
			return
		}
		var seen uint64
		for k := range gens {
			fmt.Sscanf(k, "gen%06d", &seen)
		}
		if seen < lo || seen > hi {
			r.Violation("stream-view-out-of-window", fmt.Sprintf("stream shows generation %d, outside [%d,%d]", seen, lo, hi), witness{Case: id})
			return
		}
		r.Count("view_streams", 1)
		if hi > lo && msgs >= 2 {
			r.Count("view_streams_overlapping_writes", 1)
		}
	}
	r.Eval(1)
}
