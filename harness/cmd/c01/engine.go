package main

import (
	"context"
	"fmt"
	"time"

	pb "github.com/jamf/regatta/regattapb"

	"verifharness/internal/cluster"
	"verifharness/internal/ev"
	"verifharness/internal/gen"
	"verifharness/internal/judge"
	"verifharness/internal/model"
)

// wire simulates the gRPC hop: what the server-side handler receives is the decoded form.
func wire[T interface {
	MarshalVT() ([]byte, error)
	UnmarshalVT([]byte) error
}](in T, out T) T {
	b, err := in.MarshalVT()
	if err != nil {
		panic(err)
	}
	if err := out.UnmarshalVT(b); err != nil {
		panic(err)
	}
	return out
}

func runEngineHistory(r *ev.Run, id caseID) {
	g := gen.New(id.Seed)
	g.NewPool(8)
	c, err := cluster.Start(cluster.Opts{Nodes: 1})
	if err != nil {
		r.Inconclusive("engine start: " + err.Error())
		return
	}
	defer c.Close()
	if _, err := c.CreateTable("t"); err != nil {
		r.Inconclusive("create table: " + err.Error())
		return
	}
	e := c.Nodes[0].Engine
	m := model.NewTable()
	g.Peek = func(k []byte) ([]byte, bool) { v, ok := m.M[string(k)]; return v, ok }
	w := witness{Case: id}
	fail := func(sig, at, what string) {
		w.At = at
		r.Violation("engine-"+sig, what+" @ "+at, w)
	}
	n := 200
	if r.Thorough() {
		n = 400
	}
	ctx := context.Background()
	for i := 0; i < n; i++ {
		cctx, cancel := context.WithTimeout(ctx, 10*time.Second)
		switch k := g.R.Intn(10); {
		case k < 3:
			req := wire(&pb.PutRequest{Table: []byte("t"), Key: g.Key(), Value: g.Value(), PrevKv: g.R.Intn(2) == 0}, &pb.PutRequest{})
			d := fmt.Sprintf("Put(%q=%dB prev=%v)", trunc(req.Key), len(req.Value), req.PrevKv)
			w.Commands = append(w.Commands, d)
			resp, err := e.Put(cctx, req)
			if err != nil {
				cancel()
				fail("put-error", d, err.Error())
				return
			}
			exp := m.Apply(m.Applied+1, &pb.Command{Type: pb.Command_PUT, Kv: &pb.KeyValue{Key: req.Key, Value: req.Value}, PrevKvs: req.PrevKv})
			if why := judge.Put(exp.Responses[0].Put, &pb.ResponseOp_Put{PrevKv: resp.PrevKv}); why != "" {
				cancel()
				fail("put-response", d, why)
				return
			}
		case k < 5:
			req := &pb.DeleteRangeRequest{Table: []byte("t"), Key: g.Key(), PrevKv: g.R.Intn(2) == 0, Count: g.R.Intn(2) == 0}
			if g.R.Intn(2) == 0 {
				if g.R.Intn(3) == 0 {
					req.Key = g.LowKey()
				}
				req.RangeEnd = g.RangeEnd(req.Key)
			}
			req = wire(req, &pb.DeleteRangeRequest{})
			d := fmt.Sprintf("Delete(%q end=%q prev=%v count=%v)", trunc(req.Key), trunc(req.RangeEnd), req.PrevKv, req.Count)
			w.Commands = append(w.Commands, d)
			resp, err := e.Delete(cctx, req)
			if err != nil {
				cancel()
				fail("delete-error", d, err.Error())
				return
			}
			exp := m.Apply(m.Applied+1, &pb.Command{Type: pb.Command_DELETE, Kv: &pb.KeyValue{Key: req.Key}, RangeEnd: req.RangeEnd, PrevKvs: req.PrevKv, Count: req.Count})
			if why, _ := judge.Del(exp.Responses[0].Del, &pb.ResponseOp_DeleteRange{Deleted: resp.Deleted, PrevKvs: resp.PrevKvs}); why != "" {
				cancel()
				fail("delete-response", d, why)
				return
			}
		case k < 7:
			t := g.Txn(g.R.Intn(4) == 0)
			req := wire(&pb.TxnRequest{Table: []byte("t"), Compare: t.Compare, Success: t.Success, Failure: t.Failure}, &pb.TxnRequest{})
			d := gen.DescribeTxn(&pb.Txn{Compare: req.Compare, Success: req.Success, Failure: req.Failure})
			w.Commands = append(w.Commands, d)
			resp, err := e.Txn(cctx, req)
			if err != nil {
				cancel()
				if txnOversize(req) {
					// a key / range end above the documented limit is refused (C16's subject)
					r.Count("engine_ops_refused_for_oversize_key", 1)
					continue
				}
				fail("txn-error", d, err.Error())
				return
			}
			ok, exp := m.Txn(req.Compare, req.Success, req.Failure)
			if resp.Succeeded != ok {
				cancel()
				fail("txn-succeeded", d, fmt.Sprintf("succeeded=%v, model %v", resp.Succeeded, ok))
				return
			}
			if mm := judge.Responses(exp, resp.Responses, true); mm != nil {
				cancel()
				fail("txn-response-"+mm.Class, d, mm.Why)
				return
			}
		default:
			rr := g.RangeReq()
			req := wire(&pb.RangeRequest{Table: []byte("t"), Key: rr.Key, RangeEnd: rr.RangeEnd, Limit: rr.Limit, KeysOnly: rr.KeysOnly, CountOnly: rr.CountOnly, Linearizable: g.R.Intn(2) == 0}, &pb.RangeRequest{})
			op := &pb.RequestOp_Range{Key: req.Key, RangeEnd: req.RangeEnd, Limit: req.Limit, KeysOnly: req.KeysOnly, CountOnly: req.CountOnly}
			d := gen.DescribeRange(op)
			resp, err := e.Range(cctx, req)
			if err != nil {
				cancel()
				if len(req.Key) > 1024 || len(req.RangeEnd) > 1024 {
					r.Count("engine_ops_refused_for_oversize_key", 1)
					continue
				}
				fail("range-error", d, err.Error())
				return
			}
			if why, _ := judge.Range(op, m.RangeFull(op), &pb.ResponseOp_Range{Kvs: resp.Kvs, More: resp.More, Count: resp.Count}); why != "" {
				cancel()
				fail("range-mismatch", d, why)
				return
			}
		}
		cancel()
		r.Count("engine_ops", 1)
	}
	// final dump through the streaming read
	seq, err := e.IterateRange(ctx, &pb.RangeRequest{Table: []byte("t"), Key: []byte{0}, RangeEnd: []byte{0}})
	if err != nil {
		fail("iterate-error", "final dump", err.Error())
		return
	}
	got := model.NewTable()
	seq(func(rr *pb.RangeResponse) bool {
		for _, kv := range rr.Kvs {
			got.M[string(kv.Key)] = kv.Value
		}
		return true
	})
	exp := m.Clone()
	got.Applied, got.Leader = exp.Applied, exp.Leader
	if !got.Equal(exp) {
		fail("final-state", "final dump", fmt.Sprintf("engine holds %d keys, model %d", len(got.M), len(exp.M)))
		return
	}
	r.Eval(1)
	r.Sample(map[string]any{"layer": 2, "ops": head(w.Commands, 6), "final_keys": len(m.M)})
}

func trunc(b []byte) []byte {
	if len(b) > 16 {
		return b[:16]
	}
	return b
}

func txnOversize(req *pb.TxnRequest) bool {
	big := func(b ...[]byte) bool {
		for _, x := range b {
			if len(x) > 1024 {
				return true
			}
		}
		return false
	}
	for _, c := range req.Compare {
		if big(c.Key, c.RangeEnd) {
			return true
		}
	}
	for _, ops := range [][]*pb.RequestOp{req.Success, req.Failure} {
		for _, op := range ops {
			switch o := op.Request.(type) {
			case *pb.RequestOp_RequestRange:
				if big(o.RequestRange.Key, o.RequestRange.RangeEnd) {
					return true
				}
			case *pb.RequestOp_RequestPut:
				if big(o.RequestPut.Key) {
					return true
				}
			case *pb.RequestOp_RequestDeleteRange:
				if big(o.RequestDeleteRange.Key, o.RequestDeleteRange.RangeEnd) {
					return true
				}
			}
		}
	}
	return false
}
