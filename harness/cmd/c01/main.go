// C01 — a table behaves as an ordered byte-string map for every command history.
//
// Layer 1 drives the real storage/table/fsm state machine (Update/Lookup, the calls dragonboat
// makes) with generated histories and judges every response, every sampled read, the applied
// index and the final content against the reference map. Layer 2 does the same through a real
// single-node storage.Engine (Put/Delete/Txn/Range on a real Raft group).
package main

import (
	"fmt"
	"math/rand"
	"os"

	pb "github.com/jamf/regatta/regattapb"
	"github.com/jamf/regatta/storage/table/fsm"
	sm "github.com/lni/dragonboat/v4/statemachine"

	"verifharness/internal/ev"
	"verifharness/internal/fsmx"
	"verifharness/internal/gen"
	"verifharness/internal/judge"
	"verifharness/internal/model"
)

type caseID struct {
	Layer int   `json:"layer"`
	Seed  int64 `json:"case_seed"`
	Big   bool  `json:"big"`
}

type witness struct {
	Case     caseID   `json:"case"`
	Commands []string `json:"commands"`
	Cuts     []int    `json:"apply_batches"`
	At       string   `json:"at"`
}

func main() {
	r := ev.Start("C01", "exploration")
	r.Supervise() // a real engine runs in-process: its death is an outcome, observed by a supervising parent
	r.Rule("layer 1: seeded command histories (1-60 commands over a 6-12 key pool of nasty keys, random apply batches of 1-10 entries, sparse indices) applied to the real FSM; " +
		"layer 2: the same generator through a real single-node storage.Engine. A history is non-trivial when it contains a range delete, a read-after-write inside one apply batch " +
		"and a key with a 0x00 or 0xFF byte; distinct by hash of the command list")
	r.Assume("keys are non-empty (empty keys are C16's subject)", "keys_only and count_only are never both set (rejected by the API, C16)",
		"response fields nobody asked for (deleted without count, prev_kv without prev_kv) are not judged")
	if r.Replay != "" {
		var w witness
		if _, err := r.ReadReplay(&w); err != nil {
			fmt.Fprintln(os.Stderr, "replay:", err)
			os.Exit(2)
		}
		switch w.Case.Layer {
		case 1:
			runHistory(r, w.Case)
		case 2:
			runEngineHistory(r, w.Case)
		}
		r.Finish()
	}
	ev.Parallel(r.Pick(4000, 40000), 8, func(i int) {
		runHistory(r, caseID{Layer: 1, Seed: r.Seed*1_000_003 + int64(i)})
	})
	ev.Parallel(r.Pick(12, 120), 4, func(i int) {
		runHistory(r, caseID{Layer: 1, Seed: r.Seed*7_000_003 + int64(i), Big: true})
	})
	ne := r.Pick(3, 12)
	for i := 0; i < ne; i++ {
		runEngineHistory(r, caseID{Layer: 2, Seed: r.Seed*9_000_011 + int64(i)})
	}
	r.FloorNontrivial(int64(r.Pick(1500, 15000)))
	r.FloorCount("commands", int64(r.Pick(60000, 600000)))
	r.FloorCount("engine_ops", int64(r.Pick(400, 3000)))
	r.Finish()
}

func runHistory(r *ev.Run, id caseID) {
	g := gen.New(id.Seed)
	g.NewPool(6 + g.R.Intn(7))
	g.Big = id.Big
	if id.Big {
		g.NewPool(4 + g.R.Intn(3))
		g.BigP = 50
	}
	t, err := fsmx.Fresh("t", fsm.RecoveryTypeSnapshot)
	if err != nil {
		r.Violation("fsm-open", fmt.Sprintf("open failed: %v", err), id)
		return
	}
	defer func() { t.Close() }()
	m := model.NewTable()
	g.Peek = func(k []byte) ([]byte, bool) { v, ok := m.M[string(k)]; return v, ok }

	n := 1 + g.R.Intn(60)
	if id.Big {
		n = len(g.Pool) + 2 + g.R.Intn(10)
	}
	w := witness{Case: id}
	var (
		idx                             uint64
		hasRangeDel, hasRAW, hasNasty   bool
		cmdHash                         string
		total                           int
	)
	fail := func(sig, at, what string) {
		w.At = at
		r.Violation(sig, what+" @ "+at, w)
	}
	for total < n {
		bs := 1 + g.R.Intn(10)
		if bs > n-total {
			bs = n - total
		}
		w.Cuts = append(w.Cuts, bs)
		entries := make([]sm.Entry, 0, bs)
		written := map[string]bool{}
		for j := 0; j < bs; j++ {
			idx += 1 + uint64(g.R.Intn(3))/2
			c := g.Command(2)
			if id.Big && total+j < len(g.Pool) {
				// big histories start by filling the pool with 1-2 MiB values so that later
				// range deletes / reads cross the 4 MiB read-chunk boundary
				c = &pb.Command{Table: []byte("t"), Type: pb.Command_PUT, Kv: &pb.KeyValue{Key: g.Pool[total+j], Value: g.Value()}}
			}
			e := fsmx.Entry(idx, c)
			entries = append(entries, e)
			d := gen.Describe(c)
			w.Commands = append(w.Commands, fmt.Sprintf("%d:%s", idx, d))
			cmdHash += d + "|"
			hasRangeDel = hasRangeDel || hasRange(c)
			if readsAny(c, written) {
				hasRAW = true
			}
			noteWrites(c, written)
		}
		total += bs
		outs, err := t.Update(entries)
		if err != nil {
			fail("update-error", fmt.Sprintf("batch ending at %d", idx), fmt.Sprintf("Update failed: %v", err))
			return
		}
		for j, e := range entries {
			dec := fsmx.Decoded(e)
			exp := m.Apply(e.Index, dec)
			r.Count("commands", 1)
			if outs[j].Value != exp.Value {
				fail("result-value", fmt.Sprintf("entry %d", e.Index), fmt.Sprintf("result value %d, model %d", outs[j].Value, exp.Value))
				return
			}
			var got []*pb.ResponseOp
			if outs[j].Result != nil {
				got = outs[j].Result.Responses
			}
			if mm := judge.Responses(exp.Responses, got, exp.IsTxn); mm != nil {
				sig := "response-" + mm.Class
				if mm.Class == "del:truncated" && mm.PrevBytes >= 4*1024*1024-1024-2048 {
					sig = "range-delete-answer-truncated-at-first-4MiB-chunk"
				}
				fail(sig, fmt.Sprintf("entry %d response %d", e.Index, mm.Index), mm.Why)
				return
			}
		}
		for k := range m.M {
			if hasNastyByte(k) {
				hasNasty = true
			}
		}
		// bookkeeping after every apply call
		if li, err := t.LocalIndex(); err != nil || li != idx {
			fail("applied-index", fmt.Sprintf("after batch ending at %d", idx), fmt.Sprintf("applied index %d (err %v), last applied entry %d", li, err, idx))
			return
		}
		if li, err := t.LeaderIndex(); err != nil || li != m.Leader {
			fail("leader-index", fmt.Sprintf("after batch ending at %d", idx), fmt.Sprintf("leader index %d (err %v), model %d", li, err, m.Leader))
			return
		}
		// the table is the same map whatever the storage engine does underneath: now and then
		// the memtable is flushed (Sync), or the table closed and reopened, before the reads
		switch x := g.R.Intn(12); {
		case x < 3:
			if err := t.SM.Sync(); err != nil {
				fail("sync-error", fmt.Sprintf("after batch ending at %d", idx), err.Error())
				return
			}
			r.Count("flushes_between_apply_calls", 1)
		case x == 3 && !id.Big:
			if err := t.Close(); err != nil {
				fail("close-error", fmt.Sprintf("after batch ending at %d", idx), err.Error())
				return
			}
			nt, oidx, err := t.Reopen()
			if err != nil || oidx != idx {
				fail("reopen", fmt.Sprintf("after batch ending at %d", idx), fmt.Sprintf("reopen reports index %d (err %v), applied %d", oidx, err, idx))
				return
			}
			t = nt
			r.Count("reopens_between_apply_calls", 1)
		}
		// sampled reads
		for k := 0; k < 3; k++ {
			req := g.RangeReq()
			got, err := t.Range(req)
			r.Count("reads", 1)
			if err != nil {
				fail("read-error", gen.DescribeRange(req), err.Error())
				return
			}
			if why, _ := judge.Range(req, m.RangeFull(req), got); why != "" {
				fail("read-mismatch", fmt.Sprintf("after %d: %s", idx, gen.DescribeRange(req)), why)
				return
			}
		}
	}
	d, err := t.Dump()
	if err != nil {
		fail("dump-error", "final dump", err.Error())
		return
	}
	if why := fsmx.Diff(d, m); why != "" {
		fail("final-state", "final dump", why)
		return
	}
	r.Eval(1)
	if hasRangeDel && hasRAW && hasNasty {
		r.Nontrivial(cmdHash)
	}
	r.Sample(map[string]any{"layer": 1, "commands": head(w.Commands, 8), "apply_batches": w.Cuts, "final_keys": len(m.M)})
}

func head(s []string, n int) []string {
	if len(s) > n {
		return append(append([]string{}, s[:n]...), fmt.Sprintf("… %d more", len(s)-n))
	}
	return s
}

func hasNastyByte(k string) bool {
	for i := 0; i < len(k); i++ {
		if k[i] == 0 || k[i] == 0xFF {
			return true
		}
	}
	return false
}

func hasRange(c *pb.Command) bool {
	switch c.Type {
	case pb.Command_DELETE:
		return c.RangeEnd != nil
	case pb.Command_SEQUENCE:
		for _, s := range c.Sequence {
			if hasRange(s) {
				return true
			}
		}
	case pb.Command_TXN:
		for _, ops := range [][]*pb.RequestOp{c.Txn.GetSuccess(), c.Txn.GetFailure()} {
			for _, op := range ops {
				if d := op.GetRequestDeleteRange(); d != nil && len(d.RangeEnd) > 0 {
					return true
				}
			}
		}
	}
	return false
}

// readsAny: does the command read (prev_kv, count, compare, nested range) something written
// earlier in the same apply batch?
func readsAny(c *pb.Command, written map[string]bool) bool {
	if len(written) == 0 {
		return false
	}
	switch c.Type {
	case pb.Command_PUT:
		return c.PrevKvs && written[string(c.Kv.GetKey())]
	case pb.Command_DELETE:
		if !(c.PrevKvs || c.Count) {
			return false
		}
		if c.RangeEnd == nil {
			return written[string(c.Kv.GetKey())]
		}
		for k := range written {
			if model.InRange(k, c.Kv.GetKey(), c.RangeEnd) {
				return true
			}
		}
	case pb.Command_TXN:
		for _, cmp := range c.Txn.GetCompare() {
			if written[string(cmp.Key)] {
				return true
			}
		}
	case pb.Command_SEQUENCE:
		for _, s := range c.Sequence {
			if readsAny(s, written) {
				return true
			}
		}
	}
	return false
}

func noteWrites(c *pb.Command, written map[string]bool) {
	switch c.Type {
	case pb.Command_PUT:
		written[string(c.Kv.GetKey())] = true
	case pb.Command_PUT_BATCH:
		for _, kv := range c.Batch {
			written[string(kv.Key)] = true
		}
	case pb.Command_TXN:
		for _, ops := range [][]*pb.RequestOp{c.Txn.GetSuccess(), c.Txn.GetFailure()} {
			for _, op := range ops {
				if p := op.GetRequestPut(); p != nil {
					written[string(p.Key)] = true
				}
			}
		}
	case pb.Command_SEQUENCE:
		for _, s := range c.Sequence {
			noteWrites(s, written)
		}
	}
}

var _ = rand.Int
